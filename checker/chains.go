package main

import (
	"go/types"
	"sort"
	"strings"

	"golang.org/x/tools/go/ssa"
)

// ARGS: resolved concrete types and constant arguments, in order, of mangler
// chains and source lists, including slices built with append.

type chainElem struct {
	Type        string // e.g. "transform.AliasMangler"
	Ctor        string // constructor full name when built by a call
	Strs        []string
	Fields      map[string]string // literal fields with constant string values
	Fns         []string          // function-valued constructor arguments, by name
	Conditional bool              // not present on every path
	Val         ssa.Value
}

// arrayElems returns the values stored into the elements of a fixed array
// allocation, ordered by constant index.
func arrayElems(al *ssa.Alloc) []ssa.Value {
	type kv struct {
		i int64
		v ssa.Value
	}
	var out []kv
	for _, r := range *al.Referrers() {
		ia, ok := r.(*ssa.IndexAddr)
		if !ok {
			continue
		}
		idx, ok := constInt(ia.Index)
		if !ok {
			continue
		}
		for _, rr := range *ia.Referrers() {
			if st, ok := rr.(*ssa.Store); ok && st.Addr == ia {
				out = append(out, kv{idx, st.Val})
			}
		}
	}
	sort.Slice(out, func(i, j int) bool { return out[i].i < out[j].i })
	var vs []ssa.Value
	for _, e := range out {
		vs = append(vs, e.v)
	}
	return vs
}

type sliceElem struct {
	V           ssa.Value
	Conditional bool
}

// sliceElems resolves the ordered elements of a slice value built from array
// literals, make and append (through phis: elements not on every path are
// marked conditional).
func sliceElems(v ssa.Value, depth int) ([]sliceElem, bool) {
	if depth > 10 {
		return nil, false
	}
	switch x := v.(type) {
	case *ssa.Slice:
		if al, ok := x.X.(*ssa.Alloc); ok {
			var out []sliceElem
			for _, e := range arrayElems(al) {
				out = append(out, sliceElem{V: e})
			}
			return out, true
		}
	case *ssa.MakeSlice:
		return nil, true
	case *ssa.Const:
		if x.IsNil() {
			return nil, true
		}
	case *ssa.Call:
		if calleeFullName(x) == "builtin.append" {
			base, ok := sliceElems(x.Call.Args[0], depth+1)
			if !ok {
				return nil, false
			}
			more, ok := sliceElems(x.Call.Args[1], depth+1)
			if !ok {
				return nil, false
			}
			return append(append([]sliceElem{}, base...), more...), true
		}
		// a helper of the repository that builds and returns the list: resolve its (single) result
		if h := staticCallee(x); h != nil && len(h.Blocks) > 0 && strings.HasPrefix(h.Pkg.Pkg.Path(), modPath) {
			rets := returnsOf(h)
			if len(rets) == 1 && len(retVals(rets[0])) == 1 {
				return sliceElems(retVals(rets[0])[0], depth+1)
			}
		}
	case *ssa.Phi:
		var lists [][]sliceElem
		for _, e := range x.Edges {
			l, ok := sliceElems(e, depth+1)
			if !ok {
				return nil, false
			}
			lists = append(lists, l)
		}
		// longest list; elements missing from some edge are conditional
		sort.Slice(lists, func(i, j int) bool { return len(lists[i]) > len(lists[j]) })
		out := append([]sliceElem{}, lists[0]...)
		for i := range out {
			for _, l := range lists[1:] {
				found := false
				for _, e := range l {
					if e.V == out[i].V {
						found = true
					}
				}
				if !found {
					out[i].Conditional = true
				}
			}
		}
		return out, true
	}
	return nil, false
}

func classifyElem(v ssa.Value) chainElem {
	ce := chainElem{Val: v, Fields: map[string]string{}}
	v = stripConv(v)
	ce.Type = namedTypeName(v.Type())
	switch x := v.(type) {
	case *ssa.Call:
		ce.Ctor = calleeFullName(x)
		args := x.Call.Args
		for _, a := range args {
			if s, ok := constString(a); ok {
				ce.Strs = append(ce.Strs, s)
				continue
			}
			if fn, ok := stripConv(a).(*ssa.Function); ok {
				ce.Fns = append(ce.Fns, fn.Name())
				continue
			}
			if ct, ok := a.(*ssa.ChangeType); ok {
				if fn, ok := ct.X.(*ssa.Function); ok {
					ce.Fns = append(ce.Fns, fn.Name())
					continue
				}
			}
			// variadic strings
			if els, ok := sliceElems(a, 0); ok {
				for _, e := range els {
					if s, ok := constString(e.V); ok {
						ce.Strs = append(ce.Strs, s)
					}
				}
			}
		}
	case *ssa.Alloc:
		if st, ok := x.Type().(*types.Pointer).Elem().Underlying().(*types.Struct); ok {
			for i := 0; i < st.NumFields(); i++ {
				if fv := litField(x, st.Field(i).Name()); fv != nil {
					if s, ok := constString(fv); ok {
						ce.Fields[st.Field(i).Name()] = s
					}
				}
			}
		}
	case *ssa.UnOp:
		if g, ok := x.X.(*ssa.Global); ok {
			ce.Ctor = "global:" + g.Name()
		}
	}
	return ce
}

// transformerChains finds the NewTransformer calls in f and resolves their
// mangler lists.
func transformerChains(f *ssa.Function) (calls []*ssa.Call, chains [][]chainElem) {
	for _, i := range allInstrs(f) {
		ci, ok := i.(*ssa.Call)
		if !ok || calleeFullName(ci) != modPath+"/transform.NewTransformer" {
			continue
		}
		els, ok := sliceElems(ci.Call.Args[1], 0)
		if !ok {
			calls = append(calls, ci)
			chains = append(chains, nil)
			continue
		}
		var ch []chainElem
		for _, e := range els {
			ce := classifyElem(e.V)
			ce.Conditional = e.Conditional
			ch = append(ch, ce)
		}
		calls = append(calls, ci)
		chains = append(chains, ch)
	}
	return
}

func chainString(ch []chainElem) string {
	var parts []string
	for _, e := range ch {
		s := e.Type
		if len(e.Strs) > 0 {
			s += "(" + strings.Join(e.Strs, ",") + ")"
		}
		if len(e.Fields) > 0 {
			var fs []string
			for k, v := range e.Fields {
				fs = append(fs, k+"="+v)
			}
			sort.Strings(fs)
			s += "{" + strings.Join(fs, ",") + "}"
		}
		if len(e.Fns) > 0 {
			s += "[" + strings.Join(e.Fns, ",") + "]"
		}
		if e.Ctor != "" && strings.HasPrefix(e.Ctor, "global:") {
			s += "<" + e.Ctor + ">"
		}
		if e.Conditional {
			s += "?"
		}
		parts = append(parts, s)
	}
	return strings.Join(parts, " -> ")
}

func strsEqual(a, b []string) bool {
	if len(a) != len(b) {
		return false
	}
	for i := range a {
		if a[i] != b[i] {
			return false
		}
	}
	return true
}
