package main

import (
	"fmt"
	"go/constant"
	"go/token"
	"go/types"
	"sort"
	"strings"

	"golang.org/x/tools/go/ssa"
)

// PRED: extract the boolean condition under which a site is reached (a
// reaching-condition formula over the acyclic CFG region between a dominating
// entry block and the site), abstract its atoms, and compare its truth table
// over a small domain realising all orderings of the atoms with a
// specification written in the rule. Nothing of dials is executed: the formula
// is a static summary of branch conditions.

type formula interface{ String() string }

type fConst struct{ V bool }
type fNot struct{ X formula }
type fAnd struct{ A, B formula }
type fOr struct{ A, B formula }
type fAtom struct{ Key string } // boolean atom
type fCmp struct {
	Op   token.Token
	L, R term
}
type term struct {
	Key   string
	Const *int64
}

func (t term) String() string {
	if t.Const != nil {
		return fmt.Sprint(*t.Const)
	}
	return t.Key
}
func (f fConst) String() string { return fmt.Sprint(f.V) }
func (f fNot) String() string   { return "!" + f.X.String() }
func (f fAnd) String() string   { return "(" + f.A.String() + " && " + f.B.String() + ")" }
func (f fOr) String() string    { return "(" + f.A.String() + " || " + f.B.String() + ")" }
func (f fAtom) String() string  { return f.Key }
func (f fCmp) String() string {
	return "(" + f.L.String() + " " + f.Op.String() + " " + f.R.String() + ")"
}

func mkAnd(a, b formula) formula {
	if c, ok := a.(fConst); ok {
		if c.V {
			return b
		}
		return c
	}
	if c, ok := b.(fConst); ok {
		if c.V {
			return a
		}
		return c
	}
	return fAnd{a, b}
}
func mkOr(a, b formula) formula {
	if c, ok := a.(fConst); ok {
		if c.V {
			return c
		}
		return b
	}
	if c, ok := b.(fConst); ok {
		if c.V {
			return c
		}
		return a
	}
	return fOr{a, b}
}
func mkNot(a formula) formula {
	if c, ok := a.(fConst); ok {
		return fConst{!c.V}
	}
	if n, ok := a.(fNot); ok {
		return n.X
	}
	return fNot{a}
}

// atomNamer maps an SSA value to a semantic atom name ("" = use canon()).
type atomNamer func(v ssa.Value) string

type predBuilder struct {
	name atomNamer
	// nilOf, when set, supplies the formula of "v is nil" for values whose nil-ness has a known
	// decomposition (the result of a summarised helper call) instead of an opaque isnil(v) atom
	nilOf func(v ssa.Value) (formula, bool)
}

func (pb *predBuilder) key(v ssa.Value) string {
	if pb.name != nil {
		if k := pb.name(v); k != "" {
			return k
		}
	}
	// the index chosen by a select statement: a free variable of the rules
	if ex, ok := v.(*ssa.Extract); ok && ex.Index == 0 {
		if sel, ok := ex.Tuple.(*ssa.Select); ok {
			return "selidx:" + sel.Name()
		}
	}
	return canon(v)
}

// selAtomsOf lists the select-index atoms of f: rules that do not care which
// select arm ran pass them to compareTable as integer atoms, so the comparison
// with the spec must hold for every arm.
func selAtomsOf(f formula) []string {
	fb, fi := map[string]bool{}, map[string]bool{}
	atomsOf(f, fb, fi)
	var out []string
	for _, a := range sortedKeys(fi) {
		if strings.HasPrefix(a, "selidx:") {
			out = append(out, a)
		}
	}
	return out
}

func isIntegral(t types.Type) bool {
	b, ok := t.Underlying().(*types.Basic)
	return ok && b.Info()&types.IsInteger != 0
}

func (pb *predBuilder) termOf(v ssa.Value) term {
	if c, ok := stripConv(v).(*ssa.Const); ok && c.Value != nil && c.Value.Kind() == constant.Int {
		if n, exact := constant.Int64Val(c.Value); exact {
			return term{Const: &n}
		}
	}
	return term{Key: pb.key(v)}
}

// valueFormula turns a boolean SSA value into a formula.
func (pb *predBuilder) valueFormula(v ssa.Value, depth int) formula {
	if depth > 20 {
		return fAtom{pb.key(v)}
	}
	if pb.name != nil {
		if k := pb.name(v); k != "" {
			if k[0] == '!' {
				return mkNot(fAtom{k[1:]}) // named as the negation of an atom (`x == ""` for the atom "x is set")
			}
			return fAtom{k} // the rule names this value: an atom, whatever its definition
		}
	}
	switch x := v.(type) {
	case *ssa.Const:
		if x.Value != nil && x.Value.Kind() == constant.Bool {
			return fConst{constant.BoolVal(x.Value)}
		}
	case *ssa.UnOp:
		if x.Op == token.NOT {
			return mkNot(pb.valueFormula(x.X, depth+1))
		}
	case *ssa.BinOp:
		switch x.Op {
		case token.EQL, token.NEQ, token.LSS, token.LEQ, token.GTR, token.GEQ:
			if nv, nilWhenTrue, ok := nilCheckOf(x); ok {
				a := pb.nilFormula(nv, depth+1)
				if nilWhenTrue {
					return a
				}
				return mkNot(a)
			}
			if isIntegral(x.X.Type()) {
				return fCmp{Op: x.Op, L: pb.termOf(x.X), R: pb.termOf(x.Y)}
			}
			if bt, ok := x.X.Type().Underlying().(*types.Basic); ok && bt.Info()&types.IsBoolean != 0 && (x.Op == token.EQL || x.Op == token.NEQ) {
				a, b := pb.valueFormula(x.X, depth+1), pb.valueFormula(x.Y, depth+1)
				eq := mkOr(mkAnd(a, b), mkAnd(mkNot(a), mkNot(b)))
				if x.Op == token.NEQ {
					return mkNot(eq)
				}
				return eq
			}
			// generic equality on non-numeric operands: an opaque atom (a constant operand is written second,
			// whichever side the source has it on)
			kx, ky := pb.key(x.X), pb.key(x.Y)
			if _, xConst := stripConv(x.X).(*ssa.Const); xConst {
				if _, yConst := stripConv(x.Y).(*ssa.Const); !yConst {
					kx, ky = ky, kx
				}
			}
			a := fAtom{"eq(" + kx + "," + ky + ")"}
			if x.Op == token.NEQ {
				return mkNot(a)
			}
			if x.Op == token.EQL {
				return a
			}
		case token.AND, token.OR:
			if bt, ok := x.X.Type().Underlying().(*types.Basic); ok && bt.Info()&types.IsBoolean != 0 {
				a, b := pb.valueFormula(x.X, depth+1), pb.valueFormula(x.Y, depth+1)
				if x.Op == token.AND {
					return mkAnd(a, b)
				}
				return mkOr(a, b)
			}
		}
	case *ssa.Call:
		// a predicate over one integral argument written as a function of the repository (kindNilable(k), isScalar(k)):
		// its formula over the argument is the disjunction, over its returns, of (the return is reached && its result)
		if callee := staticCallee(x); callee != nil && len(callee.Blocks) > 0 && len(callee.Params) == 1 && len(x.Call.Args) == 1 &&
			isIntegral(callee.Params[0].Type()) && callee.Signature.Results().Len() == 1 && depth < 6 {
			if bt, ok := callee.Signature.Results().At(0).Type().Underlying().(*types.Basic); ok && bt.Info()&types.IsBoolean != 0 {
				pure := true
				for _, ins := range allInstrs(callee) {
					switch ins.(type) {
					case *ssa.Call, *ssa.Store, *ssa.Go, *ssa.Defer, *ssa.Send, *ssa.MapUpdate, *ssa.Panic:
						pure = false
					}
				}
				if pure {
					argKey := pb.key(x.Call.Args[0])
					if c, isC := stripConv(x.Call.Args[0]).(*ssa.Const); isC && c.Value != nil {
						argKey = ""
					}
					if argKey != "" {
						prm := callee.Params[0]
						sub := &predBuilder{name: func(v ssa.Value) string {
							if v == ssa.Value(prm) {
								return argKey
							}
							if sc := stripConv(v); sc == ssa.Value(prm) {
								return argKey
							}
							return ""
						}}
						var f formula = fConst{false}
						for _, r := range returnsOf(callee) {
							rv := retVals(r)
							if len(rv) != 1 {
								return fAtom{pb.key(v)}
							}
							f = mkOr(f, mkAnd(sub.pathCond(callee.Blocks[0], r.Block()), sub.valueFormula(rv[0], depth+1)))
						}
						return f
					}
				}
			}
		}
	case *ssa.Phi:
		// boolean phi (from a && / || used as a value): OR over incoming edges of
		// (edge taken, relative to the phi block's immediate dominator) && value
		blk := x.Block()
		id := blk.Idom()
		loopHeader := false
		for _, p := range blk.Preds {
			if blk.Dominates(p) {
				loopHeader = true // loop-carried variable: opaque
			}
		}
		if id != nil && !loopHeader {
			var f formula = fConst{false}
			for k, e := range x.Edges {
				p := blk.Preds[k]
				pc := pb.pathCondEdge(id, p, blk)
				f = mkOr(f, mkAnd(pc, pb.valueFormula(e, depth+1)))
			}
			return f
		}
	}
	return fAtom{pb.key(v)}
}

// nilFormula: "v is nil". A value the rule names, or any other value, is an atom; a nil constant is true; a phi
// that is not loop-carried (the joined results of a folded helper: `return nil` / `return vf.Verify()`) is the
// disjunction over its edges of (edge taken, relative to the phi block's immediate dominator) && operand is nil.
func (pb *predBuilder) nilFormula(v ssa.Value, depth int) formula {
	if pb.nilOf != nil {
		if ex, ok := pb.nilOf(v); ok {
			return ex
		}
	}
	named := pb.name != nil && pb.name(v) != ""
	if !named && depth < 12 {
		if isNilConst(v) {
			return fConst{true}
		}
		if nonNilByConstruction(v) {
			return fConst{false}
		}
		if x, ok := v.(*ssa.Phi); ok {
			blk := x.Block()
			id := blk.Idom()
			loopHeader := false
			for _, p := range blk.Preds {
				if blk.Dominates(p) {
					loopHeader = true
				}
			}
			if id != nil && !loopHeader {
				var f formula = fConst{false}
				for k, e := range x.Edges {
					f = mkOr(f, mkAnd(pb.pathCondEdge(id, blk.Preds[k], blk), pb.nilFormula(e, depth+1)))
				}
				return f
			}
		}
	}
	return fAtom{"isnil(" + pb.key(v) + ")"}
}

func edgeFormula(pb *predBuilder, p, b *ssa.BasicBlock) formula {
	if len(p.Instrs) == 0 {
		return fConst{true}
	}
	iff, ok := p.Instrs[len(p.Instrs)-1].(*ssa.If)
	if !ok {
		return fConst{true}
	}
	if p.Succs[0] == p.Succs[1] {
		return fConst{true}
	}
	c := pb.valueFormula(iff.Cond, 0)
	if p.Succs[0] == b {
		return c
	}
	return mkNot(c)
}

// pathCond returns the condition under which control, having entered block
// `from` (which must dominate `to`), reaches the start of block `to`, ignoring
// back edges (so for a site in a loop body with from = the body's entry it is
// the per-iteration condition).
func (pb *predBuilder) pathCond(from, to *ssa.BasicBlock) formula {
	return pb.pathCondAvoid(from, to, nil)
}

// pathCondAvoid is pathCond restricted to paths that do not pass through any
// of the avoided blocks (other than from/to themselves).
func (pb *predBuilder) pathCondAvoid(from, to *ssa.BasicBlock, avoid map[*ssa.BasicBlock]bool) formula {
	memo := map[*ssa.BasicBlock]formula{}
	var rc func(b *ssa.BasicBlock, stack map[*ssa.BasicBlock]bool) formula
	rc = func(b *ssa.BasicBlock, stack map[*ssa.BasicBlock]bool) formula {
		if b == from {
			return fConst{true}
		}
		if f, ok := memo[b]; ok {
			return f
		}
		if stack[b] {
			return fConst{false}
		}
		stack[b] = true
		var f formula = fConst{false}
		for _, p := range b.Preds {
			if b.Dominates(p) && b != p {
				continue // back edge
			}
			if b == p {
				continue
			}
			if !(from == p || from.Dominates(p)) {
				continue
			}
			if avoid[p] && p != from {
				continue
			}
			f = mkOr(f, mkAnd(rc(p, stack), edgeFormula(pb, p, b)))
		}
		delete(stack, b)
		memo[b] = f
		return f
	}
	return rc(to, map[*ssa.BasicBlock]bool{})
}

// pathCondEdge: condition of reaching block p from `from` and then taking the
// edge p->b.
func (pb *predBuilder) pathCondEdge(from, p, b *ssa.BasicBlock) formula {
	return mkAnd(pb.pathCond(from, p), edgeFormula(pb, p, b))
}

// ---- evaluation ---------------------------------------------------------------

type env struct {
	B map[string]bool
	I map[string]int64
}

func atomsOf(f formula, bools, ints map[string]bool) {
	switch x := f.(type) {
	case fNot:
		atomsOf(x.X, bools, ints)
	case fAnd:
		atomsOf(x.A, bools, ints)
		atomsOf(x.B, bools, ints)
	case fOr:
		atomsOf(x.A, bools, ints)
		atomsOf(x.B, bools, ints)
	case fAtom:
		bools[x.Key] = true
	case fCmp:
		if x.L.Const == nil {
			ints[x.L.Key] = true
		}
		if x.R.Const == nil {
			ints[x.R.Key] = true
		}
	}
}

func evalF(f formula, e env) bool {
	switch x := f.(type) {
	case fConst:
		return x.V
	case fNot:
		return !evalF(x.X, e)
	case fAnd:
		return evalF(x.A, e) && evalF(x.B, e)
	case fOr:
		return evalF(x.A, e) || evalF(x.B, e)
	case fAtom:
		return e.B[x.Key]
	case fCmp:
		tv := func(t term) int64 {
			if t.Const != nil {
				return *t.Const
			}
			return e.I[t.Key]
		}
		l, r := tv(x.L), tv(x.R)
		switch x.Op {
		case token.EQL:
			return l == r
		case token.NEQ:
			return l != r
		case token.LSS:
			return l < r
		case token.LEQ:
			return l <= r
		case token.GTR:
			return l > r
		case token.GEQ:
			return l >= r
		}
	}
	panic("evalF: unknown formula")
}

// tableResult is the outcome of comparing an extracted formula with a spec.
type tableResult struct {
	Rows     int
	Mismatch string // first differing row, "" if none
	Unknown  []string
}

// compareTable enumerates every assignment of the expected atoms (booleans:
// both values; integers: 0..2, which realises all orderings of up to three
// values) and compares formula with spec. Atoms of the formula that the rule
// did not expect are returned as Unknown (the rule cannot interpret them).
func compareTable(f formula, boolAtoms, intAtoms []string, spec func(e env) bool) tableResult {
	fb, fi := map[string]bool{}, map[string]bool{}
	atomsOf(f, fb, fi)
	var res tableResult
	exp := map[string]bool{}
	for _, a := range boolAtoms {
		exp[a] = true
	}
	for _, a := range intAtoms {
		exp[a] = true
	}
	for a := range fb {
		if !exp[a] {
			res.Unknown = append(res.Unknown, a)
		}
	}
	for a := range fi {
		if !exp[a] {
			res.Unknown = append(res.Unknown, a)
		}
	}
	sort.Strings(res.Unknown)
	if len(res.Unknown) > 0 {
		// Atoms the rule does not name: the guard is still decided when it agrees with the specification for
		// EVERY value of those atoms (a condition that cancels out, such as `x.IsValid()` tested on both sides of a
		// hoisted local). Only a guard whose truth really depends on an uninterpreted atom is undecided.
		var ub, ui []string
		for _, a := range res.Unknown {
			if fb[a] {
				ub = append(ub, a)
			} else {
				ui = append(ui, a)
			}
		}
		if len(ub) > 8 || len(ui) > 2 {
			return res
		}
		all := compareTable(f, append(append([]string{}, boolAtoms...), ub...), append(append([]string{}, intAtoms...), ui...), spec)
		if len(all.Unknown) == 0 && all.Mismatch == "" {
			all.Rows /= 1
			return all
		}
		return res
	}
	e := env{B: map[string]bool{}, I: map[string]int64{}}
	var rec func(bi, ii int)
	rec = func(bi, ii int) {
		if res.Mismatch != "" {
			return
		}
		if bi < len(boolAtoms) {
			for _, v := range []bool{false, true} {
				e.B[boolAtoms[bi]] = v
				rec(bi+1, ii)
			}
			return
		}
		if ii < len(intAtoms) {
			for _, v := range intDomainFor(f, intAtoms[ii]) {
				e.I[intAtoms[ii]] = v
				rec(bi, ii+1)
			}
			return
		}
		res.Rows++
		got, want := evalF(f, e), spec(e)
		if got != want {
			var parts []string
			for _, a := range boolAtoms {
				parts = append(parts, fmt.Sprintf("%s=%v", a, e.B[a]))
			}
			for _, a := range intAtoms {
				parts = append(parts, fmt.Sprintf("%s=%d", a, e.I[a]))
			}
			res.Mismatch = fmt.Sprintf("row {%s}: code=%v spec=%v", strings.Join(parts, " "), got, want)
		}
	}
	rec(0, 0)
	return res
}

// checkTable records the obligation for a predicate table.
func (c *Ctx) checkTable(rule, construct string, pos token.Pos, f formula, boolAtoms, intAtoms []string, specText string, spec func(e env) bool) bool {
	r := compareTable(f, boolAtoms, intAtoms, spec)
	switch {
	case len(r.Unknown) > 0:
		c.undecided(rule, construct, pos, "guard %s contains atoms the rule cannot interpret: %v (spec: %s)", f, r.Unknown, specText)
		return false
	case r.Mismatch != "":
		c.bad(rule, construct, pos, "guard %s differs from spec %s at %s", f, specText, r.Mismatch)
		return false
	default:
		c.okRows(rule, construct, pos, r.Rows, "guard %s == spec %s on all %d rows", f, specText, r.Rows)
		return true
	}
}

// forAll enumerates every assignment of the atoms occurring in f (booleans:
// both values; integer terms: the given domain, default 0..2) and reports the
// first assignment for which holds(e, f(e)) is false. Atoms the rule does not
// know are simply free variables here: the claim is universally quantified.
func forAll(f formula, intDomain map[string][]int64, holds func(e env, fv bool) bool) (rows int, counter string) {
	fb, fi := map[string]bool{}, map[string]bool{}
	atomsOf(f, fb, fi)
	bools, ints := sortedKeys(fb), sortedKeys(fi)
	if len(bools) > 18 {
		return 0, fmt.Sprintf("formula has %d boolean atoms: too large to enumerate", len(bools))
	}
	e := env{B: map[string]bool{}, I: map[string]int64{}}
	var rec func(bi, ii int)
	rec = func(bi, ii int) {
		if counter != "" {
			return
		}
		if bi < len(bools) {
			for _, v := range []bool{false, true} {
				e.B[bools[bi]] = v
				rec(bi+1, ii)
			}
			return
		}
		if ii < len(ints) {
			dom := intDomain[ints[ii]]
			if dom == nil {
				dom = intDomainFor(f, ints[ii])
				if strings.Contains(ints[ii], ".Kind(") {
					dom = allKinds // a reflect.Kind term: every kind
				}
			}
			for _, v := range dom {
				e.I[ints[ii]] = v
				rec(bi, ii+1)
			}
			return
		}
		rows++
		if !holds(e, evalF(f, e)) {
			var parts []string
			for _, a := range bools {
				parts = append(parts, fmt.Sprintf("%s=%v", a, e.B[a]))
			}
			for _, a := range ints {
				parts = append(parts, fmt.Sprintf("%s=%d", a, e.I[a]))
			}
			counter = "{" + strings.Join(parts, " ") + "}"
		}
	}
	rec(0, 0)
	return
}

// reflect.Kind values (go1.x, stable)
const (
	kBool = 1 + iota
	kInt
	kInt8
	kInt16
	kInt32
	kInt64
	kUint
	kUint8
	kUint16
	kUint32
	kUint64
	kUintptr
	kFloat32
	kFloat64
	kComplex64
	kComplex128
	kArray
	kChan
	kFunc
	kInterface
	kMap
	kPtr
	kSlice
	kString
	kStruct
	kUnsafePointer
)

var allKinds = func() []int64 {
	var out []int64
	for i := int64(0); i <= kUnsafePointer; i++ {
		out = append(out, i)
	}
	return out
}()

var kindNames = map[int64]string{0: "Invalid", kBool: "Bool", kInt: "Int", kInt8: "Int8", kInt16: "Int16", kInt32: "Int32", kInt64: "Int64", kUint: "Uint", kUint8: "Uint8",
	kUint16: "Uint16", kUint32: "Uint32", kUint64: "Uint64", kUintptr: "Uintptr", kFloat32: "Float32", kFloat64: "Float64", kComplex64: "Complex64", kComplex128: "Complex128",
	kArray: "Array", kChan: "Chan", kFunc: "Func", kInterface: "Interface", kMap: "Map", kPtr: "Ptr", kSlice: "Slice", kString: "String", kStruct: "Struct", kUnsafePointer: "UnsafePointer"}

// kindsWhere returns the kinds k for which f can be true with the integer
// atom kindAtom = k (for some assignment of the other atoms).
func kindsWhere(f formula, kindAtom string) map[int64]bool {
	out := map[int64]bool{}
	for _, k := range allKinds {
		kk := k
		_, counter := forAll(f, map[string][]int64{kindAtom: {kk}}, func(e env, fv bool) bool { return !fv })
		if counter != "" {
			out[kk] = true
		}
	}
	return out
}

func kindSetString(m map[int64]bool) string {
	var names []string
	for _, k := range allKinds {
		if m[k] {
			names = append(names, kindNames[k])
		}
	}
	return "{" + strings.Join(names, ",") + "}"
}

// kindSwitchTop walks up the dominator tree from b through blocks that end in
// a comparison of one and the same value with a constant (the lowering of a
// `switch x { case K1, K2: ... }`), and returns the topmost such block and the
// compared value. Path conditions taken from there only mention that switch.
func kindSwitchTop(b *ssa.BasicBlock) (*ssa.BasicBlock, ssa.Value) {
	var top *ssa.BasicBlock
	var subj ssa.Value
	for d := b.Idom(); d != nil; d = d.Idom() {
		if len(d.Instrs) == 0 {
			break
		}
		iff, ok := d.Instrs[len(d.Instrs)-1].(*ssa.If)
		if !ok {
			if top != nil {
				break
			}
			continue
		}
		bo, ok := iff.Cond.(*ssa.BinOp)
		if !ok || bo.Op != token.EQL {
			if top != nil {
				break
			}
			continue
		}
		if _, isC := constInt(bo.Y); !isC {
			if top != nil {
				break
			}
			continue
		}
		if subj == nil {
			subj = bo.X
		} else if bo.X != subj {
			break
		}
		top = d
	}
	return top, subj
}

// kindsAtSwitch returns the constant cases of the innermost constant switch
// under which block b lies.
func kindsAtSwitch(b *ssa.BasicBlock) (ssa.Value, map[int64]bool) {
	top, subj := kindSwitchTop(b)
	if top == nil {
		return nil, nil
	}
	pb := &predBuilder{name: func(v ssa.Value) string {
		if v == subj {
			return "switch.Kind(subject)"
		}
		return ""
	}}
	g := pb.pathCond(top, b)
	return subj, kindsWhere(g, "switch.Kind(subject)")
}

// intDomainFor: the values an integer atom is enumerated over when the rule
// gives no domain: 0..2 (all orderings of up to three unknowns), every constant
// the formula compares the atom with, and one value different from all of them
// - so that neither "atom == K" nor its negation is vacuously impossible.
func intDomainFor(f formula, atom string) []int64 {
	set := map[int64]bool{0: true, 1: true, 2: true}
	var walk func(x formula)
	walk = func(x formula) {
		switch y := x.(type) {
		case fNot:
			walk(y.X)
		case fAnd:
			walk(y.A)
			walk(y.B)
		case fOr:
			walk(y.A)
			walk(y.B)
		case fCmp:
			if y.L.Const == nil && y.L.Key == atom && y.R.Const != nil {
				set[*y.R.Const] = true
			}
			if y.R.Const == nil && y.R.Key == atom && y.L.Const != nil {
				set[*y.L.Const] = true
			}
		}
	}
	walk(f)
	var out []int64
	lo := int64(0)
	for v := range set {
		out = append(out, v)
		if v < lo {
			lo = v
		}
	}
	out = append(out, lo-1)
	sort.Slice(out, func(i, j int) bool { return out[i] < out[j] })
	return out
}
