package main

import (
	"bytes"
	"go/ast"
	"go/format"
	"go/parser"
	"go/token"
	"go/types"
	"strings"

	"golang.org/x/tools/go/ast/astutil"
)

// Locals grouped in a struct.
//
// `lastSerial, lastVersion` rewritten as one local `last := versionedConfig[T]{...}` with `last.serial` / `last.cfg`
// is the same state under another spelling, but the SSA form no longer has one value per piece of state (a struct
// local whose fields are addressed stays in memory). Before the rules run, a local variable of struct type that is
// only ever used field by field - every use is `v.f` of a direct field, or the whole variable assigned a keyed (or
// empty) composite literal of its own type - is split into one variable per field: the declaration becomes
// `var v_f = T{f: e}.f` per field (the literal keeps the typing of the original), `v = T{f: a, g: b}` becomes the
// parallel assignment `v_f, v_g = a, b`, and `v.f` becomes `v_f`. A variable whose address is taken, that is
// passed, returned, compared, copied or has methods called on it is left alone.

func sroaLocals(fset *token.FileSet, info *types.Info, file *ast.File) ([]byte, int) {
	type cand struct {
		obj  *types.Var
		st   *types.Struct
		typ  ast.Expr // a type expression for the struct, where the declaration spells one
		decl ast.Stmt // the declaring statement (a var declaration, or the define that introduces it)
		init *ast.CompositeLit
		ok   bool
		// the other candidates this one is copied from / to as a whole: all of them must be split too
		partners []*types.Var
	}
	cands := map[*types.Var]*cand{}
	keyedOrEmpty := func(cl *ast.CompositeLit) bool {
		for _, e := range cl.Elts {
			kv, ok := e.(*ast.KeyValueExpr)
			if !ok {
				return false
			}
			if _, ok := kv.Key.(*ast.Ident); !ok {
				return false
			}
		}
		return true
	}
	plainStruct := func(t types.Type) *types.Struct {
		st, ok := t.Underlying().(*types.Struct)
		if !ok || st.NumFields() == 0 || st.NumFields() > 6 {
			return nil
		}
		for i := 0; i < st.NumFields(); i++ {
			if st.Field(i).Embedded() || st.Field(i).Name() == "_" {
				return nil
			}
		}
		return st
	}
	// statements that sit in a statement list (a declaration is replaced by several statements)
	inList := map[ast.Stmt]bool{}
	ast.Inspect(file, func(n ast.Node) bool {
		switch x := n.(type) {
		case *ast.BlockStmt:
			for _, st := range x.List {
				inList[st] = true
			}
		case *ast.CaseClause:
			for _, st := range x.Body {
				inList[st] = true
			}
		case *ast.CommClause:
			for _, st := range x.Body {
				inList[st] = true
			}
		}
		return true
	})
	localVar := func(e ast.Expr) *types.Var {
		id, ok := e.(*ast.Ident)
		if !ok {
			return nil
		}
		v, _ := info.Uses[id].(*types.Var)
		if v == nil {
			v, _ = info.Defs[id].(*types.Var)
		}
		if v == nil || v.IsField() || v.Pkg() == nil || v.Parent() == nil || v.Parent() == v.Pkg().Scope() {
			return nil
		}
		return v
	}
	// declarations
	ast.Inspect(file, func(n ast.Node) bool {
		st, isStmt := n.(ast.Stmt)
		if !isStmt || !inList[st] {
			return true
		}
		switch x := n.(type) {
		case *ast.AssignStmt:
			if x.Tok != token.DEFINE || len(x.Lhs) != len(x.Rhs) {
				return true
			}
			for i := range x.Lhs {
				id, ok := x.Lhs[i].(*ast.Ident)
				if !ok {
					continue
				}
				v, ok := info.Defs[id].(*types.Var)
				if !ok || v.IsField() {
					continue
				}
				sst := plainStruct(v.Type())
				if sst == nil {
					continue
				}
				if _, isPtr := v.Type().(*types.Pointer); isPtr {
					continue
				}
				switch r := x.Rhs[i].(type) {
				case *ast.CompositeLit:
					if r.Type != nil && keyedOrEmpty(r) {
						cands[v] = &cand{obj: v, st: sst, typ: r.Type, decl: x, init: r, ok: true}
					}
				case *ast.Ident:
					// a whole copy of another struct local: decided together with it (below)
					if w := localVar(r); w != nil && types.Identical(w.Type(), v.Type()) {
						cands[v] = &cand{obj: v, st: sst, decl: x, ok: true, partners: []*types.Var{w}}
					}
				}
			}
		case *ast.DeclStmt:
			gd, ok := x.Decl.(*ast.GenDecl)
			if !ok || gd.Tok != token.VAR || len(gd.Specs) != 1 {
				return true
			}
			vs := gd.Specs[0].(*ast.ValueSpec)
			if len(vs.Names) != 1 || len(vs.Values) > 1 {
				return true
			}
			v, ok := info.Defs[vs.Names[0]].(*types.Var)
			if !ok {
				return true
			}
			sst := plainStruct(v.Type())
			if sst == nil {
				return true
			}
			if _, isPtr := v.Type().(*types.Pointer); isPtr {
				return true
			}
			c := &cand{obj: v, st: sst, typ: vs.Type, decl: x, ok: true}
			if len(vs.Values) == 1 {
				cl, isLit := vs.Values[0].(*ast.CompositeLit)
				if !isLit || cl.Type == nil || !keyedOrEmpty(cl) {
					return true
				}
				c.init = cl
				if c.typ == nil {
					c.typ = cl.Type
				}
			}
			if c.typ != nil {
				cands[v] = c
			}
		}
		return true
	})
	if len(cands) == 0 {
		return nil, 0
	}
	// uses
	var stack []ast.Node
	ast.Inspect(file, func(n ast.Node) bool {
		if n == nil {
			stack = stack[:len(stack)-1]
			return true
		}
		stack = append(stack, n)
		id, ok := n.(*ast.Ident)
		if !ok {
			return true
		}
		v, ok := info.Uses[id].(*types.Var)
		if !ok {
			return true
		}
		c := cands[v]
		if c == nil || len(stack) < 2 {
			return true
		}
		switch par := stack[len(stack)-2].(type) {
		case *ast.SelectorExpr:
			if par.X == ast.Expr(id) {
				if sel := info.Selections[par]; sel != nil && sel.Kind() == types.FieldVal && len(sel.Index()) == 1 {
					return true
				}
			}
		case *ast.AssignStmt:
			if len(par.Lhs) == len(par.Rhs) && inList[par] {
				for i := range par.Lhs {
					if par.Lhs[i] == ast.Expr(id) && par.Tok == token.ASSIGN {
						// the whole variable assigned a keyed literal of its type, or another struct local of its type
						switch r := par.Rhs[i].(type) {
						case *ast.CompositeLit:
							if r.Type != nil && keyedOrEmpty(r) && types.Identical(info.TypeOf(r), v.Type()) {
								return true
							}
						case *ast.Ident:
							if w := localVar(r); w != nil && cands[w] != nil && types.Identical(w.Type(), v.Type()) {
								c.partners = append(c.partners, w)
								return true
							}
						}
					}
					if par.Rhs[i] == ast.Expr(id) {
						// the whole variable copied into another struct local that is split as well
						if w := localVar(par.Lhs[i]); w != nil && cands[w] != nil && types.Identical(w.Type(), v.Type()) {
							c.partners = append(c.partners, w)
							return true
						}
					}
				}
			}
		}
		c.ok = false
		return true
	})
	// a variable is split only together with everything it is copied from or to
	for changed := true; changed; {
		changed = false
		for _, c := range cands {
			if !c.ok {
				continue
			}
			for _, w := range c.partners {
				if pc := cands[w]; pc == nil || !pc.ok {
					c.ok = false
					changed = true
				}
			}
		}
	}
	n := 0
	for _, c := range cands {
		if c.ok {
			n++
		}
	}
	if n == 0 {
		return nil, 0
	}
	okCand := func(e ast.Expr) *cand {
		if v := localVar(e); v != nil {
			if c := cands[v]; c != nil && c.ok {
				return c
			}
		}
		return nil
	}
	fieldVar := func(c *cand, f string) *ast.Ident { return ast.NewIdent("dvS_" + c.obj.Name() + "_" + f) }
	zeroOf := func(typ ast.Expr, f string, val ast.Expr) ast.Expr {
		cl := &ast.CompositeLit{Type: typ}
		if val != nil {
			cl.Elts = []ast.Expr{&ast.KeyValueExpr{Key: ast.NewIdent(f), Value: val}}
		}
		return &ast.SelectorExpr{X: cl, Sel: ast.NewIdent(f)}
	}
	valuesOf := func(cl *ast.CompositeLit) map[string]ast.Expr {
		out := map[string]ast.Expr{}
		if cl == nil {
			return out
		}
		for _, e := range cl.Elts {
			kv := e.(*ast.KeyValueExpr)
			out[kv.Key.(*ast.Ident).Name] = kv.Value
		}
		return out
	}
	// the names this file imports packages by
	importNames := map[string]string{}
	for _, is := range file.Imports {
		path := strings.Trim(is.Path.Value, "\"")
		switch {
		case is.Name == nil:
			importNames[path] = ""
		case is.Name.Name != "_" && is.Name.Name != ".":
			importNames[path] = is.Name.Name
		}
	}
	for path, nm := range importNames {
		if nm == "" {
			// not renamed: the package's own name
			for _, o := range info.Uses {
				if pn, ok := o.(*types.PkgName); ok && pn.Imported().Path() == path {
					importNames[path] = pn.Name()
					break
				}
			}
			if importNames[path] == "" {
				delete(importNames, path)
			}
		}
	}
	declOf := map[ast.Stmt]*cand{}
	for _, c := range cands {
		if !c.ok {
			continue
		}
		switch d := c.decl.(type) {
		case *ast.DeclStmt:
			declOf[c.decl] = c
		case *ast.AssignStmt:
			// `v := T{...}` on its own: declared field by field with the fields' own types
			if len(d.Lhs) == 1 && c.init != nil {
				declOf[c.decl] = c
			}
		}
	}
	astutil.Apply(file, func(cur *astutil.Cursor) bool {
		if st, ok := cur.Node().(ast.Stmt); ok && cur.Index() >= 0 {
			if c := declOf[st]; c != nil {
				vals := valuesOf(c.init)
				for i := 0; i < c.st.NumFields(); i++ {
					f := c.st.Field(i).Name()
					id := fieldVar(c, f)
					spec := &ast.ValueSpec{Names: []*ast.Ident{id}, Values: []ast.Expr{zeroOf(c.typ, f, vals[f])}}
					// where the field type can be written with names of this package only, the variable is declared with
					// it (its zero value, or the given value, is then seen as such and not as a load from a literal)
					foreign := false
					ts := types.TypeString(c.st.Field(i).Type(), func(p *types.Package) string {
						if p == c.obj.Pkg() {
							return ""
						}
						// a type of another package: under the name this file imports that package by
						if nm, ok := importNames[p.Path()]; ok {
							return nm
						}
						foreign = true
						return ""
					})
					if !foreign {
						if te, err := parser.ParseExpr(ts); err == nil {
							spec.Type = te
							spec.Values = nil
							if e, given := vals[f]; given {
								spec.Values = []ast.Expr{e}
							}
						}
					}
					cur.InsertBefore(&ast.DeclStmt{Decl: &ast.GenDecl{Tok: token.VAR, Specs: []ast.Spec{spec}}})
					cur.InsertBefore(&ast.AssignStmt{Lhs: []ast.Expr{ast.NewIdent("_")}, Tok: token.ASSIGN, Rhs: []ast.Expr{ast.NewIdent(id.Name)}})
				}
				cur.Delete()
				return false
			}
		}
		switch x := cur.Node().(type) {
		case *ast.SelectorExpr:
			if id, ok := x.X.(*ast.Ident); ok {
				if c := okCand(id); c != nil {
					cur.Replace(fieldVar(c, x.Sel.Name))
					return false
				}
			}
		case *ast.AssignStmt:
			if len(x.Lhs) != len(x.Rhs) {
				return true
			}
			touched := false
			var lhs, rhs []ast.Expr
			var fresh []*ast.Ident
			for i := range x.Lhs {
				c := okCand(x.Lhs[i])
				if c == nil {
					lhs = append(lhs, x.Lhs[i])
					rhs = append(rhs, x.Rhs[i])
					continue
				}
				touched = true
				var vals map[string]ast.Expr
				var src *cand
				var ltyp ast.Expr = c.typ
				switch r := x.Rhs[i].(type) {
				case *ast.CompositeLit:
					vals = valuesOf(r)
					ltyp = r.Type
				default:
					src = okCand(r)
				}
				for k := 0; k < c.st.NumFields(); k++ {
					f := c.st.Field(k).Name()
					fv := fieldVar(c, f)
					lhs = append(lhs, fv)
					if x.Tok == token.DEFINE {
						fresh = append(fresh, fv)
					}
					switch {
					case src != nil:
						rhs = append(rhs, fieldVar(src, f))
					case vals[f] != nil:
						rhs = append(rhs, vals[f])
					default:
						rhs = append(rhs, zeroOf(ltyp, f, nil))
					}
				}
			}
			if touched {
				x.Lhs, x.Rhs = lhs, rhs
				if cur.Index() >= 0 {
					for _, fv := range fresh {
						cur.InsertAfter(&ast.AssignStmt{Lhs: []ast.Expr{ast.NewIdent("_")}, Tok: token.ASSIGN, Rhs: []ast.Expr{ast.NewIdent(fv.Name)}})
					}
				}
			}
			return true
		}
		return true
	}, nil)
	var buf bytes.Buffer
	if err := format.Node(&buf, fset, file); err != nil {
		return nil, 0
	}
	return buf.Bytes(), n
}

// promoteStructParams: a by-value struct parameter of an unexported function that the function only uses field by
// field, and that every call site fills from a keyed composite literal or a call-free expression, is passed as one
// parameter per field (`f(cur)` with `cur.serial` / `cur.cfg` inside becomes `f(cur.serial, cur.cfg)`). The
// caller's local is then only used field by field and is split by sroaLocals in the next round. Returns the
// rewritten files of the package.
func promoteStructParams(fset *token.FileSet, pkg *types.Package, info *types.Info, files []*ast.File, rec map[string]anchorFunc) map[*ast.File]bool {
	changed := map[*ast.File]bool{}
	callFree := func(e ast.Expr) bool {
		ok := true
		ast.Inspect(e, func(n ast.Node) bool {
			switch x := n.(type) {
			case *ast.CallExpr, *ast.FuncLit, *ast.CompositeLit:
				ok = false
			case *ast.UnaryExpr:
				if x.Op == token.ARROW {
					ok = false
				}
			}
			return ok
		})
		return ok
	}
	for _, file := range files {
		for _, d := range file.Decls {
			fd, ok := d.(*ast.FuncDecl)
			if !ok || fd.Body == nil || fd.Type.Params == nil {
				continue
			}
			fo, ok := info.Defs[fd.Name].(*types.Func)
			if !ok || fo.Exported() {
				continue
			}
			sig := fo.Type().(*types.Signature)
			if sig.Variadic() {
				continue
			}
			// only a recorded function, and only a parameter type it did not have when it was recorded (the unchanged
			// tree is never rewritten; a new function is folded into its callers anyway)
			key := funcObjName(fo)
			if r := recvNameOf(sig); r != "" {
				key = r + "." + key
			}
			af, known := rec[key]
			if !known {
				if k2, moved := movedFuncObj[fo.Origin()]; moved {
					af, known = rec[k2]
				}
			}
			if !known || af.PT == nil {
				continue
			}
			recordedParamType := map[string]bool{}
			for _, t := range af.PT {
				recordedParamType[t] = true
			}
			// flat index of each parameter name
			type prm struct {
				idx   int
				field *ast.Field
				v     *types.Var
				st    *types.Struct
				types []ast.Expr
			}
			var cands []*prm
			idx := 0
			for _, fl := range fd.Type.Params.List {
				if len(fl.Names) == 0 {
					idx++
					continue
				}
				for _, nm := range fl.Names {
					v, _ := info.Defs[nm].(*types.Var)
					if v != nil && len(fl.Names) == 1 && nm.Name != "_" && !recordedParamType[typeStr(v.Type())] {
						if _, isNamed := types.Unalias(v.Type()).(*types.Named); isNamed {
							if st, isSt := v.Type().Underlying().(*types.Struct); isSt && st.NumFields() > 0 && st.NumFields() <= 6 {
								good := true
								var texprs []ast.Expr
								for i := 0; i < st.NumFields(); i++ {
									if st.Field(i).Embedded() || st.Field(i).Name() == "_" {
										good = false
										break
									}
									foreign := false
									ts := types.TypeString(st.Field(i).Type(), func(p *types.Package) string {
										if p != pkg {
											foreign = true
										}
										return ""
									})
									te, err := parser.ParseExpr(ts)
									if foreign || err != nil {
										good = false
										break
									}
									texprs = append(texprs, te)
								}
								if good {
									cands = append(cands, &prm{idx: idx, field: fl, v: v, st: st, types: texprs})
								}
							}
						}
					}
					idx++
				}
			}
			if len(cands) == 0 {
				continue
			}
			// uses of the parameter inside the body: direct fields only
			var stack []ast.Node
			bad := map[*types.Var]bool{}
			ast.Inspect(fd.Body, func(n ast.Node) bool {
				if n == nil {
					stack = stack[:len(stack)-1]
					return true
				}
				stack = append(stack, n)
				id, ok := n.(*ast.Ident)
				if !ok {
					return true
				}
				v, ok := info.Uses[id].(*types.Var)
				if !ok {
					return true
				}
				if len(stack) >= 2 {
					if se, isSel := stack[len(stack)-2].(*ast.SelectorExpr); isSel && se.X == ast.Expr(id) {
						if sel := info.Selections[se]; sel != nil && sel.Kind() == types.FieldVal && len(sel.Index()) == 1 {
							// not the operand of &
							if len(stack) >= 3 {
								if ue, isU := stack[len(stack)-3].(*ast.UnaryExpr); isU && ue.Op == token.AND {
									bad[v] = true
								}
							}
							return true
						}
					}
				}
				bad[v] = true
				return true
			})
			// every use of the function: a plain call
			var calls []*ast.CallExpr
			callFile := map[*ast.CallExpr]*ast.File{}
			okUses := true
			for _, uf := range files {
				var stk []ast.Node
				ast.Inspect(uf, func(n ast.Node) bool {
					if n == nil {
						stk = stk[:len(stk)-1]
						return true
					}
					stk = append(stk, n)
					id, isID := n.(*ast.Ident)
					if !isID {
						return true
					}
					uo, isF := info.Uses[id].(*types.Func)
					if !isF || uo.Origin() != fo.Origin() {
						return true
					}
					i := len(stk) - 2
					var fun ast.Node = id
					for ; i >= 0; i-- {
						switch x := stk[i].(type) {
						case *ast.SelectorExpr:
							if x.Sel == id {
								fun = x
								continue
							}
						case *ast.IndexExpr:
							if x.X == fun {
								fun = x
								continue
							}
						case *ast.IndexListExpr:
							if x.X == fun {
								fun = x
								continue
							}
						case *ast.ParenExpr:
							fun = x
							continue
						}
						break
					}
					if i < 0 {
						okUses = false
						return true
					}
					call, isCall := stk[i].(*ast.CallExpr)
					if !isCall || call.Fun != fun || len(call.Args) != sig.Params().Len() || call.Ellipsis.IsValid() {
						okUses = false
						return true
					}
					calls = append(calls, call)
					callFile[call] = uf
					return true
				})
			}
			if !okUses || len(calls) == 0 {
				continue
			}
			// promote the last qualifying parameter first so that flat indices stay valid
			for ci := len(cands) - 1; ci >= 0; ci-- {
				c := cands[ci]
				if bad[c.v] {
					continue
				}
				okArgs := true
				for _, call := range calls {
					a := call.Args[c.idx]
					if cl, isLit := a.(*ast.CompositeLit); isLit {
						for _, e := range cl.Elts {
							kv, isKV := e.(*ast.KeyValueExpr)
							if !isKV {
								okArgs = false
								break
							}
							if _, isID := kv.Key.(*ast.Ident); !isID {
								okArgs = false
							}
						}
						continue
					}
					if !callFree(a) {
						okArgs = false
					}
				}
				if !okArgs {
					continue
				}
				// declaration
				var nf []*ast.Field
				for _, fl := range fd.Type.Params.List {
					if fl != c.field {
						nf = append(nf, fl)
						continue
					}
					for i := 0; i < c.st.NumFields(); i++ {
						nf = append(nf, &ast.Field{Names: []*ast.Ident{ast.NewIdent("dvS_" + c.v.Name() + "_" + c.st.Field(i).Name())}, Type: c.types[i]})
					}
				}
				fd.Type.Params.List = nf
				// body
				astutil.Apply(fd.Body, func(cur *astutil.Cursor) bool {
					if se, ok := cur.Node().(*ast.SelectorExpr); ok {
						if id, ok := se.X.(*ast.Ident); ok {
							if v, ok := info.Uses[id].(*types.Var); ok && v == c.v {
								cur.Replace(ast.NewIdent("dvS_" + c.v.Name() + "_" + se.Sel.Name))
								return false
							}
						}
					}
					return true
				}, nil)
				// call sites
				for _, call := range calls {
					a := call.Args[c.idx]
					var repl []ast.Expr
					if cl, isLit := a.(*ast.CompositeLit); isLit {
						vals := map[string]ast.Expr{}
						for _, e := range cl.Elts {
							kv := e.(*ast.KeyValueExpr)
							vals[kv.Key.(*ast.Ident).Name] = kv.Value
						}
						for i := 0; i < c.st.NumFields(); i++ {
							f := c.st.Field(i).Name()
							if e, ok := vals[f]; ok {
								repl = append(repl, e)
							} else {
								repl = append(repl, &ast.SelectorExpr{X: &ast.CompositeLit{Type: cl.Type}, Sel: ast.NewIdent(f)})
							}
						}
					} else {
						for i := 0; i < c.st.NumFields(); i++ {
							repl = append(repl, &ast.SelectorExpr{X: a, Sel: ast.NewIdent(c.st.Field(i).Name())})
						}
					}
					na := append([]ast.Expr{}, call.Args[:c.idx]...)
					na = append(na, repl...)
					na = append(na, call.Args[c.idx+1:]...)
					call.Args = na
					changed[callFile[call]] = true
				}
				changed[file] = true
			}
			if len(changed) > 0 {
				return changed // one function per round: the type information of the rewritten call sites is stale
			}
		}
	}
	return changed
}

// elimPointerAliases: `var p *T = &v` (what the inliner writes for a pointer receiver bound to a local) where p is
// never assigned again and only ever used as `p.f` is removed, its uses reading `v.f`. The local v is then a
// candidate for sroaLocals.
func elimPointerAliases(fset *token.FileSet, info *types.Info, file *ast.File) ([]byte, int) {
	type alias struct {
		p, v *types.Var
		decl ast.Stmt
		vid  *ast.Ident
		ok   bool
	}
	aliases := map[*types.Var]*alias{}
	inList := map[ast.Stmt]bool{}
	ast.Inspect(file, func(n ast.Node) bool {
		switch x := n.(type) {
		case *ast.BlockStmt:
			for _, st := range x.List {
				inList[st] = true
			}
		case *ast.CaseClause:
			for _, st := range x.Body {
				inList[st] = true
			}
		case *ast.CommClause:
			for _, st := range x.Body {
				inList[st] = true
			}
		}
		return true
	})
	addrOfLocal := func(e ast.Expr) (*types.Var, *ast.Ident) {
		ue, ok := ast.Unparen(e).(*ast.UnaryExpr)
		if !ok || ue.Op != token.AND {
			return nil, nil
		}
		id, ok := ast.Unparen(ue.X).(*ast.Ident)
		if !ok {
			return nil, nil
		}
		v, ok := info.Uses[id].(*types.Var)
		if !ok || v.IsField() || v.Pkg() == nil || v.Parent() == v.Pkg().Scope() {
			return nil, nil
		}
		if _, isSt := v.Type().Underlying().(*types.Struct); !isSt {
			return nil, nil
		}
		return v, id
	}
	ast.Inspect(file, func(n ast.Node) bool {
		st, isStmt := n.(ast.Stmt)
		if !isStmt || !inList[st] {
			return true
		}
		switch x := n.(type) {
		case *ast.DeclStmt:
			gd, ok := x.Decl.(*ast.GenDecl)
			if !ok || gd.Tok != token.VAR || len(gd.Specs) != 1 {
				return true
			}
			vs := gd.Specs[0].(*ast.ValueSpec)
			if len(vs.Names) != 1 || len(vs.Values) != 1 {
				return true
			}
			p, _ := info.Defs[vs.Names[0]].(*types.Var)
			if v, vid := addrOfLocal(vs.Values[0]); v != nil && p != nil {
				aliases[p] = &alias{p: p, v: v, decl: x, vid: vid, ok: true}
			}
		case *ast.AssignStmt:
			if x.Tok != token.DEFINE || len(x.Lhs) != 1 || len(x.Rhs) != 1 {
				return true
			}
			id, ok := x.Lhs[0].(*ast.Ident)
			if !ok {
				return true
			}
			p, _ := info.Defs[id].(*types.Var)
			if v, vid := addrOfLocal(x.Rhs[0]); v != nil && p != nil {
				aliases[p] = &alias{p: p, v: v, decl: x, vid: vid, ok: true}
			}
		}
		return true
	})
	if len(aliases) == 0 {
		return nil, 0
	}
	var stack []ast.Node
	ast.Inspect(file, func(n ast.Node) bool {
		if n == nil {
			stack = stack[:len(stack)-1]
			return true
		}
		stack = append(stack, n)
		id, ok := n.(*ast.Ident)
		if !ok {
			return true
		}
		v, ok := info.Uses[id].(*types.Var)
		if !ok {
			return true
		}
		a := aliases[v]
		if a == nil {
			return true
		}
		if len(stack) >= 2 {
			if se, isSel := stack[len(stack)-2].(*ast.SelectorExpr); isSel && se.X == ast.Expr(id) {
				if sel := info.Selections[se]; sel != nil && sel.Kind() == types.FieldVal && len(sel.Index()) == 1 {
					return true
				}
			}
		}
		a.ok = false
		return true
	})
	n := 0
	declOf := map[ast.Stmt]*alias{}
	for _, a := range aliases {
		// the aliased local must be visible under its name wherever the alias is used: the same name (the alias
		// shadows it) or a name nothing in between redeclares - only the first is accepted
		if a.ok && a.p.Name() == a.v.Name() {
			n++
			declOf[a.decl] = a
		} else {
			a.ok = false
		}
	}
	if n == 0 {
		return nil, 0
	}
	astutil.Apply(file, func(cur *astutil.Cursor) bool {
		if st, ok := cur.Node().(ast.Stmt); ok && cur.Index() >= 0 && declOf[st] != nil {
			cur.Delete()
			return false
		}
		return true
	}, nil)
	var buf bytes.Buffer
	if err := format.Node(&buf, fset, file); err != nil {
		return nil, 0
	}
	return buf.Bytes(), n
}
