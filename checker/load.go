package main

import (
	"fmt"
	"go/ast"
	"go/token"
	"go/types"
	"os"
	"path/filepath"
	"sort"
	"strings"

	"golang.org/x/tools/go/packages"
	"golang.org/x/tools/go/ssa"
	"golang.org/x/tools/go/ssa/ssautil"
)

const modPath = "github.com/vimeo/dials"

// World is one type-checked, SSA-lowered view of /repo's working tree under one
// build configuration (variant).
type World struct {
	Variant string
	Repo    string
	Fset    *token.FileSet
	Pkgs    []*packages.Package
	ByPath  map[string]*packages.Package
	Prog    *ssa.Program
	SSA     map[string]*ssa.Package
	// all source functions (incl. anonymous) of repo packages
	Funcs []*ssa.Function
}

type LoadOpts struct {
	Variant string // "native", "go118", "386"
	Overlay map[string][]byte
	Env     []string
}

func baseEnv() []string {
	env := []string{}
	for _, kv := range os.Environ() {
		k := kv
		if i := strings.IndexByte(kv, '='); i >= 0 {
			k = kv[:i]
		}
		switch k {
		case "GOWORK", "GOFLAGS", "GOPROXY", "GOSUMDB", "GOTOOLCHAIN", "GOARCH", "GOOS":
			continue
		}
		env = append(env, kv)
	}
	return append(env, "GOWORK=off", "GOFLAGS=-mod=mod", "GOPROXY=off", "GOSUMDB=off", "GOTOOLCHAIN=local")
}

// Load type-checks every non-test package of the module rooted at repo from the
// working tree, and builds SSA for them.
// Load loads the repository and folds new helpers (inlinepass.go) before the rules see it.
// noFold: load the tree as it is (used when recording the anchors: they describe the unfolded tree).
var noFold bool

func Load(repo string, o LoadOpts) (*World, error) {
	w, err := loadOnce(repo, o)
	if err != nil {
		return nil, err
	}
	st := &foldState{failed: map[string]bool{}}
	for round := 0; round < 160 && !noFold; round++ {
		add := w.foldRound(o.Overlay, st)
		if add == nil {
			break
		}
		ov := map[string][]byte{}
		for k, v := range o.Overlay {
			ov[k] = v
		}
		for k, v := range add {
			ov[k] = v
		}
		o.Overlay = ov
		w2, err := loadOnce(repo, o)
		if err != nil {
			// the folded text does not load: keep the last good world (the rules then see the helper as it is)
			foldNotes = append(foldNotes, "helper folding: a folded file did not type-check, folding stopped: "+err.Error())
			break
		}
		w = w2
	}
	if dir := os.Getenv("VERIF_DUMP_FOLD"); dir != "" {
		for name, b := range o.Overlay {
			os.WriteFile(filepath.Join(dir, strings.ReplaceAll(strings.TrimPrefix(name, repo+"/"), "/", "__")), b, 0o644)
		}
	}
	return w, nil
}

func loadOnce(repo string, o LoadOpts) (*World, error) {
	fset := token.NewFileSet()
	cfg := &packages.Config{
		Mode: packages.NeedName | packages.NeedFiles | packages.NeedCompiledGoFiles |
			packages.NeedImports | packages.NeedDeps | packages.NeedTypes |
			packages.NeedSyntax | packages.NeedTypesInfo | packages.NeedTypesSizes | packages.NeedModule,
		Dir:     repo,
		Fset:    fset,
		Tests:   false,
		Env:     append(baseEnv(), o.Env...),
		Overlay: o.Overlay,
	}
	pkgs, err := packages.Load(cfg, "./...")
	if err != nil {
		return nil, fmt.Errorf("packages.Load: %w", err)
	}
	if len(pkgs) == 0 {
		return nil, fmt.Errorf("no packages loaded from %s", repo)
	}
	var errs []string
	packages.Visit(pkgs, nil, func(p *packages.Package) {
		for _, e := range p.Errors {
			errs = append(errs, e.Error())
		}
	})
	if len(errs) > 0 {
		sort.Strings(errs)
		if len(errs) > 10 {
			errs = errs[:10]
		}
		return nil, fmt.Errorf("type-check/load errors (%s): %s", o.Variant, strings.Join(errs, "; "))
	}
	w := &World{Variant: o.Variant, Repo: repo, Fset: fset, ByPath: map[string]*packages.Package{}, SSA: map[string]*ssa.Package{}}
	for _, p := range pkgs {
		if p.PkgPath != modPath && !strings.HasPrefix(p.PkgPath, modPath+"/") {
			continue
		}
		if len(p.GoFiles) == 0 {
			continue // test-only package
		}
		if p.Types == nil || p.TypesInfo == nil || len(p.Syntax) == 0 {
			return nil, fmt.Errorf("package %s loaded without syntax/types", p.PkgPath)
		}
		w.Pkgs = append(w.Pkgs, p)
		w.ByPath[p.PkgPath] = p
	}
	if len(w.Pkgs) < 15 {
		return nil, fmt.Errorf("only %d repo packages loaded (expected >= 15)", len(w.Pkgs))
	}
	sort.Slice(w.Pkgs, func(i, j int) bool { return w.Pkgs[i].PkgPath < w.Pkgs[j].PkgPath })
	prog, spkgs := ssautil.Packages(w.Pkgs, ssa.BuilderMode(0))
	w.Prog = prog
	for i, sp := range spkgs {
		if sp == nil {
			return nil, fmt.Errorf("no SSA package for %s", w.Pkgs[i].PkgPath)
		}
		w.SSA[w.Pkgs[i].PkgPath] = sp
	}
	prog.Build()
	// collect all source-level functions of repo packages
	seen := map[*ssa.Function]bool{}
	var add func(f *ssa.Function)
	add = func(f *ssa.Function) {
		if f == nil || seen[f] || f.Blocks == nil {
			return
		}
		seen[f] = true
		w.Funcs = append(w.Funcs, f)
		for _, a := range f.AnonFuncs {
			add(a)
		}
	}
	for _, p := range w.Pkgs {
		sp := w.SSA[p.PkgPath]
		for _, m := range sp.Members {
			switch m := m.(type) {
			case *ssa.Function:
				add(m)
			case *ssa.Type:
				// methods of named types (incl. generic ones)
				if n, ok := m.Type().(*types.Named); ok {
					for i := 0; i < n.NumMethods(); i++ {
						add(prog.FuncValue(n.Method(i)))
					}
				}
			}
		}
	}
	sort.Slice(w.Funcs, func(i, j int) bool {
		if w.Funcs[i].Pos() != w.Funcs[j].Pos() {
			return w.Funcs[i].Pos() < w.Funcs[j].Pos()
		}
		return w.Funcs[i].String() < w.Funcs[j].String()
	})
	w.detectRenames()
	return w, nil
}

// pkg returns the repo package with the given path relative to the module
// ("" for the root package).
func (w *World) pkg(rel string) *packages.Package {
	p := modPath
	if rel != "" {
		p += "/" + rel
	}
	return w.ByPath[p]
}

// obj looks up a package-level object.
func (w *World) obj(rel, name string) types.Object {
	p := w.pkg(rel)
	if p == nil {
		return nil
	}
	if o := p.Types.Scope().Lookup(name); o != nil {
		return o
	}
	// a renamed object that is taken as the recorded name (rename.go)
	for tn, old := range oldTypeName {
		if old == name && tn.Pkg() == p.Types {
			return tn
		}
	}
	for fo, old := range oldFuncName {
		if old == name && fo.Pkg() == p.Types {
			if sig, ok := fo.Type().(*types.Signature); ok && sig.Recv() == nil {
				return fo
			}
		}
	}
	return nil
}

// named returns the *types.Named for a package-level type.
func (w *World) named(rel, name string) *types.Named {
	o := w.obj(rel, name)
	if o == nil {
		return nil
	}
	n, _ := o.Type().(*types.Named)
	return n
}

// fn returns the SSA function for a package-level function or a method
// "Recv.Name" of a package-level named type (pointer or value receiver).
func (w *World) fn(rel, name string) *ssa.Function {
	if i := strings.IndexByte(name, '.'); i >= 0 {
		n := w.named(rel, name[:i])
		if n == nil {
			if mo := movedFunc[rel+"|"+name]; mo != nil {
				return w.Prog.FuncValue(mo)
			}
			return nil
		}
		for k := 0; k < n.NumMethods(); k++ {
			if funcObjName(n.Method(k)) == name[i+1:] {
				return w.Prog.FuncValue(n.Method(k))
			}
		}
		if mo := movedFunc[rel+"|"+name]; mo != nil {
			return w.Prog.FuncValue(mo)
		}
		return nil
	}
	o, _ := w.obj(rel, name).(*types.Func)
	if o == nil {
		if mo := movedFunc[rel+"|"+name]; mo != nil {
			return w.Prog.FuncValue(mo)
		}
		return nil
	}
	return w.Prog.FuncValue(o)
}

// field returns the *types.Var of a struct field of a package-level named type.
func (w *World) field(rel, typ, fld string) *types.Var {
	n := w.named(rel, typ)
	if n == nil {
		return nil
	}
	st, _ := n.Underlying().(*types.Struct)
	if st == nil {
		return nil
	}
	for i := 0; i < st.NumFields(); i++ {
		if vname(st.Field(i)) == fld {
			return st.Field(i)
		}
	}
	return nil
}

func (w *World) pos(p token.Pos) string {
	if !p.IsValid() {
		return "-"
	}
	pp := w.Fset.Position(p)
	rel, err := filepath.Rel(w.Repo, pp.Filename)
	if err != nil {
		rel = pp.Filename
	}
	return fmt.Sprintf("%s:%d", rel, pp.Line)
}

// fileOf returns the syntax file containing pos.
func (w *World) fileOf(p token.Pos) (*packages.Package, *ast.File) {
	for _, pk := range w.Pkgs {
		for _, f := range pk.Syntax {
			if f.Pos() <= p && p <= f.End() {
				return pk, f
			}
		}
	}
	return nil, nil
}

// pkgOfFn returns the repo package a function belongs to.
func (w *World) pkgOfFn(f *ssa.Function) *packages.Package {
	for f.Parent() != nil {
		f = f.Parent()
	}
	if f.Pkg != nil {
		return w.ByPath[f.Pkg.Pkg.Path()]
	}
	if o := f.Origin(); o != nil && o.Pkg != nil {
		return w.ByPath[o.Pkg.Pkg.Path()]
	}
	return nil
}

// inRepo reports whether fn is a function whose body is in the repo.
func (w *World) inRepo(f *ssa.Function) bool {
	if f == nil {
		return false
	}
	if o := f.Origin(); o != nil {
		f = o
	}
	return w.pkgOfFn(f) != nil && f.Blocks != nil
}

// funcsIn returns all source functions (incl. closures) of the package rel.
func (w *World) funcsIn(rel string) []*ssa.Function {
	p := w.pkg(rel)
	var out []*ssa.Function
	for _, f := range w.Funcs {
		if w.pkgOfFn(f) == p {
			out = append(out, f)
		}
	}
	return out
}

func relName(f *ssa.Function) string {
	s := f.String()
	// a function taken for a recorded one under another receiver or name (rename.go: movedFunc) is known to the rules
	// and the reviewed tables by its recorded name; so are its closures
	root := origin(f)
	for root.Parent() != nil {
		root = origin(root.Parent())
	}
	if ro, ok := root.Object().(*types.Func); ok && ro != nil {
		if full, moved := movedFull[ro.Origin()]; moved {
			return full + strings.TrimPrefix(origin(f).String(), root.String())
		}
		// renamed type parameters (`[F, T]` -> `[From, To]`): the recorded rendering, which the reviewed tables are
		// keyed by, differs from the current one only inside the brackets
		if sig, ok := ro.Type().(*types.Signature); ok && ro.Pkg() != nil && (sig.RecvTypeParams().Len() > 0 || sig.TypeParams().Len() > 0) {
			key := funcObjName(ro)
			if r := recvNameOf(sig); r != "" {
				key = r + "." + key
			}
			if full := recordedFull[relOfPkg(ro.Pkg())+"|"+key]; full != "" {
				cur := root.String()
				cur = strings.ReplaceAll(cur, modPath+"/", "")
				cur = strings.ReplaceAll(cur, modPath+".", "dials.")
				cur = strings.ReplaceAll(cur, modPath, "dials")
				cur = unrename(cur, ro)
				if cur != full && stripBrackets(cur) == stripBrackets(full) {
					return full + strings.TrimPrefix(origin(f).String(), root.String())
				}
			}
		}
		// a method whose receiver changed between pointer and value keeps its recorded rendering
		if sig, ok := ro.Type().(*types.Signature); ok && sig.Recv() != nil && ro.Pkg() != nil {
			key := funcObjName(ro)
			if r := recvNameOf(sig); r != "" {
				key = r + "." + key
			}
			if full := recordedFull[relOfPkg(ro.Pkg())+"|"+key]; full != "" {
				_, nowPtr := sig.Recv().Type().(*types.Pointer)
				if wasPtr := strings.HasPrefix(full, "(*"); wasPtr != nowPtr {
					return full + strings.TrimPrefix(origin(f).String(), root.String())
				}
			}
		}
	}
	s = strings.ReplaceAll(s, modPath+"/", "")
	s = strings.ReplaceAll(s, modPath+".", "dials.")
	s = strings.ReplaceAll(s, modPath, "dials")
	if o, ok := origin(f).Object().(*types.Func); ok && o != nil && f.Parent() == nil {
		s = unrename(s, o)
	}
	return s
}

// pkgRelOfFn returns the module-relative package path of f ("" for the root package).
func (w *World) pkgRelOfFn(f *ssa.Function) string {
	p := w.pkgOfFn(origin(f))
	if p == nil {
		return "?"
	}
	return strings.TrimPrefix(strings.TrimPrefix(p.PkgPath, modPath), "/")
}

// funcValueEscapes: f is referenced other than as the static callee of a call (a method value / function value
// that could be called from anywhere).
func (w *World) funcValueEscapes(f *ssa.Function) bool {
	f = origin(f)
	for _, g := range w.Funcs {
		for _, b := range g.Blocks {
			for _, i := range b.Instrs {
				var ops []*ssa.Value
				ops = i.Operands(ops)
				for _, op := range ops {
					if op == nil || *op == nil {
						continue
					}
					fv, ok := (*op).(*ssa.Function)
					if !ok || origin(fv) != f {
						continue
					}
					// allowed: the callee operand of a static call
					if ci, ok := i.(ssa.CallInstruction); ok && ci.Common().StaticCallee() != nil && origin(ci.Common().StaticCallee()) == f && ci.Common().Value == *op {
						continue
					}
					return true
				}
			}
		}
	}
	return false
}

// stripBrackets removes every [...] segment (type parameter / argument lists) from a rendered function name.
func stripBrackets(s string) string {
	var b strings.Builder
	depth := 0
	for _, r := range s {
		switch {
		case r == '[':
			depth++
		case r == ']':
			if depth > 0 {
				depth--
			}
		case depth == 0:
			b.WriteRune(r)
		}
	}
	return b.String()
}
