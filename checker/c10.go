package main

import (
	"go/token"
	"go/types"
	"sort"
	"strings"

	"golang.org/x/tools/go/ssa"
)

func init() {
	props["C10"] = &propMeta{
		run: runC10,
		explanation: "Translate/fill/reverse on arbitrary reflect-built types is a runtime computation and is not decided. Decided: the positional bookkeeping contract between each Mangle/Unmangle pair (how many fields Mangle can return vs which tuple " +
			"indices Unmangle reads, every constant index justified by the pair's arity or a dominating length test, every variable index bounded), the offset/window arithmetic and mangler order of the Transformer, " +
			"two-sided text-unmarshaler exclusion wherever a struct is (not) recursed into, the flatten 'any child set' flag as a monotone accumulation that includes nested results, that reversing rebuilds containers with make (non-nil stays non-nil) " +
			"and returns the zero only under nil-ness tests (unset stays unset), and the ShouldRecurse table.",
		assumptions: []string{"reflect.StructOf / Convert behave as documented"},
	}
}

// manglerImpl describes one implementation of transform.Mangler.
type manglerImpl struct {
	name             string
	mangle, unmangle *ssa.Function
	recurse          *ssa.Function
}

func manglerImpls(c *Ctx) []manglerImpl {
	w := c.W
	var out []manglerImpl
	for _, p := range w.Pkgs {
		sc := p.Types.Scope()
		for _, nme := range sc.Names() {
			tn, ok := sc.Lookup(nme).(*types.TypeName)
			if !ok {
				continue
			}
			n, ok := tn.Type().(*types.Named)
			if !ok {
				continue
			}
			if _, isIface := n.Underlying().(*types.Interface); isIface {
				continue
			}
			var m, u, r *ssa.Function
			for i := 0; i < n.NumMethods(); i++ {
				switch n.Method(i).Name() {
				case "Mangle":
					m = w.Prog.FuncValue(n.Method(i))
				case "Unmangle":
					u = w.Prog.FuncValue(n.Method(i))
				case "ShouldRecurse":
					r = w.Prog.FuncValue(n.Method(i))
				}
			}
			if m != nil && u != nil && r != nil && m.Blocks != nil {
				out = append(out, manglerImpl{name: namedTypeName(n), mangle: m, unmangle: u, recurse: r})
			}
		}
	}
	sort.Slice(out, func(i, j int) bool { return out[i].name < out[j].name })
	return out
}

func runC10(c *Ctx) {
	c.rule("arity-agree", "for each Mangler implementation: every constant tuple index read by Unmangle (and its helpers) is below the smallest number of fields Mangle can return on the corresponding path, or is dominated by a length test admitting it; every variable index is bounded by a dominating length comparison or range", 9)
	c.rule("window-width", "ReverseTranslate slices the mangled layer as [off : off+n] and advances off by the same n = len(state.out) of the same state element, visits manglers in descending order (TranslateType ascending), and stores each state at the index of its input field", 4)
	c.rule("implements-both-forms", "wherever the code tests whether a type implements TextUnmarshaler (to decide whether to recurse into / flatten a struct), it tests both the type and its pointer type in the same function", 6)
	c.rule("flatten-flag-accumulates", "in the flatten unmangler the 'any child set' flag only grows inside the field loop: after a nested struct it is old || nested (the nested result is not discarded), after a leaf it becomes true exactly under a non-nil value; the parent pointer is installed exactly when the flag is set", 3)
	c.rule("nonnil-preserved", "containers rebuilt on the way back are created with reflect.MakeSlice / MakeMap* (a non-nil, possibly empty, input stays non-nil) and reflect.Zero of a container type is returned only under a nil-ness test of the input", 3)
	c.rule("zero-only-for-unset", "in the transform package reflect.Zero (the 'unset' value handed back to lower layers) is produced only under a true nil-ness test of the value it replaces (IsNil / IsZero / isNil / == nil / the all-fields-nil flag): an explicitly empty slice, map or struct is not reported as unset", 7)
	c.rule("anon-struct-only", "(shared with C16) Mangle and Unmangle of the anonymous-flatten mangler agree that only pointers to structs are flattened", 3)
	c.rule("placeholder-types", "every reflect.Zero / MakeSlice / New stored as the value of translated field z in the recursive unmangling is typed by that field's own type fieldState.out[z].field.Type", 3)
	c.rule("anon-unset-total", "the anonymous-flatten unmangler clears its all-fields-nil flag for a value of a nil-able kind {Ptr, Slice, Map, Interface, Chan} only under a test that the value is not nil/zero", 1)
	c.rule("either-or", "(shared with C14) AliasMangler.Unmangle: both-set error exactly when both copies are set; values returned from the scan were tested set", 3)
	c.rule("nil-test-total", "(shared with C14) every 'is set' test in AliasMangler.Unmangle goes through one kind-total predicate", 2)
	c.rule("set-guard", "(shared with C16) every reflect Set / Append / SetMapIndex on the way back is type-tied to its destination", 15)
	c.rule("convert-guard", "(shared with C16) every reflect Convert on the way back is guarded by ConvertibleTo of the same pair or is convertible by construction (a panic while reversing loses the written value)", 8)
	c.rule("unset-stays-unset", "every Unmangle that parses or converts does so only after a nil test of its input that returns the zero of the original field type", 3)
	c.rule("unset-typed-as-field", "every reflect.Zero returned by helper.OnImplements (the unset value of a text-unmarshaler field) has the field's own type: the zero of the pointer-stripped type only where no pointer was stripped, the nil pointer to it only where one was", 2)
	c.rule("recursion-excludes-textm", "the type a nested Transformer is created for (after stripping the outer pointer / slice / array) was itself tested, in both forms, not to implement encoding.TextUnmarshaler", 1)
	c.rule("reverse-skips-untranslated", "(sibling agreement) ReverseTranslate calls Unmangle only for state entries whose recorded field passes the predicate under which TranslateType mangled it (go/ast.IsExported of the name)", 1)
	c.rule("value-pipeline", "(shared with C20) the transforming wrappers translate, call the inner with the translated type and reverse-translate with the transformer built in that very call (a transformer kept from an earlier call belongs to another type)", 2)
	c.rule("should-recurse-table", "ShouldRecurse is a constant per mangler: false for the flattening mangler (it walks nested structs itself), true for all others", 9)

	w := c.W
	impls := manglerImpls(c)
	if !c.need(len(impls) >= 9, "at least 9 transform.Mangler implementations") {
		return
	}
	for _, im := range impls {
		c.analysed(relName(im.mangle))
		c.analysed(relName(im.unmangle))
		c10Arity(c, im)
		c10ShouldRecurse(c, im)
	}

	c10Window(c)
	c10Implements(c)
	c10FlattenFlag(c)
	c10NonNil(c)
	c16SetConvert(c, newKindCtx(c.W))
	c10ZeroOnlyUnset(c)
	c10AnonUnsetTotal(c)
	c10PlaceholderTypes(c)
	c16AnonStructOnly(c, "anon-struct-only")
	c14AliasUnmangle(c)
	c10Unset(c)
	c10OnImplementsZero(c, "unset-typed-as-field")
	c10RecursionExcludesTextM(c, "recursion-excludes-textm")
	c.rule("nested-transformer-per-field", "the nested Transformer recorded for a field of the translated type (the one ReverseTranslate later uses for that field) is allocated in the loop iteration that records it: one object shared by several fields would leave all of them with the type and state of the last", 1)
	c10NestedPerField(c, "nested-transformer-per-field")
	c10ReverseSkipsUntranslated(c, "reverse-skips-untranslated")
	c.rule("manglers-keep-no-state", "Mangle / Unmangle / ShouldRecurse of every mangler write nothing reachable from their receiver (a mangler is applied to every field, to every occurrence of a struct type and on every reload; per-call state kept in the mangler leaks from one application into the next)", 9)
	c10ManglersKeepNoState(c, "manglers-keep-no-state")
	c.rule("recursion-visits-every-field", "the loops of maybeRecursivelyMangle / maybeRecursivelyUnmangle end only by exhaustion or an error return (one output field that needs no work must not stop the others from being translated)", 3)
	c10RecursionVisitsEveryField(c, "recursion-visits-every-field")
	c.rule("index-within-length", "(shared with C16) no loop index used for reflect.Value.Index / slice indexing runs up to a capacity", 1)
	c16IndexWithinLength(c, "index-within-length")
	c.rule("type-elem-of-known-kind", "in the recursive reverse translation reflect.Type.Elem() is evaluated on the mangler's input field type only while building an error (its kind is unrelated to the arm)", 1)
	c10TypeElemOfKnownKind(c, "type-elem-of-known-kind")
	if dec := c.W.fn("sourcewrap", "transformingDecoder.Decode"); dec != nil {
		c20Pipeline(c, dec, "("+modPath+".Decoder).Decode", "value-pipeline")
	}
	if val := c.W.fn("sourcewrap", "transformingSourceNoWatch.Value"); val != nil {
		c20Pipeline(c, val, "("+modPath+".Source).Value", "value-pipeline")
	}
	_ = w
}

// mangleLengths: the set of constant lengths of the slices Mangle returns
// (with a nil error) and whether it can return a slice of variable length.
func mangleLengths(f *ssa.Function) (consts map[int]bool, variable bool) {
	consts = map[int]bool{}
	for _, r := range returnsOf(f) {
		rv := retVals(r)
		if len(rv) != 2 || !isNilConst(rv[1]) {
			continue
		}
		if els, ok := sliceElems(rv[0], 0); ok {
			cond := false
			for _, e := range els {
				if e.Conditional {
					cond = true
				}
			}
			if cond || inLoopValue(rv[0]) {
				variable = true
			} else {
				consts[len(els)] = true
			}
			continue
		}
		// result of a recursive / helper call: take its lengths
		if call, ok := rv[0].(*ssa.Extract); ok {
			if cc, ok := call.Tuple.(*ssa.Call); ok {
				if callee := staticCallee(cc); callee != nil && callee.Blocks != nil && callee != f {
					cs, v := mangleLengths(callee)
					for k := range cs {
						consts[k] = true
					}
					variable = variable || v
					continue
				}
				if callee := staticCallee(cc); callee == f {
					continue // self recursion adds nothing new
				}
			}
		}
		variable = true
	}
	return
}

// inLoopValue: v is (a phi fed by) an append inside a loop.
func inLoopValue(v ssa.Value) bool {
	seen := map[ssa.Value]bool{}
	var rec func(v ssa.Value) bool
	rec = func(v ssa.Value) bool {
		if seen[v] {
			return false
		}
		seen[v] = true
		switch x := v.(type) {
		case *ssa.Phi:
			for _, e := range x.Edges {
				if rec(e) {
					return true
				}
			}
		case *ssa.Call:
			if calleeFullName(x) == "builtin.append" {
				return inLoop(x) || rec(x.Call.Args[0])
			}
		}
		return false
	}
	return rec(v)
}

func c10Arity(c *Ctx, im manglerImpl) {
	w := c.W
	consts, variable := mangleLengths(im.mangle)
	min := -1
	for k := range consts {
		if min < 0 || k < min {
			min = k
		}
	}
	var ls []string
	for k := range consts {
		ls = append(ls, itoa(k))
	}
	sort.Strings(ls)
	desc := "{" + strings.Join(ls, ",") + "}"
	if variable {
		desc += "+variable"
	}
	// tuple-typed values in Unmangle and repo helpers it passes the tuple slice to
	isTuples := func(t types.Type) bool {
		s, ok := t.Underlying().(*types.Slice)
		return ok && namedTypeName(s.Elem()) == "transform.FieldValueTuple"
	}
	bad := ""
	nIdx := 0
	var scan func(f *ssa.Function, depth int)
	seen := map[*ssa.Function]bool{}
	scan = func(f *ssa.Function, depth int) {
		if seen[f] || depth > 3 {
			return
		}
		seen[f] = true
		for _, i := range allInstrs(f) {
			switch x := i.(type) {
			case *ssa.IndexAddr:
				if !isTuples(x.X.Type()) {
					continue
				}
				nIdx++
				if k, ok := constInt(x.Index); ok {
					if min >= 0 && !variable && int(k) < min {
						continue
					}
					if lenAdmits(x, x.X, int(k)) {
						continue
					}
					// variable-length manglers: constant index must be justified by a path-correlated constant return of Mangle:
					// accept index 0 when Mangle also has a constant-length return >= 1 and the access is guarded by the same kind of test
					if variable && min >= 1 && int(k) < min {
						continue
					}
					bad = "constant index [" + itoa(int(k)) + "] at " + w.pos(x.Pos()) + " is not admitted by Mangle's arities " + desc + " or a dominating length test"
				} else if !indexBounded(x) && !countChecked(im.unmangle) {
					bad = "variable index " + canon(x.Index) + " at " + w.pos(x.Pos()) + " is not bounded by a dominating comparison with len() or a range, and Unmangle does not count-check the consumed values against len()"
				}
			case *ssa.Call:
				if callee := staticCallee(x); callee != nil && w.inRepo(callee) && callee != f {
					for _, a := range x.Call.Args {
						if isTuples(a.Type()) {
							scan(callee, depth+1)
						}
					}
				}
			}
		}
	}
	scan(im.unmangle, 0)
	c.check(bad == "" && (len(consts) > 0 || variable), "arity-agree", im.name, im.unmangle.Pos(),
		"Mangle returns "+desc+" field(s); all "+itoa(nIdx)+" tuple accesses on the Unmangle side are admitted", bad)
}

// lenAdmits: the access base[k] is dominated by a test implying len(base) > k.
func lenAdmits(at ssa.Instruction, base ssa.Value, k int) bool {
	for _, ec := range condsDominating(at.Block()) {
		b, ok := ec.Cond.(*ssa.BinOp)
		if !ok {
			continue
		}
		isLen := func(v ssa.Value) bool {
			call, ok := v.(*ssa.Call)
			return ok && calleeFullName(call) == "builtin.len" && sameValue(call.Call.Args[0], base)
		}
		n, okN := constInt(b.Y)
		if !isLen(b.X) || !okN {
			continue
		}
		switch {
		case b.Op == token.EQL && ec.Val && int(n) > k:
			return true
		case b.Op == token.NEQ && !ec.Val && int(n) > k:
			return true
		case b.Op == token.GTR && ec.Val && int(n) >= k:
			return true
		case b.Op == token.GEQ && ec.Val && int(n) > k:
			return true
		case b.Op == token.EQL && !ec.Val && int(n) == 0 && k == 0:
			return true // len != 0
		}
	}
	return false
}

// indexBounded: a variable index is a forward range index over the same
// slice, or dominated by idx < len(slice) (possibly as `len(slice) > idx`).
func indexBounded(x *ssa.IndexAddr) bool {
	if isForwardRangeIndex(x.Index) {
		// the loop bound must be len of the same slice: accept range lowering (compare with len(x.X))
		for _, ec := range condsDominating(x.Block()) {
			if b, ok := ec.Cond.(*ssa.BinOp); ok && b.Op == token.LSS && ec.Val && b.X == x.Index {
				if call, ok := b.Y.(*ssa.Call); ok && calleeFullName(call) == "builtin.len" && sameValue(call.Call.Args[0], x.X) {
					return true
				}
			}
		}
	}
	for _, ec := range condsDominating(x.Block()) {
		b, ok := ec.Cond.(*ssa.BinOp)
		if !ok {
			continue
		}
		isLen := func(v ssa.Value) bool {
			call, ok := v.(*ssa.Call)
			return ok && calleeFullName(call) == "builtin.len" && sameValue(call.Call.Args[0], x.X)
		}
		switch {
		case b.Op == token.LSS && ec.Val && b.X == x.Index && isLen(b.Y):
			return true
		case b.Op == token.GTR && ec.Val && b.Y == x.Index && isLen(b.X):
			return true
		case b.Op == token.GEQ && !ec.Val && b.X == x.Index && isLen(b.Y):
			return true
		}
	}
	return false
}

func c10Window(c *Ctx) {
	w := c.W
	rt := w.fn("transform", "Transformer.ReverseTranslate")
	tt := w.fn("transform", "Transformer.TranslateType")
	if !c.need(rt != nil && tt != nil, "transform.Transformer.ReverseTranslate/TranslateType") {
		return
	}
	c.analysed(relName(rt))
	c.analysed(relName(tt))
	// the slice expression feeding unmangleField
	var sl *ssa.Slice
	for _, i := range allInstrs(rt) {
		if s, ok := i.(*ssa.Slice); ok && s.Low != nil && s.High != nil {
			sl = s
		}
	}
	if sl == nil {
		c.bad("window-width", relName(rt)+"#window", rt.Pos(), "no [off : off+n] window in ReverseTranslate")
		return
	}
	off, isPhi := sl.Low.(*ssa.Phi)
	hi, isAdd := sl.High.(*ssa.BinOp)
	okWin := isPhi && isAdd && hi.Op == token.ADD && hi.X == sl.Low
	var width ssa.Value
	if okWin {
		width = hi.Y
	}
	// n = len(state.out)
	okN := false
	if call, ok := width.(*ssa.Call); ok && calleeFullName(call) == "builtin.len" {
		if _, ok := loadOfTypeField(call.Call.Args[0], "transform.transformMappingElement", "out"); ok {
			okN = true
		}
	}
	// the increment: off' = off + len(same)
	okInc := false
	if isPhi {
		for _, e := range off.Edges {
			if b, ok := e.(*ssa.BinOp); ok && b.Op == token.ADD && b.X == ssa.Value(off) && width != nil && sameValue(b.Y, width) {
				okInc = true
			} else if n, ok := constInt(e); ok && n == 0 {
			} else if e == ssa.Value(off) {
			} else {
				okInc = false
				break
			}
		}
	}
	c.check(okWin && okN && okInc, "window-width", relName(rt)+"#window", sl.Pos(), "window [off : off+len(state.out)], off += len(state.out) of the same state, starting at 0 per mangler",
		"the window width and the offset increment do not use the same len(state.out), or the offset does not restart at 0")
	// the layer written is a buffer of its own: FieldValueTuple values are stored into (or appended to) a slice made
	// in this function, never into something derived from the layer the window reads (an in-place compaction
	// overwrites values that have not been read yet whenever a field maps to zero translated fields)
	{
		readBase := sl.X
		derivesFromRead := func(v ssa.Value) bool {
			return derivesAny(v, func(x ssa.Value) bool { return x == readBase || sameValue(x, readBase) }, nil)
		}
		nW, okBuf := 0, true
		var badPos token.Pos
		isTuple := func(t types.Type) bool { return namedTypeName(t) == "transform.FieldValueTuple" }
		for _, i := range allInstrs(rt) {
			switch x := i.(type) {
			case *ssa.Store:
				ia, ok := x.Addr.(*ssa.IndexAddr)
				if !ok || !isTuple(x.Val.Type()) {
					continue
				}
				if al, ok := ia.X.(*ssa.Alloc); ok && al.Comment == "varargs" {
					continue // the argument list of an append, handled below
				}
				nW++
				if _, isMake := ia.X.(*ssa.MakeSlice); !isMake || derivesFromRead(ia.X) {
					okBuf = false
					badPos = x.Pos()
				}
			case *ssa.Call:
				if calleeFullName(x) != "builtin.append" {
					continue
				}
				if sty, ok := x.Type().Underlying().(*types.Slice); !ok || !isTuple(sty.Elem()) {
					continue
				}
				nW++
				if derivesFromRead(x.Call.Args[0]) {
					okBuf = false
					badPos = x.Pos()
				}
			}
		}
		if !badPos.IsValid() {
			badPos = sl.Pos()
		}
		c.check(okBuf && nW > 0, "window-width", relName(rt)+"#write-buffer", badPos, "the unmangled layer is written into a slice of its own (made per mangler), not into the layer being read",
			"the unmangled layer is written into (a re-slice of) the layer the window still reads from: when a field consumes no translated fields its value overwrites the next field's unread value")
	}
	// the state element is mState[manglerNum][srcIdx] with srcIdx the forward range index and manglerNum descending
	var mgrIdx ssa.Value
	for _, i := range allInstrs(rt) {
		if ci, ok := i.(*ssa.Call); ok && strings.HasSuffix(calleeFullName(ci), "Transformer).unmangleField") {
			mgrIdx = ci.Call.Args[1]
		}
	}
	okDesc := false
	if p, ok := mgrIdx.(*ssa.Phi); ok {
		init, step := false, false
		for _, e := range p.Edges {
			if b, ok := e.(*ssa.BinOp); ok && b.Op == token.SUB {
				if n, ok := constInt(b.Y); ok && n == 1 {
					if b.X == ssa.Value(p) {
						step = true
					} else if call, ok := b.X.(*ssa.Call); ok && calleeFullName(call) == "builtin.len" {
						init = true
					}
				}
			}
		}
		okDesc = init && step
	}
	c.check(okDesc, "window-width", relName(rt)+"#descending", rt.Pos(), "manglers are unwound from len-1 down to 0", "ReverseTranslate does not visit the manglers in descending order")
	// TranslateType: mangler loop ascending (range), layerState[i] = state with i the field range index
	okAsc, okStore := false, false
	for _, i := range allInstrs(tt) {
		if ci, ok := i.(*ssa.Call); ok && calleeFullName(ci) == "("+modPath+"/transform.Mangler).Mangle" {
			// receiver: manglers[idx] with forward range idx
			if ld, ok := ci.Call.Value.(*ssa.UnOp); ok {
				if ia, ok := ld.X.(*ssa.IndexAddr); ok && isForwardRangeIndex(ia.Index) {
					okAsc = true
				}
			}
		}
		if st, ok := i.(*ssa.Store); ok {
			if ia, ok := st.Addr.(*ssa.IndexAddr); ok && namedTypeName(st.Val.Type()) == "transform.transformMappingElement" && isForwardRangeIndex(ia.Index) {
				okStore = true
			}
		}
	}
	c.check(okAsc, "window-width", relName(tt)+"#ascending", tt.Pos(), "TranslateType applies the manglers in ascending order", "TranslateType does not apply the manglers in ascending (range) order")
	c.check(okStore, "window-width", relName(tt)+"#state-index", tt.Pos(), "layerState[i] is stored at the input field's range index", "the per-field state is not stored at the input field's index")
}

func c10Implements(c *Ctx) {
	w := c.W
	n := 0
	for _, rel := range []string{"transform", "ptrify", "helper", "sources/flag", "sources/pflag"} {
		for _, f := range w.funcsIn(rel) {
			var direct, viaPtr []*ssa.Call
			for _, i := range allInstrs(f) {
				ci, ok := i.(*ssa.Call)
				if !ok || calleeFullName(ci) != "(reflect.Type).Implements" {
					continue
				}
				recv := ci.Call.Value
				if call, ok := recv.(*ssa.Call); ok && (calleeFullName(call) == "reflect.PtrTo" || calleeFullName(call) == "reflect.PointerTo") {
					viaPtr = append(viaPtr, ci)
				} else {
					direct = append(direct, ci)
				}
			}
			for _, d := range direct {
				// only interface arguments that are the TextUnmarshaler / flag.Value style package-level types
				n++
				ok := false
				for _, p := range viaPtr {
					inner := p.Call.Value.(*ssa.Call).Call.Args[0]
					if sameValue(inner, d.Call.Value) && sameValue(p.Call.Args[0], d.Call.Args[0]) {
						ok = true
					}
				}
				c.check(ok, "implements-both-forms", relName(f)+"#"+canon(d.Call.Value), d.Pos(),
					"Implements tested for both T and *T", "Implements is tested for "+canon(d.Call.Value)+" but not for its pointer type: a type that implements the interface on its pointer receiver is treated differently on the two sides of a mangler")
			}
		}
	}
	if n == 0 {
		c.bad("implements-both-forms", "transform", 0, "no Implements tests found")
	}
}

func c10FlattenFlag(c *Ctx) {
	w := c.W
	f := w.fn("transform", "populateStruct")
	if !c.need(f != nil, "transform.populateStruct") {
		return
	}
	c.analysed(relName(f))
	name := relName(f)
	// the loop-carried bool flag: a phi of bool type at a loop header
	var flag *ssa.Phi
	for _, i := range allInstrs(f) {
		p, ok := i.(*ssa.Phi)
		if !ok {
			continue
		}
		if b, ok := p.Type().Underlying().(*types.Basic); !ok || b.Kind() != types.Bool {
			continue
		}
		isHeader := false
		for _, pr := range p.Block().Preds {
			if p.Block().Dominates(pr) {
				isHeader = true
			}
		}
		if isHeader {
			flag = p
		}
	}
	if flag == nil {
		c.bad("flatten-flag-accumulates", name, f.Pos(), "no loop-carried 'any child set' flag")
		return
	}
	// recursive call's bool result
	var nested ssa.Value
	for _, ci := range callsToFn(f, f) {
		for _, r := range *ci.(*ssa.Call).Referrers() {
			if e, ok := r.(*ssa.Extract); ok && e.Index == 1 {
				nested = e
			}
		}
	}
	if nested == nil {
		c.bad("flatten-flag-accumulates", name+"#nested", f.Pos(), "the 'any child set' result of the recursive call is discarded: a value set two levels down would not allocate its parents")
		return
	}
	pb := &predBuilder{name: func(v ssa.Value) string {
		if v == ssa.Value(flag) {
			return "old"
		}
		if v == nested {
			return "nested"
		}
		return ""
	}}
	bad := ""
	dep := false
	var recCall *ssa.Call
	for _, ci := range callsToFn(f, f) {
		recCall = ci.(*ssa.Call)
	}
	// walk the values reaching the header phi from inside the loop, edge by edge. Control merges are descended
	// per incoming edge (with the condition under which that edge is taken after the recursive call); only the
	// lowering of `a || b` / `a && b` used as a value (go/ssa block "binop.done") is evaluated as one formula.
	var walk func(v ssa.Value, pred, into *ssa.BasicBlock, seen map[ssa.Value]bool)
	walk = func(v ssa.Value, pred, into *ssa.BasicBlock, seen map[ssa.Value]bool) {
		if ph, ok := v.(*ssa.Phi); ok && ph != flag && !seen[ph] && !strings.HasPrefix(ph.Block().Comment, "binop.") {
			seen[ph] = true
			for ei, e := range ph.Edges {
				walk(e, ph.Block().Preds[ei], ph.Block(), seen)
			}
			return
		}
		g := pb.valueFormula(v, 0)
		afterRec := recCall != nil && (recCall.Block() == pred || recCall.Block().Dominates(pred))
		var ec formula = fConst{true}
		if afterRec {
			ec = pb.pathCondEdge(recCall.Block(), pred, into)
		}
		_, counter := forAll(mkAnd(ec, mkOr(g, mkNot(g))), nil, func(en env, _ bool) bool {
			if !evalF(ec, en) {
				return true // this edge is not taken under this assignment
			}
			fv := evalF(g, en)
			if en.B["old"] && !fv {
				return false
			}
			if afterRec && en.B["nested"] && !fv {
				return false
			}
			return true
		})
		fbA, fiA := map[string]bool{}, map[string]bool{}
		atomsOf(g, fbA, fiA)
		if counter == "" && !fbA["old"] {
			// the new value does not depend on the old one: only the constant true is monotone
			if cst, ok := g.(fConst); !ok || !cst.V {
				counter = "{old=true} (the new value ignores the previous flag)"
			}
		}
		if counter != "" {
			if afterRec {
				bad = "after a nested struct the flag is not old || nested: " + counter + " (new value " + g.String() + " on the edge taken when " + ec.String() + ")"
			} else {
				bad = "the flag can fall back to false inside the loop: " + counter + " (new value " + g.String() + ")"
			}
		}
		if afterRec {
			fb, fi := map[string]bool{}, map[string]bool{}
			atomsOf(mkAnd(g, ec), fb, fi)
			if fb["nested"] {
				dep = true
			}
		}
	}
	for ei, e := range flag.Edges {
		p := flag.Block().Preds[ei]
		if !flag.Block().Dominates(p) {
			continue // loop entry
		}
		walk(e, p, flag.Block(), map[ssa.Value]bool{})
	}
	if !dep && bad == "" {
		bad = "the flag never takes the nested result into account"
	}
	c.check(bad == "", "flatten-flag-accumulates", name+"#monotone", flag.Pos(), "flag' = flag || nested after a nested struct; it never falls back to false", bad)
	// leaf: set true only under !isNil(value); the field Set happens under the same test
	okLeaf := false
	for _, i := range allInstrs(f) {
		ci, ok := i.(*ssa.Call)
		if !ok || calleeFullName(ci) != "(reflect.Value).Set" || !inLoop(ci) {
			continue
		}
		for _, ec := range condsDominating(ci.Block()) {
			if call, ok := ec.Cond.(*ssa.Call); ok && !ec.Val && staticCallee(call) != nil && fnName(staticCallee(call)) == "isNil" && sameValue(call.Call.Args[0], ci.Call.Args[1]) {
				okLeaf = true
			}
		}
	}
	c.check(okLeaf, "flatten-flag-accumulates", name+"#leaf", f.Pos(), "a leaf is written (and counted) only when its flattened value is non-nil", "a nil flattened value can be written into the rebuilt struct")
	// parent pointer installed iff flag
	okParent := false
	for _, i := range allInstrs(f) {
		ci, ok := i.(*ssa.Call)
		if !ok || calleeFullName(ci) != "(reflect.Value).Set" || inLoop(ci) {
			continue
		}
		if p, ok := ci.Call.Args[0].(*ssa.Parameter); ok && p == f.Params[0] {
			for _, ec := range condsDominating(ci.Block()) {
				if ph, ok := ec.Cond.(*ssa.Phi); ok && ec.Val && (ph == flag || phiFed(ph, func(v ssa.Value) bool { return v == ssa.Value(flag) })) {
					okParent = true
				}
				if ec.Cond == ssa.Value(flag) && ec.Val {
					okParent = true
				}
			}
		}
	}
	c.check(okParent, "flatten-flag-accumulates", name+"#parent", f.Pos(), "the parent (pointer to) struct is installed only when some child was set", "the parent struct is installed regardless of whether a child was set (an empty source would clobber lower layers)")
}

func c10NonNil(c *Ctx) {
	w := c.W
	// (a) SetSliceMangler.Unmangle: Zero only under IsZero/IsNil of the input slice
	f := w.fn("transform", "SetSliceMangler.Unmangle")
	if c.need(f != nil, "transform.SetSliceMangler.Unmangle") {
		c.analysed(relName(f))
		pb := &predBuilder{name: func(v ssa.Value) string {
			if call, ok := v.(*ssa.Call); ok {
				switch calleeFullName(call) {
				case "(reflect.Value).IsZero", "(reflect.Value).IsNil":
					return "inputNil"
				}
			}
			return ""
		}}
		n := 0
		for _, r := range returnsOf(f) {
			rv := retVals(r)
			call, ok := rv[0].(*ssa.Call)
			if !ok || calleeFullName(call) != "reflect.Zero" || !isNilConst(rv[1]) {
				continue
			}
			n++
			g := pb.pathCond(f.Blocks[0], r.Block())
			_, counter := forAll(g, nil, func(e env, fv bool) bool { return !fv || e.B["inputNil"] })
			fb, fi := map[string]bool{}, map[string]bool{}
			atomsOf(g, fb, fi)
			c.check(counter == "" && fb["inputNil"], "nonnil-preserved", relName(f), r.Pos(), "a nil map is returned only for a nil slice", "a nil (zero) map can be returned for a non-nil slice (an explicitly empty set would look unset): "+counter)
		}
		okMake := false
		for _, r := range returnsOf(f) {
			if call, ok := retVals(r)[0].(*ssa.Call); ok && strings.HasPrefix(calleeFullName(call), "reflect.MakeMap") {
				okMake = true
			}
		}
		c.check(n >= 1 && okMake, "nonnil-preserved", relName(f)+"#make", f.Pos(), "a non-nil slice is rebuilt into a map made with reflect.MakeMap*", "no MakeMap-built result / no nil path found")
	}
	// (b) substitution mangler subVal: Slice and Map arms return make-built containers
	sub := w.fn("transform", "SingleTypeSubstitutionMangler.subVal")
	if c.need(sub != nil, "transform.SingleTypeSubstitutionMangler.subVal") {
		c.analysed(relName(sub))
		pb := &predBuilder{}
		kindAtom := ""
		for _, i := range allInstrs(sub) {
			if ci, ok := i.(*ssa.Call); ok && calleeFullName(ci) == "(reflect.Type).Kind" {
				kindAtom = canon(ci)
			}
		}
		for _, spec := range []struct {
			k    int64
			mk   string
			what string
		}{{kSlice, "reflect.MakeSlice", "slice"}, {kMap, "reflect.MakeMap", "map"}} {
			found := false
			for _, r := range returnsOf(sub) {
				g := pb.pathCond(sub.Blocks[0], r.Block())
				ks := kindsWhere(g, kindAtom)
				if len(ks) != 1 || !ks[spec.k] {
					continue
				}
				found = true
				okM := derivesAll(retVals(r)[0], func(x ssa.Value) bool {
					cc, ok := x.(*ssa.Call)
					return ok && strings.HasPrefix(calleeFullName(cc), spec.mk)
				}, nil)
				c.check(okM, "nonnil-preserved", relName(sub)+"#"+spec.what, r.Pos(), "the "+spec.what+" arm returns a container made with "+spec.mk+"*", "the "+spec.what+" arm does not return a "+spec.mk+"-built container (an empty non-nil "+spec.what+" would come back nil)")
			}
			if !found {
				c.bad("nonnil-preserved", relName(sub)+"#"+spec.what, sub.Pos(), "no %s arm found in subVal", spec.what)
			}
		}
	}
}

func c10Unset(c *Ctx) {
	w := c.W
	// text unmarshaler: strPtr == nil -> Zero before UnmarshalText
	tu := w.fn("transform", "TextUnmarshalerMangler.Unmangle")
	if c.need(tu != nil, "transform.TextUnmarshalerMangler.Unmangle") {
		okT := false
		for _, f := range append([]*ssa.Function{tu}, tu.AnonFuncs...) {
			c.analysed(relName(f))
			var um *ssa.Call
			for _, i := range allInstrs(f) {
				if ci, ok := i.(*ssa.Call); ok && calleeFullName(ci) == "(encoding.TextUnmarshaler).UnmarshalText" {
					um = ci
				}
			}
			if um == nil {
				continue
			}
			// dominated by a non-nil test of the *string
			for _, ec := range condsDominating(um.Block()) {
				if nv, nilWhenTrue, ok := nilCheckOf(ec.Cond); ok && nilWhenTrue != ec.Val && types.TypeString(nv.Type(), nil) == "*string" {
					okT = true
				}
			}
		}
		c.check(okT, "unset-stays-unset", relName(tu), tu.Pos(), "UnmarshalText runs only for a non-nil *string; nil yields the zero", "UnmarshalText can run for a nil *string")
	}
	// substitution: isNil(mVal) -> Zero before any Convert of containers
	sub := w.fn("transform", "SingleTypeSubstitutionMangler.subVal")
	if sub != nil {
		okS := false
		for _, r := range returnsOf(sub) {
			if call, ok := retVals(r)[0].(*ssa.Call); ok && calleeFullName(call) == "reflect.Zero" {
				for _, ec := range condsDominating(r.Block()) {
					if cc, ok := ec.Cond.(*ssa.Call); ok && ec.Val && (calleeFullName(cc) == "(reflect.Value).IsNil" || (staticCallee(cc) != nil && fnName(staticCallee(cc)) == "isNil")) {
						okS = true
					}
				}
			}
		}
		c.check(okS, "unset-stays-unset", relName(sub), sub.Pos(), "nil inputs are returned as the zero of the original type", "subVal has no nil -> zero path")
	}
	// string cast (shared with C11)
	sc := w.fn("transform", "StringCastingMangler.Unmangle")
	if sc != nil {
		var ps *ssa.Call
		for _, i := range allInstrs(sc) {
			if ci, ok := i.(*ssa.Call); ok && calleeFullName(ci) == modPath+"/parse.String" {
				ps = ci
			}
		}
		okU := false
		for _, r := range returnsOf(sc) {
			rv := retVals(r)
			if call, ok := rv[0].(*ssa.Call); ok && calleeFullName(call) == "reflect.Zero" && isNilConst(rv[1]) && ps != nil && !domI(ps, r) {
				okU = true
			}
		}
		c.check(okU, "unset-stays-unset", relName(sc), sc.Pos(), "a nil *string yields reflect.Zero(field type) without parsing", "string-cast Unmangle has no unset path")
	}
}

// countChecked: Unmangle compares the number of values consumed by its helper
// (first result of a repo call) with len(tuples) and fails on a mismatch: the
// running index threaded through the recursive helper is validated as a whole
// (the idiom of the flattening mangler, whose two sides enumerate leaves in the
// same depth-first order).
func countChecked(um *ssa.Function) bool {
	for _, i := range allInstrs(um) {
		b, ok := i.(*ssa.BinOp)
		if !ok || (b.Op != token.NEQ && b.Op != token.EQL) {
			continue
		}
		isCount := func(v ssa.Value) bool {
			e, ok := v.(*ssa.Extract)
			if !ok || e.Index != 0 {
				return false
			}
			_, ok = e.Tuple.(*ssa.Call)
			return ok
		}
		isLen := func(v ssa.Value) bool {
			call, ok := v.(*ssa.Call)
			if !ok || calleeFullName(call) != "builtin.len" {
				return false
			}
			_, isP := call.Call.Args[0].(*ssa.Parameter)
			return isP
		}
		if (isCount(b.X) && isLen(b.Y)) || (isCount(b.Y) && isLen(b.X)) {
			// the mismatch branch returns an error
			for _, r := range *b.Referrers() {
				if iff, ok := r.(*ssa.If); ok {
					bad := iff.Block().Succs[0]
					if b.Op == token.EQL {
						bad = iff.Block().Succs[1]
					}
					for _, ret := range returnsOf(um) {
						if (bad == ret.Block() || bad.Dominates(ret.Block())) && !isNilConst(retVals(ret)[1]) {
							return true
						}
					}
				}
			}
		}
	}
	return false
}

// c10ZeroOnlyUnset: every reflect.Zero in the transform package is dominated by
// a true nil-ness test.
func c10ZeroOnlyUnset(c *Ctx) {
	w := c.W
	isNilTest := func(ec edgeCond) bool {
		switch x := ec.Cond.(type) {
		case *ssa.Call:
			if !ec.Val {
				return false
			}
			switch calleeFullName(x) {
			case "(reflect.Value).IsNil", "(reflect.Value).IsZero":
				return true
			}
			if callee := staticCallee(x); callee != nil && w.inRepo(callee) && (fnName(callee) == "isNil" || fnName(callee) == "aliasUnset") {
				return true
			}
		case *ssa.BinOp:
			// x == nil (pointer or interface holding a nil pointer constant)
			if x.Op == token.EQL && ec.Val || x.Op == token.NEQ && !ec.Val {
				for _, side := range []ssa.Value{x.X, x.Y} {
					v := side
					if mi, ok := v.(*ssa.MakeInterface); ok {
						v = mi.X
					}
					if ld, ok := v.(*ssa.UnOp); ok && ld.Op == token.MUL {
						// a local `var nilPtr *T` never assigned
						if a, ok := ld.X.(*ssa.Alloc); ok {
							stores := 0
							for _, r := range *a.Referrers() {
								if _, ok := r.(*ssa.Store); ok {
									stores++
								}
							}
							if stores == 0 {
								return true
							}
						}
					}
					if isNilConst(v) {
						return true
					}
				}
			}
		case *ssa.Extract:
			// the all-fields-nil flag returned by the anonymous-flatten helper
			if call, ok := x.Tuple.(*ssa.Call); ok && ec.Val && x.Index == 1 {
				if callee := staticCallee(call); callee != nil && fnName(callee) == "unmangleStruct" {
					return true
				}
			}
		}
		return false
	}
	n := 0
	for _, f := range w.funcsIn("transform") {
		for _, i := range allInstrs(f) {
			call, ok := i.(*ssa.Call)
			if !ok || calleeFullName(call) != "reflect.Zero" {
				continue
			}
			n++
			c.analysed(relName(f))
			okG := false
			for _, ec := range condsDominating(call.Block()) {
				if isNilTest(ec) {
					okG = true
				}
			}
			id := relName(f) + "#zero"
			c.check(okG, "zero-only-for-unset", id, call.Pos(), "reflect.Zero is produced under a true nil-ness test", "reflect.Zero is produced without a dominating nil-ness test of the value it replaces (for example under Len() == 0): an explicitly empty value is handed back as unset and no longer overrides lower layers")
		}
	}
	if n == 0 {
		c.bad("zero-only-for-unset", "transform", 0, "no reflect.Zero call found in the transform package")
	}
	// the helpers whose true result the rule above takes for "unset": their answer is made of nil-ness and zero-ness
	// tests (and other such helpers) only - never of the length of a value: an explicitly empty slice or map is set
	for _, f := range w.funcsIn("transform") {
		if nm := fnName(f); (nm != "isNil" && nm != "aliasUnset") || f.Parent() != nil || len(f.Blocks) == 0 {
			continue
		}
		bad := ""
		pb := &predBuilder{}
		for _, r := range returnsOf(f) {
			rv := retVals(r)
			if len(rv) != 1 {
				continue
			}
			fb, fi := map[string]bool{}, map[string]bool{}
			atomsOf(pb.valueFormula(rv[0], 0), fb, fi)
			for a := range fi {
				if !strings.HasPrefix(a, "(reflect.Value).Kind(") && !strings.HasPrefix(a, "(reflect.Type).Kind(") {
					bad = a
				}
			}
			for a := range fb {
				switch {
				case strings.HasPrefix(a, "(reflect.Value).IsNil("), strings.HasPrefix(a, "(reflect.Value).IsZero("), strings.HasPrefix(a, "(reflect.Value).IsValid("), strings.HasPrefix(a, "isnil("):
				case strings.Contains(a, "transform.isNil(") || strings.Contains(a, "transform.aliasUnset("):
				default:
					bad = a
				}
			}
		}
		c.check(bad == "", "zero-only-for-unset", relName(f)+"#helper", f.Pos(), "the unset-ness helper answers from IsNil / IsZero tests only",
			"the helper whose result stands for 'unset' answers from "+bad+": a value that is set but empty (for example Len() == 0) is treated as unset, dropped by the alias and no longer overrides lower layers")
	}
}

// c10AnonUnsetTotal: in the anonymous-flatten struct unmangler the returned
// all-nil flag is cleared, for values of nil-able kinds, only under a not-nil
// / not-zero test of that value.
func c10AnonUnsetTotal(c *Ctx) {
	w := c.W
	f := w.fn("transform", "AnonymousFlattenMangler.unmangleStruct")
	if !c.need(f != nil, "transform.AnonymousFlattenMangler.unmangleStruct") {
		return
	}
	// the returned flag
	var flag *ssa.Phi
	for _, r := range returnsOf(f) {
		rv := retVals(r)
		if p, ok := rv[len(rv)-1].(*ssa.Phi); ok {
			flag = p
		}
	}
	if flag == nil {
		c.undecided("anon-unset-total", relName(f), f.Pos(), "the all-fields-nil result is not a loop-carried flag")
		return
	}
	// blocks from which a constant false flows into the flag
	var falseBlocks []*ssa.BasicBlock
	seen := map[*ssa.Phi]bool{}
	var walk func(p *ssa.Phi)
	walk = func(p *ssa.Phi) {
		if seen[p] {
			return
		}
		seen[p] = true
		for ei, e := range p.Edges {
			switch x := e.(type) {
			case *ssa.Const:
				if x.Value != nil && x.Value.ExactString() == "false" {
					falseBlocks = append(falseBlocks, p.Block().Preds[ei])
				}
			case *ssa.Phi:
				walk(x)
			}
		}
	}
	walk(flag)
	isTupleValue := func(v ssa.Value) bool {
		_, ok := loadOfTypeField(v, "transform.FieldValueTuple", "Value")
		return ok
	}
	pb := &predBuilder{name: func(v ssa.Value) string {
		call, ok := v.(*ssa.Call)
		if !ok {
			return ""
		}
		switch calleeFullName(call) {
		case "(reflect.Value).Kind":
			if isTupleValue(call.Call.Args[0]) {
				return "val.Kind()"
			}
		case "(reflect.Value).IsZero", "(reflect.Value).IsNil":
			if isTupleValue(call.Call.Args[0]) {
				return "unset"
			}
		}
		return ""
	}}
	// the loop header
	var hdr *ssa.BasicBlock
	for b := flag.Block(); b != nil; b = b.Idom() {
		for _, p := range b.Preds {
			if b.Dominates(p) {
				hdr = b
			}
		}
		if hdr != nil {
			break
		}
	}
	if hdr == nil || len(falseBlocks) == 0 {
		c.undecided("anon-unset-total", relName(f), f.Pos(), "no loop / no clearing of the flag found")
		return
	}
	bad := ""
	rows := 0
	for _, fbk := range falseBlocks {
		g := pb.pathCond(hdr, fbk)
		fb, fi := map[string]bool{}, map[string]bool{}
		atomsOf(g, fb, fi)
		n, counter := forAll(g, map[string][]int64{"val.Kind()": {kPtr, kSlice, kMap, kInterface, kChan}}, func(e env, fv bool) bool {
			if !fv {
				return true
			}
			return fi["val.Kind()"] && fb["unset"] && !e.B["unset"]
		})
		rows += n
		if counter != "" {
			bad = counter
		}
	}
	if bad == "" {
		c.okRows("anon-unset-total", relName(f), f.Pos(), rows, "the flag is cleared for nil-able kinds only under a not-nil test (%d assignments)", rows)
	} else {
		c.bad("anon-unset-total", relName(f), f.Pos(), "the all-fields-nil flag is cleared for a nil value of a nil-able kind (an embedded pointer whose fields are all unset would come back non-nil and clobber lower layers): %s", bad)
	}
}

func c10ShouldRecurse(c *Ctx, im manglerImpl) {
	want := "true"
	if im.name == "transform.FlattenMangler" {
		want = "false"
	}
	okR := true
	for _, r := range returnsOf(im.recurse) {
		cst, ok := retVals(r)[0].(*ssa.Const)
		if !ok || cst.Value == nil || cst.Value.ExactString() != want {
			okR = false
		}
	}
	c.check(okR, "should-recurse-table", im.name, im.recurse.Pos(), im.name+".ShouldRecurse == "+want, im.name+".ShouldRecurse is not the constant "+want+" (nested structs, also inside slices and arrays, would not be translated like top-level ones)")
}

// c10PlaceholderTypes: in the recursive unmangling of a mangled layer, every placeholder or container built with
// reflect.Zero / MakeSlice / New and stored as the value of translated field z is typed by the type of that very
// field, fieldState.out[z].field.Type (not by the original field's type, which differs as soon as a mangler
// changed the field's type: reflect.Set panics, even for an entirely unset value).
func c10PlaceholderTypes(c *Ctx) {
	w := c.W
	f := w.fn("transform", "Transformer.maybeRecursivelyUnmangle")
	if !c.need(f != nil, "transform.Transformer.maybeRecursivelyUnmangle") {
		return
	}
	c.analysed(relName(f))
	n := 0
	for _, i := range allInstrs(f) {
		st, ok := i.(*ssa.Store)
		if !ok || types.TypeString(st.Val.Type(), nil) != "reflect.Value" {
			continue
		}
		fa, ok := st.Addr.(*ssa.FieldAddr)
		if !ok || fieldName(fa.X.Type(), fa.Field) != "Value" {
			continue
		}
		ia, ok := fa.X.(*ssa.IndexAddr)
		if !ok {
			continue
		}
		// the constructor call behind the stored value
		v := st.Val
		if el, ok := v.(*ssa.Call); ok && calleeFullName(el) == "(reflect.Value).Elem" {
			v = el.Call.Args[0]
		}
		call, ok := v.(*ssa.Call)
		if !ok {
			continue
		}
		switch calleeFullName(call) {
		case "reflect.Zero", "reflect.MakeSlice", "reflect.New":
		default:
			continue
		}
		n++
		tArg := canon(call.Call.Args[0])
		want := "out[" + canon(ia.Index) + "].field.Type"
		c.check(strings.Contains(tArg, want), "placeholder-types", relName(f)+"#"+itoa(n), call.Pos(), "typed by fieldState.out[z].field.Type of the field it is stored for",
			"a "+calleeFullName(call)+" stored as the value of translated field "+canon(ia.Index)+" is typed by "+tArg+" instead of that field's own type (…out["+canon(ia.Index)+"].field.Type): for a field whose type a mangler changed the later reflect.Set panics")
	}
	if n == 0 {
		c.bad("placeholder-types", relName(f), f.Pos(), "no reflect.Zero / MakeSlice / New placeholder found")
	}
}

// c10OnImplementsZero: helper.OnImplements strips the pointer from the field type before looking for the
// interface. Every reflect.Zero it returns ("the field is unset") must still be typed by the *original* field
// type: Zero(stripped) only on paths where nothing was stripped, Zero(PtrTo(stripped)) only where the pointer was
// (D29: an unset *time.Time field came back as a time.Time and the reverse translation failed).
func c10OnImplementsZero(c *Ctx, rule string) {
	w := c.W
	f := w.fn("helper", "OnImplements")
	if !c.need(f != nil, "helper.OnImplements") {
		return
	}
	c.analysed(relName(f))
	t0 := ssa.Value(f.Params[0])
	// the stripped type: phi [t0, Elem(t0)]
	var tphi *ssa.Phi
	for _, i := range allInstrs(f) {
		ph, ok := i.(*ssa.Phi)
		if !ok {
			continue
		}
		for _, e := range ph.Edges {
			if cc, ok := e.(*ssa.Call); ok && cc.Call.IsInvoke() && cc.Call.Method.Name() == "Elem" && cc.Call.Value == t0 {
				tphi = ph
			}
		}
	}
	if tphi == nil || tphi.Block().Idom() == nil {
		// nothing is stripped (or not in this shape): every Zero must be of the parameter type itself
		n := 0
		for _, r := range returnsOf(f) {
			if call, ok := retVals(r)[0].(*ssa.Call); ok && calleeFullName(call) == "reflect.Zero" {
				n++
				c.check(call.Call.Args[0] == t0, rule, relName(f)+"#zero#"+itoa(n), call.Pos(), "the unset value has the field's own type", "the unset value returned by OnImplements is typed by "+canon(call.Call.Args[0])+", which is not provably the field's own type")
			}
		}
		if n == 0 {
			c.okTrivial(rule, relName(f), f.Pos(), "OnImplements returns no reflect.Zero")
		}
		return
	}
	// "the pointer was stripped" = the phi was entered through an edge carrying Elem(t0); boolean flags derived
	// from the same test (a phi of constants, or the test itself kept in a local) expand to the same atoms
	pb := &predBuilder{}
	var stripped formula = fConst{false}
	for ei, e := range tphi.Edges {
		if e != t0 {
			stripped = mkOr(stripped, pb.pathCondEdge(tphi.Block().Idom(), tphi.Block().Preds[ei], tphi.Block()))
		}
	}
	n := 0
	for _, r := range returnsOf(f) {
		call, ok := retVals(r)[0].(*ssa.Call)
		if !ok || calleeFullName(call) != "reflect.Zero" {
			continue
		}
		n++
		x := call.Call.Args[0]
		g := pb.pathCond(tphi.Block(), r.Block())
		name := relName(f) + "#zero#" + itoa(n)
		switch {
		case x == t0:
			c.ok(rule, name, call.Pos(), "the unset value is typed by the field type as passed in")
		case x == ssa.Value(tphi):
			_, counter := forAll(mkAnd(g, stripped), nil, func(e env, fv bool) bool { return !fv })
			c.check(counter == "", rule, name, call.Pos(), "Zero of the stripped type is returned only where no pointer was stripped",
				"for a pointer field the unset value is the zero of the pointee type (the pointer was stripped from t above): an unset *time.Time / *net.IP field comes back as a value of the wrong type and ReverseTranslate fails with 'incompatible types' - an empty translated value can no longer be reversed")
		default:
			pt, ok := x.(*ssa.Call)
			if ok && (calleeFullName(pt) == "reflect.PtrTo" || calleeFullName(pt) == "reflect.PointerTo") && pt.Call.Args[0] == ssa.Value(tphi) {
				_, counter := forAll(mkAnd(g, mkNot(stripped)), nil, func(e env, fv bool) bool { return !fv })
				c.check(counter == "", rule, name, call.Pos(), "Zero of pointer-to-stripped is returned only where the pointer was stripped", "a nil pointer to the stripped type is returned on a path where the field type was not a pointer: "+counter)
			} else {
				c.bad(rule, name, call.Pos(), "the unset value returned by OnImplements is typed by %s, which is not provably the field's own type", canon(x))
			}
		}
	}
	if n == 0 {
		c.bad(rule, relName(f), f.Pos(), "OnImplements has no unset (reflect.Zero) return")
	}
}

// c10RecursionExcludesTextM: the type a nested Transformer is created for in maybeRecursivelyMangle (the field
// type with its outer pointer / slice / array stripped) was tested, as that very value, not to implement
// encoding.TextUnmarshaler in either form. Testing only the unstripped type lets []time.Time through: its element
// type is rebuilt from its (unexported) fields as struct{} and no decoder can fill it any more (D30).
func c10RecursionExcludesTextM(c *Ctx, rule string) {
	w := c.W
	f := w.fn("transform", "Transformer.maybeRecursivelyMangle")
	if !c.need(f != nil, "transform.Transformer.maybeRecursivelyMangle") {
		return
	}
	c.analysed(relName(f))
	excluded := func(L ssa.Value, at, into *ssa.BasicBlock) (direct, viaPtr bool) {
		conds := condsDominating(at)
		// the condition of the edge at -> into itself
		if ifi, ok := at.Instrs[len(at.Instrs)-1].(*ssa.If); ok && into != nil && at.Succs[0] != at.Succs[1] {
			conds = append(conds, edgeCond{Cond: ifi.Cond, Val: at.Succs[0] == into})
		}
		for _, ec := range conds {
			cc, ok := ec.Cond.(*ssa.Call)
			if !ok || ec.Val {
				continue
			}
			// a helper predicate `t implements X as T or as *T`, applied to L
			if h := staticCallee(cc); h != nil && len(cc.Call.Args) == 1 && sameValue(cc.Call.Args[0], L) && bothFormsPredicate(h) {
				direct, viaPtr = true, true
				continue
			}
			if calleeFullName(cc) != "(reflect.Type).Implements" {
				continue
			}
			recv := cc.Call.Value
			if sameValue(recv, L) {
				direct = true
			}
			if pc, ok := recv.(*ssa.Call); ok && (calleeFullName(pc) == "reflect.PtrTo" || calleeFullName(pc) == "reflect.PointerTo") && sameValue(pc.Call.Args[0], L) {
				viaPtr = true
			}
		}
		return
	}
	n := 0
	// the places a nested Transformer gets its type: a store into Transformer.t in this function, or a call of a
	// constructor of the package whose literal takes t from one of its parameters
	type tSite struct {
		val ssa.Value
		blk *ssa.BasicBlock
		pos token.Pos
	}
	isTStore := func(i ssa.Instruction) (*ssa.Store, bool) {
		st, ok := i.(*ssa.Store)
		if !ok {
			return nil, false
		}
		fa, ok := st.Addr.(*ssa.FieldAddr)
		if !ok || fieldName(fa.X.Type(), fa.Field) != "t" || !strings.HasSuffix(types.TypeString(fa.X.Type(), nil), "transform.Transformer") {
			return nil, false
		}
		return st, true
	}
	var sites []tSite
	for _, i := range allInstrs(f) {
		if st, ok := isTStore(i); ok {
			sites = append(sites, tSite{st.Val, st.Block(), st.Pos()})
			continue
		}
		call, ok := i.(*ssa.Call)
		if !ok {
			continue
		}
		ctor := staticCallee(call)
		if ctor == nil || len(ctor.Blocks) == 0 || c.W.pkgRelOfFn(ctor) != "transform" || ctor == origin(f) {
			continue
		}
		for _, j := range allInstrs(ctor) {
			st, ok := isTStore(j)
			if !ok {
				continue
			}
			if _, fresh := st.Addr.(*ssa.FieldAddr).X.(*ssa.Alloc); !fresh {
				continue
			}
			for pi, p := range ctor.Params {
				if st.Val == ssa.Value(p) && pi < len(call.Call.Args) {
					sites = append(sites, tSite{call.Call.Args[pi], call.Block(), call.Pos()})
				}
			}
		}
	}
	for _, st := range sites {
		n++
		seen := map[ssa.Value]bool{}
		var bad []string
		var walk func(v ssa.Value, at, into *ssa.BasicBlock)
		walk = func(v ssa.Value, at, into *ssa.BasicBlock) {
			if ph, ok := v.(*ssa.Phi); ok {
				if seen[v] {
					return
				}
				seen[v] = true
				dead := deadPhiEdges(ph, at)
				for ei, e := range ph.Edges {
					if dead[ei] {
						continue // an outcome of a folded helper that is tested away before this point
					}
					walk(e, ph.Block().Preds[ei], ph.Block())
				}
				return
			}
			d, p := excluded(v, at, into)
			if !d || !p {
				bad = append(bad, canon(v))
			}
		}
		walk(st.val, st.blk, nil)
		c.check(len(bad) == 0, rule, relName(f)+"#nested-type#"+itoa(n), st.pos, "every type a nested Transformer is created for was tested (T and *T) not to implement TextUnmarshaler",
			"a nested Transformer is created for "+strings.Join(bad, ", ")+" without testing that very type against TextUnmarshaler (only the unstripped field type was tested): a slice or array of text-unmarshalable structs ([]time.Time) has its element type rebuilt as struct{} and can never be filled or restored")
	}
	if n == 0 {
		c.bad(rule, relName(f), f.Pos(), "no nested Transformer{t: ...} construction found")
	}
}

// c10ReverseSkipsUntranslated (sibling agreement): TranslateType leaves an empty state entry for every field it
// skips (go/ast.IsExported(name) false, before Mangle is called), so ReverseTranslate may call Unmangle only for
// entries whose recorded input field passes the same predicate; otherwise a mangler is handed a zero StructField
// and no values (D32: every decoder panicked on []Inner with an unexported field in Inner).
func c10ReverseSkipsUntranslated(c *Ctx, rule string) {
	w := c.W
	tt := w.fn("transform", "Transformer.TranslateType")
	rt := w.fn("transform", "Transformer.ReverseTranslate")
	uf := w.fn("transform", "Transformer.unmangleField")
	if !c.need(tt != nil && rt != nil && uf != nil, "transform.Transformer.TranslateType / ReverseTranslate / unmangleField") {
		return
	}
	// does TranslateType skip fields before mangling them?
	var skipPred string
	for _, i := range allInstrs(tt) {
		ci, ok := i.(*ssa.Call)
		if !ok || !ci.Call.IsInvoke() || ci.Call.Method.Name() != "Mangle" {
			continue
		}
		for _, ec := range condsDominating(ci.Block()) {
			if cc, ok := ec.Cond.(*ssa.Call); ok && inLoop(cc) && staticCallee(cc) != nil && len(cc.Call.Args) == 1 {
				if _, isName := loadOfFieldNamed(cc.Call.Args[0], "Name"); isName && ec.Val {
					skipPred = calleeFullName(cc)
				}
			}
		}
	}
	if skipPred == "" {
		c.okTrivial(rule, relName(tt), tt.Pos(), "TranslateType mangles every field: there are no empty state entries")
		return
	}
	n := 0
	for _, ci := range callsToFn(rt, uf) {
		call := ci.(*ssa.Call)
		n++
		okG := false
		for _, ec := range condsDominating(call.Block()) {
			cc, ok := ec.Cond.(*ssa.Call)
			if !ok || !ec.Val || calleeFullName(cc) != skipPred {
				continue
			}
			// the argument is the Name of the `in` field of the state element being unmangled
			nameOf, isName := loadOfFieldNamed(cc.Call.Args[0], "Name")
			if !isName {
				continue
			}
			if fa, ok := nameOf.(*ssa.FieldAddr); ok && fieldName(fa.X.Type(), fa.Field) == "in" && sameValue(fa.X, call.Call.Args[2]) {
				okG = true
			}
		}
		c.check(okG, rule, relName(rt)+"#unmangle#"+itoa(n), call.Pos(), "a field is unmangled only if "+skipPred+"(its recorded name) holds - the predicate under which TranslateType mangled it",
			"TranslateType skips fields for which "+skipPred+"(name) is false and leaves an empty state entry for them, but ReverseTranslate unmangles that entry all the same: a mangler receives a zero StructField and no values (nested struct types reached through slices are not pointerified, so []Inner with an unexported field in Inner makes every decoder panic)")
	}
	if n == 0 {
		c.bad(rule, relName(rt), rt.Pos(), "ReverseTranslate no longer calls unmangleField")
	}
}

// loadOfFieldNamed: v is a load of a struct field called name; returns the address of the struct.
func loadOfFieldNamed(v ssa.Value, name string) (ssa.Value, bool) {
	switch x := v.(type) {
	case *ssa.UnOp:
		if x.Op == token.MUL {
			if fa, ok := x.X.(*ssa.FieldAddr); ok && fieldName(fa.X.Type(), fa.Field) == name {
				return fa.X, true
			}
		}
	case *ssa.Field:
		if fieldName(x.X.Type(), x.Field) == name {
			return x.X, true
		}
	}
	return nil, false
}

// bothFormsPredicate: h(t reflect.Type) bool returns true whenever t or *t implements some interface
// (t.Implements(X) || reflect.PointerTo(t).Implements(X)), so a false result excludes both forms.
func bothFormsPredicate(h *ssa.Function) bool {
	h = origin(h)
	if len(h.Blocks) == 0 || len(h.Params) != 1 {
		return false
	}
	p := ssa.Value(h.Params[0])
	seenD, seenP := false, false
	pb := &predBuilder{name: func(v ssa.Value) string {
		cc, ok := v.(*ssa.Call)
		if !ok || calleeFullName(cc) != "(reflect.Type).Implements" {
			return ""
		}
		if cc.Call.Value == p {
			seenD = true
			return "direct"
		}
		if pc, ok := cc.Call.Value.(*ssa.Call); ok && (calleeFullName(pc) == "reflect.PtrTo" || calleeFullName(pc) == "reflect.PointerTo") && pc.Call.Args[0] == p {
			seenP = true
			return "viaPtr"
		}
		return ""
	}}
	var res formula = fConst{false}
	for _, r := range returnsOf(h) {
		rv := retVals(r)
		if len(rv) != 1 {
			return false
		}
		res = mkOr(res, mkAnd(pb.pathCond(h.Blocks[0], r.Block()), pb.valueFormula(rv[0], 0)))
	}
	if _, counter := forAll(res, nil, func(e env, fv bool) bool { return fv || !(e.B["direct"] || e.B["viaPtr"]) }); counter != "" {
		return false
	}
	return seenD && seenP
}

// c10NestedPerField: every store into fieldTransformPair.transform records a Transformer allocated in the same
// loop iteration (or outside any loop when the store is).
func c10NestedPerField(c *Ctx, rule string) {
	w := c.W
	fld := w.field("transform", "fieldTransformPair", "transform")
	if !c.need(fld != nil, "transform.fieldTransformPair.transform") {
		return
	}
	n := 0
	for _, st := range w.storesToField(fld) {
		if isNilConst(st.Val) {
			continue
		}
		n++
		f := st.Parent()
		c.analysed(relName(f))
		al := allocOf(st.Val)
		var made ssa.Instruction
		if al != nil {
			made = al
		} else if call, ok := stripConv(st.Val).(*ssa.Call); ok && call.Parent() == f {
			// ... or the result of a constructor that returns a struct it allocates itself
			if ctor := staticCallee(call); ctor != nil && len(ctor.Blocks) > 0 && w.inRepo(ctor) {
				fresh := true
				for _, r := range returnsOf(ctor) {
					ra, isA := retVals(r)[0].(*ssa.Alloc)
					if !isA || !ra.Heap {
						fresh = false
					}
				}
				if fresh {
					made = call
				}
			}
		}
		okA := made != nil
		why := "the recorded Transformer is not a local allocation of the recording function"
		if okA && inLoop(st) {
			entry := loopBodyEntry(st.Block())
			if entry == nil || !(entry == made.Block() || entry.Dominates(made.Block())) {
				okA = false
				why = "the Transformer recorded for each field is one object allocated outside the loop: after the loop every field refers to the type and state of the last one, and reverse translation rebuilds the others from the wrong nested type"
			}
		}
		c.check(okA, rule, relName(f)+"#record", st.Pos(), "the nested Transformer recorded for a field is allocated in the iteration that records it", why)
	}
	if n == 0 {
		c.bad(rule, "transform", 0, "no nested Transformer is ever recorded in the translation state")
	}
}
