package main

import (
	"go/token"
	"go/types"

	"golang.org/x/tools/go/ssa"
)

func init() {
	props["C07"] = &propMeta{
		run: runC07,
		explanation: "Decides that the reply channel of a blocking report can always absorb the monitor's single answer (constant capacity >= 1, at most one send per re-stack path), that every exit of the re-stack answers a non-nil reply channel " +
			"with the rejection error or - only after the store - nil, that the reporter waits for that answer and maps it to its return value, that both of its waits (and SetSource's) are bounded by the caller's own context, " +
			"and that Blank.SetSource installs the inner source only after Value succeeded and returns nil only after the blocking report did. Not decided: scheduling latency.",
		assumptions: []string{"a send on a buffered channel with free capacity does not block"},
	}
}

func runC07(c *Ctx) {
	c.rule("skip-flag", "(shared with C04) the flag that lets the update path skip Verify originates only from DelayInitialVerification and the negated enable result: with SkipInitialVerification alone every re-stack is verified, so a blocking report of a rejected value returns the error", 2)
	c.rule("reply-capacity", "the reply channel placed in a value update is made with a constant capacity >= 1, so the monitor's answer never blocks on an abandoned caller", 1)
	c.rule("answer-every-exit", "on every path of the re-stack function from entry to a return, a non-nil reply channel is sent exactly one answer (at least one on every path, never two)", 2)
	c.rule("answer-value", "reject exits answer the tested error; the success exit answers nil and only after the store", 3)
	c.rule("reporter-waits", "BlockingReportNewValue submits and waits inside selects that each contain <-ctx.Done() of its own context parameter; the context arms return a non-nil error", 2)
	c.rule("blocking-report-forwarded", "every WatchArgs wrapper in the repository forwards BlockingReportNewValue to the wrapped BlockingReportNewValue and returns its result (a wrapper that forwards to the non-blocking report returns before installation and swallows the rejection)", 1)
	c.rule("blocking-returns-error", "BlockingReportNewValue returns nil only after receiving nil from the reply channel and otherwise returns an error wrapping what it received", 2)
	c.rule("setsource-order", "Blank.SetSource assigns the inner source only after s.Value succeeded, passes its own context to the blocking report, returns nil only after the report returned nil, and starts the new source's Watch afterwards", 4)

	k := loadCore(c)
	if !k.ok {
		return
	}
	k.checkSkipFlag("skip-flag")
	w := c.W
	brn := w.fn("", "watchArgs.BlockingReportNewValue")
	if !c.need(brn != nil, "dials.watchArgs.BlockingReportNewValue") {
		return
	}
	c.analysed(relName(brn))

	c07ReplyCapacity(c)

	// ---- answer-every-exit / answer-value ---------------------------------------
	for _, f := range k.storeFns {
		c.analysed(relName(f))
		name := relName(f)
		isReply := func(i ssa.Instruction) bool {
			if rh, _ := k.rejectCall(i); rh != nil {
				return true // a summarised reject helper answers exactly once when the channel is non-nil
			}
			s, ok := i.(*ssa.Send)
			return ok && isErrorChan(s.Chan.Type())
		}
		edgeNonNil := func(b *ssa.BasicBlock, succ int) bool {
			if iff, ok := b.Instrs[len(b.Instrs)-1].(*ssa.If); ok {
				if nv, nilWhenTrue, ok := nilCheckOf(iff.Cond); ok && isErrorChan(nv.Type()) {
					nilEdge := 1
					if nilWhenTrue {
						nilEdge = 0
					}
					return succ != nilEdge
				}
			}
			return true
		}
		hit := reachAvoidEdges(f.Blocks[0], isReturn, isReply, edgeNonNil)
		c.check(hit == nil, "answer-every-exit", name+"#at-least-one", f.Pos(),
			"every return is preceded by an answer whenever the reply channel is non-nil", "a return is reachable with a non-nil reply channel that was never answered")
		twice := false
		for _, i := range allInstrs(f) {
			if isReply(i) {
				if h := reachAvoid(f, i, isReply, nil); h != nil {
					twice = true
					c.bad("answer-every-exit", name+"#at-most-one", h.Pos(), "a second answer on the reply channel is reachable after the one at %s (capacity is 1: the monitor would block)", w.pos(i.Pos()))
				}
			}
		}
		if !twice {
			c.ok("answer-every-exit", name+"#at-most-one", f.Pos(), "no path answers twice")
		}
		// answer-value
		var stores []ssa.Instruction
		for _, sc := range k.storeCalls {
			if origin(sc.Parent()) == f {
				stores = append(stores, sc.(ssa.Instruction))
			}
		}
		for _, i := range allInstrs(f) {
			if rh, call := k.rejectCall(i); rh != nil {
				ev := call.Call.Args[rh.errP]
				noStore := true
				for _, st := range stores {
					if domI(st, call) {
						noStore = false
					}
				}
				c.check(knownNil(call.Block(), ev, false) && noStore, "answer-value", name+"#error-answer", call.Pos(),
					"the reject helper is called with an error tested non-nil, where nothing was stored", "the reject helper answers an error that is not known non-nil, or after a store")
				continue
			}
			s, ok := i.(*ssa.Send)
			if !ok || !isErrorChan(s.Chan.Type()) {
				continue
			}
			if isNilConst(s.X) {
				dom := false
				for _, st := range stores {
					if domI(st, s) {
						dom = true
					}
				}
				c.check(dom, "answer-value", name+"#nil-answer", s.Pos(), "nil is answered only after the store", "nil (success) is answered on a path that has not stored the new version")
			} else {
				// the answered error is known non-nil here and no store is reachable before/after
				nonNil := knownNil(s.Block(), s.X, false)
				noStore := true
				for _, st := range stores {
					if domI(st, s) {
						noStore = false
					}
				}
				c.check(nonNil && noStore, "answer-value", name+"#error-answer", s.Pos(),
					"a non-nil error is answered only on a branch where it was tested non-nil and nothing was stored", "an error answer is sent where the error is not known non-nil, or after a store")
			}
		}
	}

	// ---- reporter-waits ---------------------------------------------------------------
	c07Waits(c, brn, "reporter-waits")
	c04Blocking(c, k)
	k.checkBlockingForwarders("blocking-report-forwarded")

	c07SetSourceOrder(c)
}

// c07SetSourceOrder: the setsource-order rule (shared with C20).
func c07SetSourceOrder(c *Ctx) {
	w := c.W
	// ---- setsource-order -----------------------------------------------------------------
	ss := w.fn("sourcewrap", "Blank.SetSource")
	if !c.need(ss != nil, "sourcewrap.Blank.SetSource") {
		return
	}
	c.analysed(relName(ss))
	name := relName(ss)
	fInner := w.field("sourcewrap", "Blank", "inner")
	var valueCall, reportCall, watchCall *ssa.Call
	for _, i := range allInstrs(ss) {
		ci, ok := i.(*ssa.Call)
		if !ok {
			continue
		}
		switch calleeFullName(ci) {
		case "(github.com/vimeo/dials.Source).Value":
			valueCall = ci
		case "(github.com/vimeo/dials.WatchArgs).BlockingReportNewValue":
			reportCall = ci
		case "(github.com/vimeo/dials.Watcher).Watch":
			watchCall = ci
		}
	}
	if !c.need(valueCall != nil && reportCall != nil && watchCall != nil && fInner != nil, "SetSource's calls to Source.Value, WatchArgs.BlockingReportNewValue, Watcher.Watch") {
		return
	}
	var valErr ssa.Value
	for _, r := range *valueCall.Referrers() {
		if e, ok := r.(*ssa.Extract); ok && e.Index == 1 {
			valErr = e
		}
	}
	nStores := 0
	for _, st := range w.storesToField(fInner) {
		if origin(st.Parent()) != ss {
			c.bad("setsource-order", relName(st.Parent())+"#inner-write", st.Pos(), "Blank.inner is written outside SetSource")
			continue
		}
		nStores++
		okd := valErr != nil && knownNil(st.Block(), valErr, true) && domI(valueCall, st)
		_, isParam := stripConv(st.Val).(*ssa.Parameter)
		c.check(okd && isParam, "setsource-order", name+"#inner-after-value", st.Pos(),
			"b.inner = s only after s.Value succeeded", "b.inner is assigned before/without a successful s.Value, or with something other than the argument")
	}
	if nStores == 0 {
		c.bad("setsource-order", name+"#inner-after-value", ss.Pos(), "SetSource never assigns b.inner")
	}
	// own ctx
	ctxArg := reportCall.Call.Args[0]
	p, isP := ctxArg.(*ssa.Parameter)
	c.check(isP && p.Parent() == ss, "setsource-order", name+"#own-ctx", reportCall.Pos(),
		"the blocking report is bounded by SetSource's own context argument", "the blocking report is not given SetSource's own context (it can block past the caller's context)")
	// reported value is Value's result
	var valRes ssa.Value
	for _, r := range *valueCall.Referrers() {
		if e, ok := r.(*ssa.Extract); ok && e.Index == 0 {
			valRes = e
		}
	}
	c.check(valRes != nil && reportCall.Call.Args[1] == valRes, "setsource-order", name+"#reports-value", reportCall.Pos(),
		"the value reported is what s.Value returned", "the value reported is not the result of s.Value")
	// nil return only after report nil; watch after report
	okNil := true
	for _, r := range returnsOf(ss) {
		rv := retVals(r)
		// (the report's result known nil here: a test of that result lies on every path to this return, so the report
		// has run - it need not dominate the return when it sits in a folded helper whose error outcome returns early)
		if isNilConst(rv[0]) && !knownNil(r.Block(), reportCall, true) {
			okNil = false
			c.bad("setsource-order", name+"#nil-after-report", r.Pos(), "SetSource returns nil without the blocking report having returned nil")
		}
	}
	if okNil {
		c.ok("setsource-order", name+"#nil-after-report", ss.Pos(), "nil is returned only after the blocking report returned nil")
	}
	c.check(knownNil(watchCall.Block(), reportCall, true), "setsource-order", name+"#watch-after-report", watchCall.Pos(),
		"the inner Watch is started only after the value was stacked", "the inner Watch is started before the value was stacked")
}

// c07Waits: every channel operation of f is in a select that also receives
// from Done() of one of f's own context parameters (or is non-blocking); the
// context arms lead to returns of non-nil errors.
func c07Waits(c *Ctx, f *ssa.Function, rule string) {
	name := relName(f)
	n := 0
	for _, i := range allInstrs(f) {
		switch x := i.(type) {
		case *ssa.Send:
			c.bad(rule, name+"#op", x.Pos(), "bare channel send outside a select with the context")
		case *ssa.UnOp:
			if x.Op == token.ARROW {
				c.bad(rule, name+"#op", x.Pos(), "bare channel receive outside a select with the context")
			}
		case *ssa.Select:
			n++
			if !x.Blocking {
				c.ok(rule, name+"#select", x.Pos(), "non-blocking select")
				continue
			}
			ctxState := -1
			for si, st := range x.States {
				if st.Dir != types.RecvOnly {
					continue
				}
				if cv, ok := isCtxDone(st.Chan); ok {
					if p, ok := cv.(*ssa.Parameter); ok && p.Parent() == f {
						ctxState = si
					}
				}
			}
			if ctxState < 0 {
				c.bad(rule, name+"#select", x.Pos(), "blocking select without a <-ctx.Done() arm of the function's own context")
				continue
			}
			// the ctx arm leads only to returns of a non-nil error (when f returns an error)
			okArm := true
			for _, r := range returnsOf(f) {
				for _, ec := range condsDominating(r.Block()) {
					if b, ok := ec.Cond.(*ssa.BinOp); ok && ec.Val && b.Op == token.EQL {
						if ex, ok := b.X.(*ssa.Extract); ok && ex.Tuple == ssa.Value(x) && ex.Index == 0 {
							if idx, ok := constInt(b.Y); ok && int(idx) == ctxState {
								rv := retVals(r)
								if len(rv) > 0 {
									last := rv[len(rv)-1]
									if isErrorType(last.Type()) && isNilConst(last) {
										okArm = false
									}
								}
							}
						}
					}
				}
			}
			c.check(okArm, rule, name+"#select", x.Pos(), "blocking select honours the caller's context; the context arm returns a failure", "the context arm returns success")
		}
	}
	if n == 0 {
		c.bad(rule, name+"#select", f.Pos(), "no select found")
	}
}

func isErrorType(t types.Type) bool {
	n, ok := t.(*types.Named)
	return ok && n.Obj().Pkg() == nil && n.Obj().Name() == "error"
}

// c07ReplyCapacity: every blocking report carries a freshly made reply channel with room for the one answer (shared with C20:
// a Blank's SetSource is a blocking report, and a monitor stuck on an unbuffered reply installs nothing any more).
func c07ReplyCapacity(c *Ctx) {
	w := c.W
	found := false
	for _, f := range w.funcsIn("") {
		for _, i := range allInstrs(f) {
			al, ok := i.(*ssa.Alloc)
			if !ok || litTypeName(al) != ".valueUpdate" {
				continue
			}
			inst := litField(al, "installed")
			if inst == nil {
				continue // non-blocking report: no reply channel
			}
			found = true
			mc, ok := stripConv(inst).(*ssa.MakeChan)
			if !ok {
				c.bad("reply-capacity", relName(f), al.Pos(), "the reply channel is not a freshly made channel")
				continue
			}
			n, isC := constInt(mc.Size)
			c.check(isC && n >= 1, "reply-capacity", relName(f), mc.Pos(), "reply channel has constant capacity >= 1", "reply channel is unbuffered (or of non-constant capacity): the monitor can block forever on a caller whose context ended")
		}
	}
	if !found {
		c.bad("reply-capacity", "valueUpdate.installed", 0, "no value update carries a reply channel")
	}

}
