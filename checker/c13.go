package main

import (
	"go/types"
	"strings"

	"golang.org/x/tools/go/ssa"
)

func init() {
	props["C13"] = &propMeta{
		run: runC13,
		explanation: "Cross-format equality of decoded values depends on four third-party parsers at run time and is not decided. Decided: the four decoders are instances of one pipeline (read everything; transformer over the requested type; " +
			"unmarshal the whole document into the address of the all-unset translated value with the library's whole-document entry point; reverse-translate that same value; every error returned with a zero value), differing only in the table " +
			"(library entry point, tag name the dials tag is copied to, duration substitution for JSON/Cue placed before the tag copy); TagCopyingMangler never overrides an existing format-specific tag; ParsingDuration accepts exactly strings " +
			"(time.ParseDuration) and integral numbers (Number.Int64) and turns everything else and every parse error into an error.",
		assumptions: []string{"encoding/json, yaml.v2, go-toml and cue decode into the given struct by its tags as documented and reject malformed documents"},
	}
}

func runC13(c *Ctx) {
	c13Rules(c, "")
	c13Body(c)
}

// c13Rules declares the decoder rules (prefix marks them as shared when another property runs them).
func c13Rules(c *Ctx, shared string) {
	c.rule("pipeline", "each decoder: read-all error -> return; transformer over t.Type(); target = Translate() result passed by address to the library's whole-document unmarshal of the bytes read; unmarshal error -> return; result = ReverseTranslate(target) with the same transformer; every error return carries the zero Value", 12)
	c.rule("entry-point", "each decoder hands the complete input to the library's whole-document entry point (json.Unmarshal, yaml.Unmarshal, toml.Unmarshal, cue CompileBytes + Err + Decode), which reject trailing garbage", 4)
	c.rule("tag-table", "each chain contains TagCopyingMangler{SrcTag: dials, NewTag: X} with X the tag its library reads: json->json, yaml->yaml, toml->toml, cue->json", 4)
	c.rule("duration", "JSON and Cue chains substitute time.Duration by jsontypes.ParsingDuration before the tag copy; ParsingDuration.UnmarshalJSON handles string (time.ParseDuration) and json.Number (Int64) and returns an error for every other token and every parse failure", 5)
	c.rule("specific-tag-wins", "TagCopyingMangler.Mangle changes the tag exactly when the source tag is non-empty and the destination tag is empty", 1)

	c.rule("zero-only-for-unset", "(shared with C10) reflect.Zero is handed back only under a true nil-ness test: an explicitly empty list/table in a document is not reported as unset", 7)
	c.rule("should-recurse-table", "(shared with C10) the manglers used in decoder chains recurse into nested structs unconditionally (ShouldRecurse is the constant true): a set / duration / tagged field inside a struct that is a slice element is translated like a top-level one", 4)
	c.rule("nonnil-preserved", "containers rebuilt when reversing the Duration substitution / set-to-slice manglers are make-built: an explicitly empty list or set in a document does not come back as unset; shared with C10", 3)
	c.rule("recursion-excludes-textm", "(shared with C10) the recursion every decoder chain relies on treats a text-unmarshalable field as a leaf: the field type itself and, after stripping the outer pointer / slice / array, the type a nested Transformer is created for are both tested (T and *T) not to implement encoding.TextUnmarshaler", 1)
	c.rule("value-pipeline", "(shared with C20) the transforming decoder (the set-to-slice / alias wrapper around a file decoder) translates the type it is called with, in that call: a Transformer or translated type kept from an earlier call belongs to another config type", 1)
	_ = shared
}

// c13Body runs the decoder rules (shared with C18: the ez entry points decode their file with these decoders).
func c13Body(c *Ctx) {
	c10RecursionExcludesTextM(c, "recursion-excludes-textm")
	if dec := c.W.fn("sourcewrap", "transformingDecoder.Decode"); dec != nil {
		c20Pipeline(c, dec, "("+modPath+".Decoder).Decode", "value-pipeline")
	}
	c10NonNil(c)
	c10ZeroOnlyUnset(c)
	for _, im := range manglerImpls(c) {
		switch im.name {
		case "transform.SetSliceMangler", "transform.TagCopyingMangler", "transform.SingleTypeSubstitutionMangler", "transform.AliasMangler", "transform.AnonymousFlattenMangler", "tagformat.TagReformattingMangler":
			c10ShouldRecurse(c, im)
		}
	}

	w := c.W
	type dec struct {
		rel, lib, tag string
		dur           bool
	}
	decs := []dec{
		{"decoders/json", "encoding/json.Unmarshal", "json", true},
		{"decoders/yaml", "gopkg.in/yaml.v2.Unmarshal", "yaml", false},
		{"decoders/toml", "github.com/pelletier/go-toml.Unmarshal", "toml", false},
		{"decoders/cue", "(cuelang.org/go/cue.Value).Decode", "json", true},
	}
	for _, d := range decs {
		f := w.fn(d.rel, "Decoder.Decode")
		if !c.need(f != nil, d.rel+".Decoder.Decode") {
			continue
		}
		c.analysed(relName(f))
		name := relName(f)
		var readAll, tr, lib, rev *ssa.Call
		for _, i := range allInstrs(f) {
			ci, ok := i.(*ssa.Call)
			if !ok {
				continue
			}
			switch n := calleeFullName(ci); {
			case n == "io.ReadAll" || n == "io/ioutil.ReadAll":
				readAll = ci
			case strings.HasSuffix(n, "transform.Transformer).Translate"):
				tr = ci
			case strings.HasSuffix(n, "transform.Transformer).ReverseTranslate"):
				rev = ci
			case n == d.lib:
				lib = ci
			}
		}
		if readAll == nil || tr == nil || rev == nil {
			c.bad("pipeline", name, f.Pos(), "decoder lacks ReadAll / Translate / ReverseTranslate")
			continue
		}
		if lib == nil {
			c.bad("entry-point", name, f.Pos(), "the decoder does not call %s (e.g. a streaming decoder accepts trailing garbage after the first value)", d.lib)
			continue
		}
		ext := func(call *ssa.Call, idx int) ssa.Value {
			for _, r := range *call.Referrers() {
				if e, ok := r.(*ssa.Extract); ok && e.Index == idx {
					return e
				}
			}
			return nil
		}
		bytesV, readErr := ext(readAll, 0), ext(readAll, 1)
		trVal, trErr := ext(tr, 0), ext(tr, 1)
		revVal, revErr := ext(rev, 0), ext(rev, 1)
		// reads the reader parameter
		_, rdParam := readAll.Call.Args[0].(*ssa.Parameter)
		// entry point gets all the bytes
		libArgs := callArgs(lib)
		okBytes := false
		var target ssa.Value
		switch d.rel {
		case "decoders/cue":
			// val := ctx.CompileBytes(raw); val.Err() tested; val.Decode(target)
			if cb, ok := libArgs[0].(*ssa.Call); ok && strings.HasSuffix(calleeFullName(cb), "cue.Context).CompileBytes") {
				for _, a := range cb.Call.Args {
					if a == bytesV {
						okBytes = true
					}
				}
				// Err() tested before Decode
				okErr := false
				for _, i := range allInstrs(f) {
					if ci, ok := i.(*ssa.Call); ok && calleeFullName(ci) == "(cuelang.org/go/cue.Value).Err" && domI(ci, lib) && knownNil(lib.Block(), ci, true) {
						okErr = true
					}
				}
				okBytes = okBytes && okErr
			}
			target = libArgs[1]
		default:
			okBytes = libArgs[0] == bytesV
			target = libArgs[1]
		}
		c.check(okBytes && rdParam, "entry-point", name, lib.Pos(), d.lib+" is given the complete bytes read from the reader", "the library entry point is not given the complete input read from the reader")
		// target = trVal.Addr().Interface()
		okTarget := derivesAll(target, func(x ssa.Value) bool { return x == trVal }, &flowOpts{through: map[string]bool{"(reflect.Value).Addr": true, "(reflect.Value).Interface": true}})
		usesAddr := false
		if call, ok := target.(*ssa.Call); ok && calleeFullName(call) == "(reflect.Value).Interface" {
			if a, ok := call.Call.Args[0].(*ssa.Call); ok && calleeFullName(a) == "(reflect.Value).Addr" {
				usesAddr = true
			}
		}
		// transformer over t.Type()
		okType := false
		for _, i := range allInstrs(f) {
			if ci, ok := i.(*ssa.Call); ok && calleeFullName(ci) == modPath+"/transform.NewTransformer" {
				if tc, ok := ci.Call.Args[0].(*ssa.Call); ok && calleeFullName(tc) == "(*"+modPath+".Type).Type" {
					if _, isP := tc.Call.Args[0].(*ssa.Parameter); isP && tr.Call.Args[0] == ssa.Value(ci) && rev.Call.Args[0] == ssa.Value(ci) {
						okType = true
					}
				}
			}
		}
		c.check(okTarget && usesAddr && okType && rev.Call.Args[1] == trVal && domI(tr, lib) && domI(lib, rev), "pipeline", name+"#shape", lib.Pos(),
			"unmarshal into the address of the all-unset Translate() value, then ReverseTranslate that value with the same transformer over t.Type()",
			"the decoder does not unmarshal into the address of the translated all-unset value and reverse-translate it (absent keys would not stay unset)")
		// error handling
		var libErr ssa.Value = lib
		errs := []ssa.Value{readErr, trErr, libErr, revErr}
		for _, r := range returnsOf(f) {
			rv := retVals(r)
			// tail call `return tfmr.ReverseTranslate(val)`: both results are handed through from the reverse translation,
			// which itself returns the zero Value with every error
			if rv[0] == revVal && revErr != nil && rv[1] == revErr {
				okT := true
				for _, e := range []ssa.Value{readErr, trErr, libErr} {
					if e == nil || !knownNil(r.Block(), e, true) {
						okT = false
					}
				}
				rt := w.fn("transform", "Transformer.ReverseTranslate")
				zeroOnErr := rt != nil
				if rt != nil {
					for _, rr := range returnsOf(rt) {
						rrv := retVals(rr)
						if isNilConst(rrv[1]) {
							continue
						}
						if cst, ok := rrv[0].(*ssa.Const); !ok || cst.Value != nil {
							zeroOnErr = false
						}
					}
				}
				c.check(okT && zeroOnErr, "pipeline", name+"#tail-return", r.Pos(), "the result of the reverse translation is returned as is (it carries the zero Value with every error) after the other three errors tested nil", "the reverse translation's results are passed through although it can return a non-zero value with an error, or an earlier error is not tested")
				continue
			}
			if isNilConst(rv[1]) {
				okS := rv[0] == revVal
				for _, e := range errs {
					if e == nil || !knownNil(r.Block(), e, true) {
						okS = false
					}
				}
				c.check(okS, "pipeline", name+"#success", r.Pos(), "success returns the reverse-translated value after all four errors tested nil", "a success return is not the reverse-translated value or skips an error test")
				continue
			}
			zero := false
			if ld, ok := rv[0].(*ssa.UnOp); ok {
				if al, ok := ld.X.(*ssa.Alloc); ok && len(*al.Referrers()) == 1 {
					zero = true
				}
			}
			if cst, ok := rv[0].(*ssa.Const); ok && cst.Value == nil {
				zero = true
			}
			known := false
			for _, e := range errs {
				if e != nil && knownNil(r.Block(), e, false) && errDerives(rv[1], func(v ssa.Value) bool { return v == e }) {
					known = true
				}
			}
			// cue: the compile error val.Err()
			if !known {
				if derivesAny(rv[1], func(x ssa.Value) bool {
					cc, ok := x.(*ssa.Call)
					return ok && calleeFullName(cc) == "(cuelang.org/go/cue.Value).Err"
				}, nil) || errDerivesCall(rv[1], "(cuelang.org/go/cue.Value).Err") {
					known = true
				}
			}
			c.check(zero && known, "pipeline", name+"#error", r.Pos(), "an error return carries the tested error and the zero Value (never the partially filled target)", "an error return carries a non-zero value or not the tested error")
		}
		// ---- chain --------------------------------------------------------------------
		_, chains := transformerChains(f)
		if len(chains) != 1 || chains[0] == nil {
			c.undecided("tag-table", name, f.Pos(), "cannot resolve the decoder's mangler chain")
			continue
		}
		ch := chains[0]
		copyIdx, durIdx := -1, -1
		for i, e := range ch {
			if e.Type == "tagformat.TagCopyingMangler" && e.Fields["SrcTag"] == "dials" && e.Fields["NewTag"] == d.tag && !e.Conditional {
				copyIdx = i
			}
			if strings.HasPrefix(e.Type, "transform.SingleTypeSubstitutionMangler") {
				durIdx = i
			}
		}
		c.check(copyIdx >= 0, "tag-table", name, f.Pos(), "chain "+chainString(ch)+" copies dials -> "+d.tag, "chain "+chainString(ch)+" has no unconditional TagCopyingMangler{SrcTag: dials, NewTag: "+d.tag+"}")
		if d.dur {
			okDur := durIdx >= 0 && durIdx < copyIdx
			if okDur {
				// the global's type arguments
				t := stripConv(ch[durIdx].Val).Type()
				ts := types.TypeString(t, nil)
				okDur = strings.Contains(ts, "time.Duration") && strings.Contains(ts, "jsontypes.ParsingDuration")
			}
			c.check(okDur, "duration", name+"#substitution", f.Pos(), "Duration -> ParsingDuration substitution precedes the tag copy", "the chain lacks the time.Duration -> jsontypes.ParsingDuration substitution before the tag copy")
		}
	}

	// ---- ParsingDuration.UnmarshalJSON ---------------------------------------------------
	uj := w.fn("decoders/json/jsontypes", "ParsingDuration.UnmarshalJSON")
	if c.need(uj != nil, "jsontypes.ParsingDuration.UnmarshalJSON") {
		c.analysed(relName(uj))
		var strArm, numArm *ssa.TypeAssert
		for _, i := range allInstrs(uj) {
			if ta, ok := i.(*ssa.TypeAssert); ok && ta.CommaOk {
				switch types.TypeString(ta.AssertedType, nil) {
				case "string":
					strArm = ta
				case "encoding/json.Number":
					numArm = ta
				}
			}
		}
		var pd, i64 *ssa.Call
		for _, i := range allInstrs(uj) {
			if ci, ok := i.(*ssa.Call); ok {
				switch calleeFullName(ci) {
				case "time.ParseDuration":
					pd = ci
				case "(encoding/json.Number).Int64":
					i64 = ci
				}
			}
		}
		c.check(strArm != nil && pd != nil && strArm.Block().Dominates(pd.Block()), "duration", relName(uj)+"#string", uj.Pos(), "string token -> time.ParseDuration", "string tokens are not parsed with time.ParseDuration")
		c.check(numArm != nil && i64 != nil && numArm.Block().Dominates(i64.Block()), "duration", relName(uj)+"#number", uj.Pos(), "number token -> Number.Int64 (exact integer nanoseconds)", "number tokens are not converted with json.Number.Int64 (a float conversion loses precision and accepts out-of-range values)")
		// every nil return is dominated by a successful parse of one of the two
		okNil := true
		for _, r := range returnsOf(uj) {
			if !isNilConst(retVals(r)[0]) {
				continue
			}
			okr := false
			for _, call := range []*ssa.Call{pd, i64} {
				if call == nil {
					continue
				}
				for _, rr := range *call.Referrers() {
					if e, ok := rr.(*ssa.Extract); ok && e.Index == 1 && knownNil(r.Block(), e, true) && domI(call, r) {
						okr = true
					}
				}
			}
			if !okr {
				okNil = false
			}
		}
		c.check(okNil, "duration", relName(uj)+"#errors", uj.Pos(), "nil is returned only after a successful ParseDuration / Int64; every other token or failure is an error", "UnmarshalJSON can return nil without a successful parse")
	}

	// ---- specific-tag-wins -----------------------------------------------------------------------
	mg := w.fn("tagformat", "TagCopyingMangler.Mangle")
	if c.need(mg != nil, "tagformat.TagCopyingMangler.Mangle") {
		c.analysed(relName(mg))
		// the store into sf.Tag: reached iff src != "" && dst == ""
		var st *ssa.Store
		var tagStores []*ssa.Store
		for _, i := range allInstrs(mg) {
			if s, ok := i.(*ssa.Store); ok {
				if fa, ok := s.Addr.(*ssa.FieldAddr); ok && fieldName(fa.X.Type(), fa.Field) == "Tag" {
					st = s
					tagStores = append(tagStores, s)
				}
			}
		}
		if st == nil {
			c.bad("specific-tag-wins", relName(mg), mg.Pos(), "Mangle never rewrites the tag")
		} else {
			pb := &predBuilder{name: func(v ssa.Value) string {
				cc, ok := v.(*ssa.Call)
				if !ok || calleeFullName(cc) != "(reflect.StructTag).Get" {
					return ""
				}
				if _, ok := loadOfTypeField(cc.Call.Args[1], "tagformat.TagCopyingMangler", "SrcTag"); ok {
					return "src"
				}
				if _, ok := loadOfTypeField(cc.Call.Args[1], "tagformat.TagCopyingMangler", "NewTag"); ok {
					return "dst"
				}
				return ""
			}}
			// the tag is rewritten when any of the rewriting stores is reached (one store per form of the new tag text)
			var g formula = fConst{false}
			for _, s := range tagStores {
				g = mkOr(g, pb.pathCond(mg.Blocks[0], s.Block()))
			}
			rows, counter := forAll(g, nil, func(e env, fv bool) bool { return fv == (!e.B["eq(src,\"\")"] && e.B["eq(dst,\"\")"]) })
			if counter != "" {
				c.bad("specific-tag-wins", relName(mg), st.Pos(), "the tag is rewritten under %s, not exactly src != \"\" && dst == \"\": %s", g, counter)
			} else {
				c.okRows("specific-tag-wins", relName(mg), st.Pos(), rows, "tag rewritten iff the source tag is non-empty and the destination tag is empty (%d assignments)", rows)
			}
		}
	}
}

// errDerivesCall: the error value wraps the result of a call to the named function.
func errDerivesCall(v ssa.Value, callee string) bool {
	return errDerives(v, func(x ssa.Value) bool {
		cc, ok := x.(*ssa.Call)
		return ok && calleeFullName(cc) == callee
	})
}
