package main

import (
	"go/token"
	"strings"

	"golang.org/x/tools/go/ssa"
)

func init() {
	props["C02"] = &propMeta{
		run: runC02,
		explanation: "Decides that no reference to caller-owned or source-owned memory can reach a published config except through the deep copier, and that the copier leaves no reference-bearing kind aliased: " +
			"Config only type-inspects and deep-copies the caller's defaults; compose merges into a fresh deep copy of the defaults and overlays a fresh deep copy of each slot value; slot values are only read; " +
			"everything published derives from a compose result; the copier's dispatch covers every reference-bearing kind, visits every exported field, and in each reference handler every exit that has not " +
			"installed fresh storage (or a memo hit) is explained by a nil input / an already-fresh output (universally quantified reaching-condition check). Not decided: deep equality of contents.",
		assumptions: []string{"Chan, Func and UnsafePointer values are shared by documented intent", "unexported fields are copied shallowly (documented)"},
	}
	props["C03"] = &propMeta{
		run: runC03,
		explanation: "Decides the termination/sharing mechanism of the deep copier for cyclic and shared graphs: every descent across a pointer edge or into a map's entries inside the copier's recursive component is dominated, in the same function, " +
			"by a memo lookup keyed on that reference whose hit branch returns, and by the memo registration; the interface handler contains no reference-crossing descent of its own; no member of the component starts a fresh copier (which would forget the memo); " +
			"and every output location handed to a descent inside a loop is allocated in that iteration (the memo stores locations). These are necessary for termination on cycles and identity preservation. Not decided: equality of copied contents; slices that contain themselves.",
		assumptions: []string{"reflect.Value.Pointer identifies pointers and maps"},
	}
}

type copier struct {
	dispatch, hStruct, hPtr, hIface, hMap, hSlice, hArray, valM *ssa.Function
	real, valF, newC                                            *ssa.Function
	scc                                                         map[*ssa.Function]bool
}

func loadCopier(c *Ctx) *copier {
	w := c.W
	cp := &copier{
		dispatch: w.fn("", "deepCopier.deepCopy"), hStruct: w.fn("", "deepCopier.deepCopyStruct"), hPtr: w.fn("", "deepCopier.deepCopyPtr"),
		hIface: w.fn("", "deepCopier.deepCopyIface"), hMap: w.fn("", "deepCopier.deepCopyMap"), hSlice: w.fn("", "deepCopier.deepCopySlice"),
		hArray: w.fn("", "deepCopier.deepCopyArray"), valM: w.fn("", "deepCopier.deepCopyValue"),
		real: w.fn("", "realDeepCopy"), valF: w.fn("", "deepCopyValue"), newC: w.fn("", "newDeepCopier"),
	}
	ok := cp.dispatch != nil && cp.hStruct != nil && cp.hPtr != nil && cp.hIface != nil && cp.hMap != nil && cp.hSlice != nil && cp.hArray != nil && cp.valM != nil && cp.real != nil && cp.newC != nil // the package-level deepCopyValue convenience wrapper is optional
	if !c.need(ok, "the deep copier functions (deepCopier.deepCopy and its handlers, realDeepCopy, deepCopyValue, newDeepCopier)") {
		return nil
	}
	// the recursive component: methods of deepCopier reachable from the dispatcher that reach it back
	cg := w.callGraph()
	fromD := cg.reachableFrom(cp.dispatch, false)
	cp.scc = map[*ssa.Function]bool{}
	for f := range fromD {
		if cg.reachableFrom(f, false)[cp.dispatch] {
			cp.scc[f] = true
		}
	}
	return cp
}

func isFreshAlloc(v ssa.Value) bool {
	return derivesAll(v, func(x ssa.Value) bool {
		call, ok := x.(*ssa.Call)
		if !ok {
			return false
		}
		switch calleeFullName(call) {
		case "reflect.New", "reflect.MakeSlice", "reflect.MakeMapWithSize", "reflect.MakeMap":
			return true
		}
		return false
	}, &flowOpts{through: map[string]bool{"(reflect.Value).Elem": true}})
}

func isMemoValue(v ssa.Value) bool {
	ex, ok := v.(*ssa.Extract)
	if !ok {
		return false
	}
	lk, ok := ex.Tuple.(*ssa.Lookup)
	if !ok || !lk.CommaOk {
		return false
	}
	_, isFld := lk.X.(*ssa.UnOp)
	return isFld && namedTypeName(lk.X.(*ssa.UnOp).X.(*ssa.FieldAddr).X.Type()) == ".deepCopier"
}

func runC02(c *Ctx) {
	c.rule("defaults-copied", "Config uses the caller's defaults pointer only for type inspection, the deep copy and error text; compose, Pointerify, the monitor and the Dials struct only see the copy", 1)
	c.rule("compose-fresh-base", "compose merges into and returns a deep copy of its defaults argument made inside compose (every version gets its own base)", 2)
	c.rule("source-copied", "the overlay operand of the merge in compose is a deep copy (made in that iteration) of the slot value; no path passes the slot value itself", 1)
	c.rule("slots-read-only", "slot values are written only by Config's initial fill and the identity-matched replacement in the update path", 2)
	c.rule("published-from-compose", "everything stored into the published version, sent on Events or placed in a new-config event derives from a compose result (shared with C04)", 2)
	c.rule("copier-exhaustive", "the copier's dispatcher routes every reference-bearing kind {Struct, Ptr, Interface, Map, Slice, Array} to a handler", 1)
	c.rule("copier-all-exported", "the struct handler descends into a field exactly when its name is exported (a field skipped for any other reason - e.g. a dials tag - would stay aliased)", 1)
	c.rule("copier-fresh", "in the pointer, map and slice handlers every return that has not installed freshly allocated storage (or a memo hit) into the output is explained by a nil input, an output that is already a different non-nil object, or an unsettable output; in the interface handler every reference-bearing payload kind is re-boxed from fresh storage", 4)
	c.rule("copier-state-fresh", "the constructors of the copier and of the overlayer return a struct allocated by that call with freshly made memo maps (no pooling or sharing of memo state between copies)", 2)
	c.rule("copier-elements-descend", "the array handler (also used for slice backing arrays) hands every element 0 <= z < Len to the dispatcher in a loop with no other exit, a return that skips the loop is only reachable for element kinds that cannot hold references, and the map handler's entry loop ends only on exhaustion", 2)
	c.rule("fresh-out-per-descent", "(shared with C03) inside the copier's loops the temporary output location handed to a descent is allocated in the same iteration: the map memo stores output locations, and through a reused temporary the source's own inner map ends up in the copy", 1)

	k := loadCore(c)
	if !k.ok {
		return
	}
	cp := loadCopier(c)
	if cp == nil {
		return
	}
	w := c.W
	c.analysed(relName(k.config))
	c.analysed(relName(k.compose))
	for f := range cp.scc {
		c.analysed(relName(f))
	}

	// ---- defaults-copied ---------------------------------------------------------
	f := k.config
	var tParam *ssa.Parameter
	for _, p := range f.Params {
		if pt, ok := p.Type().Underlying().(interface{ Elem() interface{} }); ok {
			_ = pt
		}
	}
	// the *T parameter: the one passed (boxed) to realDeepCopy
	for _, ci := range callsToFn(f, cp.real) {
		if p, ok := stripConv(ci.Common().Args[0]).(*ssa.Parameter); ok {
			tParam = p
		}
	}
	if tParam == nil {
		c.bad("defaults-copied", relName(f), f.Pos(), "Config does not deep-copy its defaults argument")
	} else {
		bad := ""
		var visit func(v ssa.Value)
		seen := map[ssa.Value]bool{}
		visit = func(v ssa.Value) {
			if seen[v] {
				return
			}
			seen[v] = true
			for _, r := range *v.Referrers() {
				switch x := r.(type) {
				case *ssa.MakeInterface:
					visit(x)
				case *ssa.ChangeType:
					visit(x)
				case *ssa.DebugRef:
				case *ssa.Store:
					// boxed into a varargs slot of fmt.Errorf
					if ia, ok := x.Addr.(*ssa.IndexAddr); ok {
						if al, ok := ia.X.(*ssa.Alloc); ok && al.Comment == "varargs" {
							continue
						}
					}
					bad = "the defaults pointer is stored at " + w.pos(x.Pos())
				case ssa.CallInstruction:
					switch calleeFullName(x) {
					case "reflect.TypeOf", "fmt.Errorf", "fmt.Sprintf":
					default:
						if staticCallee(x) == origin(cp.real) {
							continue
						}
						bad = "the defaults pointer is passed to " + calleeFullName(x) + " at " + w.pos(x.Pos())
					}
				default:
					bad = "the defaults pointer is used by " + r.String() + " at " + w.pos(r.Pos())
				}
			}
		}
		visit(tParam)
		c.check(bad == "", "defaults-copied", relName(f), tParam.Pos(), "the caller's defaults are only type-inspected, deep-copied and printed", bad)
	}

	// ---- compose-fresh-base ---------------------------------------------------------------
	c05ComposeFresh(c, k, "compose-fresh-base")

	// ---- source-copied ------------------------------------------------------------------------
	c02SourceCopied(c, k, cp, "source-copied")

	// ---- slots-read-only ------------------------------------------------------------------------
	c05Slots2(c, k, "slots-read-only")

	// ---- published-from-compose --------------------------------------------------------------------
	for _, sf := range k.storeFns {
		cs := callsToFn(sf, k.compose)
		if len(cs) != 1 {
			continue
		}
		composeCall := cs[0].(*ssa.Call)
		isRes := func(v ssa.Value) bool {
			e, ok := v.(*ssa.Extract)
			return ok && e.Tuple == ssa.Value(composeCall) && e.Index == 0
		}
		for _, sc := range k.storeCalls {
			if origin(sc.Parent()) != sf {
				continue
			}
			args := callArgs(sc)
			stored := litField(stripConv(args[len(args)-1]), "cfg")
			c.check(stored != nil && derivesAll(stored, isRes, nil), "published-from-compose", relName(sf)+"#store", sc.Pos(), "published cfg is the compose result", "published cfg does not derive from the compose result")
		}
		for _, op := range k.eventsSendsIn(sf) {
			c.check(derivesAll(op.Val, isRes, nil), "published-from-compose", relName(sf)+"#events", op.Instr.Pos(), "Events value is the compose result", "Events value does not derive from the compose result")
		}
	}

	// ---- copier-exhaustive ----------------------------------------------------------------------------
	d := cp.dispatch
	inP := d.Params[1]
	kindAtom := "(reflect.Value).Kind(" + inP.Name() + ")"
	pb := &predBuilder{}
	routed := map[int64]bool{}
	for _, i := range allInstrs(d) {
		ci, ok := i.(*ssa.Call)
		if !ok {
			continue
		}
		callee := staticCallee(ci)
		if callee == nil || !cp.scc[callee] || callee == d {
			continue
		}
		g := pb.pathCond(d.Blocks[0], ci.Block())
		for kk := range kindsWhere(g, kindAtom) {
			routed[kk] = true
		}
	}
	missing := []string{}
	for _, kk := range []int64{kStruct, kPtr, kInterface, kMap, kSlice, kArray} {
		if !routed[kk] {
			missing = append(missing, kindNames[kk])
		}
	}
	c.check(len(missing) == 0, "copier-exhaustive", relName(d), d.Pos(), "kinds routed to handlers: "+kindSetString(routed), "reference-bearing kinds without a handler (left aliased by the initial shallow Set): "+strings.Join(missing, ","))

	// ---- copier-all-exported ------------------------------------------------------------------------------
	c02AllExported(c, cp, "copier-all-exported")
	c03FreshOutPerDescent(c, cp, "fresh-out-per-descent")

	// ---- copier-fresh ----------------------------------------------------------------------------------------
	c02CopierFreshAll(c, cp)

	// ---- copier-elements-descend -----------------------------------------------------------------------------
	c02ElementsDescend(c, cp, "copier-elements-descend")
	c02CopierStateFresh(c, cp, "copier-state-fresh")
}

func c05Slots2(c *Ctx, k *core, rule string) {
	w := c.W
	fSlotVal := w.field("", "sourceValue", "value")
	fUpdVal := w.field("", "valueUpdate", "value")
	if !c.need(fSlotVal != nil && fUpdVal != nil, "dials.sourceValue.value / valueUpdate.value") {
		return
	}
	for _, st := range w.storesToField(fSlotVal) {
		f := origin(st.Parent())
		isStoreFn := false
		for _, sf := range k.storeFns {
			if sf == f {
				isStoreFn = true
			}
		}
		_, isUpd := isFieldLoad(st.Val, fUpdVal)
		c.check(f == k.config || (isStoreFn && isUpd), rule, relName(f)+"#slot-write", st.Pos(),
			"slot written by Config's fill / replaced by the reported value", "a slot value is written elsewhere or with something other than the reported value")
	}
	for _, st := range w.wholeStoresOfNamed("sourceValue") {
		f := origin(st.Parent())
		c.check(f == k.config, rule, relName(f)+"#slot-overwrite", st.Pos(), "whole slot written by Config's initial fill",
			"a whole source slot is overwritten outside Config's initial fill: the layer's stored value is lost (the next re-stack no longer contains what that source set)")
	}
	// nobody Sets through a slot value
	for _, f := range w.funcsIn("") {
		for _, i := range allInstrs(f) {
			ci, ok := i.(*ssa.Call)
			if !ok || calleeFullName(ci) != "(reflect.Value).Set" {
				continue
			}
			if derivesAny(ci.Call.Args[0], func(x ssa.Value) bool { _, ok := isFieldLoad(x, fSlotVal); return ok }, &flowOpts{through: map[string]bool{"(reflect.Value).Elem": true, "(reflect.Value).Field": true}}) {
				c.bad(rule, relName(f)+"#set-through-slot", ci.Pos(), "reflect Set through a slot value (the source's value would be modified)")
			}
		}
	}
}

// c02Fresh: handler h(in, out): returns not preceded by a fresh/memo Set(out, ..)
// must be explained.
func c02Fresh(c *Ctx, h *ssa.Function) {
	in, out := h.Params[1], h.Params[2]
	fresh := map[*ssa.BasicBlock]bool{}
	nF := 0
	for _, i := range allInstrs(h) {
		ci, ok := i.(*ssa.Call)
		if !ok || calleeFullName(ci) != "(reflect.Value).Set" || ci.Call.Args[0] != ssa.Value(out) {
			continue
		}
		if isFreshAlloc(ci.Call.Args[1]) || isMemoValue(ci.Call.Args[1]) {
			fresh[ci.Block()] = true
			nF++
		}
	}
	name := relName(h)
	if nF == 0 {
		c.bad("copier-fresh", name, h.Pos(), "the handler never installs freshly allocated storage into its output")
		return
	}
	nilIn := "(reflect.Value).IsNil(" + in.Name() + ")"
	nilOut := "(reflect.Value).IsNil(" + out.Name() + ")"
	canSet := "(reflect.Value).CanSet(" + out.Name() + ")"
	pIn := "(reflect.Value).Pointer(" + in.Name() + ")"
	pOut := "(reflect.Value).Pointer(" + out.Name() + ")"
	pb := &predBuilder{}
	rows := 0
	bad := false
	for _, r := range returnsOf(h) {
		if fresh[r.Block()] {
			continue
		}
		// a return dominated by a fresh block is fine
		dom := false
		for b := range fresh {
			if b.Dominates(r.Block()) {
				dom = true
			}
		}
		if dom {
			continue
		}
		g := pb.pathCondAvoid(h.Blocks[0], r.Block(), fresh)
		fb, fi := map[string]bool{}, map[string]bool{}
		atomsOf(g, fb, fi)
		n, counter := forAll(g, nil, func(e env, fv bool) bool {
			if !fv {
				return true
			}
			// a reason only counts if the path actually tested it
			if fb[nilIn] && e.B[nilIn] {
				return true
			}
			if fb[nilOut] && fi[pOut] && fi[pIn] && !e.B[nilOut] && e.I[pOut] != e.I[pIn] {
				return true
			}
			return fb[canSet] && !e.B[canSet]
		})
		rows += n
		if counter != "" {
			bad = true
			c.bad("copier-fresh", name+"#return", r.Pos(), "a return is reachable without fresh storage having been installed although the input is non-nil and the output still aliases it: %s", counter)
		}
	}
	if !bad {
		c.okRows("copier-fresh", name, h.Pos(), rows, "every exit without fresh storage is explained by nil input / already-distinct output / unsettable output (%d assignments)", rows)
	}
}

func c02FreshIface(c *Ctx, h *ssa.Function) {
	in, out := h.Params[1], h.Params[2]
	name := relName(h)
	fresh := map[*ssa.BasicBlock]bool{}
	for _, i := range allInstrs(h) {
		ci, ok := i.(*ssa.Call)
		if !ok || calleeFullName(ci) != "(reflect.Value).Set" || ci.Call.Args[0] != ssa.Value(out) {
			continue
		}
		if isFreshAlloc(ci.Call.Args[1]) {
			fresh[ci.Block()] = true
		}
	}
	elem := "(reflect.Value).Elem(" + in.Name() + ")"
	kindAtom := "(reflect.Value).Kind(" + elem + ")"
	nilIn := "(reflect.Value).IsNil(" + in.Name() + ")"
	nilElem := "(reflect.Value).IsNil(" + elem + ")"
	pb := &predBuilder{}
	rows, bad := 0, false
	for _, r := range returnsOf(h) {
		dom := fresh[r.Block()]
		for b := range fresh {
			if b.Dominates(r.Block()) {
				dom = true
			}
		}
		if dom {
			continue
		}
		g := pb.pathCondAvoid(h.Blocks[0], r.Block(), fresh)
		fbI, fiI := map[string]bool{}, map[string]bool{}
		atomsOf(g, fbI, fiI)
		n, counter := forAll(g, map[string][]int64{kindAtom: allKinds}, func(e env, fv bool) bool {
			if !fv {
				return true
			}
			if !fiI[kindAtom] {
				return fbI[nilIn] && e.B[nilIn] // a return that does not depend on the payload kind: only for a nil interface
			}
			switch e.I[kindAtom] {
			case kPtr, kMap, kStruct, kSlice, kArray:
				return fbI[nilIn] && e.B[nilIn] || fbI[nilElem] && e.B[nilElem]
			}
			return true
		})
		rows += n
		if counter != "" {
			bad = true
			c.bad("copier-fresh", name+"#return", r.Pos(), "an interface payload of a reference-bearing kind is left as boxed by the shallow copy: %s", counter)
		}
	}
	if !bad {
		c.okRows("copier-fresh", name, h.Pos(), rows, "every non-nil Ptr/Map/Struct/Slice/Array payload is re-boxed from freshly allocated storage (%d assignments)", rows)
	}
}

// =====================================================================================
// C03

func runC03(c *Ctx) {
	c.rule("scc-closed", "the copier's recursive component consists of the dispatcher and its six handlers (a new member must satisfy the rules below)", 1)
	c.rule("ptr-descent-memo", "every pointer dereference (Elem of a non-interface value) feeding a descent inside the component is dominated, in the same function, by a lookup in the pointer memo whose hit branch returns, and by the memo registration for that pointer", 1)
	c.rule("slice-descent-memo", "the elements of a slice are descended into only after a lookup in (and registration with) a memo keyed on the input slice, as for pointers and maps (a slice can contain itself through an interface element)", 1)
	c.rule("map-descent-memo", "iteration over a map's entries inside the component is dominated by a lookup in the map memo keyed on the input map whose hit branch returns (the hit condition may only be conjoined with settable-ness of the output), and by the memo registration", 1)
	c.rule("iface-routes-through-handlers", "the interface handler unwraps only the interface itself: it contains no pointer dereference or map iteration of its own (Ptr/Map payloads go through the memoising handlers)", 1)
	c.rule("single-memo", "no member of the component creates a fresh copier (newDeepCopier / package-level deepCopyValue / realDeepCopy): a fresh memo forgets cycles and sharing", 1)
	c.rule("copier-all-exported", "the struct handler descends into a field exactly when its name is exported (a reference in a field skipped for any other reason keeps pointing into the input graph)", 1)
	c.rule("fresh-out-per-descent", "inside loops of the component, the output location passed to a descent is allocated in the same iteration (the memo stores output locations, so a reused temporary would be overwritten)", 1)
	c.rule("value-recursion-guarded", "outside the copier, the places that follow config values through interface fields (Pointerify narrowing an interface field to its default's concrete type; the overlay merging two interface-held pointees of one type) consult a visited set keyed on the pointer followed, and the overlay dereferences its operand only where it is a pointer", 4)
	c.rule("out-settable", "Ptr/Map payloads of interface values, and deepCopyValue, copy into an addressable temporary reflect.New(T).Elem() (the map handler honours its memo only for settable outputs)", 2)
	c.rule("same-pointer-installed", "in the leaf overlay a nil base pointer whose pointee type equals the layer's receives the layer's pointer itself (the copier memoised it for every other reference to the node)", 1)
	c.rule("overlay-not-recopied", "no overlayer method feeds (a part of) its overlay operand - this stack's private deep copy of the source value - to the deep copier again (a second copy splits the identity of the pointers inside it)", 3)
	c.rule("no-write-through", "(shared with C01) the leaf overlay replaces a pointer-typed leaf, it never writes through the base pointer outside the text-unmarshaler arm (pointers the layer shares between fields must stay one pointer)", 1)
	c.rule("slice-window", "every slice the copier pre-allocates has the length and capacity of its input (the slice handler copies the whole capacity window)", 2)
	c.rule("copier-fresh", "(shared with C02) references in the result are fresh: every exit of the pointer/map/slice handlers without fresh storage is explained by nil input / already-distinct output / unsettable output; interface payloads are re-boxed", 4)
	c.rule("copier-state-fresh", "(shared with C02) memo state never survives from one copy to the next", 2)
	c.rule("copier-elements-descend", "(shared with C02) every array/slice element and every map entry is visited", 2)
	c.rule("source-copied", "(shared with C02) compose overlays a per-stack deep copy of every slot value, on every path", 1)
	c.rule("compose-fresh-base", "(shared with C02) compose merges into a deep copy of the defaults made inside compose", 2)

	cp := loadCopier(c)
	if cp == nil {
		return
	}
	if k := loadCore(c); k.ok {
		c02SourceCopied(c, k, cp, "source-copied")
		c05ComposeFresh(c, k, "compose-fresh-base")
	}
	c02CopierFreshAll(c, cp)
	c02ElementsDescend(c, cp, "copier-elements-descend")
	c02CopierStateFresh(c, cp, "copier-state-fresh")
	c03OutSettable(c, cp, "out-settable")
	c03ValueRecursion(c, "value-recursion-guarded")
	c03SamePointerInstalled(c, "same-pointer-installed")
	c03SliceWindow(c, cp, "slice-window")
	c03OverlayNotRecopied(c, cp, "overlay-not-recopied")
	if leaf := c.W.fn("", "overlayer.overlayField"); leaf != nil {
		c01NoWriteThrough(c, leaf)
	}
	for f := range cp.scc {
		c.analysed(relName(f))
	}
	want := []*ssa.Function{cp.dispatch, cp.hStruct, cp.hPtr, cp.hIface, cp.hMap, cp.hSlice, cp.hArray}
	okS := len(cp.scc) == len(want)
	for _, f := range want {
		if !cp.scc[f] {
			okS = false
		}
	}
	names := map[string]bool{}
	for f := range cp.scc {
		names[relName(f)] = true
	}
	c.check(okS, "scc-closed", "copier", cp.dispatch.Pos(), "recursive component = "+joinKeys(names), "the recursive component changed: "+joinKeys(names)+" (new members need their own memo review)")

	isSCCCall := func(i ssa.Instruction) *ssa.Call {
		ci, ok := i.(*ssa.Call)
		if !ok {
			return nil
		}
		if callee := staticCallee(ci); callee != nil && cp.scc[callee] && len(ci.Call.Args) == 3 {
			return ci // a descent: handler(d, in, out)
		}
		return nil
	}
	memoLookup := func(f *ssa.Function, fld string) (*ssa.Lookup, bool) {
		for _, i := range allInstrs(f) {
			if lk, ok := i.(*ssa.Lookup); ok && lk.CommaOk {
				if ld, ok := lk.X.(*ssa.UnOp); ok {
					if fa, ok := ld.X.(*ssa.FieldAddr); ok && fieldName(fa.X.Type(), fa.Field) == fld {
						return lk, true
					}
				}
			}
		}
		return nil, false
	}
	memoUpdate := func(f *ssa.Function, fld string) *ssa.MapUpdate {
		for _, i := range allInstrs(f) {
			if mu, ok := i.(*ssa.MapUpdate); ok {
				if ld, ok := mu.Map.(*ssa.UnOp); ok {
					if fa, ok := ld.X.(*ssa.FieldAddr); ok && fieldName(fa.X.Type(), fa.Field) == fld {
						return mu
					}
				}
			}
		}
		return nil
	}
	// hitReturns: the branch where the lookup's ok is true (possibly && CanSet(out)) leads to a return without a descent
	hitReturns := func(f *ssa.Function, lk *ssa.Lookup) (bool, string) {
		var okV ssa.Value
		for _, r := range *lk.Referrers() {
			if ex, ok := r.(*ssa.Extract); ok && ex.Index == 1 {
				okV = ex
			}
		}
		if okV == nil {
			return false, "the lookup's ok result is unused"
		}
		pb := &predBuilder{name: func(v ssa.Value) string {
			if v == okV {
				return "hit"
			}
			if cc, ok := v.(*ssa.Call); ok && calleeFullName(cc) == "(reflect.Value).CanSet" {
				return "canset"
			}
			return ""
		}}
		// the first descent after the lookup must be unreachable when hit && canset
		for _, i := range allInstrs(f) {
			ci := isSCCCall(i)
			if ci == nil || !domI(lk, ci) {
				continue
			}
			g := pb.pathCond(lk.Block(), ci.Block())
			fb, fi := map[string]bool{}, map[string]bool{}
			atomsOf(g, fb, fi)
			_, counter := forAll(g, nil, func(e env, fv bool) bool { return !(fv && e.B["hit"] && (!fb["canset"] || e.B["canset"])) })
			if counter != "" {
				return false, "a descent is reachable on a memo hit: " + counter
			}
			if !fb["hit"] {
				return false, "the descent does not depend on the memo lookup"
			}
		}
		return true, ""
	}

	// ---- pointer dereferences ---------------------------------------------------------------
	nPtr := 0
	for f := range cp.scc {
		for _, i := range allInstrs(f) {
			ci := isSCCCall(i)
			if ci == nil {
				continue
			}
			inArg := ci.Call.Args[1]
			el, ok := inArg.(*ssa.Call)
			if !ok || calleeFullName(el) != "(reflect.Value).Elem" {
				continue
			}
			subj := el.Call.Args[0]
			// interface unwrap: Elem of the interface handler's own input
			if f == cp.hIface && subj == ssa.Value(f.Params[1]) {
				continue
			}
			if f == cp.hIface {
				c.bad("iface-routes-through-handlers", relName(f)+"#deref", ci.Pos(), "the interface handler dereferences %s itself and descends: cycles and sharing through interface values bypass the memo", canon(subj))
				continue
			}
			nPtr++
			name := relName(f) + "#deref"
			lk, okL := memoLookup(f, "ptrMap")
			mu := memoUpdate(f, "ptrMap")
			switch {
			case !okL || !domI(lk, ci):
				c.bad("ptr-descent-memo", name, ci.Pos(), "pointer dereference + descent without a dominating lookup in the pointer memo (cyclic graphs never terminate)")
			case mu == nil || !domI(mu, ci):
				c.bad("ptr-descent-memo", name, ci.Pos(), "the pointer is not registered in the memo before the descent (a cycle back to it would not be recognised)")
			default:
				okH, why := hitReturns(f, lk)
				// the key is built from the dereferenced value
				keyOK := derivesAny(lk.Index, func(x ssa.Value) bool {
					cc, ok := x.(*ssa.Call)
					return ok && calleeFullName(cc) == "(reflect.Value).Pointer" && sameValue(cc.Call.Args[0], subj)
				}, nil)
				c.check(okH && keyOK, "ptr-descent-memo", name, ci.Pos(), "memo lookup keyed on the pointer dominates the dereference; a hit returns; registration precedes the descent", "memo discipline broken: "+why+" keyOnSubject="+boolStr(keyOK))
			}
		}
	}
	if nPtr == 0 {
		c.bad("ptr-descent-memo", "copier", cp.hPtr.Pos(), "no pointer dereference found in the copier")
	}
	// ---- map iteration -----------------------------------------------------------------------------
	nMap := 0
	for f := range cp.scc {
		for _, i := range allInstrs(f) {
			ci, ok := i.(*ssa.Call)
			if !ok || calleeFullName(ci) != "(reflect.Value).MapRange" && calleeFullName(ci) != "(reflect.Value).MapKeys" {
				continue
			}
			if f == cp.hIface {
				c.bad("iface-routes-through-handlers", relName(f)+"#maprange", ci.Pos(), "the interface handler iterates a map payload itself")
				continue
			}
			nMap++
			name := relName(f) + "#maprange"
			lk, okL := memoLookup(f, "mapMap")
			mu := memoUpdate(f, "mapMap")
			switch {
			case !okL || !domI(lk, ci):
				c.bad("map-descent-memo", name, ci.Pos(), "map iteration without a dominating lookup in the map memo")
			case mu == nil || !domI(mu, ci):
				c.bad("map-descent-memo", name, ci.Pos(), "the map is not registered in the memo before its entries are copied")
			default:
				okH, why := hitReturns(f, lk)
				keyOK := canon(lk.Index) == "(reflect.Value).Pointer("+canon(ci.Call.Args[0])+")"
				c.check(okH && keyOK, "map-descent-memo", name, ci.Pos(), "memo lookup keyed on the input map dominates the iteration; a hit returns; registration precedes the iteration", "memo discipline broken: "+why+" keyOnInput="+boolStr(keyOK))
			}
		}
	}
	if nMap == 0 {
		c.bad("map-descent-memo", "copier", cp.hMap.Pos(), "no map iteration found in the copier")
	}
	// ---- slice descent -------------------------------------------------------------------------------
	// a slice can be reached from its own elements (through an interface element: s[0] = s); like pointers and maps
	// its elements may only be descended into after a memo keyed on the input slice was consulted and updated
	{
		f := cp.hSlice
		var descent *ssa.Call
		for _, i := range allInstrs(f) {
			if ci, ok := i.(*ssa.Call); ok {
				if callee := staticCallee(ci); callee != nil && (callee == origin(cp.hArray) || callee == origin(cp.dispatch)) {
					descent = ci
				}
			}
		}
		name := relName(f) + "#elements"
		if descent == nil {
			c.bad("slice-descent-memo", name, f.Pos(), "the slice handler does not descend into the elements")
		} else {
			var lk *ssa.Lookup
			var mu *ssa.MapUpdate
			for _, i := range allInstrs(f) {
				switch x := i.(type) {
				case *ssa.Lookup:
					if x.CommaOk && reachableFromRecv(f, x.X) && domI(x, descent) {
						lk = x
					}
				case *ssa.MapUpdate:
					if reachableFromRecv(f, x.Map) && domI(x, descent) {
						mu = x
					}
				}
			}
			switch {
			case lk == nil:
				c.bad("slice-descent-memo", name, descent.Pos(), "the elements of a slice are descended into without a dominating lookup in a memo of the copier: a slice that is reachable from its own elements (s[0] = s through an interface element) is copied forever - Config dies with a stack overflow")
			case mu == nil:
				c.bad("slice-descent-memo", name, descent.Pos(), "the slice is not registered in a memo before its elements are copied")
			default:
				okH, why := hitReturns(f, lk)
				keyOK := derivesAny(lk.Index, func(x ssa.Value) bool {
					cc, ok := x.(*ssa.Call)
					return ok && calleeFullName(cc) == "(reflect.Value).Pointer" && cc.Call.Args[0] == ssa.Value(f.Params[1])
				}, nil)
				c.check(okH && keyOK, "slice-descent-memo", name, descent.Pos(), "memo lookup keyed on the input slice dominates the descent; a hit returns; registration precedes the descent", "memo discipline broken: "+why+" keyOnInput="+boolStr(keyOK))
			}
		}
	}
	// the interface handler obligation (counted once when clean)
	clean := true
	for _, o := range c.Obs {
		if o.Rule == "iface-routes-through-handlers" && o.Verdict != OK {
			clean = false
		}
	}
	if clean {
		c.ok("iface-routes-through-handlers", relName(cp.hIface), cp.hIface.Pos(), "the interface handler only unwraps the interface; Ptr/Map payloads are copied by the memoising handlers")
	}

	c02AllExported(c, cp, "copier-all-exported")

	// ---- single-memo -------------------------------------------------------------------------------------
	bad := false
	for f := range cp.scc {
		for _, i := range allInstrs(f) {
			ci, ok := i.(ssa.CallInstruction)
			if !ok {
				continue
			}
			callee := staticCallee(ci)
			if callee != nil && (callee == origin(cp.newC) || callee == origin(cp.valF) || callee == origin(cp.real)) {
				bad = true
				c.bad("single-memo", relName(f)+"#fresh-copier", ci.Pos(), "%s starts a fresh copier inside the recursive component: pointers/maps reachable from here lose their identity and cycles through here never terminate", relName(callee))
			}
		}
	}
	if !bad {
		c.ok("single-memo", "copier", cp.dispatch.Pos(), "no member of the recursive component creates a fresh copier")
	}

	c03FreshOutPerDescent(c, cp, "fresh-out-per-descent")
	_ = token.ADD
}

func boolStr(b bool) string {
	if b {
		return "true"
	}
	return "false"
}

func c02AllExported(c *Ctx, cp *copier, rule string) {
	d := cp.dispatch
	s := cp.hStruct
	n := 0
	for _, ci := range callsToFn(s, d) {
		n++
		call := ci.(*ssa.Call)
		// loop body entry: block defining the field operand
		fv, ok := call.Call.Args[1].(ssa.Instruction)
		if !ok {
			c.undecided(rule, relName(s), call.Pos(), "field operand not computed in the loop")
			continue
		}
		pbx := &predBuilder{name: func(v ssa.Value) string {
			if cc, ok := v.(*ssa.Call); ok {
				switch calleeFullName(cc) {
				case "go/token.IsExported", "go/ast.IsExported", "(reflect.StructField).IsExported":
					return "exported"
				}
			}
			return ""
		}}
		from := fv.Block()
		if e := loopBodyEntry(call.Block()); e != nil && (e == from || e.Dominates(from)) {
			from = e // the whole loop body up to the descent, wherever the field operand is computed
		}
		g := pbx.pathCond(from, call.Block())
		c.checkTable(rule, relName(s), call.Pos(), g, []string{"exported"}, nil, "field name is exported", func(e env) bool { return e.B["exported"] })
	}
	if n == 0 {
		c.bad(rule, relName(s), s.Pos(), "the struct handler does not descend into fields")
	}
	// ... and the field loop ends only by exhaustion: a return / break on a skipped field leaves every later field shallow-copied
	for li, h := range loopHeaders(s) {
		ex := earlyLoopExits(s, h, false)
		pos := s.Pos()
		if len(ex) > 0 {
			for _, i := range ex[0].Instrs {
				if i.Pos().IsValid() {
					pos = i.Pos()
				}
			}
		}
		c.check(len(ex) == 0, rule, relName(s)+"#loop#"+itoa(li+1), pos, "the field loop visits every field (no break, no return)", "the field loop of the struct handler can stop early (a return or break where a skipped field should only be skipped): every field after it keeps pointing into the input graph")
	}
}

// c03FreshOutPerDescent (shared by C02 and C03): inside loops of the copier's recursive component, a temporary output
// location handed to a descent is allocated in that very iteration. The map memo stores output *locations*; a
// temporary hoisted out of the entry loop is overwritten by the next entry, so a shared inner map resolves to whatever
// the scratch value holds - the source's own map ends up in the copy (isolation, C02) and identity is lost (C03).
func c03FreshOutPerDescent(c *Ctx, cp *copier, rule string) {
	isSCCCall := func(i ssa.Instruction) *ssa.Call {
		ci, ok := i.(*ssa.Call)
		if !ok {
			return nil
		}
		if callee := staticCallee(ci); callee != nil && cp.scc[callee] && len(ci.Call.Args) == 3 {
			return ci
		}
		return nil
	}
	n := 0
	for f := range cp.scc {
		for _, i := range allInstrs(f) {
			ci := isSCCCall(i)
			if ci == nil || !inLoop(ci) {
				continue
			}
			outArg := ci.Call.Args[2]
			// only temporaries created with reflect.New matter (Index/Field of the real output are distinct per iteration by construction)
			var newCall *ssa.Call
			derivesAll(outArg, func(x ssa.Value) bool {
				if cc, ok := x.(*ssa.Call); ok && calleeFullName(cc) == "reflect.New" {
					newCall = cc
					return true
				}
				return false
			}, &flowOpts{through: map[string]bool{"(reflect.Value).Elem": true}})
			if newCall == nil {
				continue
			}
			n++
			c.check(inLoop(newCall) && newCall.Block() == ci.Block() || newCall.Block().Dominates(ci.Block()) && inLoop(newCall), rule, relName(f)+"#temp", ci.Pos(),
				"the temporary output is allocated in the same iteration as the descent", "a temporary output location allocated outside the loop is reused across iterations (memo entries would point at a location that is overwritten)")
		}
	}
	if n == 0 {
		c.bad(rule, "copier", cp.hMap.Pos(), "no per-iteration temporaries found (map entries)")
	}
}
