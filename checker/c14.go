package main

import (
	"go/token"
	"strings"

	"golang.org/x/tools/go/ssa"
)

func init() {
	props["C14"] = &propMeta{
		run: runC14,
		explanation: "Decides the placement and wiring of aliases: in every chain that contains the alias mangler (env, flag, pflag, ez's file decoder) it is the first mangler and is constructed with the documented tag list; " +
			"its Unmangle reports an error naming the field exactly when both copies are set and otherwise returns a copy that was tested set (or an unset one); all 'is set' tests use one kind-total predicate " +
			"(the mangler recurses into slice/array element structs whose fields are not pointerified); the mangler recurses into both copies. Not decided: the produced names/values.",
		assumptions: []string{"the positional bookkeeping of the transformer is as decided under C10"},
	}
	props["C11"] = &propMeta{
		run: runC11,
		explanation: "Decides the environment source's pipeline and lookup discipline: the mangler chain by resolved type and constructor constants (alias(dials,dialsenv) -> flatten(dials) -> reformat(dials, DecodeGoTags, EncodeUpperSnakeCase) -> copy(dials->dialsenv) -> string-cast), " +
			"that the only environment API used is os.LookupEnv, that a field is written only under its ok result, with the looked-up string, at the index whose dialsenv tag (prefixed exactly when Prefix is non-empty) was looked up, " +
			"that nothing in the repository writes the environment, and that a parse error travels (tested, returned) from parse.String through string-cast Unmangle, unmangleField and ReverseTranslate to Value. Not decided: the generated names or parsed values.",
		assumptions: []string{"case conversion and parsing are as decided under C19/C15"},
	}
}

type chainSite struct {
	name  string
	f     *ssa.Function
	chain []chainElem
	pos   token.Pos
}

// aliasChains collects the chains of the alias-capable sources.
func aliasChains(c *Ctx) []chainSite {
	w := c.W
	var out []chainSite
	for _, spec := range []struct{ rel, fn, name string }{
		{"sources/env", "Source.Value", "env"},
		{"sources/flag", "Set.registerFlags", "flag"},
		{"sources/pflag", "Set.registerFlags", "pflag"},
	} {
		f := w.fn(spec.rel, spec.fn)
		if !c.need(f != nil, spec.rel+"."+spec.fn) {
			continue
		}
		c.analysed(relName(f))
		calls, chains := transformerChains(f)
		if len(calls) != 1 || chains[0] == nil {
			c.undecided(ruleAnchors, spec.name+"-chain", f.Pos(), "cannot resolve the mangler chain of %s (%d NewTransformer calls)", spec.name, len(calls))
			continue
		}
		out = append(out, chainSite{spec.name, f, chains[0], calls[0].Pos()})
	}
	// ez: the list handed to NewTransformingDecoder
	ez := w.fn("ez", "ConfigFileEnvFlagDecoderFactoryParams")
	if c.need(ez != nil, "ez.ConfigFileEnvFlagDecoderFactoryParams") {
		c.analysed(relName(ez))
		for _, i := range allInstrs(ez) {
			ci, ok := i.(*ssa.Call)
			if !ok || calleeFullName(ci) != modPath+"/sourcewrap.NewTransformingDecoder" {
				continue
			}
			els, ok := sliceElems(ci.Call.Args[1], 0)
			if !ok {
				c.undecided(ruleAnchors, "ez-chain", ci.Pos(), "cannot resolve the mangler list of the ez file decoder")
				continue
			}
			var ch []chainElem
			for _, e := range els {
				ce := classifyElem(e.V)
				ce.Conditional = e.Conditional
				ch = append(ch, ce)
			}
			out = append(out, chainSite{"ez", ez, ch, ci.Pos()})
		}
	}
	return out
}

func runC14(c *Ctx) {
	c.rule("alias-first", "in every chain containing the alias mangler it is the first, unconditional element (so the field doubling happens before flattening, re-casing and string casting)", 4)
	c.rule("alias-tags", "the alias mangler is constructed with the documented tag list: env (dials, dialsenv), flag (dials, dialsflag), pflag (dials, dialspflag, dialspflagshort), ez file decoder (dials)", 4)
	c.rule("alias-all-tags", "the loops of AliasMangler.Mangle (collecting the <tag>alias values, rewriting the copied field's tags) end only by exhaustion or an error return", 2)
	c.rule("alias-read-unconditional", "the collecting loop of AliasMangler.Mangle looks up <tag>alias on every iteration, independently of whether the primary tag is spelled out on the field", 1)
	c.rule("copy-drops-unaliased", "the alias copy of a field keeps, of the mangler's tag list, only the tags it was given an alias for: every other listed tag is deleted from the copy", 1)
	c.rule("ez-wrap-always", "the decoder the ez entry point hands to its file source is, on every feasible path, the transforming decoder whose chain starts with the unconditional alias mangler", 1)
	c.rule("either-or", "AliasMangler.Unmangle with two copies returns an error naming the field exactly when both are set; every value it returns from the scan was tested set (or, after the scan, is an unset copy)", 3)
	c.rule("nil-test-total", "every 'is set' test in AliasMangler.Unmangle goes through one predicate, and that predicate never calls reflect.Value.IsNil on a kind that is not nil-able", 2)
	c.rule("alias-recurses", "AliasMangler.ShouldRecurse is the constant true (both the original and the alias copy of a struct field are expanded)", 1)
	c.rule("strip", "the original field's tag has every <tag>alias key deleted before it is emitted", 1)

	w := c.W
	want := map[string][]string{"env": {"dials", "dialsenv"}, "flag": {"dials", "dialsflag"}, "pflag": {"dials", "dialspflag", "dialspflagshort"}, "ez": {"dials"}}
	seen := map[string]bool{}
	for _, cs := range aliasChains(c) {
		seen[cs.name] = true
		idx := -1
		for i, e := range cs.chain {
			if e.Type == "transform.AliasMangler" {
				idx = i
			}
		}
		if idx < 0 {
			c.bad("alias-first", cs.name, cs.pos, "the %s chain has no alias mangler: %s", cs.name, chainString(cs.chain))
			continue
		}
		c.check(idx == 0 && !cs.chain[0].Conditional, "alias-first", cs.name, cs.pos, "chain: "+chainString(cs.chain), "alias mangler is not the first unconditional element: "+chainString(cs.chain))
		c.check(strsEqual(cs.chain[idx].Strs, want[cs.name]), "alias-tags", cs.name, cs.pos, "alias tags "+strings.Join(cs.chain[idx].Strs, ","), "alias mangler constructed with tags ["+strings.Join(cs.chain[idx].Strs, ",")+"], want ["+strings.Join(want[cs.name], ",")+"]")
	}
	for n := range want {
		if !seen[n] {
			c.bad("alias-first", n, 0, "no chain found for %s", n)
		}
	}

	sr := w.fn("transform", "AliasMangler.ShouldRecurse")
	mg := w.fn("transform", "AliasMangler.Mangle")
	if !c.need(sr != nil && mg != nil, "transform.AliasMangler methods") {
		return
	}
	c.analysed(relName(mg))
	c.rule("recursion-visits-every-field", "(shared with C10) the alias mangler is the one mangler that both emits two fields and recurses: the loop over one input field's output fields in the recursive (reverse) translation ends only by exhaustion or an error, so a nil copy does not keep the other copy from being reverse-translated", 3)
	c10RecursionVisitsEveryField(c, "recursion-visits-every-field")
	c.rule("manglers-keep-no-state", "(shared with C10) Mangle / Unmangle / ShouldRecurse write nothing reachable from the mangler: the same alias mangler sees the same tag strings again for every field of a re-used struct type and on every reload, and must treat them the same each time", 9)
	c10ManglersKeepNoState(c, "manglers-keep-no-state")
	c.rule("memo-key-covers-receiver", "what Mangle / Unmangle / ShouldRecurse of a mangler (or a function below them) write into package-level state is shared by every mangler of that type in the process: a value computed from the mangler's own fields (the alias tags) is stored there only under a key computed from them too", 9)
	c14MemoKeyCoversReceiver(c, "memo-key-covers-receiver")
	c14AliasUnmangle(c)
	c14EzWrapAlways(c, "ez-wrap-always")
	// every alias tag is rewritten: the loops of Mangle end only by exhaustion (or an error return)
	nl := 0
	for _, h := range loopHeaders(mg) {
		nl++
		ex := earlyLoopExits(mg, h, true)
		pos := mg.Pos()
		if len(ex) > 0 {
			for _, i := range ex[0].Instrs {
				if i.Pos().IsValid() {
					pos = i.Pos()
				}
			}
		}
		c.check(len(ex) == 0, "alias-all-tags", relName(mg)+"#loop#"+itoa(nl), pos, "the loop visits every tag / alias (no break, no non-error return)", "a loop of AliasMangler.Mangle can stop before all alias tags were handled: a field aliased only through a later (source-specific) alias tag gets no working alias")
	}
	if nl == 0 {
		c.bad("alias-all-tags", relName(mg), mg.Pos(), "AliasMangler.Mangle has no loop over the alias tags")
	}
	// the <tag>alias lookup happens on every iteration of the collecting loop: it must not depend on the primary tag being spelled out
	nr := 0
	for _, i := range allInstrs(mg) {
		ci, ok := i.(*ssa.Call)
		if !ok || !strings.HasSuffix(calleeFullName(ci), "structtag.Tags).Get") || !inLoop(ci) {
			continue
		}
		b, ok := ci.Call.Args[1].(*ssa.BinOp)
		if !ok || b.Op != token.ADD {
			continue
		}
		if s, ok := constString(b.Y); !ok || s != "alias" {
			continue
		}
		var h *ssa.BasicBlock
		for _, lh := range loopHeaders(mg) {
			if inLoopBody(lh, ci.Block()) && (h == nil || inLoopBody(h, lh)) {
				h = lh
			}
		}
		if h == nil {
			continue
		}
		nr++
		var entry *ssa.BasicBlock
		for _, sc := range h.Succs {
			if inLoopBody(h, sc) {
				entry = sc
			}
		}
		pb := &predBuilder{}
		g := pb.pathCondAvoid(entry, ci.Block(), map[*ssa.BasicBlock]bool{h: true})
		_, counter := forAll(g, nil, func(e env, fv bool) bool { return fv })
		c.check(counter == "", "alias-read-unconditional", relName(mg), ci.Pos(), "the <tag>alias tag is looked up on every iteration of the tag loop", "the <tag>alias lookup is skipped on some iterations ("+counter+"): an alias tag on a field that does not spell out the primary tag is silently ignored (neither the alias name nor the both-set error works for it)")
	}
	if nr == 0 {
		c.bad("alias-read-unconditional", relName(mg), mg.Pos(), "no lookup of <tag>+\"alias\" found in a loop of AliasMangler.Mangle")
	}

	// ---- copy-drops-unaliased: every tag of the mangler's list that got no alias is deleted from the copy (D31) ----
	{
		nd := 0
		for _, i := range allInstrs(mg) {
			ci, ok := i.(*ssa.Call)
			if !ok || !strings.HasSuffix(calleeFullName(ci), "structtag.Tags).Delete") || !inLoop(ci) {
				continue
			}
			els, ok := sliceElems(ci.Call.Args[1], 0)
			if !ok || len(els) != 1 {
				continue
			}
			// the key is the plain range element of the mangler's tag list (not tag + "alias")
			if _, isAdd := els[0].V.(*ssa.BinOp); isAdd {
				continue
			}
			base, _, isElem := elemOf(els[0].V)
			if !isElem {
				continue
			}
			if _, isFld := loadOfTypeField(base, "transform.AliasMangler", "tags"); !isFld {
				continue
			}
			var h *ssa.BasicBlock
			for _, lh := range loopHeaders(mg) {
				if inLoopBody(lh, ci.Block()) && (h == nil || inLoopBody(h, lh)) {
					h = lh
				}
			}
			if h == nil {
				continue
			}
			var entry *ssa.BasicBlock
			for _, sc := range h.Succs {
				if inLoopBody(h, sc) {
					entry = sc
				}
			}
			// ... and it is deleted from the copy: the Tags object the alias names are Set on
			onCopy := false
			for _, j := range allInstrs(mg) {
				if sc, ok := j.(*ssa.Call); ok && strings.HasSuffix(calleeFullName(sc), "structtag.Tags).Set") && sc.Call.Args[0] == ci.Call.Args[0] {
					onCopy = true
				}
			}
			if !onCopy {
				continue
			}
			nd++
			pb := &predBuilder{name: func(v ssa.Value) string {
				if ex, ok := v.(*ssa.Extract); ok && ex.Index == 1 {
					if lk, ok := ex.Tuple.(*ssa.Lookup); ok && lk.CommaOk && sameValue(lk.Index, els[0].V) {
						return "aliased"
					}
				}
				return ""
			}}
			g := pb.pathCondAvoid(entry, ci.Block(), map[*ssa.BasicBlock]bool{h: true})
			fb, fi := map[string]bool{}, map[string]bool{}
			atomsOf(g, fb, fi)
			_, counter := forAll(g, nil, func(e env, fv bool) bool { return fv == !e.B["aliased"] })
			c.check(fb["aliased"] && counter == "", "copy-drops-unaliased", relName(mg), ci.Pos(), "a tag of the mangler's list is deleted from the alias copy exactly when no alias was given for it",
				"the deletion of un-aliased tags from the alias copy is not exactly 'no alias was given for this tag' ("+counter+")")
		}
		if nd == 0 {
			c.bad("copy-drops-unaliased", relName(mg), mg.Pos(), "the alias copy keeps every tag of the mangler's list it has no alias for: both copies answer to the same primary name (a field with dialsenv + dialsalias fails with 'both alias and original set' when only the primary variable is set; a pflag shorthand is registered twice)")
		}
	}

	// ---- alias-recurses -------------------------------------------------------------
	okR := true
	for _, r := range returnsOf(sr) {
		cst, ok := retVals(r)[0].(*ssa.Const)
		if !ok || cst.Value == nil || cst.Value.ExactString() != "true" {
			okR = false
		}
	}
	c.check(okR, "alias-recurses", relName(sr), sr.Pos(), "ShouldRecurse is the constant true", "AliasMangler.ShouldRecurse is not the constant true: the alias copy of a struct field would not be expanded like the original")

	// ---- strip -------------------------------------------------------------------------
	del := 0
	for _, i := range allInstrs(mg) {
		if ci, ok := i.(*ssa.Call); ok && strings.HasSuffix(calleeFullName(ci), "structtag.Tags).Delete") {
			if els, ok := sliceElems(ci.Call.Args[1], 0); ok {
				for _, e := range els {
					if b, ok := e.V.(*ssa.BinOp); ok && b.Op == token.ADD {
						if s, ok := constString(b.Y); ok && s == "alias" {
							del++
						}
					}
				}
			}
		}
	}
	c.check(del >= 2, "strip", relName(mg), mg.Pos(), "the <tag>alias keys are deleted from both the original and the copy", "the alias tags are not stripped from both emitted fields")
}

// =====================================================================================

func runC11(c *Ctx) {
	c.rule("chain", "the environment source's mangler chain, by resolved type and constructor constants", 5)
	c.rule("only-present", "the only environment API used by the source is os.LookupEnv; a field is set only under its ok result, with the looked-up string, at the index whose dialsenv tag was read; the prefix is prepended exactly when Prefix is non-empty (guard table)", 5)
	c.rule("no-env-writes", "no non-test code in the repository calls os.Setenv/Unsetenv/Clearenv (vacuity guard: the scan must see the os.LookupEnv call)", 1)
	c.rule("errors-propagate", "a parse error is tested and returned at every hop: parse.String -> StringCastingMangler.Unmangle -> Transformer.unmangleField -> ReverseTranslate -> env Value", 4)
	c.rule("unset-stays-unset", "string-cast Unmangle returns the zero of the field type for a nil *string before parsing anything", 1)
	c.rule("flatten-flag-accumulates", "in the flatten unmangler the 'any child set' flag is old || nested after a nested struct and true under a non-nil leaf, and gates the parent pointer (a variable that is present must not be dropped because a later sibling struct is empty); shared with C10", 3)
	c10FlattenFlag(c)
	c.rule("single-token-per-part", "in the map splitter a token's text is stored into the key (value) state only while that part's already-read flag is false, and the store sets the flag: a second token for the same part is an error, never a silent replacement (an unparsable value is an error rather than a truncated one)", 2)
	c.rule("pair-state-reset", "after the map splitter hands a (key, value) pair to its callback, both pieces of state are reset to \"\" on every path that continues parsing (a value must not leak into a later key that has none)", 2)
	c.rule("narrowing-guard", "an out-of-range value is an error, never truncated: every narrowing conversion of a parsed number is bounded by the strconv bit size or a dominating reflect Overflow test of the matching type; shared with C15", 10)
	c15Narrowing(c)
	c15PairStateReset(c, "pair-state-reset")
	c15SingleTokenPerPart(c, "single-token-per-part")

	w := c.W
	f := w.fn("sources/env", "Source.Value")
	if !c.need(f != nil, "sources/env.Source.Value") {
		return
	}
	c11EnvChain(c)
	// ---- only-present ----------------------------------------------------------------
	var lookup *ssa.Call
	for _, g := range w.funcsIn("sources/env") {
		for _, i := range allInstrs(g) {
			ci, ok := i.(*ssa.Call)
			if !ok {
				continue
			}
			n := calleeFullName(ci)
			if strings.HasPrefix(n, "os.") && strings.Contains(strings.ToLower(n), "env") {
				if n == "os.LookupEnv" {
					lookup = ci
				} else {
					c.bad("only-present", relName(g)+"#api", ci.Pos(), "%s used instead of os.LookupEnv: an empty value and an absent variable cannot be told apart", n)
				}
			}
		}
	}
	if lookup == nil {
		c.bad("only-present", "env#lookup", f.Pos(), "the env source never calls os.LookupEnv")
		return
	}
	var okV, strV ssa.Value
	for _, r := range *lookup.Referrers() {
		if e, ok := r.(*ssa.Extract); ok {
			if e.Index == 0 {
				strV = e
			} else {
				okV = e
			}
		}
	}
	// the Set call
	var set *ssa.Call
	for _, i := range allInstrs(f) {
		if ci, ok := i.(*ssa.Call); ok && calleeFullName(ci) == "(reflect.Value).Set" {
			set = ci
		}
	}
	if set == nil {
		c.bad("only-present", "env#set", f.Pos(), "the env source never sets a field")
		return
	}
	guard := false
	for _, ec := range condsDominating(set.Block()) {
		if ec.Cond == okV && ec.Val {
			guard = true
		}
	}
	c.check(guard, "only-present", "env#set-under-ok", set.Pos(), "the field is set only when LookupEnv reported the variable present", "the field is set although the variable may be absent")
	// the value: reflect.ValueOf(&local) where local holds the looked-up string
	okVal := derivesAll(set.Call.Args[1], func(x ssa.Value) bool {
		al, ok := x.(*ssa.Alloc)
		if !ok {
			return false
		}
		st := uniqueStore(al)
		return st != nil && st.Val == strV
	}, &flowOpts{through: map[string]bool{"reflect.ValueOf": true}})
	c.check(okVal, "only-present", "env#set-value", set.Pos(), "the value written is (a pointer to) the looked-up string", "the value written is not the looked-up string")
	// the struct that is filled is the all-unset value this very call translated: a translated value kept from an
	// earlier call (a cache in the Source) still carries the fields set for variables that have since disappeared
	{
		isFreshTranslate := func(x ssa.Value) bool {
			e, ok := x.(*ssa.Extract)
			if !ok || e.Index != 0 {
				return false
			}
			call, ok := e.Tuple.(*ssa.Call)
			return ok && call.Parent() == f && strings.HasSuffix(calleeFullName(call), "transform.Transformer).Translate")
		}
		target := set.Call.Args[0]
		if fc, ok := target.(*ssa.Call); ok && calleeFullName(fc) == "(reflect.Value).Field" {
			target = fc.Call.Args[0]
		}
		okFresh := derivesAllLive(target, set.Block(), isFreshTranslate, nil)
		c.check(okFresh, "only-present", "env#fills-fresh-translation", set.Pos(), "the struct being filled is the result of this call's own Translate()",
			"the struct whose fields are set is not (on every path) the value this call translated: a translated value kept across calls keeps the fields of variables that are no longer present, so a variable that has disappeared still sets its field")
	}
	// the index: val.Field(i).Set(...) and the tag read from valType.Field(i) with the same i
	okIdx := false
	if fc, ok := set.Call.Args[0].(*ssa.Call); ok && calleeFullName(fc) == "(reflect.Value).Field" {
		idx := fc.Call.Args[1]
		tagOfField := func(name ssa.Value, idx ssa.Value) bool {
			return derivesAny(name, func(x ssa.Value) bool {
				cc, ok := x.(*ssa.Call)
				if !ok || calleeFullName(cc) != "(reflect.StructTag).Get" {
					return false
				}
				s, _ := constString(cc.Call.Args[1])
				if s != "dialsenv" {
					return false
				}
				// receiver: Tag of valType.Field(idx)
				return derivesAny(cc.Call.Args[0], func(y ssa.Value) bool {
					fcall, ok := y.(*ssa.Call)
					return ok && calleeFullName(fcall) == "(reflect.Type).Field" && fcall.Call.Args[0] == idx
				}, nil)
			}, nil)
		}
		okIdx = tagOfField(lookup.Call.Args[0], idx)
		if !okIdx {
			// prefix + tag written at the call: the tag is one operand of the concatenation
			var operands func(v ssa.Value, d int) []ssa.Value
			operands = func(v ssa.Value, d int) []ssa.Value {
				if b, ok := v.(*ssa.BinOp); ok && b.Op == token.ADD && d < 4 {
					return append(operands(b.X, d+1), operands(b.Y, d+1)...)
				}
				return []ssa.Value{v}
			}
			if ops := operands(lookup.Call.Args[0], 0); len(ops) > 1 {
				for _, op := range ops {
					if tagOfField(op, idx) {
						okIdx = true
					}
				}
			}
		}
		if !okIdx {
			// the names worked out in a loop of their own and kept in a slice: names[i] is looked up for field i, and
			// every store into names[j] is the tag of field j
			var buf ssa.Value
			derivesAny(lookup.Call.Args[0], func(x ssa.Value) bool {
				u, ok := x.(*ssa.UnOp)
				if !ok || u.Op != token.MUL {
					return false
				}
				ia, ok := u.X.(*ssa.IndexAddr)
				if ok && ia.Index == idx {
					buf = ia.X
				}
				return ok
			}, nil)
			if buf != nil {
				stores, good := 0, true
				for _, i := range allInstrs(f) {
					st, ok := i.(*ssa.Store)
					if !ok {
						continue
					}
					ia, ok := st.Addr.(*ssa.IndexAddr)
					if !ok || !sameValue(ia.X, buf) {
						continue
					}
					stores++
					if !tagOfField(st.Val, ia.Index) {
						good = false
					}
				}
				okIdx = stores > 0 && good
			}
		}
	}
	c.check(okIdx, "only-present", "env#same-index", set.Pos(), "the name looked up is the dialsenv tag of field i and the value goes into field i", "the looked-up name is not the dialsenv tag of the field that is written")
	// prefix: a string concat with "_" under Prefix != ""
	okPrefix := false
	for _, i := range allInstrs(f) {
		b, ok := i.(*ssa.BinOp)
		if !ok || b.Op != token.ADD {
			continue
		}
		if s, ok := constString(b.Y); ok && s == "_" {
			if _, isP := loadOfTypeField(b.X, "sources/env.Source", "Prefix"); isP {
				for _, ec := range condsDominating(b.Block()) {
					if bb, ok := ec.Cond.(*ssa.BinOp); ok {
						if _, isP := loadOfTypeField(bb.X, "sources/env.Source", "Prefix"); isP {
							if s, ok := constString(bb.Y); ok && s == "" && ((bb.Op == token.NEQ && ec.Val) || (bb.Op == token.EQL && !ec.Val)) {
								okPrefix = true
							}
						}
					}
				}
			}
		}
	}
	c.check(okPrefix, "only-present", "env#prefix", f.Pos(), "Prefix + \"_\" is prepended exactly when Prefix != \"\"", "the prefix is not prepended under Prefix != \"\" with a \"_\" separator")
	// ... and under nothing else: the guard of the concatenation, taken from where the tag value is defined, is exactly Prefix != ""
	for _, i := range allInstrs(f) {
		b, ok := i.(*ssa.BinOp)
		if !ok || b.Op != token.ADD {
			continue
		}
		if s, ok := constString(b.Y); !ok || s != "_" {
			continue
		}
		if _, isP := loadOfTypeField(b.X, "sources/env.Source", "Prefix"); !isP {
			continue
		}
		for _, r := range *b.Referrers() {
			outer, ok := r.(*ssa.BinOp)
			if !ok || outer.Op != token.ADD || outer.X != ssa.Value(b) {
				continue
			}
			from := f.Blocks[0]
			if di, ok := outer.Y.(ssa.Instruction); ok {
				from = di.Block()
			}
			pbx := &predBuilder{name: func(v ssa.Value) string {
				bb, ok := v.(*ssa.BinOp)
				if !ok || (bb.Op != token.NEQ && bb.Op != token.EQL) {
					return ""
				}
				// x ==/!= "" with the operands in either order
				x := bb.X
				if s, ok := constString(bb.Y); !ok || s != "" {
					if s2, ok2 := constString(bb.X); !ok2 || s2 != "" {
						return ""
					}
					x = bb.Y
				}
				neg := ""
				if _, isP := loadOfTypeField(x, "sources/env.Source", "Prefix"); isP {
					if bb.Op == token.EQL {
						neg = "!"
					}
					return neg + "prefixSet"
				}
				if sameValue(x, outer.Y) {
					if bb.Op == token.NEQ {
						neg = "!"
					}
					return neg + "tagEmpty" // the empty-tag arm panics
				}
				return ""
			}}
			g := pbx.pathCond(from, outer.Block())
			c.checkTable("only-present", "env#prefix-guard", outer.Pos(), g, []string{"prefixSet", "tagEmpty"}, nil, "Prefix != \"\" (and the tag is not empty: that arm panics)", func(e env) bool { return e.B["prefixSet"] && !e.B["tagEmpty"] })
		}
	}

	// ---- no-env-writes ---------------------------------------------------------------------
	sawLookup, bad := false, false
	for _, g := range w.Funcs {
		for _, i := range allInstrs(g) {
			if ci, ok := i.(ssa.CallInstruction); ok {
				switch calleeFullName(ci) {
				case "os.LookupEnv":
					sawLookup = true
				case "os.Setenv", "os.Unsetenv", "os.Clearenv":
					bad = true
					c.bad("no-env-writes", relName(g), ci.Pos(), "%s modifies the process environment", calleeFullName(ci))
				}
			}
		}
	}
	if !bad {
		c.check(sawLookup, "no-env-writes", "repo", f.Pos(), "no environment writer in non-test code (scan saw the LookupEnv call)", "the scan did not even see os.LookupEnv: vacuous")
	}

	// ---- errors-propagate --------------------------------------------------------------------
	hops := []struct{ rel, fn, callee string }{
		{"transform", "StringCastingMangler.Unmangle", modPath + "/parse.String"},
		{"transform", "Transformer.unmangleField", "(" + modPath + "/transform.Mangler).Unmangle"},
		{"transform", "Transformer.ReverseTranslate", "(*" + modPath + "/transform.Transformer).unmangleField"},
		{"sources/env", "Source.Value", "(*" + modPath + "/transform.Transformer).ReverseTranslate"},
	}
	for _, h := range hops {
		hf := w.fn(h.rel, h.fn)
		if !c.need(hf != nil, h.rel+"."+h.fn) {
			continue
		}
		c.analysed(relName(hf))
		c11Hop(c, hf, h.callee, "errors-propagate")
	}

	// ---- unset-stays-unset ----------------------------------------------------------------------
	sc := w.fn("transform", "StringCastingMangler.Unmangle")
	if sc != nil {
		var ps *ssa.Call
		for _, i := range allInstrs(sc) {
			if ci, ok := i.(*ssa.Call); ok && calleeFullName(ci) == modPath+"/parse.String" {
				ps = ci
			}
		}
		okU := false
		for _, r := range returnsOf(sc) {
			rv := retVals(r)
			if call, ok := rv[0].(*ssa.Call); ok && calleeFullName(call) == "reflect.Zero" && isNilConst(rv[1]) && ps != nil && !domI(ps, r) {
				okU = true
			}
		}
		c.check(okU, "unset-stays-unset", relName(sc), sc.Pos(), "a nil *string yields reflect.Zero(field type) without parsing", "string-cast Unmangle has no unset path returning the zero of the field type before parsing")
	}
}

// c11Hop: in hf, the error result of the call to callee is tested; on the
// non-nil branch hf returns a non-nil error derived from it (or forwards the
// callee's result pair directly).
func c11Hop(c *Ctx, hf *ssa.Function, callee string, rule string) {
	var call *ssa.Call
	for _, i := range allInstrs(hf) {
		if ci, ok := i.(*ssa.Call); ok && calleeFullName(ci) == callee {
			call = ci
		}
	}
	name := relName(hf)
	if call == nil {
		c.bad(rule, name, hf.Pos(), "%s does not call %s", name, callee)
		return
	}
	var errV ssa.Value
	nres := 0
	for _, r := range *call.Referrers() {
		if e, ok := r.(*ssa.Extract); ok {
			nres++
			if isErrorType(e.Type()) {
				errV = e
			}
		}
	}
	// direct forwarding: return f(...)
	for _, r := range returnsOf(hf) {
		rv := retVals(r)
		all := len(rv) > 0
		for k, v := range rv {
			e, ok := v.(*ssa.Extract)
			if !ok || e.Tuple != ssa.Value(call) || e.Index != k {
				all = false
			}
		}
		if all {
			c.ok(rule, name, call.Pos(), "the callee's (value, error) pair is returned unchanged")
			return
		}
	}
	if errV == nil {
		c.bad(rule, name, call.Pos(), "the error result of %s is discarded", callee)
		return
	}
	okP := false
	for _, r := range returnsOf(hf) {
		rv := retVals(r)
		last := rv[len(rv)-1]
		if knownNil(r.Block(), errV, false) && errDerivesNonNil(last, r.Block(), func(v ssa.Value) bool { return v == errV }) {
			okP = true
		}
	}
	// and no success return is reachable on the non-nil branch
	for _, r := range returnsOf(hf) {
		rv := retVals(r)
		if knownNil(r.Block(), errV, false) && isNilConst(rv[len(rv)-1]) {
			okP = false
		}
	}
	c.check(okP, rule, name, call.Pos(), "the error of "+callee+" is tested and returned (wrapped)", "the error of "+callee+" is not returned on its non-nil branch")
}

// c14AliasUnmangle: the either-or / nil-test-total rules on AliasMangler.Unmangle
// (shared by C14 and C10).
func c14AliasUnmangle(c *Ctx) {
	w := c.W
	um := w.fn("transform", "AliasMangler.Unmangle")
	if !c.need(um != nil, "transform.AliasMangler.Unmangle") {
		return
	}
	c.analysed(relName(um))
	// ---- predicate calls in Unmangle -----------------------------------------
	var pred *ssa.Function
	var tests []*ssa.Call
	direct := false
	for _, i := range allInstrs(um) {
		ci, ok := i.(*ssa.Call)
		if !ok {
			continue
		}
		if calleeFullName(ci) == "(reflect.Value).IsNil" || calleeFullName(ci) == "(reflect.Value).IsZero" {
			direct = true
			c.bad("nil-test-total", relName(um)+"#direct", ci.Pos(), "Unmangle tests %s directly: values reached through slice/array recursion are not pointerified", calleeFullName(ci))
			continue
		}
		callee := staticCallee(ci)
		if callee == nil || !w.inRepo(callee) || len(ci.Call.Args) != 1 || ci.Type().String() != "bool" {
			continue
		}
		if pred == nil {
			pred = callee
		}
		if callee != pred {
			c.bad("nil-test-total", relName(um)+"#mixed", ci.Pos(), "Unmangle mixes two different 'is set' predicates (%s and %s): the both-set test and the selection can disagree", relName(pred), relName(callee))
			direct = true
		}
		tests = append(tests, ci)
	}
	if pred == nil {
		c.bad("nil-test-total", relName(um), um.Pos(), "no 'is set' predicate found in Unmangle")
		return
	}
	if !direct {
		c.ok("nil-test-total", relName(um)+"#one-predicate", um.Pos(), "all %d set-tests use %s", len(tests), relName(pred))
	}
	// the predicate is kind-total: IsNil only under nil-able kinds (through helpers)
	okTotal := true
	var visit func(f *ssa.Function, depth int)
	visit = func(f *ssa.Function, depth int) {
		c.analysed(relName(f))
		pb := &predBuilder{}
		for _, i := range allInstrs(f) {
			ci, ok := i.(*ssa.Call)
			if !ok {
				continue
			}
			if calleeFullName(ci) == "(reflect.Value).IsNil" {
				atom := "(reflect.Value).Kind(" + canon(ci.Call.Args[0]) + ")"
				ks := kindsWhere(pb.pathCond(f.Blocks[0], ci.Block()), atom)
				for kk := range ks {
					switch kk {
					case kPtr, kMap, kSlice, kInterface, kChan, kFunc, kUnsafePointer:
					default:
						okTotal = false
					}
				}
				if len(ks) == len(allKinds) {
					okTotal = false
				}
			}
			if callee := staticCallee(ci); callee != nil && w.inRepo(callee) && depth < 2 {
				visit(callee, depth+1)
			}
		}
	}
	visit(pred, 0)
	c.check(okTotal, "nil-test-total", relName(pred)+"#kind-total", pred.Pos(), "the predicate only calls IsNil under nil-able kinds", "the 'is set' predicate can call reflect.Value.IsNil on a non-nilable kind (panic for fields inside slice elements)")

	// ---- either-or --------------------------------------------------------------
	// atoms: pred(fvs[0].Value), pred(fvs[1].Value)
	elemIdx := func(ci *ssa.Call) (int64, bool) {
		// arg: load of field Value of &fvs[const]
		a := ci.Call.Args[0]
		ld, ok := a.(*ssa.UnOp)
		if !ok {
			return 0, false
		}
		fa, ok := ld.X.(*ssa.FieldAddr)
		if !ok || fieldName(fa.X.Type(), fa.Field) != "Value" {
			return 0, false
		}
		ia, ok := fa.X.(*ssa.IndexAddr)
		if !ok {
			return 0, false
		}
		return constInt(ia.Index)
	}
	pb := &predBuilder{name: func(v ssa.Value) string {
		if ci, ok := v.(*ssa.Call); ok && staticCallee(ci) == pred {
			if n, ok := elemIdx(ci); ok {
				return "unset" + string(rune('0'+n))
			}
		}
		return ""
	}}
	nErr := 0
	for _, r := range returnsOf(um) {
		rv := retVals(r)
		if isNilConst(rv[1]) {
			continue
		}
		call, ok := stripConv(rv[1]).(*ssa.Call)
		if !ok || calleeFullName(call) != "fmt.Errorf" {
			continue
		}
		g := pb.pathCond(um.Blocks[0], r.Block())
		fb, fi := map[string]bool{}, map[string]bool{}
		atomsOf(g, fb, fi)
		if !fb["unset0"] && !fb["unset1"] {
			continue // the arity error
		}
		nErr++
		// restrict to the len==2 region: treat the len atom as free
		_, counter := forAll(g, nil, func(e env, fv bool) bool {
			if fv {
				return !e.B["unset0"] && !e.B["unset1"]
			}
			return true
		})
		names := false
		for _, a := range call.Call.Args {
			if els, ok := sliceElems(a, 0); ok {
				for _, e := range els {
					if _, ok := loadOfTypeField(stripConv(e.V), "reflect.StructField", "Name"); ok {
						names = true
					}
					if fl, ok := stripConv(e.V).(*ssa.Field); ok && fieldName(fl.X.Type(), fl.Field) == "Name" {
						names = true
					}
				}
			}
		}
		if !fb["unset0"] || !fb["unset1"] {
			counter = "the error does not depend on both copies being set"
		}
		c.check(counter == "" && names, "either-or", relName(um)+"#both-set-error", r.Pos(), "the error is returned only when both copies are set, and names the field", "the both-set error is reachable when a copy is unset ("+counter+") or does not name the field")
	}
	if nErr == 0 {
		c.bad("either-or", relName(um)+"#both-set-error", um.Pos(), "Unmangle never reports 'both set'")
	}
	// the converse: when both are set, no value return is reachable
	for _, r := range returnsOf(um) {
		rv := retVals(r)
		if !isNilConst(rv[1]) {
			continue
		}
		g := pb.pathCond(um.Blocks[0], r.Block())
		fb, fi := map[string]bool{}, map[string]bool{}
		atomsOf(g, fb, fi)
		if !fb["unset0"] && !fb["unset1"] {
			continue // the single-copy return
		}
		_, counter := forAll(g, nil, func(e env, fv bool) bool { return !(fv && !e.B["unset0"] && !e.B["unset1"]) })
		c.check(counter == "", "either-or", relName(um)+"#no-value-when-both", r.Pos(), "no value is returned when both copies are set", "a value is returned although both copies are set: "+counter)
	}
	// values returned from the scan were tested set
	for _, r := range returnsOf(um) {
		rv := retVals(r)
		if !isNilConst(rv[1]) || !underLoop(r) {
			continue
		}
		okT := false
		for _, ec := range condsDominating(r.Block()) {
			if ci, ok := ec.Cond.(*ssa.Call); ok && staticCallee(ci) == pred && !ec.Val && sameValue(ci.Call.Args[0], rv[0]) {
				okT = true
			}
		}
		c.check(okT, "either-or", relName(um)+"#scan-returns-set", r.Pos(), "the scan returns the copy it just tested set", "the scan returns a value other than the one it tested set")
	}

}

// c14EzWrapAlways: the decoder the ez entry points hand to the file source is
// the transforming decoder whose chain starts with the alias mangler, on every
// feasible path: an edge that would pass the bare decoder on is only accepted
// when its guard is `len(manglers) > 0 == false` for a list that provably has
// an unconditional element.
func c14EzWrapAlways(c *Ctx, rule string) {
	w := c.W
	ez := w.fn("ez", "ConfigFileEnvFlagDecoderFactoryParams")
	fs := w.fn("ez", "fileSource")
	if !c.need(ez != nil && fs != nil, "ez.ConfigFileEnvFlagDecoderFactoryParams / ez.fileSource") {
		return
	}
	isWrap := func(v ssa.Value) bool {
		ci, ok := v.(*ssa.Call)
		if !ok || calleeFullName(ci) != modPath+"/sourcewrap.NewTransformingDecoder" {
			return false
		}
		els, ok := sliceElems(ci.Call.Args[1], 0)
		if !ok || len(els) == 0 {
			return false
		}
		return classifyElem(els[0].V).Type == "transform.AliasMangler" && !els[0].Conditional
	}
	n := 0
	for _, call := range callsToFn(ez, fs) {
		n++
		arg := call.Common().Args[1]
		bad := ""
		var visit func(v ssa.Value, depth int)
		visit = func(v ssa.Value, depth int) {
			if isWrap(v) || depth > 4 {
				return
			}
			ph, ok := v.(*ssa.Phi)
			if !ok {
				bad = "the file source can receive " + canon(v) + ", which is not the alias-wrapped decoder"
				return
			}
			for ei, e := range ph.Edges {
				if isWrap(e) {
					continue
				}
				if inner, ok := e.(*ssa.Phi); ok {
					visit(inner, depth+1)
					continue
				}
				// the bare decoder flows in over this edge: the edge must be infeasible
				p := ph.Block().Preds[ei]
				iff, ok := p.Instrs[len(p.Instrs)-1].(*ssa.If)
				feasible := true
				if ok {
					if cmp, ok := iff.Cond.(*ssa.BinOp); ok {
						z, isC := constInt(cmp.Y)
						onFalse, onTrue := p.Succs[1] == ph.Block(), p.Succs[0] == ph.Block()
						// the edge is taken exactly when the list is empty, however the test is spelled
						emptyEdge := isC && (onFalse && (cmp.Op == token.GTR && z == 0 || cmp.Op == token.NEQ && z == 0 || cmp.Op == token.GEQ && z == 1) ||
							onTrue && (cmp.Op == token.EQL && z == 0 || cmp.Op == token.LEQ && z == 0 || cmp.Op == token.LSS && z == 1))
						if emptyEdge {
							if l, ok := cmp.X.(*ssa.Call); ok && calleeFullName(l) == "builtin.len" {
								if els, ok := sliceElems(l.Call.Args[0], 0); ok {
									for _, el := range els {
										if !el.Conditional {
											feasible = false // the list always has this element: len > 0 cannot be false
										}
									}
								}
							}
						}
					}
				}
				if feasible {
					bad = "the bare decoder " + canon(e) + " reaches the file source when no other mangler is requested: aliases in the config file are silently ignored (and a file giving both names is accepted)"
				}
			}
		}
		visit(arg, 0)
		c.check(bad == "", rule, relName(ez)+"#file-decoder", call.Pos(), "the file source always gets the decoder wrapped with the alias mangler first", bad)
	}
	if n == 0 {
		c.bad(rule, relName(ez), ez.Pos(), "no fileSource call found in the ez entry point")
	}
}

// c11EnvChain: the environment source's mangler chain by resolved type and constructor constants (shared with C19:
// the words of a derived variable name are only the identifier's words if the chain decodes and encodes with the documented casings).
func c11EnvChain(c *Ctx) {
	w := c.W
	f := w.fn("sources/env", "Source.Value")
	if !c.need(f != nil, "sources/env.Source.Value") {
		return
	}
	c.analysed(relName(f))
	calls, chains := transformerChains(f)
	if len(calls) != 1 || chains[0] == nil {
		c.bad("chain", "env", f.Pos(), "cannot resolve the env mangler chain")
		return
	}
	ch := chains[0]
	type wantE struct {
		typ    string
		strs   []string
		fields map[string]string
		fns    []string
	}
	want := []wantE{
		{"transform.AliasMangler", []string{"dials", "dialsenv"}, nil, nil},
		{"transform.FlattenMangler", []string{"dials"}, nil, []string{"EncodeUpperCamelCase", "EncodeUpperCamelCase"}},
		{"tagformat.TagReformattingMangler", []string{"dials"}, nil, []string{"DecodeGoTags", "EncodeUpperSnakeCase"}},
		{"tagformat.TagCopyingMangler", nil, map[string]string{"SrcTag": "dials", "NewTag": "dialsenv"}, nil},
		{"transform.StringCastingMangler", nil, nil, nil},
	}
	if len(ch) != len(want) {
		c.bad("chain", "env#length", calls[0].Pos(), "env chain is %s, want 5 manglers", chainString(ch))
	} else {
		for i, we := range want {
			e := ch[i]
			okE := e.Type == we.typ && !e.Conditional && strsEqual(e.Strs, we.strs) && strsEqual(e.Fns, we.fns)
			for k, v := range we.fields {
				if e.Fields[k] != v {
					okE = false
				}
			}
			c.check(okE, "chain", "env#"+string(rune('1'+i)), calls[0].Pos(), "position "+string(rune('1'+i))+": "+chainString([]chainElem{e}), "position "+string(rune('1'+i))+" is "+chainString([]chainElem{e})+", want "+we.typ)
		}
	}

}
