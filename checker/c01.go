package main

import (
	"go/token"
	"go/types"
	"strings"

	"golang.org/x/tools/go/ssa"
)

func init() {
	props["C01"] = &propMeta{
		run: runC01,
		explanation: "Decides the structural part of layer precedence: sources are read into slots in argument order and overlaid by a forward range onto one base that is created outside the loop and returned; " +
			"an unset (nil) overlay value of any kind Pointerify can emit reaches no mutation in the leaf overlay (universally quantified reaching-condition check over all reflect kinds); " +
			"Pointerify and the overlay walk omit exactly the same fields (same OmitField function, same {Chan, Func} kind set) and the overlay index advances exactly on the retained ones; " +
			"every call of the struct-merging routine has a dominating fact that its base operand is struct-kinded (the precondition whose violation is the 'non-struct call' panic). " +
			"Not decided: the leaf values reflection produces for arbitrary types and values.",
		assumptions: []string{"Sources return the pointerified twin of the config type (documented Source contract)", "the config type T passed to Config is a struct type"},
	}
}

func runC01(c *Ctx) {
	c.rule("copier-all-exported", "(shared with C02) the copy of the defaults that every stack starts from descends into every exported field, and its field loop ends only by exhaustion (a field left shallow-copied is shared with the private template, and a later stack shows a stale value where no layer sets the leaf)", 2)
	c.rule("flatten-flag-accumulates", "(shared with C10/C11) in the flatten unmangler the 'any child set' flag only grows: a leaf set by a layer is not lost because a later nested struct of the same parent has nothing set", 3)
	if cp := loadCopier(c); cp != nil {
		c02AllExported(c, cp, "copier-all-exported")
	}
	c10FlattenFlag(c)
	c.rule("order-config", "Config fills slot i from sources[i].Value(...) with the same range index, once, in a forward range, and never reorders the slot slice", 2)
	c.rule("order-compose", "compose overlays its slots in a forward range (index = induction variable + 1 from -1), each iteration overlaying the element at that index onto the one base defined before the loop", 2)
	c.rule("struct-ptr-merges", "in the leaf overlay a base pointer is replaced wholesale by (something derived from) the overlay only when the base pointer is nil, its pointee type is not a struct, or it is a text-unmarshaler struct; a struct base is replaced wholesale only when it is a text-unmarshaler struct: nested structs merge field by field", 4)
	c.rule("watchargs-per-source", "every watching source gets its own WatchArgs, allocated in its iteration of Config's loop and naming that source (reports land in the slot of the layer they came from)", 1)
	c.rule("slots-persist", "(shared with C02/C05) a source's slot value is written only by Config's initial fill and the identity-matched replacement: a layer never loses its value while later layers re-stack", 2)
	c.rule("nil-skip", "in the leaf overlay routine no mutation (Set, recursion into merge routines) is reachable when the overlay operand is of a nil-able kind Pointerify can emit {Ptr, Map, Slice, Interface} and IsNil: 'a source that sets nothing changes nothing'", 3)
	c.rule("unset-repr", "every field type Pointerify retains is nil-able: pointerifyField returns the original field only under kinds {Map, Slice, Interface, Ptr, Chan, Func} and otherwise a field whose type is reflect.PtrTo(...)/a concrete Map/Slice type", 4)
	c.rule("omit-agree", "Pointerify drops a field exactly when OmitField(field) or its kind is Chan/Func; the overlay walk skips a base field exactly under the same predicate (same function object, same kind set)", 3)
	c.rule("index-advance", "in the overlay walk the overlay index is incremented exactly on the paths that overlay a field, and the overlay operand is overlay.Field(that index)", 2)
	c.rule("defaults-pristine", "compose merges into (and returns) a deep copy of the defaults made inside compose, so 'else the caller's default' is evaluated against pristine defaults on every re-stack", 1)
	c.rule("no-write-through", "the leaf overlay never writes through an existing base pointer (base.Elem().Set) except for text-unmarshalable structs: pointer-typed leaves are replaced as a whole, so defaults that share a pointee cannot leak a value into a neighbouring field", 1)
	c.rule("struct-precond", "every call of the struct-merging routine has a dominating fact that its base operand is struct-kinded", 5)

	k := loadCore(c)
	if !k.ok {
		return
	}
	w := c.W
	merge := w.fn("", "overlayer.overlayStruct")
	leaf := w.fn("", "overlayer.overlayField")
	ptrfy := w.fn("ptrify", "Pointerify")
	// the exported entry point may delegate to an unexported worker that carries extra state: follow a pure forwarder
	for hops := 0; ptrfy != nil && hops < 2 && len(loopHeaders(ptrfy)) == 0; hops++ {
		var fwd *ssa.Function
		n := 0
		for _, i := range allInstrs(ptrfy) {
			if ci, ok := i.(*ssa.Call); ok {
				if callee := staticCallee(ci); callee != nil && w.pkgRelOfFn(callee) == "ptrify" {
					fwd = callee
					n++
				}
			}
		}
		if n != 1 {
			break
		}
		ptrfy = fwd
	}
	pfield := w.fn("ptrify", "pointerifyField")
	omit := w.fn("ptrify", "OmitField")
	if !c.need(merge != nil && leaf != nil && ptrfy != nil && pfield != nil && omit != nil, "overlayer.overlayStruct/overlayField, ptrify.Pointerify/pointerifyField/OmitField") {
		return
	}
	for _, f := range []*ssa.Function{k.config, k.compose, merge, leaf, ptrfy, pfield} {
		c.analysed(relName(f))
	}

	// ---- order-config -----------------------------------------------------------
	cc := callsToFn(k.config, k.compose)
	if len(cc) == 1 {
		slots := livePhiValue(cc[0].Common().Args[1], cc[0].Block())
		c05SlotsFillR(c, k, slots, "order-config")
		c01ConfigFill(c, k, slots)
	} else {
		c.bad("order-config", relName(k.config), k.config.Pos(), "Config has %d compose calls", len(cc))
	}

	// ---- order-compose ------------------------------------------------------------
	c01Compose(c, k, merge)

	// ---- nil-skip -------------------------------------------------------------------
	c01NilSkip(c, leaf)

	// ---- struct-ptr-merges ------------------------------------------------------------
	c01StructPtrMerges(c, leaf)
	c05Slots2(c, k, "slots-persist")
	k.checkWatchArgsPerSource("watchargs-per-source")

	// ---- unset-repr --------------------------------------------------------------------
	c01UnsetRepr(c, pfield)

	// ---- omit-agree / index-advance ----------------------------------------------------------
	c01Omit(c, merge, leaf, ptrfy, pfield, omit)

	// ---- struct-precond ------------------------------------------------------------------------
	c01StructPrecond(c, k, merge, "struct-precond")

	c05ComposeFresh(c, k, "defaults-pristine")
	c01NoWriteThrough(c, leaf)
}

func c01NoWriteThrough(c *Ctx, leaf *ssa.Function) {
	base := leaf.Params[len(leaf.Params)-2]
	n := 0
	for _, i := range allInstrs(leaf) {
		ci, ok := i.(*ssa.Call)
		if !ok || calleeFullName(ci) != "(reflect.Value).Set" {
			continue
		}
		recv, ok := ci.Call.Args[0].(*ssa.Call)
		if !ok || calleeFullName(recv) != "(reflect.Value).Elem" || recv.Call.Args[0] != ssa.Value(base) {
			continue
		}
		n++
		okg := false
		for _, ec := range condsDominating(ci.Block()) {
			if call, ok := ec.Cond.(*ssa.Call); ok && ec.Val && strings.HasSuffix(calleeFullName(call), "ptrify.IsTextUnmarshalerStruct") {
				okg = true
			}
		}
		c.check(okg, "no-write-through", relName(leaf)+"#elem-set", ci.Pos(), "write through the base pointer only for text-unmarshalable structs",
			"base.Elem().Set(...) outside the text-unmarshaler arm: a pointer-typed leaf is written through instead of replaced (shared pointees in the defaults would change together)")
	}
	if n == 0 {
		c.ok("no-write-through", relName(leaf)+"#elem-set", leaf.Pos(), "the leaf overlay never writes through the base pointer")
	}
}

func c05SlotsFillR(c *Ctx, k *core, slots ssa.Value, rule string) {
	// same analysis as C05 same-compose#slots under another rule name
	f := k.config
	name := relName(f) + "#slots"
	mk, ok := slots.(*ssa.MakeSlice)
	if !ok {
		c.undecided(rule, name, slots.Pos(), "the slot slice is not a make() result")
		return
	}
	bad := ""
	for _, r := range *mk.Referrers() {
		if _, ok := r.(*ssa.Slice); ok {
			bad = "slot slice is re-sliced"
		}
	}
	for _, i := range allInstrs(f) {
		if ci, ok := i.(*ssa.Call); ok {
			n := calleeFullName(ci)
			if n == "builtin.append" || strings.HasPrefix(n, "sort.") || strings.HasPrefix(n, "slices.") {
				for _, a := range ci.Call.Args {
					if a == slots {
						bad = "slot slice passed to " + n
					}
				}
			}
		}
	}
	c.check(bad == "", rule, name, mk.Pos(), "the slot slice is made once (len(sources)) and never appended to, re-sliced or sorted", bad)
}

// isForwardRangeIndex: idx is `phi + 1` with phi starting at -1 (go/ssa's
// lowering of `for i := range s`) or a phi starting at 0 incremented by 1.
func isForwardRangeIndex(idx ssa.Value) bool {
	if b, ok := idx.(*ssa.BinOp); ok && b.Op == token.ADD {
		if n, ok := constInt(b.Y); ok && n == 1 {
			if p, ok := b.X.(*ssa.Phi); ok {
				for _, e := range p.Edges {
					if e == ssa.Value(b) {
						continue
					}
					if n, ok := constInt(e); !ok || n != -1 {
						return false
					}
				}
				return true
			}
		}
		return false
	}
	if p, ok := idx.(*ssa.Phi); ok {
		okInit, okStep := false, false
		for _, e := range p.Edges {
			if n, ok := constInt(e); ok && n == 0 {
				okInit = true
				continue
			}
			if b, ok := e.(*ssa.BinOp); ok && b.Op == token.ADD && b.X == ssa.Value(p) {
				if n, ok := constInt(b.Y); ok && n == 1 {
					okStep = true
					continue
				}
			}
			return false
		}
		if !(okInit && okStep) {
			return false
		}
		// the explicit loop runs to the full length: `i < len(x)` / `i < n` with n a length call, not an adjusted bound
		if call, ok := headerUpperBound(p.Block(), p).(*ssa.Call); ok {
			if bi, ok := call.Call.Value.(*ssa.Builtin); ok && bi.Name() == "len" {
				return true
			}
			switch calleeFullName(call) {
			case "(reflect.Value).Len", "(reflect.Value).NumField", "(reflect.Type).NumField":
				return true
			}
		}
		return false
	}
	return false
}

func c01ConfigFill(c *Ctx, k *core, slots ssa.Value) {
	f := k.config
	name := relName(f) + "#fill"
	n := 0
	// the value of a slot: Extract#0 of sources[idx].Value(...) with the slot's own index
	isValueOf := func(v ssa.Value, idx ssa.Value) bool {
		ex, ok := v.(*ssa.Extract)
		if !ok || ex.Index != 0 {
			return false
		}
		call, ok := ex.Tuple.(*ssa.Call)
		if !ok || calleeFullName(call) != "("+modPath+".Source).Value" {
			return false
		}
		// receiver: *(&sources[idx]) with the same idx
		if rl, ok := call.Call.Value.(*ssa.UnOp); ok && rl.Op == token.MUL {
			if ia2, ok := rl.X.(*ssa.IndexAddr); ok && ia2.Index == idx {
				if p, ok := ia2.X.(*ssa.Parameter); ok && p.Parent() == f {
					return true
				}
			}
		}
		return false
	}
	// field-wise fills (`slots[i].source = ...; slots[i].value = ...`) are grouped by their index value
	type fieldFill struct {
		idx   ssa.Value
		pos   token.Pos
		value ssa.Value
		nval  int
	}
	var fills []*fieldFill
	for _, i := range allInstrs(f) {
		st, ok := i.(*ssa.Store)
		if !ok {
			continue
		}
		if fa, isFA := st.Addr.(*ssa.FieldAddr); isFA {
			if ia, ok := fa.X.(*ssa.IndexAddr); ok && ia.X == slots && fieldName(fa.X.Type(), fa.Field) == "value" {
				var g *fieldFill
				for _, x := range fills {
					if x.idx == ia.Index {
						g = x
					}
				}
				if g == nil {
					g = &fieldFill{idx: ia.Index, pos: st.Pos()}
					fills = append(fills, g)
				}
				g.value = st.Val
				g.nval++
			}
			continue
		}
		ia, ok := st.Addr.(*ssa.IndexAddr)
		if !ok || ia.X != slots {
			continue
		}
		n++
		// the stored struct: load of a sourceValue literal whose value field is Extract#0 of sources[idx].Value(...)
		okv := false
		if ld, ok := st.Val.(*ssa.UnOp); ok && ld.Op == token.MUL {
			if v := litField(ld.X, "value"); v != nil {
				okv = isValueOf(v, ia.Index)
			}
		}
		c.check(okv && isForwardRangeIndex(ia.Index), "order-config", name, st.Pos(),
			"slot[i] = {sources[i], sources[i].Value(...)} with i the forward range index", "a slot is not filled from the source with the same forward range index")
	}
	for _, g := range fills {
		n++
		c.check(g.nval == 1 && isValueOf(g.value, g.idx) && isForwardRangeIndex(g.idx), "order-config", name, g.pos,
			"slot[i].value = sources[i].Value(...) with i the forward range index", "a slot is not filled from the source with the same forward range index")
	}
	if n != 1 {
		c.bad("order-config", name+"-count", f.Pos(), "%d slot fills in Config, want exactly 1", n)
	}
}

func c01Compose(c *Ctx, k *core, merge *ssa.Function) {
	f := k.compose
	name := relName(f)
	calls := callsToFn(f, merge)
	if len(calls) != 1 {
		c.bad("order-compose", name, f.Pos(), "%d merge calls in compose, want 1", len(calls))
		return
	}
	ci := calls[0]
	args := ci.Common().Args
	base, ov := args[len(args)-2], args[len(args)-1]
	// base defined outside the loop: its defining instruction dominates the loop header and is not in a loop
	bi, ok := base.(ssa.Instruction)
	c.check(ok && !inLoop(bi) && inLoop(ci.(ssa.Instruction)), "order-compose", name+"#one-base", ci.Pos(),
		"all layers are merged into one base defined before the loop", "the merge base is (re)defined inside the loop or the merge is not in a loop")
	// overlay derives from sources[idx] with idx forward
	var idx ssa.Value
	isSlotValue := func(v ssa.Value) bool {
		ld, ok := v.(*ssa.UnOp)
		if !ok || ld.Op != token.MUL {
			return false
		}
		addr := ld.X
		if fa, isFA := addr.(*ssa.FieldAddr); isFA && fieldName(fa.X.Type(), fa.Field) == "value" {
			addr = fa.X // sources[i].value read in place
		}
		ia, ok := addr.(*ssa.IndexAddr)
		if !ok {
			return false
		}
		if p, ok := ia.X.(*ssa.Parameter); ok && p.Parent() == f {
			idx = ia.Index
			return true
		}
		return false
	}
	okSrc := derivesAll(ov, isSlotValue, &flowOpts{through: map[string]bool{"(reflect.Value).Elem": true, "reflect.Indirect": true, "(*" + modPath + ".deepCopier).deepCopyValue": false}, w: c.W, maxDepth: 0})
	if !okSrc {
		// through the deep copy call: its last argument
		if call, ok := ov.(*ssa.Call); ok && len(call.Call.Args) > 0 {
			okSrc = derivesAll(call.Call.Args[len(call.Call.Args)-1], isSlotValue, &flowOpts{through: map[string]bool{"(reflect.Value).Elem": true, "reflect.Indirect": true}})
		}
	}
	c.check(okSrc && idx != nil && isForwardRangeIndex(idx), "order-compose", name+"#forward", ci.Pos(),
		"each iteration overlays sources[i] with i a forward range index: later sources override earlier ones", "the overlay operand is not sources[i] of a forward range (layers may be applied in another order or skipped)")
}

func c01NilSkip(c *Ctx, leaf *ssa.Function) {
	name := relName(leaf)
	ov := leaf.Params[len(leaf.Params)-1]
	kindAtom := "(reflect.Value).Kind(" + ov.Name() + ")"
	nilAtom := "(reflect.Value).IsNil(" + ov.Name() + ")"
	pb := &predBuilder{}
	n := 0
	bad := false
	for _, i := range allInstrs(leaf) {
		ci, ok := i.(*ssa.Call)
		if !ok {
			continue
		}
		nme := calleeFullName(ci)
		isMut := nme == "(reflect.Value).Set" || nme == "(reflect.Value).SetMapIndex"
		if callee := staticCallee(ci); callee != nil && callee.Signature.Recv() != nil && namedTypeName(callee.Signature.Recv().Type()) == ".overlayer" {
			isMut = true
		}
		if !isMut {
			continue
		}
		n++
		g := pb.pathCond(leaf.Blocks[0], ci.Block())
		for _, kk := range []int64{kPtr, kMap, kSlice, kInterface} {
			fbN, fiN := map[string]bool{}, map[string]bool{}
			atomsOf(g, fbN, fiN)
			_, counter := forAll(g, map[string][]int64{kindAtom: {kk}}, func(e env, fv bool) bool {
				if !fbN[nilAtom] {
					return !fv // the path never tests IsNil: it must be unreachable for this kind
				}
				return !(e.B[nilAtom] && fv)
			})
			if counter != "" {
				bad = true
				c.bad("nil-skip", name+"#mutation", ci.Pos(), "%s is reachable with a nil overlay of kind %s (an unset value would overwrite lower layers): %s", nme, kindNames[kk], counter)
				break
			}
		}
	}
	// the atoms must actually occur (otherwise the check above is vacuous)
	hasKind, hasNil := false, false
	for _, i := range allInstrs(leaf) {
		if ci, ok := i.(*ssa.Call); ok {
			if canon(ci) == kindAtom {
				hasKind = true
			}
			if canon(ci) == nilAtom {
				hasNil = true
			}
		}
	}
	if !hasNil {
		c.bad("nil-skip", name+"#test", leaf.Pos(), "the leaf overlay never tests overlay.IsNil()")
		return
	}
	_ = hasKind
	if !bad {
		c.okRows("nil-skip", name+"#mutation", leaf.Pos(), n*4, "none of the %d mutation sites is reachable when the overlay is nil and of kind Ptr/Map/Slice/Interface", n)
	}
	// IsNil is only called on nil-able kinds (else reflect panics): kinds reaching the IsNil call ⊆ nilable
	for _, i := range allInstrs(leaf) {
		ci, ok := i.(*ssa.Call)
		if !ok || canon(ci) != nilAtom {
			continue
		}
		g := pb.pathCond(leaf.Blocks[0], ci.Block())
		ks := kindsWhere(g, kindAtom)
		okk := true
		for kk := range ks {
			switch kk {
			case kPtr, kMap, kSlice, kInterface, kChan, kFunc, kUnsafePointer:
			default:
				okk = false
			}
		}
		c.check(okk && ks[kPtr] && ks[kMap] && ks[kSlice] && ks[kInterface], "nil-skip", name+"#isnil-kinds", ci.Pos(),
			"overlay.IsNil() is evaluated exactly for nil-able kinds "+kindSetString(ks), "overlay.IsNil() is evaluated for kinds "+kindSetString(ks)+" (must cover Ptr/Map/Slice/Interface and only nil-able kinds)")
	}
	// nil => return nil (no error)
	for _, r := range returnsOf(leaf) {
		for _, ec := range condsDominating(r.Block()) {
			if canon(ec.Cond) == nilAtom && ec.Val && ec.If.Block().Succs[0] == r.Block() {
				c.check(isNilConst(retVals(r)[0]), "nil-skip", name+"#returns-nil", r.Pos(), "an unset overlay returns nil (no error, no change)", "an unset overlay value produces an error")
			}
		}
	}
}

// c01UnsetRepr uses the type-checked AST: return statements of pointerifyField.
func c01UnsetRepr(c *Ctx, pfield *ssa.Function) {
	name := relName(pfield)
	orig := c01FieldParam(pfield)
	pb := &predBuilder{}
	n := 0
	for _, r := range returnsOf(pfield) {
		rv, dropped, okForm := c01RetField(r)
		if !okForm {
			c.undecided("unset-repr", name+"#return-form", r.Pos(), "a return of pointerifyField is neither a *StructField nor a (StructField, bool) pair with a constant flag")
			continue
		}
		if dropped {
			continue
		}
		n++
		// which kinds of the original field type reach this return
		g := pb.pathCond(pfield.Blocks[0], r.Block())
		var kindAtoms []string
		fb, fi := map[string]bool{}, map[string]bool{}
		atomsOf(g, fb, fi)
		for a := range fi {
			if strings.HasPrefix(a, "(reflect.Type).Kind(") {
				kindAtoms = append(kindAtoms, a)
			}
		}
		// returns &originalField (the spilled parameter) ?
		isOrig := rv == ssa.Value(orig)
		if al, ok := rv.(*ssa.Alloc); ok && !isOrig {
			// an untouched whole copy of the spilled parameter (`originalField := originalField`) stands for it;
			// a copy that is written afterwards (`newSF := originalField; newSF.Type = ...`) does not
			for hops := 0; hops < 3; hops++ {
				st := uniqueStore(al)
				if st == nil {
					break
				}
				if st.Val == ssa.Value(orig) {
					isOrig = true
					break
				}
				ld, isLd := st.Val.(*ssa.UnOp)
				if !isLd || ld.Op != token.MUL || allocFieldWritten(al) {
					break
				}
				src, isAl := ld.X.(*ssa.Alloc)
				if !isAl || allocFieldWritten(src) {
					break
				}
				al = src
			}
		}
		if isOrig {
			// the outermost kind atom is the kind of the field type: must be restricted to nil-able kinds
			okk := false
			desc := ""
			for _, a := range kindAtoms {
				ks := kindsWhere(g, a)
				all := true
				for kk := range ks {
					switch kk {
					case kMap, kSlice, kInterface, kPtr, kChan, kFunc:
					default:
						all = false
					}
				}
				if all && len(ks) > 0 && len(ks) < len(allKinds) {
					okk = true
					desc = a + " in " + kindSetString(ks)
				}
			}
			c.check(okk, "unset-repr", name+"#returns-original", r.Pos(), "the original (un-pointerified) field is kept only for nil-able kinds: "+desc,
				"the original field type is retained on a path not restricted to nil-able kinds: a non-nilable field cannot represent 'unset'")
			continue
		}
		// otherwise: a field whose Type derives from reflect.PtrTo/PointerTo, or a recursive call, or impl.Type() under Map/Slice
		okT := c01TypeIsNilable(rv, pfield, g)
		c.check(okT, "unset-repr", name+"#returns-pointerified", r.Pos(), "returned field type is reflect.PtrTo(...) / a Map or Slice concrete type / the result of a recursive call",
			"a returned field's type is not provably nil-able")
	}
	if n == 0 {
		c.bad("unset-repr", name, pfield.Pos(), "pointerifyField never returns a field")
	}
}

func c01TypeIsNilable(rv ssa.Value, f *ssa.Function, g formula) bool {
	// recursive call result
	if call, ok := rv.(*ssa.Call); ok && staticCallee(call) == origin(f) {
		return true
	}
	al, ok := rv.(*ssa.Alloc)
	if !ok {
		return false
	}
	// all stores into the Type field of this struct
	okAll, n := true, 0
	for _, r := range *al.Referrers() {
		fa, ok := r.(*ssa.FieldAddr)
		if !ok || fieldName(fa.X.Type(), fa.Field) != "Type" {
			continue
		}
		for _, rr := range *fa.Referrers() {
			st, ok := rr.(*ssa.Store)
			if !ok || st.Addr != fa {
				continue
			}
			n++
			if call, ok := st.Val.(*ssa.Call); ok {
				switch calleeFullName(call) {
				case "reflect.PtrTo", "reflect.PointerTo":
					continue
				case "(reflect.Value).Type":
					// impl.Type(): only under impl.Kind() in {Map, Slice}
					pb := &predBuilder{}
					gg := pb.pathCond(f.Blocks[0], st.Block())
					atom := "(reflect.Value).Kind(" + canon(call.Call.Args[0]) + ")"
					ks := kindsWhere(gg, atom)
					okk := len(ks) > 0
					for kk := range ks {
						if kk != kMap && kk != kSlice {
							okk = false
						}
					}
					if okk {
						continue
					}
				}
			}
			// sf.Type = ft under case Ptr (ft is the pointer type itself)
			pb := &predBuilder{}
			gg := pb.pathCond(f.Blocks[0], st.Block())
			fb, fi := map[string]bool{}, map[string]bool{}
			atomsOf(gg, fb, fi)
			okPtr := false
			for a := range fi {
				if strings.HasPrefix(a, "(reflect.Type).Kind(") {
					ks := kindsWhere(gg, a)
					if len(ks) == 1 && ks[kPtr] {
						okPtr = true
					}
				}
			}
			if !okPtr {
				okAll = false
			}
		}
	}
	return okAll && n > 0
}

func c01Omit(c *Ctx, merge, leaf, ptrfy, pfield, omit *ssa.Function) {
	// (a) overlay walk: the leaf call is reached iff !OmitField(...) && kind not in {Chan, Func}
	calls := callsToFn(merge, leaf)
	if len(calls) != 1 {
		c.bad("omit-agree", relName(merge), merge.Pos(), "%d leaf overlay calls in the walk, want 1", len(calls))
		return
	}
	lc := calls[0].(*ssa.Call)
	// loop body entry: the block of the field load (first arg of the leaf call)
	fieldVal := lc.Call.Args[len(lc.Call.Args)-2]
	fi, ok := fieldVal.(ssa.Instruction)
	if !ok {
		c.undecided("omit-agree", relName(merge), lc.Pos(), "base field operand is not computed in the loop")
		return
	}
	omitAtom := ""
	for _, ci := range callsToFn(merge, omit) {
		omitAtom = canon(ci.(*ssa.Call))
	}
	kindAtom := "(reflect.Value).Kind(" + canon(fieldVal) + ")"
	pb := &predBuilder{}
	start := fi.Block()
	if entry := loopBodyEntry(lc.Block()); entry != nil && entry != start && entry.Dominates(start) {
		// the field value may be read only where it is needed (after the skip tests): the iteration starts at the
		// entry of the loop body
		start = entry
	}
	g := pb.pathCond(start, lc.Block())
	// the kind may be read from the field's declared type (baseType.Field(i).Type.Kind()) instead of from the field
	// value: for a struct field the two are the same kind
	if fc, isCall := fieldVal.(*ssa.Call); isCall && calleeFullName(fc) == "(reflect.Value).Field" {
		fbk, fik := map[string]bool{}, map[string]bool{}
		atomsOf(g, fbk, fik)
		if !fik[kindAtom] {
			for _, i := range allInstrs(merge) {
				kc, ok := i.(*ssa.Call)
				if !ok || calleeFullName(kc) != "(reflect.Type).Kind" || !fik[canon(kc)] {
					continue
				}
				// receiver: <StructField>.Type with the StructField = T.Field(same index), T = Type() of the base
				okRecv := derivesAny(callArgs(kc)[0], func(y ssa.Value) bool {
					tf, ok := y.(*ssa.Call)
					if !ok || calleeFullName(tf) != "(reflect.Type).Field" || !sameValue(callArgs(tf)[1], fc.Call.Args[1]) {
						return false
					}
					return derivesAny(callArgs(tf)[0], func(z ssa.Value) bool {
						tc, ok := z.(*ssa.Call)
						return ok && calleeFullName(tc) == "(reflect.Value).Type" && sameValue(tc.Call.Args[0], fc.Call.Args[0])
					}, nil)
				}, nil)
				if okRecv {
					kindAtom = canon(kc)
				}
			}
		}
	}
	rows, counter := forAll(g, map[string][]int64{kindAtom: allKinds}, func(e env, fv bool) bool {
		want := !e.B[omitAtom] && e.I[kindAtom] != kChan && e.I[kindAtom] != kFunc
		return fv == want
	})
	fb, fint := map[string]bool{}, map[string]bool{}
	atomsOf(g, fb, fint)
	extra := len(fb)+len(fint) != 2 || omitAtom == ""
	if counter != "" || extra {
		c.bad("omit-agree", relName(merge)+"#walk", lc.Pos(), "the overlay walk overlays a field under %s, not exactly !OmitField(field) && kind not in {Chan,Func} (%s)", g, counter)
	} else {
		c.okRows("omit-agree", relName(merge)+"#walk", lc.Pos(), rows, "field overlaid iff !ptrify.OmitField(field) && kind not in {Chan, Func} (%d rows)", rows)
	}
	// (b) Pointerify: field appended iff !OmitField && pointerifyField != nil
	var app *ssa.Call
	for _, i := range allInstrs(ptrfy) {
		if ci, ok := i.(*ssa.Call); ok && calleeFullName(ci) == "builtin.append" {
			app = ci
		}
	}
	pcalls := callsToFn(ptrfy, pfield)
	ocalls := callsToFn(ptrfy, omit)
	if app == nil || len(pcalls) != 1 || len(ocalls) != 1 {
		c.bad("omit-agree", relName(ptrfy)+"#loop", ptrfy.Pos(), "Pointerify's loop does not have the expected append / pointerifyField / OmitField calls")
	} else {
		oc := ocalls[0].(*ssa.Call)
		pc := pcalls[0].(*ssa.Call)
		// OmitField is applied to original.Field(i) and that same field is pointerified
		sameField := sameValue(oc.Call.Args[0], pc.Call.Args[0])
		pb2 := &predBuilder{name: func(v ssa.Value) string {
			if v == ssa.Value(oc) {
				return "omit"
			}
			if v == ssa.Value(pc) {
				return "sf"
			}
			// the (field, keep) form: keep stands for "the field was not dropped"
			if ex, ok := v.(*ssa.Extract); ok && ex.Tuple == ssa.Value(pc) && ex.Index == 1 {
				return "!isnil(sf)"
			}
			return ""
		}}
		g2 := pb2.pathCond(oc.Block(), app.Block())
		r := compareTable(g2, []string{"omit", "isnil(sf)"}, nil, func(e env) bool { return !e.B["omit"] && !e.B["isnil(sf)"] })
		c.check(sameField && len(r.Unknown) == 0 && r.Mismatch == "", "omit-agree", relName(ptrfy)+"#loop", app.Pos(),
			"Pointerify keeps a field iff !OmitField(field) && pointerifyField(field) != nil", "Pointerify's retention predicate is "+g2.String()+" "+r.Mismatch+strings.Join(r.Unknown, ","))
	}
	// (c) pointerifyField returns nil exactly for kinds {Chan, Func} of the field type
	pbk := &predBuilder{}
	var nilF formula = fConst{false}
	for _, r := range returnsOf(pfield) {
		if _, dropped, okForm := c01RetField(r); okForm && dropped {
			nilF = mkOr(nilF, pbk.pathCond(pfield.Blocks[0], r.Block()))
		}
	}
	fb, fint = map[string]bool{}, map[string]bool{}
	atomsOf(nilF, fb, fint)
	okNil := false
	desc := nilF.String()
	if len(fb) == 0 && len(fint) == 1 {
		for a := range fint {
			ks := kindsWhere(nilF, a)
			desc = a + " in " + kindSetString(ks)
			// and it is the kind of the field's own type
			if len(ks) == 2 && ks[kChan] && ks[kFunc] && strings.Contains(a, c01FieldParam(pfield).Name()) {
				okNil = true
			}
		}
	}
	c.check(okNil, "omit-agree", relName(pfield)+"#drops", pfield.Pos(), "pointerifyField drops a field exactly when its type's kind is Chan or Func ("+desc+")",
		"pointerifyField drops fields under "+desc+", not exactly kind in {Chan, Func}")

	// ---- index-advance ---------------------------------------------------------------------
	// overlay operand = overlay.Field(j) with j a phi; on the back edges j+1 flows exactly from paths through the leaf call
	ovArg := lc.Call.Args[len(lc.Call.Args)-1]
	fc, ok := ovArg.(*ssa.Call)
	if !ok || calleeFullName(fc) != "(reflect.Value).Field" {
		c.bad("index-advance", relName(merge)+"#operand", lc.Pos(), "the overlay operand is not overlay.Field(j)")
		return
	}
	j, ok := fc.Call.Args[1].(*ssa.Phi)
	ovParam := merge.Params[len(merge.Params)-1]
	if !ok || fc.Call.Args[0] != ssa.Value(ovParam) {
		c.bad("index-advance", relName(merge)+"#operand", lc.Pos(), "the overlay operand is not overlay.Field(<loop-carried index>)")
		return
	}
	c.ok("index-advance", relName(merge)+"#operand", fc.Pos(), "overlay operand is overlay.Field(j) with j loop-carried")
	bad := c01IndexFlow(j, lc)
	c.check(bad == "", "index-advance", relName(merge)+"#increment", j.Pos(), "j advances by exactly 1 on the paths that overlay a field and is unchanged on omission paths", bad)
}

// c01IndexFlow follows the loop-carried index j around the loop: every value
// reaching the header phi from inside the loop must be j (path not through the
// leaf call) or j+1 (path through the leaf call).
func c01IndexFlow(j *ssa.Phi, leafCall *ssa.Call) string {
	var check func(v ssa.Value, from *ssa.BasicBlock, seen map[ssa.Value]bool) string
	check = func(v ssa.Value, from *ssa.BasicBlock, seen map[ssa.Value]bool) string {
		if seen[v] && v != ssa.Value(j) {
			return ""
		}
		seen[v] = true
		through := leafCall.Block() == from || leafCall.Block().Dominates(from)
		switch x := v.(type) {
		case *ssa.Phi:
			if x == j {
				if through {
					return "a path through the field overlay does not advance the overlay index (the next field would read a stale overlay field)"
				}
				return ""
			}
			for ei, e := range x.Edges {
				if s := check(e, x.Block().Preds[ei], seen); s != "" {
					return s
				}
			}
			return ""
		case *ssa.BinOp:
			if x.Op == token.ADD && x.X == ssa.Value(j) {
				if n, ok := constInt(x.Y); ok && n == 1 {
					if !(leafCall.Block() == x.Block() || leafCall.Block().Dominates(x.Block())) {
						return "the overlay index is advanced on a path that overlays no field (values would shift into a neighbouring field)"
					}
					return ""
				}
			}
		case *ssa.Const:
			if n, ok := constInt(x); ok && n == 0 {
				return "" // initial value
			}
		}
		return "the overlay index is assigned " + canon(v)
	}
	for ei, e := range j.Edges {
		p := j.Block().Preds[ei]
		if !j.Block().Dominates(p) {
			if n, ok := constInt(e); !ok || n != 0 {
				return "the overlay index does not start at 0"
			}
			continue
		}
		if s := check(e, p, map[ssa.Value]bool{}); s != "" {
			return s
		}
	}
	return ""
}

// c01StructPrecond: each call of the merge routine has a dominating
// struct-kind fact for its base operand.
func c01StructPrecond(c *Ctx, k *core, merge *ssa.Function, rule string) {
	isKindOf := func(v ssa.Value) (ssa.Value, bool) {
		call, ok := v.(*ssa.Call)
		if !ok {
			return nil, false
		}
		n := calleeFullName(call)
		if n == "(reflect.Value).Kind" || n == "(reflect.Type).Kind" {
			return callArgs(call)[0], true
		}
		return nil, false
	}
	callOf := func(v ssa.Value, name string) (ssa.Value, bool) {
		call, ok := v.(*ssa.Call)
		if !ok || calleeFullName(call) != name {
			return nil, false
		}
		return callArgs(call)[0], true
	}
	for _, e := range k.cg.in[merge] {
		ci := e.Site
		f := origin(e.From)
		args := ci.Common().Args
		base := args[len(args)-2]
		name := relName(f) + "#call-overlayStruct"
		if f == k.compose {
			c.okTrivial(rule, name, ci.Pos(), "compose: the base is the dereferenced deep copy of the config pointer (T is a struct type by the Config contract)")
			continue
		}
		ok := false
		why := ""
		for _, ec := range condsDominating(ci.Block()) {
			b, isB := ec.Cond.(*ssa.BinOp)
			if !isB {
				continue
			}
			kv, isC := constInt(b.Y)
			if !isC || kv != kStruct {
				continue
			}
			isStructHere := (b.Op == token.EQL && ec.Val) || (b.Op == token.NEQ && !ec.Val)
			if !isStructHere {
				continue
			}
			subj, isK := isKindOf(b.X)
			if !isK {
				continue
			}
			// (a) Kind(base) == Struct, base itself
			if sameValue(subj, base) {
				ok, why = true, "Kind(base)==Struct dominates"
			}
			// (b) base = Elem(P) and Kind(Elem(Type(P))) == Struct
			if p, isE := callOf(base, "(reflect.Value).Elem"); isE {
				if t, isEl := callOf(subj, "(reflect.Type).Elem"); isEl {
					if pv, isT := callOf(t, "(reflect.Value).Type"); isT && sameValue(pv, p) {
						ok, why = true, "Kind(P.Type().Elem())==Struct dominates for base=P.Elem()"
					}
				}
				// (c) base = Elem(New(Type(O))) and Kind(O)==Struct
				if nt, isN := callOf(p, "reflect.New"); isN {
					if o, isT := callOf(nt, "(reflect.Value).Type"); isT && sameValue(o, subj) {
						ok, why = true, "base is New(O.Type()).Elem() with Kind(O)==Struct"
					}
				}
			}
		}
		if ok {
			c.ok(rule, name, ci.Pos(), "%s", why)
		} else {
			c.bad(rule, name, ci.Pos(), "no dominating fact that base operand %s is struct-kinded: the 'non-struct call' panic is reachable", canon(base))
		}
	}
}

var _ = types.Typ

// c01StructPtrMerges: wholesale replacement of the base pointer in the leaf
// overlay's Ptr arm.
func c01StructPtrMerges(c *Ctx, leaf *ssa.Function) {
	name := relName(leaf)
	base := leaf.Params[len(leaf.Params)-2]
	ov := leaf.Params[len(leaf.Params)-1]
	baseKind := "(reflect.Value).Kind(" + base.Name() + ")"
	pb := &predBuilder{name: func(v ssa.Value) string {
		call, ok := v.(*ssa.Call)
		if !ok {
			return ""
		}
		switch calleeFullName(call) {
		case "(reflect.Value).IsNil":
			if call.Call.Args[0] == ssa.Value(base) {
				return "baseNil"
			}
		case "(reflect.Type).Kind":
			// Kind(Elem(Type(base)))
			if el, ok := call.Call.Value.(*ssa.Call); ok && call.Call.IsInvoke() && calleeFullName(el) == "(reflect.Type).Elem" {
				if ty, ok := el.Call.Value.(*ssa.Call); ok && calleeFullName(ty) == "(reflect.Value).Type" && ty.Call.Args[0] == ssa.Value(base) {
					return "elemKind.Kind()"
				}
			}
		}
		if callee := staticCallee(call); callee != nil && callee.Name() == "IsTextUnmarshalerStruct" {
			return "textU"
		}
		return ""
	}}
	n := 0
	for _, i := range allInstrs(leaf) {
		ci, ok := i.(*ssa.Call)
		if !ok || calleeFullName(ci) != "(reflect.Value).Set" || ci.Call.Args[0] != ssa.Value(base) {
			continue
		}
		x := ci.Call.Args[1]
		fromOverlay := derivesAny(x, func(v ssa.Value) bool { return v == ssa.Value(ov) }, &flowOpts{through: map[string]bool{"(reflect.Value).Elem": true}})
		if !fromOverlay {
			continue
		}
		g := pb.pathCond(leaf.Blocks[0], ci.Block())
		// the Ptr arm and the Struct arm of the base-kind switch
		ks := kindsWhere(g, baseKind)
		if ks[kStruct] && !ks[kPtr] {
			n++
			fbS, fiS := map[string]bool{}, map[string]bool{}
			atomsOf(g, fbS, fiS)
			_, counterS := forAll(g, map[string][]int64{baseKind: {kStruct}}, func(e env, fv bool) bool {
				return !fv || fbS["textU"] && e.B["textU"]
			})
			c.check(counterS == "", "struct-ptr-merges", name+"#replace-struct#"+itoa(n), ci.Pos(), "a struct base is replaced wholesale only when it is a text-unmarshaler struct",
				"a struct-typed base field can be replaced wholesale by the overlay although it is not a text-unmarshaler struct: members the layer left unset are wiped instead of showing through (nested structs must merge field by field): "+counterS)
			continue
		}
		if !ks[kPtr] {
			continue
		}
		n++
		fb, fi := map[string]bool{}, map[string]bool{}
		atomsOf(g, fb, fi)
		_, counter := forAll(g, map[string][]int64{baseKind: {kPtr}, "elemKind.Kind()": allKinds}, func(e env, fv bool) bool {
			if !fv {
				return true
			}
			if fb["baseNil"] && e.B["baseNil"] {
				return true
			}
			if fb["textU"] && e.B["textU"] {
				return true
			}
			return fi["elemKind.Kind()"] && e.I["elemKind.Kind()"] != kStruct
		})
		c.check(counter == "", "struct-ptr-merges", name+"#replace#"+itoa(n), ci.Pos(), "the base pointer is replaced only when nil / pointee not a struct / text-unmarshaler struct",
			"a non-nil base pointer to a struct can be replaced wholesale by the overlay's pointer: members the layer left unset are wiped instead of showing through (nested structs must merge field by field): "+counter)
	}
	if n == 0 {
		c.bad("struct-ptr-merges", name, leaf.Pos(), "no pointer replacement found in the Ptr arm of the leaf overlay")
	}
}

// allocFieldWritten: some field of the allocated struct is stored to individually.
func allocFieldWritten(al *ssa.Alloc) bool {
	for _, r := range *al.Referrers() {
		fa, ok := r.(*ssa.FieldAddr)
		if !ok {
			continue
		}
		for _, rr := range *fa.Referrers() {
			if st, ok := rr.(*ssa.Store); ok && st.Addr == fa {
				return true
			}
		}
	}
	return false
}

// c01FieldParam: the parameter of pointerifyField that is the original field (the one of type reflect.StructField).
func c01FieldParam(pfield *ssa.Function) *ssa.Parameter {
	for _, p := range pfield.Params {
		if p.Type().String() == "reflect.StructField" {
			return p
		}
	}
	return pfield.Params[0]
}

// c01RetField reads one return of pointerifyField in either of its two forms: a *StructField with nil for "drop
// the field", or a (StructField, keep bool) pair. It returns the field value (the address of the local it was
// built in where there is one), whether this return drops the field, and whether the form was understood.
func c01RetField(r *ssa.Return) (val ssa.Value, dropped, ok bool) {
	rv := retVals(r)
	switch len(rv) {
	case 1:
		return rv[0], isNilConst(rv[0]), true
	case 2:
		if bt, isB := rv[1].Type().Underlying().(*types.Basic); !isB || bt.Info()&types.IsBoolean == 0 {
			return nil, false, false
		}
		v := rv[0]
		if ld, isLd := v.(*ssa.UnOp); isLd && ld.Op == token.MUL {
			if al, isAl := ld.X.(*ssa.Alloc); isAl {
				v = al
			}
		}
		if cst, isC := rv[1].(*ssa.Const); isC && cst.Value != nil {
			return v, cst.Value.ExactString() == "false", true
		}
		// the pair of a recursive call handed on
		if ex, isEx := rv[1].(*ssa.Extract); isEx {
			if ex0, isEx0 := rv[0].(*ssa.Extract); isEx0 && ex0.Tuple == ex.Tuple {
				return ex.Tuple, false, true
			}
		}
		return nil, false, false
	}
	return nil, false, false
}
