package main

import (
	"go/token"
	"go/types"
	"strings"

	"golang.org/x/tools/go/ssa"
)

func init() {
	props["C17"] = &propMeta{
		run: runC17,
		explanation: "Convergence 'once changes stop' under arbitrary timing is a liveness property over real filesystem histories and is not decided. Decided: necessary mechanisms of the watch loop that hold on every path - every wake-up (file event for a watched name, " +
			"watcher error, ticker, signal) that does not end the loop reaches the re-read before the next wait; the checksum is recorded only after a successful decode; the not-exist classification uses os.IsNotExist on the read error; after every read of an existing " +
			"file the symlink target is re-resolved and the file/directory watches are repaired (add before remove) before the result is dispatched; the dispatch is total (new value reported, unchanged content ignored, every other error reported); the goroutine defers " +
			"closing the watcher, WG.Done and signal.Stop, returns on context end, and WG.Add precedes its start.",
		assumptions: []string{"fsnotify delivers an event or an error for every change to a watched path", "file systems behave as POSIX describes"},
	}
}

func runC17(c *Ctx) {
	c13Rules(c, "C17")
	c13Body(c)
	c.rule("reread-on-every-wakeup", "in the watch loop every select arm that does not return reaches the re-read (Value) before the next wait; only the file-event arm may skip it, and only under its name filter", 5)
	c.rule("checksum-after-decode", "the checksum of the bytes read is recorded only on the decode-success path, and identical content yields the dedicated unchanged marker (which the loop maps to 'no report')", 2)
	c.rule("notexist-classification", "whether the config file exists is decided by os.IsNotExist applied to the error of the re-read (which does not unwrap decoder errors); while it does not exist nothing is reported and the loop keeps waiting", 1)
	c.rule("watch-repair", "after every read of an existing file, every path to the next wait re-resolves the symlink, re-adds the file watch if it was dropped and updates the directory watches (old = directory resolved before this iteration, new = re-resolved; adding the new directory before removing the old one)", 4)
	c.rule("dispatch-total", "the result of the re-read is dispatched by a type switch: nil -> ReportNewValue(the value just read); unchanged -> nothing; every other error -> ReportError (a not-exist syscall error excepted)", 3)
	c.rule("blank-delegation", "(shared with C20) the ez entry points install the watched file through Blank.SetSource: the inner Watch gets the Dials watch context saved by Blank.Watch (not the SetSource caller's), the saved type and arguments", 5)
	c.rule("blank-locking", "(shared with C20) Blank's fields are accessed under its mutex", 8)
	c.rule("exit-on-fresh-scan", "(shared with C05/C08) the monitor keeps stacking the file source's reports until a complete scan of the watching bits finds no watcher: another source calling Done never stops a still-watching file source from being heard", 1)
	c.rule("refusal-reported", "the watch loop hands a non-nil result of ReportNewValue (a value a wrapping WatchArgs refused) to ReportError", 1)
	c.rule("initial-check", "the watch loop looks at the file once when it starts, without waiting for an event (a change between the initial read and the setup of the watches raises none)", 1)
	c.rule("filter-current-path", "the names the file-event filter compares an event's name with include the symlink-resolved config path as last re-resolved by the loop (and its directory), not a copy taken before the loop: after a symlink swap the file the config now resolves to is rewritten in place under that new name", 1)
	c.rule("own-dir-real-name", "the config's own directory is recognised under its symlink-resolved name too (it may be reached through a symlinked directory; both names share one watch): the old directory is un-watched only when it also differs from EvalSymlinks of the own directory, and the event filter accepts the config's name inside that resolved directory", 2)
	c.rule("release", "the loop goroutine defers watcher.Close, WG.Done and signal.Stop at entry, returns on <-ctx.Done(), and WG.Add(1) precedes `go`", 4)

	w := c.W
	loop := w.fn("sources/file", "WatchingSource.watchLoop")
	watch := w.fn("sources/file", "WatchingSource.Watch")
	val := w.fn("sources/file", "Source.Value")
	upd := w.fn("sources/file", "WatchingSource.updateDirWatches")
	if !c.need(loop != nil && watch != nil && val != nil && upd != nil, "sources/file watchLoop / Watch / Source.Value / updateDirWatches") {
		return
	}
	for _, f := range []*ssa.Function{loop, watch, val, upd} {
		c.analysed(relName(f))
	}
	name := relName(loop)

	var sel *ssa.Select
	var reread *ssa.Call
	for _, i := range allInstrs(loop) {
		switch x := i.(type) {
		case *ssa.Select:
			if x.Blocking && sel == nil {
				sel = x
			}
		case *ssa.Call:
			if staticCallee(x) == origin(val) {
				reread = x
			}
		}
	}
	if sel == nil || reread == nil {
		c.bad("reread-on-every-wakeup", name, loop.Pos(), "the watch loop has no blocking select / no re-read")
		return
	}
	isReread := func(i ssa.Instruction) bool { return i == ssa.Instruction(reread) }
	isNextWait := func(i ssa.Instruction) bool { return i == ssa.Instruction(sel) }
	for si, st := range sel.States {
		entry := selectArm(sel, si)
		if entry == nil {
			c.undecided("reread-on-every-wakeup", name+"#arm", sel.Pos(), "cannot locate select arm %d", si)
			continue
		}
		what := canon(st.Chan)
		isEvents := strings.Contains(types.TypeString(st.Chan.Type(), nil), "fsnotify.Event")
		hit := reachAvoidFromBlock(entry, isNextWait, func(i ssa.Instruction) bool { return isReread(i) || isReturn(i) })
		armName := name + "#arm-" + itoa(si)
		switch {
		case hit == nil:
			c.ok("reread-on-every-wakeup", armName, st.Pos, "arm on %s: every path re-reads the file or returns", what)
		case isEvents:
			// allowed only through the name filter: the skipping path must pass a comparison of ev.Name
			okFilter := c17OnlyViaNameFilter(entry, sel, reread)
			c.check(okFilter, "reread-on-every-wakeup", armName, st.Pos, "file-event arm: the only path that skips the re-read is the name filter (event for an unrelated path)", "the file-event arm can skip the re-read other than through the name filter")
		default:
			c.bad("reread-on-every-wakeup", armName, st.Pos, "the arm on %s can go back to waiting without re-reading the file (a missed change would never be picked up)", what)
		}
	}

	// ---- initial-check: a change made between the initial read and the setup of the watches raises no event (D34),
	// so the loop must look at the file once without waiting for one: either a re-read before the loop, or a
	// wake-up arm on a channel that this function created with room for, and filled with, one token before the loop
	{
		okInit, how := false, ""
		for _, ci := range callsToFn(loop, origin(val)) {
			if !inLoop(ci.(ssa.Instruction)) && domI(ci.(ssa.Instruction), sel) {
				okInit, how = true, "a re-read before the loop"
			}
		}
		for _, st := range sel.States {
			if st.Dir != types.RecvOnly {
				continue
			}
			mk, ok := st.Chan.(*ssa.MakeChan)
			if !ok {
				if ct, isCT := st.Chan.(*ssa.ChangeType); isCT {
					mk, ok = ct.X.(*ssa.MakeChan)
				}
			}
			if !ok || inLoop(mk) {
				continue
			}
			if sz, isC := mk.Size.(*ssa.Const); !isC || sz.Value == nil || sz.Int64() < 1 {
				continue
			}
			for _, r := range *mk.Referrers() {
				if snd, ok := r.(*ssa.Send); ok && !inLoop(snd) && domI(snd, sel) {
					okInit, how = true, "a wake-up arm on a channel pre-loaded with one token"
				}
			}
		}
		// ... or, most generally, some path from the loop's entry reaches the re-read without passing the wait
		if !okInit {
			if reachAvoidFromBlock(loop.Blocks[0], isReread, func(i ssa.Instruction) bool { return i == ssa.Instruction(sel) }) != nil {
				okInit, how = true, "the first iteration reaches the re-read without waiting"
			}
		}
		c.check(okInit, "initial-check", name, sel.Pos(), "the loop looks at the file once when it starts ("+how+")",
			"the watch loop waits for an event before its first look at the file: a change made between the initial read (dials.Config / Blank.SetSource read the value first and start the watcher later) and the setup of the watches raises no event, so if it was the last change the view never converges to the file's final content")
	}

	c17FilterCurrentPath(c, loop, "filter-current-path")
	c17OwnDirRealName(c, loop, upd, "own-dir-real-name")

	// ---- checksum-after-decode --------------------------------------------------------
	rec := w.fn("sources/file", "Source.lastHMACNew")
	if c.need(rec != nil, "sources/file.Source.lastHMACNew") {
		var decode *ssa.Call
		for _, i := range allInstrs(val) {
			if ci, ok := i.(*ssa.Call); ok && calleeFullName(ci) == "("+modPath+".Decoder).Decode" {
				decode = ci
			}
		}
		var decErr ssa.Value
		if decode != nil {
			for _, r := range *decode.Referrers() {
				if e, ok := r.(*ssa.Extract); ok && e.Index == 1 {
					decErr = e
				}
			}
		}
		okRec := decErr != nil
		n := 0
		for _, ci := range callsToFn(val, rec) {
			n++
			if decErr == nil || !knownNil(ci.Block(), decErr, true) || !domI(decode, ci.(ssa.Instruction)) {
				okRec = false
			}
		}
		c.check(okRec && n == 1, "checksum-after-decode", relName(val)+"#record", val.Pos(), "the checksum is recorded once, only after Decode returned nil", "the checksum can be recorded for content that failed to decode (or is recorded more than once): a later identical-but-fixed read would be dropped as unchanged")
		// the unchanged marker is returned iff the recorder said 'same'
		okU := false
		for _, r := range returnsOf(val) {
			rv := retVals(r)
			if al := allocOf(rv[1]); al != nil && litTypeName(al) == "sources/file.unchangedCSumErr" {
				for _, ec := range condsDominating(r.Block()) {
					if call, ok := ec.Cond.(*ssa.Call); ok && ec.Val && staticCallee(call) == origin(rec) {
						okU = true
					}
				}
			}
		}
		c.check(okU, "checksum-after-decode", relName(val)+"#unchanged", val.Pos(), "identical content yields the unchanged marker error", "identical content is not mapped to the unchanged marker")
	}

	// ---- notexist-classification --------------------------------------------------------
	var parseErr ssa.Value
	for _, r := range *reread.Referrers() {
		if e, ok := r.(*ssa.Extract); ok && e.Index == 1 {
			parseErr = e
		}
	}
	var isNE *ssa.Call
	for _, i := range allInstrs(loop) {
		if ci, ok := i.(*ssa.Call); ok && calleeFullName(ci) == "os.IsNotExist" && ci.Call.Args[0] == parseErr {
			isNE = ci
		}
	}
	if isNE == nil {
		c.bad("notexist-classification", name, reread.Pos(), "the existence of the config file is not decided by os.IsNotExist(read error) (errors.Is would also match decoder errors that wrap a not-exist error and silently drop them)")
	} else {
		// on the not-exist branch nothing is reported
		var succ *ssa.BasicBlock
		for _, r := range *isNE.Referrers() {
			switch x := r.(type) {
			case *ssa.If:
				succ = x.Block().Succs[0]
			case *ssa.UnOp:
				for _, rr := range *x.Referrers() {
					if iff, ok := rr.(*ssa.If); ok {
						succ = iff.Block().Succs[1]
					}
				}
			}
		}
		okQ := succ != nil && reachAvoidFromBlock(succ, func(i ssa.Instruction) bool {
			ci, ok := i.(*ssa.Call)
			return ok && strings.HasPrefix(calleeFullName(ci), "("+modPath+".WatchArgs).Report")
		}, isNextWait) == nil
		c.check(okQ, "notexist-classification", name, isNE.Pos(), "os.IsNotExist(read error) decides existence; while missing nothing is reported", "something is reported while the file is classified as missing, or the branch cannot be located")
	}

	// ---- watch-repair ---------------------------------------------------------------------
	updCalls := callsToFn(loop, upd)
	if len(updCalls) != 1 {
		c.bad("watch-repair", name+"#dir-watches", loop.Pos(), "%d calls of updateDirWatches in the loop, want 1", len(updCalls))
	} else {
		uc := updCalls[0].(ssa.Instruction)
		// from the point the file is known to exist: the block where configExists is true
		var exists *ssa.BasicBlock
		if isNE != nil {
			for _, r := range *isNE.Referrers() {
				switch x := r.(type) {
				case *ssa.If:
					exists = x.Block().Succs[1]
				case *ssa.UnOp:
					for _, rr := range *x.Referrers() {
						if iff, ok := rr.(*ssa.If); ok {
							exists = iff.Block().Succs[0]
						}
					}
				}
			}
		}
		if exists == nil {
			c.undecided("watch-repair", name+"#dir-watches", loop.Pos(), "cannot locate the 'file exists' branch")
		} else {
			hit := reachAvoidFromBlock(exists, func(i ssa.Instruction) bool { return isNextWait(i) || isReportCall(i) }, func(i ssa.Instruction) bool { return i == uc })
			c.check(hit == nil, "watch-repair", name+"#dir-watches", uc.Pos(), "after a read of an existing file the directory watches are updated before anything is reported or the loop waits again", "a path reports/waits again after reading an existing file without updating the directory watches (e.g. an early continue for unchanged content)")
			// symlink re-resolution precedes it
			okES := false
			for _, i := range allInstrs(loop) {
				if ci, ok := i.(*ssa.Call); ok && calleeFullName(ci) == "path/filepath.EvalSymlinks" && inLoop(ci) && (exists == ci.Block() || exists.Dominates(ci.Block())) && domI(ci, uc) {
					okES = true
				}
			}
			c.check(okES, "watch-repair", name+"#resolve", uc.Pos(), "the symlink target is re-resolved after the read and before the directory watches are updated", "the symlink target is not re-resolved before the directory watches are updated")
		}
		// old vs new directory: the first argument is computed from the resolved path as it was before this
		// iteration's EvalSymlinks (otherwise old == new always and the watch never moves), the second from the re-resolved one
		isDirOf := func(v ssa.Value) ssa.Value {
			if call, ok := v.(*ssa.Call); ok && calleeFullName(call) == "path/filepath.Dir" {
				return call.Call.Args[0]
			}
			return nil
		}
		ucArgs := updCalls[0].Common().Args
		// (old, new) are the last two arguments; an optional leading argument names the config's own directory
		oldP, newP := isDirOf(ucArgs[len(ucArgs)-2]), isDirOf(ucArgs[len(ucArgs)-1])
		okOld, okNew := false, false
		if oldP != nil && newP != nil {
			fromES := func(x ssa.Value) bool {
				e, ok := x.(*ssa.Extract)
				if !ok {
					return false
				}
				call, ok := e.Tuple.(*ssa.Call)
				return ok && calleeFullName(call) == "path/filepath.EvalSymlinks" && inLoop(call)
			}
			// new: can be this iteration's EvalSymlinks result
			okNew = derivesAny(newP, fromES, nil)
			// old: must not be (derive from) an EvalSymlinks result of the loop body that dominates the update call
			okOld = true
			var visit func(v ssa.Value, d int)
			seenV := map[ssa.Value]bool{}
			visit = func(v ssa.Value, d int) {
				if seenV[v] || d > 6 {
					return
				}
				seenV[v] = true
				if fromES(v) {
					e := v.(*ssa.Extract)
					if domI(e.Tuple.(*ssa.Call), uc) {
						okOld = false
					}
					return
				}
				if ph, ok := v.(*ssa.Phi); ok {
					// a loop-header phi is the value from the previous iteration: fine
					isHdr := false
					for _, p := range ph.Block().Preds {
						if ph.Block().Dominates(p) {
							isHdr = true
						}
					}
					if isHdr {
						return
					}
					for _, e := range ph.Edges {
						visit(e, d+1)
					}
				}
			}
			visit(oldP, 0)
		}
		c.check(okOld && okNew, "watch-repair", name+"#old-vs-new", uc.Pos(), "updateDirWatches(old, new): old is the directory of the path resolved before this iteration, new that of the re-resolved path",
			"the directory watches are updated with an 'old' directory computed after the re-resolve (or a 'new' one that is not re-resolved): old == new on every call, so after a symlink swap the watch never moves to the new target directory")
		// add-before-remove in updateDirWatches
		var add, rem *ssa.Call
		for _, i := range allInstrs(upd) {
			if ci, ok := i.(*ssa.Call); ok {
				switch calleeFullName(ci) {
				case "(*github.com/fsnotify/fsnotify.Watcher).Add":
					add = ci
				case "(*github.com/fsnotify/fsnotify.Watcher).Remove":
					rem = ci
				}
			}
		}
		// the config's own directory is never un-watched (D33): Remove(old) only where old differs from a parameter
		// that the loop fills with filepath.Dir of the (never re-resolved) config path
		if rem != nil {
			okOwn, whyOwn := false, "the old resolved directory is removed from the watcher even when it is the config file's own directory"
			if po, ok := rem.Call.Args[1].(*ssa.Parameter); ok {
				for _, ec := range condsDominating(rem.Block()) {
					b, ok := ec.Cond.(*ssa.BinOp)
					if !ok || (b.Op != token.EQL && b.Op != token.NEQ) || ec.Val != (b.Op == token.NEQ) {
						continue
					}
					var other ssa.Value
					switch {
					case b.X == ssa.Value(po):
						other = b.Y
					case b.Y == ssa.Value(po):
						other = b.X
					}
					pc, ok := other.(*ssa.Parameter)
					if !ok {
						continue
					}
					// the call-site argument for pc
					for pi, fp := range upd.Params {
						if fp != pc {
							continue
						}
						arg := isDirOf(resolveLocalField(ucArgs[pi]))
						if ap, ok := arg.(*ssa.Parameter); ok && ap.Parent() == loop {
							okOwn = true
						} else {
							whyOwn = "the directory compared with the old one before Remove is not filepath.Dir of the watch loop's (unresolved) config path parameter"
						}
					}
				}
			}
			c.check(okOwn, "watch-repair", relName(upd)+"#own-dir-kept", rem.Pos(), "the old directory is un-watched only when it is not the config file's own directory", whyOwn+": after regular file -> symlink into another directory -> regular file (each by rename) the last replacement is announced only in the config's own directory, which is no longer watched - the view never converges")
		}
		// the new directory is always added unless old == new: every return that is not preceded by the Add lies on
		// the "same directory" branch (a guard for the config's own directory placed before the Add leaves the new
		// resolved directory unwatched)
		if add != nil && len(upd.Params) >= 3 {
			oldPar, newPar := ssa.Value(upd.Params[len(upd.Params)-2]), ssa.Value(upd.Params[len(upd.Params)-1])
			okAdd := true
			// as a path fact (a single merged return is dominated by neither): no return is reachable without passing
			// the Add, other than over the edge on which old == new
			pathOK := reachAvoidEdges(upd.Blocks[0], isReturn, func(i ssa.Instruction) bool { return i == ssa.Instruction(add) }, func(b *ssa.BasicBlock, succ int) bool {
				iff, ok := b.Instrs[len(b.Instrs)-1].(*ssa.If)
				if !ok {
					return true
				}
				cond, val := peelNot(iff.Cond, succ == 0)
				cmp, ok := cond.(*ssa.BinOp)
				if !ok || (cmp.Op != token.EQL && cmp.Op != token.NEQ) {
					return true
				}
				if !((cmp.X == oldPar && cmp.Y == newPar) || (cmp.X == newPar && cmp.Y == oldPar)) {
					return true
				}
				return val != (cmp.Op == token.EQL) // the "same directory" edge is not followed
			}) == nil
			for _, r := range returnsOf(upd) {
				if pathOK || domI(add, r) {
					continue
				}
				same := false
				for _, ec := range condsDominating(r.Block()) {
					b, ok := ec.Cond.(*ssa.BinOp)
					if !ok || (b.Op != token.EQL && b.Op != token.NEQ) || ec.Val != (b.Op == token.EQL) {
						continue
					}
					if (b.X == oldPar && b.Y == newPar) || (b.X == newPar && b.Y == oldPar) {
						same = true
					}
				}
				if !same {
					okAdd = false
				}
			}
			c.check(okAdd, "watch-repair", relName(upd)+"#new-dir-added", add.Pos(), "the new resolved directory is watched on every path on which it differs from the old one", "updateDirWatches can return without watching the new resolved directory although it differs from the old one (a guard placed before the Add): after the config becomes a symlink into another directory, rewrites of the target are never noticed")
		}
		c.check(add != nil && rem != nil && domI(add, rem), "watch-repair", relName(upd), upd.Pos(), "the new directory watch is added before the old one is removed", "directory watches are not switched add-before-remove (a change in between would be lost)")
	}

	// ---- dispatch-total --------------------------------------------------------------------------
	var newValue ssa.Value
	for _, r := range *reread.Referrers() {
		if e, ok := r.(*ssa.Extract); ok && e.Index == 0 {
			newValue = e
		}
	}
	// the dispatch may be folded into a helper that is handed the value and the error of the re-read (one call
	// site in the loop): the helper is then the dispatch frame, its
	// parameters stand for the two results and returning stands for "the loop waits again"
	dfn, dNew, dErr := loop, newValue, parseErr
	dNextWait := isNextWait
	for _, i := range allInstrs(loop) {
		ci, ok := i.(*ssa.Call)
		if !ok {
			continue
		}
		h := staticCallee(ci)
		if h == nil || len(h.Blocks) == 0 || c.W.pkgRelOfFn(h) != "sources/file" || len(callsToFn(loop, h)) != 1 {
			continue
		}
		var pn, pe ssa.Value
		for ai, a := range ci.Call.Args {
			if ai >= len(h.Params) {
				break
			}
			if a == newValue {
				pn = h.Params[ai]
			}
			if a == parseErr {
				pe = h.Params[ai]
			}
		}
		if pn != nil && pe != nil {
			hasReport := false
			for _, j := range allInstrs(h) {
				if isReportCall(j) {
					hasReport = true
				}
			}
			if hasReport {
				dfn, dNew, dErr = h, pn, pe
				dNextWait = isReturn
				c.analysed(relName(h))
			}
		}
	}
	okNew, okUnch, okErr := false, false, false
	for _, i := range allInstrs(dfn) {
		ci, ok := i.(*ssa.Call)
		if !ok {
			continue
		}
		switch calleeFullName(ci) {
		case "(" + modPath + ".WatchArgs).ReportNewValue":
			if ci.Call.Args[1] == dNew && knownNil(ci.Block(), dErr, true) {
				okNew = true
			}
		case "(" + modPath + ".WatchArgs).ReportError":
			okErr = true
		}
	}
	if a := eventArmOn(dfn, "sources/file.unchangedCSumErr", dErr); a != nil {
		// nothing reported in that arm
		if reachAvoidFromBlock(a.entry, isReportCall, dNextWait) == nil {
			okUnch = true
		}
	}
	c.check(okNew, "dispatch-total", name+"#new-value", reread.Pos(), "a nil error reports exactly the value just read", "a successful read does not report the value just read")
	c.check(okUnch, "dispatch-total", name+"#unchanged", reread.Pos(), "the unchanged marker is ignored", "unchanged content is reported (identical bytes would create a new version)")
	// default arm: every path from the last type-switch miss reaches ReportError before waiting
	okDef := false
	if okErr {
		for _, b := range dfn.Blocks {
			n := 0
			for _, ec := range condsDominating(b) {
				if e, ok := ec.Cond.(*ssa.Extract); ok && !ec.Val && e.Index == 1 {
					if ta, ok := e.Tuple.(*ssa.TypeAssert); ok && ta.X == dErr {
						n++
					}
				}
			}
			if n >= 2 && knownNil(b, dErr, false) {
				if reachAvoidFromBlock(b, dNextWait, isReportCall) == nil {
					okDef = true
				}
			}
		}
	}
	if !okDef && okErr {
		// the dispatch as a chain of comma-ok assertions / boolean expressions: from the side of the nil test on
		// which the error is non-nil, the condition under which the next wait is reached without a report may hold
		// only for the unchanged marker or a not-exist syscall error
		isReportBlock := map[*ssa.BasicBlock]bool{}
		var waits []*ssa.BasicBlock
		for _, b := range dfn.Blocks {
			for _, i := range b.Instrs {
				if isReportCall(i) {
					isReportBlock[b] = true
				}
				if dNextWait(i) {
					waits = append(waits, b)
				}
			}
		}
		pb := &predBuilder{name: func(v ssa.Value) string {
			if e, ok := v.(*ssa.Extract); ok && e.Index == 1 {
				if ta, ok := e.Tuple.(*ssa.TypeAssert); ok && ta.X == dErr {
					ts := ta.AssertedType.String()
					switch {
					case strings.HasSuffix(ts, "unchangedCSumErr"):
						return "unch"
					case strings.HasSuffix(ts, "os.SyscallError"):
						return "sys"
					}
				}
			}
			if call, ok := v.(*ssa.Call); ok && calleeFullName(call) == "errors.Is" && len(call.Call.Args) == 2 {
				if strings.Contains(canon(call.Call.Args[1]), "ErrNotExist") {
					return "notexist"
				}
			}
			return ""
		}}
		for _, b := range dfn.Blocks {
			iff, ok := b.Instrs[len(b.Instrs)-1].(*ssa.If)
			if !ok {
				continue
			}
			x, nilWhenTrue, isNilCheck := nilCheckOf(iff.Cond)
			if !isNilCheck || x != dErr {
				continue
			}
			start := b.Succs[1]
			if !nilWhenTrue {
				start = b.Succs[0]
			}
			var skip formula = fConst{false}
			reachesWait := false
			addPath := func(f formula) {
				if cst, isConst := f.(fConst); !isConst || cst.V {
					reachesWait = true
				}
				skip = mkOr(skip, f)
			}
			for _, wb := range waits {
				if start.Dominates(wb) {
					addPath(pb.pathCondAvoid(start, wb, isReportBlock))
				}
			}
			// the wait at the head of the enclosing loop: through the back edges
			for _, lp := range dfn.Blocks {
				for _, h := range lp.Succs {
					if h.Dominates(lp) && h.Dominates(start) && (lp == start || start.Dominates(lp)) && !isReportBlock[lp] {
						addPath(mkAnd(pb.pathCondAvoid(start, lp, isReportBlock), edgeFormula(pb, lp, h)))
					}
				}
			}
			fb, fi := map[string]bool{}, map[string]bool{}
			atomsOf(skip, fb, fi)
			known := len(fi) == 0
			for a := range fb {
				if a != "unch" && a != "sys" && a != "notexist" {
					known = false
				}
			}
			if !known || !reachesWait {
				continue
			}
			_, counter := forAll(skip, nil, func(e env, fv bool) bool {
				return !fv || e.B["unch"] || (e.B["sys"] && e.B["notexist"])
			})
			if counter == "" {
				okDef = true
			}
		}
	}
	c.check(okDef, "dispatch-total", name+"#other-errors", reread.Pos(), "every other error reaches ReportError before the loop waits again", "an unclassified read error can be dropped without ReportError")

	// ---- refusal-reported: ReportNewValue may fail (a wrapping WatchArgs that cannot reverse-translate the value returns
	// the error to the watcher); the content is then invalid and the error must reach ReportError (D38)
	{
		nrep := 0
		for _, i := range allInstrs(dfn) {
			ci, ok := i.(*ssa.Call)
			if !ok || calleeFullName(ci) != "("+modPath+".WatchArgs).ReportNewValue" {
				continue
			}
			nrep++
			okRep := false
			for _, j := range allInstrs(dfn) {
				re, ok := j.(*ssa.Call)
				if !ok || calleeFullName(re) != "("+modPath+".WatchArgs).ReportError" {
					continue
				}
				if !derivesAny(re.Call.Args[len(re.Call.Args)-1], func(v ssa.Value) bool { return v == ssa.Value(ci) }, nil) {
					continue
				}
				if knownNil(re.Block(), ci, false) {
					okRep = true
				}
			}
			c.check(okRep, "refusal-reported", name, ci.Pos(), "a value the WatchArgs refused (non-nil result of ReportNewValue) is handed to ReportError", "the result of ReportNewValue is dropped: when a wrapping WatchArgs refuses the value (the transforming source returns the reverse-translation error there) the view stays at the last good config but the error is never reported")
		}
		if nrep == 0 {
			c.bad("refusal-reported", name, loop.Pos(), "the watch loop never reports a new value")
		}
	}

	// ---- release -------------------------------------------------------------------------------------
	want := map[string]bool{"(*sync.WaitGroup).Done": false, "os/signal.Stop": false, "(*github.com/fsnotify/fsnotify.Watcher).Close": false}
	for _, i := range loop.Blocks[0].Instrs {
		if d, ok := i.(*ssa.Defer); ok {
			if _, ok := want[calleeFullName(d)]; ok {
				want[calleeFullName(d)] = true
			}
		}
	}
	for k, v := range want {
		c.check(v, "release", name+"#defer-"+k[strings.LastIndex(k, ".")+1:], loop.Pos(), k+" deferred at entry", k+" is not deferred at the loop's entry")
	}
	// ctx.Done arm returns
	okCtx := false
	for si, st := range sel.States {
		if cv, ok := isCtxDone(st.Chan); ok {
			if p, ok := cv.(*ssa.Parameter); ok && p.Parent() == loop {
				if e := selectArm(sel, si); e != nil && reachAvoidFromBlock(e, isNextWait, isReturn) == nil {
					okCtx = true
				}
			}
		}
	}
	c.check(okCtx, "release", name+"#ctx", sel.Pos(), "the <-ctx.Done() arm returns", "the loop does not return when its context ends")
	// WG.Add before go
	var goI *ssa.Go
	var addI *ssa.Call
	for _, i := range allInstrs(watch) {
		switch x := i.(type) {
		case *ssa.Go:
			goI = x
		case *ssa.Call:
			if calleeFullName(x) == "(*sync.WaitGroup).Add" {
				addI = x
			}
		}
	}
	c.check(goI != nil && addI != nil && domI(addI, goI) && staticCallee(goI) == origin(loop), "release", relName(watch)+"#wg", watch.Pos(), "WG.Add(1) precedes `go watchLoop`", "WG.Add does not precede the start of the loop goroutine")
	_ = token.ADD
	c20Blank(c)
	if kk := loadCore(c); kk.ok {
		kk.checkExitOnFreshScan("exit-on-fresh-scan")
	}
}

func isReportCall(i ssa.Instruction) bool {
	ci, ok := i.(*ssa.Call)
	return ok && strings.HasPrefix(calleeFullName(ci), "("+modPath+".WatchArgs).Report")
}

// selectArm returns the entry block of select state si.
func selectArm(sel *ssa.Select, si int) *ssa.BasicBlock {
	// the If that compares the select's index result with si; its true successor
	// is the arm (for an empty arm that is the merge block after the select,
	// which over-approximates the arm's continuation)
	for _, r := range *sel.Referrers() {
		ex, ok := r.(*ssa.Extract)
		if !ok || ex.Index != 0 {
			continue
		}
		for _, rr := range *ex.Referrers() {
			bo, ok := rr.(*ssa.BinOp)
			if !ok || bo.Op != token.EQL {
				continue
			}
			if idx, ok := constInt(bo.Y); !ok || int(idx) != si {
				continue
			}
			for _, r3 := range *bo.Referrers() {
				if iff, ok := r3.(*ssa.If); ok {
					return iff.Block().Succs[0]
				}
			}
		}
	}
	return nil
}

// eventArmOn: the arm of a type switch on value v asserting *typ.
func eventArmOn(f *ssa.Function, typ string, v ssa.Value) *arm {
	for _, i := range allInstrs(f) {
		ta, ok := i.(*ssa.TypeAssert)
		if !ok || !ta.CommaOk || ta.X != v || namedTypeName(ta.AssertedType) != typ {
			continue
		}
		a := &arm{ta: ta}
		for _, r := range *ta.Referrers() {
			if ex, ok := r.(*ssa.Extract); ok && ex.Index == 1 {
				for _, rr := range *ex.Referrers() {
					if iff, ok := rr.(*ssa.If); ok {
						a.entry = iff.Block().Succs[0]
					}
				}
			}
		}
		if a.entry != nil {
			return a
		}
	}
	return nil
}

// c17OnlyViaNameFilter: in the file-event arm, every path that reaches the
// next wait without re-reading goes through the default of a comparison chain
// on the event's Name.
func c17OnlyViaNameFilter(entry *ssa.BasicBlock, sel *ssa.Select, reread *ssa.Call) bool {
	// The condition under which the arm goes back to the wait without re-reading (per iteration: over the
	// back edges into the loop header that are reachable from the arm without passing the re-read) may only
	// consist of comparisons of the event's Name (and the receive's ok flag), and must be false as soon as
	// one of those comparisons holds: the skip is taken only for an event whose name matches none of the
	// watched paths. Works for the switch form, an if-chain or a boolean expression.
	hdr := sel.Block()
	for h := hdr; h != nil; h = h.Idom() {
		isHdr := false
		for _, p := range h.Preds {
			if h.Dominates(p) {
				isHdr = true
			}
		}
		if isHdr {
			hdr = h
			break
		}
	}
	isNameCmp := func(v ssa.Value) bool {
		bo, ok := v.(*ssa.BinOp)
		if !ok || (bo.Op != token.EQL && bo.Op != token.NEQ) {
			return false
		}
		return strings.HasSuffix(canon(bo.X), ".Name") || strings.HasSuffix(canon(bo.Y), ".Name")
	}
	n := 0
	pb := &predBuilder{name: func(v ssa.Value) string {
		if isNameCmp(v) {
			n++
			bo := v.(*ssa.BinOp)
			k := "nameEq:" + canon(bo.X) + "|" + canon(bo.Y)
			if bo.Op == token.NEQ {
				return "!" + k // ev.Name != path: the negation of the comparison atom
			}
			return k
		}
		if ex, ok := v.(*ssa.Extract); ok && ex.Index > 0 {
			if _, isSel := ex.Tuple.(*ssa.Select); isSel {
				return "recvOK"
			}
		}
		return ""
	}}
	avoid := map[*ssa.BasicBlock]bool{reread.Block(): true}
	var skip formula = fConst{false}
	for _, p := range hdr.Preds {
		if !hdr.Dominates(p) {
			continue
		}
		if !(entry == p || entry.Dominates(p)) {
			continue
		}
		skip = mkOr(skip, mkAnd(pb.pathCondAvoid(entry, p, avoid), edgeFormula(pb, p, hdr)))
	}
	fb, fi := map[string]bool{}, map[string]bool{}
	atomsOf(skip, fb, fi)
	for a := range fb {
		if !strings.HasPrefix(a, "nameEq:") && a != "recvOK" {
			return false // the skip depends on something other than the event's name
		}
	}
	if len(fi) > 0 {
		return false
	}
	_, counter := forAll(skip, nil, func(e env, fv bool) bool {
		if !fv {
			return true
		}
		for a, v := range e.B {
			if strings.HasPrefix(a, "nameEq:") && v {
				return false // skipped although the name matched a watched path
			}
		}
		return true
	})
	return counter == ""
}

// c17FilterCurrentPath: the loop re-resolves the config path (EvalSymlinks inside the loop) and keeps the result in a
// loop-carried variable or a field of a local; some comparison of the event's name must read that very variable, and
// some comparison must read filepath.Dir of it.
func c17FilterCurrentPath(c *Ctx, loop *ssa.Function, rule string) {
	name := relName(loop)
	var resolved ssa.Value
	for _, i := range allInstrs(loop) {
		if ci, ok := i.(*ssa.Call); ok && calleeFullName(ci) == "path/filepath.EvalSymlinks" && inLoop(ci) {
			for _, r := range *ci.Referrers() {
				if e, ok := r.(*ssa.Extract); ok && e.Index == 0 {
					resolved = e
				}
			}
		}
	}
	if resolved == nil {
		c.bad(rule, name, loop.Pos(), "the watch loop never re-resolves the config path's symlinks")
		return
	}
	// where the re-resolved path is kept
	type place struct {
		al  *ssa.Alloc
		fld int // -1: the variable itself
	}
	var places []place
	for _, r := range *resolved.Referrers() {
		st, ok := r.(*ssa.Store)
		if !ok || st.Val != resolved {
			continue
		}
		switch a := st.Addr.(type) {
		case *ssa.Alloc:
			places = append(places, place{a, -1})
		case *ssa.FieldAddr:
			if al, ok := a.X.(*ssa.Alloc); ok {
				places = append(places, place{al, a.Field})
			}
		}
	}
	var isCurrent func(v ssa.Value, seen map[ssa.Value]bool) bool
	isCurrent = func(v ssa.Value, seen map[ssa.Value]bool) bool {
		if v == resolved {
			return true
		}
		if seen[v] {
			return false
		}
		seen[v] = true
		switch x := v.(type) {
		case *ssa.Phi:
			for _, e := range x.Edges {
				if isCurrent(e, seen) {
					return true
				}
			}
		case *ssa.UnOp:
			if x.Op != token.MUL {
				return false
			}
			for _, pl := range places {
				switch a := x.X.(type) {
				case *ssa.Alloc:
					if pl.fld == -1 && a == pl.al {
						return true
					}
				case *ssa.FieldAddr:
					if al, ok := a.X.(*ssa.Alloc); ok && al == pl.al && a.Field == pl.fld {
						return true
					}
				}
			}
		}
		return false
	}
	direct, viaDir, n := false, false, 0
	for _, i := range allInstrs(loop) {
		bo, ok := i.(*ssa.BinOp)
		if !ok || (bo.Op != token.EQL && bo.Op != token.NEQ) {
			continue
		}
		var other ssa.Value
		switch {
		case strings.HasSuffix(canon(bo.X), ".Name"):
			other = bo.Y
		case strings.HasSuffix(canon(bo.Y), ".Name"):
			other = bo.X
		default:
			continue
		}
		n++
		if isCurrent(other, map[ssa.Value]bool{}) {
			direct = true
		}
		if call, ok := other.(*ssa.Call); ok && calleeFullName(call) == "path/filepath.Dir" && isCurrent(call.Call.Args[0], map[ssa.Value]bool{}) {
			viaDir = true
		}
	}
	c.check(n > 0 && direct && viaDir, rule, name+"#filter", resolved.Pos(), "the event filter reads the re-resolved config path the loop maintains, and its directory",
		"no comparison of the event's name reads the config path as re-resolved by the loop (or its directory): the filter keeps a copy taken before the loop, so after a symlink swap events for the file the config now resolves to are dropped as unrelated and an in-place rewrite of it is never picked up")
}

// isRealNameOf: v is the symlink-resolved form of a value satisfying base: the first result of
// filepath.EvalSymlinks(base), possibly falling back to the unresolved value when that fails, directly or through a
// one-parameter helper of the repository that does just that.
func isRealNameOf(w *World, v ssa.Value, base func(ssa.Value) bool, depth int) bool {
	if depth > 3 {
		return false
	}
	switch x := v.(type) {
	case *ssa.Extract:
		if call, ok := x.Tuple.(*ssa.Call); ok && x.Index == 0 && calleeFullName(call) == "path/filepath.EvalSymlinks" {
			return base(call.Call.Args[0])
		}
	case *ssa.Phi:
		real := false
		for _, e := range x.Edges {
			switch {
			case isRealNameOf(w, e, base, depth+1):
				real = true
			case base(e):
			default:
				return false
			}
		}
		return real
	case *ssa.Call:
		h := staticCallee(x)
		if h == nil || len(h.Blocks) == 0 || !w.inRepo(h) || len(h.Params) != 1 || len(x.Call.Args) != 1 || !base(x.Call.Args[0]) {
			return false
		}
		isParam := func(y ssa.Value) bool { return y == ssa.Value(h.Params[0]) }
		real := false
		for _, r := range returnsOf(h) {
			rv := retVals(r)
			if len(rv) != 1 {
				return false
			}
			switch {
			case isRealNameOf(w, rv[0], isParam, depth+1):
				real = true
			case isParam(rv[0]):
			default:
				return false
			}
		}
		return real
	}
	return false
}

// c17OwnDirRealName (D39): see the rule text.
func c17OwnDirRealName(c *Ctx, loop, upd *ssa.Function, rule string) {
	w := c.W
	// (a) updateDirWatches: Remove(old) is reached only where old also differs from the resolved own directory
	var rem *ssa.Call
	for _, i := range allInstrs(upd) {
		if ci, ok := i.(*ssa.Call); ok && calleeFullName(ci) == "(*github.com/fsnotify/fsnotify.Watcher).Remove" {
			rem = ci
		}
	}
	if rem == nil {
		c.ok(rule, relName(upd)+"#remove-guard", upd.Pos(), "no directory watch is ever removed")
	} else {
		okG := false
		old := rem.Call.Args[1]
		for _, ec := range condsDominating(rem.Block()) {
			b, ok := ec.Cond.(*ssa.BinOp)
			if !ok || (b.Op != token.EQL && b.Op != token.NEQ) || ec.Val != (b.Op == token.NEQ) {
				continue
			}
			var other ssa.Value
			switch {
			case b.X == old:
				other = b.Y
			case b.Y == old:
				other = b.X
			default:
				continue
			}
			isOwn := func(y ssa.Value) bool {
				p, ok := y.(*ssa.Parameter)
				return ok && p.Parent() == upd && p != old
			}
			if isRealNameOf(w, other, isOwn, 0) {
				okG = true
			}
		}
		c.check(okG, rule, relName(upd)+"#remove-guard", rem.Pos(), "the old directory is un-watched only when it differs from the symlink-resolved name of the config's own directory as well",
			"the old resolved directory is un-watched although it may be the config's own directory under its symlink-resolved name (the config directory is reached through a symlinked directory): both names share one watch, so the own directory's watch is dropped and a later rename over the config path is never seen")
	}
	// (b) the event filter accepts <resolved own directory>/<base name of the config path>
	isOwnDir := func(y ssa.Value) bool {
		call, ok := resolveLocalField(y).(*ssa.Call)
		if !ok || calleeFullName(call) != "path/filepath.Dir" {
			return false
		}
		p, ok := call.Call.Args[0].(*ssa.Parameter)
		return ok && p.Parent() == loop
	}
	okF := false
	for _, i := range allInstrs(loop) {
		bo, ok := i.(*ssa.BinOp)
		if !ok || (bo.Op != token.EQL && bo.Op != token.NEQ) {
			continue
		}
		var other ssa.Value
		switch {
		case strings.HasSuffix(canon(bo.X), ".Name"):
			other = bo.Y
		case strings.HasSuffix(canon(bo.Y), ".Name"):
			other = bo.X
		default:
			continue
		}
		join, ok := other.(*ssa.Call)
		if !ok || calleeFullName(join) != "path/filepath.Join" || len(join.Call.Args) != 1 {
			continue
		}
		els, ok := sliceElems(join.Call.Args[0], 0)
		if !ok || len(els) != 2 {
			continue
		}
		baseOK := false
		if bc, ok := els[1].V.(*ssa.Call); ok && calleeFullName(bc) == "path/filepath.Base" {
			if p, ok := resolveLocalField(bc.Call.Args[0]).(*ssa.Parameter); ok && p.Parent() == loop {
				baseOK = true
			}
		}
		if baseOK && isRealNameOf(w, els[0].V, isOwnDir, 0) {
			okF = true
		}
	}
	c.check(okF, rule, relName(loop)+"#filter", loop.Pos(), "the event filter accepts the config's name inside the symlink-resolved own directory",
		"no comparison of the event's name accepts <symlink-resolved own directory>/<config base name>: when the config directory is reached through a symlinked directory, events for the config path carry the directory's other name once the resolved path points elsewhere, and are dropped as unrelated")
}
