package main

import (
	"bytes"
	"fmt"
	"go/ast"
	"go/format"
	"go/parser"
	"go/token"

	"golang.org/x/tools/go/ast/astutil"
)

// unliteralize rewrites immediately-invoked function literals that stand for a whole statement
//
//	func() { ...; return; ... }()                 (expression statement)
//	x, y := func() (T, U) { ... return a, b }()   (assignment / definition / return / if-init with that single call)
//
// - the shape the inliner falls back to when the callee has early returns - into straight-line code: the results
// become fresh variables, the body becomes `L: switch { default: BODY }` and every `return e...` of the literal
// becomes `r... = e...; break L`. The literal must have no named results and its body no defer / recover / go
// statement on the literal's own level. Evaluation order and scoping are unchanged (the literal's variables stay
// inside the switch clause).
var unlitCounter int

func unliteralize(filename string, src []byte) ([]byte, int) {
	fset := token.NewFileSet()
	f, err := parser.ParseFile(fset, filename, src, parser.ParseComments)
	if err != nil {
		return src, 0
	}
	n := 0
	// labels of earlier rounds come along when the code that carries them is itself inlined (possibly twice into one
	// function): every dvFold label is given a fresh number, innermost first, together with the breaks that target it
	relabelled := 0
	seenLabel := map[string]bool{}
	astutil.Apply(f, nil, func(c *astutil.Cursor) bool {
		ls, ok := c.Node().(*ast.LabeledStmt)
		if !ok || len(ls.Label.Name) < 6 || ls.Label.Name[:6] != "dvFold" {
			return true
		}
		old := ls.Label.Name
		if !seenLabel[old] {
			seenLabel[old] = true
			return true
		}
		unlitCounter++
		fresh := fmt.Sprintf("dvFold%d", unlitCounter)
		ls.Label.Name = fresh
		ast.Inspect(ls.Stmt, func(n ast.Node) bool {
			if br, ok := n.(*ast.BranchStmt); ok && br.Label != nil && br.Label.Name == old {
				br.Label.Name = fresh
			}
			return true
		})
		relabelled++
		return true
	})
	// a tagless switch whose case expressions contain a literal becomes an if / else chain (one block per else, so
	// that the literal can be unfolded right where its case is evaluated); not when a clause falls through, lists
	// several expressions with a literal among them, or a bare `break` leaves the switch
	containsLit := func(e ast.Expr) bool {
		found := false
		ast.Inspect(e, func(n ast.Node) bool {
			if call, ok := n.(*ast.CallExpr); ok {
				if _, isLit := ast.Unparen(call.Fun).(*ast.FuncLit); isLit {
					found = true
				}
			}
			return !found
		})
		return found
	}
	var breaksOut func(n ast.Node) bool
	breaksOut = func(n ast.Node) bool {
		out := false
		ast.Inspect(n, func(m ast.Node) bool {
			switch x := m.(type) {
			case *ast.ForStmt, *ast.RangeStmt, *ast.SwitchStmt, *ast.TypeSwitchStmt, *ast.SelectStmt, *ast.FuncLit:
				return m == n
			case *ast.BranchStmt:
				if (x.Tok == token.BREAK && x.Label == nil) || x.Tok == token.FALLTHROUGH {
					out = true
				}
			}
			return !out
		})
		return out
	}
	astutil.Apply(f, nil, func(c *astutil.Cursor) bool {
		sw, ok := c.Node().(*ast.SwitchStmt)
		if !ok || sw.Init != nil || sw.Tag != nil || c.Index() < 0 {
			return true
		}
		if _, labelled := c.Parent().(*ast.LabeledStmt); labelled {
			return true
		}
		any := false
		var def *ast.CaseClause
		var clauses []*ast.CaseClause
		for _, st := range sw.Body.List {
			cc := st.(*ast.CaseClause)
			if cc.List == nil {
				def = cc
			} else {
				clauses = append(clauses, cc)
				for _, e := range cc.List {
					if containsLit(e) {
						any = true
						if len(cc.List) != 1 {
							return true
						}
					}
				}
			}
			for _, b := range cc.Body {
				if breaksOut(b) {
					return true
				}
			}
		}
		if !any || len(clauses) == 0 {
			return true
		}
		// the default clause may stand anywhere; the cases are tried in source order
		var tail ast.Stmt
		if def != nil {
			tail = &ast.BlockStmt{List: def.Body}
		}
		for i := len(clauses) - 1; i >= 0; i-- {
			cc := clauses[i]
			var cond ast.Expr = cc.List[0]
			for _, e := range cc.List[1:] {
				cond = &ast.BinaryExpr{X: cond, Op: token.LOR, Y: e}
			}
			ifs := &ast.IfStmt{Cond: cond, Body: &ast.BlockStmt{List: cc.Body}}
			if tail != nil {
				if blk, isBlk := tail.(*ast.BlockStmt); isBlk {
					ifs.Else = blk
				} else {
					ifs.Else = &ast.BlockStmt{List: []ast.Stmt{tail}}
				}
			}
			tail = ifs
		}
		c.Replace(tail)
		relabelled++ // the file changed
		return true
	})
	// the IIFE of a statement, if the statement has one of the supported shapes: the call is the whole expression
	// (modulo parentheses and !) of an expression statement, of the single right-hand side of an assignment, of the
	// single result of a return, or of the condition of an if without init statement. slot is where it sits.
	// simple: evaluating the expression has no effect and reads nothing a literal's body could change in between
	// (identifiers, literals, pkg.Name / x.method selectors used as the function of a call)
	isIIFE := func(e ast.Expr) bool {
		call, ok := e.(*ast.CallExpr)
		if !ok || call.Ellipsis.IsValid() {
			return false
		}
		lit, ok := ast.Unparen(call.Fun).(*ast.FuncLit)
		return ok && len(call.Args) == litParamCount(lit)
	}
	// callFree: only reads (variables, fields, elements, arithmetic): the language leaves the order of such reads
	// relative to calls in the same statement unspecified, so moving a literal's body before them stays within it
	callFree := func(e ast.Expr) bool {
		ok := true
		ast.Inspect(e, func(n ast.Node) bool {
			switch x := n.(type) {
			case *ast.CallExpr, *ast.FuncLit:
				ok = false
			case *ast.UnaryExpr:
				if x.Op == token.ARROW {
					ok = false
				}
			}
			return ok
		})
		return ok
	}
	guards := map[*ast.Expr]ast.Expr{}
	// guardWraps: the parenthesised copies of a left operand inside guards, so that a hoisted operand is replaced by its
	// temporary there as well
	guardWraps := map[*ast.Expr][]*ast.ParenExpr{}
	hoistableOperand := func(e ast.Expr) bool {
		ok := true
		ast.Inspect(e, func(n ast.Node) bool {
			switch x := n.(type) {
			case *ast.FuncLit:
				ok = false
			case *ast.UnaryExpr:
				if x.Op == token.ARROW {
					ok = false
				}
			}
			return ok
		})
		return ok
	}
	// pend: the call operands evaluated before the literal in the same statement. Calls are evaluated in lexical
	// left-to-right order, so each is kept in its place by a temporary assigned just before the unfolded body.
	var pend []*ast.Expr
	hoistable := func(e ast.Expr) bool {
		call, ok := e.(*ast.CallExpr)
		if !ok || isIIFE(call) {
			return false
		}
		if id, isID := call.Fun.(*ast.Ident); isID {
			switch id.Name {
			case "min", "max", "complex", "real", "imag", "panic", "print", "println", "recover", "append", "copy", "delete", "close", "clear":
				return false
			}
		}
		ok = true
		ast.Inspect(e, func(n ast.Node) bool {
			switch x := n.(type) {
			case *ast.FuncLit:
				ok = false
			case *ast.UnaryExpr:
				if x.Op == token.ARROW {
					ok = false
				}
			}
			return ok
		})
		return ok
	}
	var first func(e *ast.Expr) (slot *ast.Expr, simple bool)
	first = func(e *ast.Expr) (*ast.Expr, bool) {
		if callFree(*e) {
			return nil, true
		}
		switch x := (*e).(type) {
		case *ast.Ident, *ast.BasicLit:
			return nil, true
		case *ast.ParenExpr:
			return first(&x.X)
		case *ast.UnaryExpr:
			if x.Op == token.ARROW {
				return nil, false
			}
			if x.Op == token.AND {
				if _, isLit := x.X.(*ast.CompositeLit); !isLit {
					return nil, false
				}
				s, _ := first(&x.X)
				return s, false
			}
			return first(&x.X)
		case *ast.CompositeLit:
			// the elements are evaluated in order
			for i := range x.Elts {
				el := &x.Elts[i]
				if kv, isKV := (*el).(*ast.KeyValueExpr); isKV {
					if _, isID := kv.Key.(*ast.Ident); !isID {
						return nil, false
					}
					el = &kv.Value
				}
				s, simple := first(el)
				if s != nil || !simple {
					return s, false
				}
			}
			return nil, false
		case *ast.SelectorExpr:
			if _, isID := x.X.(*ast.Ident); isID {
				return nil, false // a field read: not hoisted over, but fine as the function of a call (below)
			}
			s, _ := first(&x.X)
			return s, false
		case *ast.BinaryExpr:
			s, simple := first(&x.X)
			if s != nil {
				return s, false
			}
			if !simple {
				// `call() && cond && func() bool {...}()`: the left operand is evaluated first and once; it is kept in
				// a temporary, which then also is the condition under which the literal's body runs
				if (x.Op == token.LAND || x.Op == token.LOR) && hoistableOperand(x.X) {
					pend = append(pend, &x.X)
				} else {
					return nil, false
				}
			}
			if x.Op == token.LAND || x.Op == token.LOR {
				// the right operand is evaluated only when the (call-free) left one does not decide: the literal's
				// body is unfolded under that very condition, its result defaulting to the zero value otherwise
				n0 := len(pend)
				s, _ := first(&x.Y)
				if len(pend) > n0 {
					// a call that is itself evaluated conditionally cannot be moved in front of the condition
					pend = pend[:n0]
					return nil, false
				}
				if s != nil {
					paren := &ast.ParenExpr{X: x.X}
					guardWraps[&x.X] = append(guardWraps[&x.X], paren)
					var g ast.Expr = paren
					if x.Op == token.LOR {
						g = &ast.UnaryExpr{Op: token.NOT, X: g}
					}
					if inner, ok := guards[s]; ok {
						g = &ast.BinaryExpr{X: g, Op: token.LAND, Y: &ast.ParenExpr{X: inner}}
					}
					guards[s] = g
				}
				return s, false
			}
			s, simple = first(&x.Y)
			return s, simple
		case *ast.CallExpr:
			if isIIFE(x) {
				return e, false
			}
			switch fn := x.Fun.(type) {
			case *ast.Ident:
			case *ast.SelectorExpr:
				if _, isID := fn.X.(*ast.Ident); !isID {
					s, _ := first(&fn.X)
					return s, false
				}
			default:
				return nil, false
			}
			for i := range x.Args {
				s, simple := first(&x.Args[i])
				if s != nil {
					return s, false
				}
				if !simple {
					if hoistable(x.Args[i]) && !x.Ellipsis.IsValid() && len(x.Args) > 1 {
						pend = append(pend, &x.Args[i])
						continue
					}
					return nil, false
				}
			}
			return nil, false
		}
		return nil, false
	}
	find := func(e *ast.Expr) (**ast.CallExpr, *ast.Expr) {
		for k := range guards {
			delete(guards, k)
		}
		for k := range guardWraps {
			delete(guardWraps, k)
		}
		pend = nil
		slot, _ := first(e)
		if slot == nil {
			pend = nil
			return nil, nil
		}
		call := (*slot).(*ast.CallExpr)
		return &call, slot
	}
	// firstOf: the first literal in a list of expressions evaluated left to right (what precedes it must be free of calls)
	firstOf := func(list []ast.Expr) *ast.Expr {
		for i := range list {
			s, simple := first(&list[i])
			if s != nil {
				return &list[i]
			}
			if !simple {
				return nil
			}
		}
		return nil
	}
	iifeSlot := func(s ast.Stmt) (*ast.CallExpr, *ast.FuncLit, *ast.Expr) {
		var e *ast.Expr
		switch x := s.(type) {
		case *ast.ExprStmt:
			e = &x.X
		case *ast.AssignStmt:
			lhsSimple := true
			for _, l := range x.Lhs {
				switch y := l.(type) {
				case *ast.Ident:
				case *ast.SelectorExpr:
					if _, isID := y.X.(*ast.Ident); !isID {
						lhsSimple = false
					}
				default:
					lhsSimple = false
				}
			}
			if len(x.Rhs) == 1 && (lhsSimple || isIIFE(x.Rhs[0])) {
				e = &x.Rhs[0]
			} else if len(x.Rhs) > 1 && lhsSimple {
				e = firstOf(x.Rhs)
			}
		case *ast.ReturnStmt:
			if len(x.Results) == 1 {
				e = &x.Results[0]
			} else if len(x.Results) > 1 {
				e = firstOf(x.Results)
			}
		case *ast.IfStmt:
			if x.Init == nil {
				e = &x.Cond
			}
		case *ast.SwitchStmt:
			if x.Init == nil && x.Tag != nil {
				e = &x.Tag
			}
		case *ast.RangeStmt:
			e = &x.X
		}
		if e == nil {
			return nil, nil, nil
		}
		pc, slot := find(e)
		if pc == nil {
			return nil, nil, nil
		}
		call := *pc
		if call.Ellipsis.IsValid() {
			return nil, nil, nil
		}
		lit, ok := ast.Unparen(call.Fun).(*ast.FuncLit)
		if !ok || len(call.Args) != litParamCount(lit) {
			return nil, nil, nil
		}
		return call, lit, slot
	}
	iifeOf := func(s ast.Stmt) (*ast.CallExpr, *ast.FuncLit) {
		c, l, _ := iifeSlot(s)
		return c, l
	}
	supported := func(lit *ast.FuncLit) bool {
		if litParamCount(lit) < 0 {
			return false
		}
		if lit.Type.Results != nil {
			named := 0
			for _, fl := range lit.Type.Results.List {
				if len(fl.Names) > 0 {
					named++
				}
			}
			if named != 0 && named != len(lit.Type.Results.List) {
				return false
			}
		}
		ok := true
		ast.Inspect(lit.Body, func(n ast.Node) bool {
			switch x := n.(type) {
			case *ast.FuncLit:
				return false
			case *ast.DeferStmt, *ast.GoStmt:
				ok = false
			case *ast.CallExpr:
				if id, isID := x.Fun.(*ast.Ident); isID && id.Name == "recover" {
					ok = false
				}
			}
			return ok
		})
		return ok
	}
	// build the replacement prelude for a literal; returns the statements to put before and the result idents
	build := func(lit *ast.FuncLit, call *ast.CallExpr) (pre []ast.Stmt, results []ast.Expr) {
		unlitCounter++
		counter := unlitCounter
		label := fmt.Sprintf("dvFold%d", counter)
		var rtypes []ast.Expr
		var named []*ast.Ident // the literal's named results, if any
		var bind []ast.Stmt    // parameters bound to the arguments, named results declared: first in the clause
		if lit.Type.Params != nil {
			ai := 0
			for _, fl := range lit.Type.Params.List {
				for _, nm := range fl.Names {
					bind = append(bind, &ast.DeclStmt{Decl: &ast.GenDecl{Tok: token.VAR, Specs: []ast.Spec{&ast.ValueSpec{Names: []*ast.Ident{ast.NewIdent(nm.Name)}, Type: fl.Type, Values: []ast.Expr{call.Args[ai]}}}}})
					if nm.Name != "_" {
						bind = append(bind, &ast.AssignStmt{Lhs: []ast.Expr{ast.NewIdent("_")}, Tok: token.ASSIGN, Rhs: []ast.Expr{ast.NewIdent(nm.Name)}})
					}
					ai++
				}
			}
		}
		if lit.Type.Results != nil {
			for _, fl := range lit.Type.Results.List {
				if len(fl.Names) == 0 {
					rtypes = append(rtypes, fl.Type)
					continue
				}
				for _, nm := range fl.Names {
					rtypes = append(rtypes, fl.Type)
					named = append(named, nm)
					bind = append(bind, &ast.DeclStmt{Decl: &ast.GenDecl{Tok: token.VAR, Specs: []ast.Spec{&ast.ValueSpec{Names: []*ast.Ident{ast.NewIdent(nm.Name)}, Type: fl.Type}}}})
					if nm.Name != "_" {
						bind = append(bind, &ast.AssignStmt{Lhs: []ast.Expr{ast.NewIdent("_")}, Tok: token.ASSIGN, Rhs: []ast.Expr{ast.NewIdent(nm.Name)}})
					}
				}
			}
		}
		var rnames []*ast.Ident
		for i, t := range rtypes {
			id := ast.NewIdent(fmt.Sprintf("dvRes%d_%d", counter, i+1))
			rnames = append(rnames, id)
			pre = append(pre, &ast.DeclStmt{Decl: &ast.GenDecl{Tok: token.VAR, Specs: []ast.Spec{&ast.ValueSpec{Names: []*ast.Ident{id}, Type: t}}}})
			results = append(results, ast.NewIdent(id.Name))
		}
		body := lit.Body
		// a trailing bare return is dropped
		if l := len(body.List); l > 0 && len(rtypes) == 0 {
			if r, ok := body.List[l-1].(*ast.ReturnStmt); ok && len(r.Results) == 0 {
				body.List = body.List[:l-1]
			}
		}
		usesLabel := false
		astutil.Apply(body, func(c *astutil.Cursor) bool {
			switch x := c.Node().(type) {
			case *ast.FuncLit:
				return false
			case *ast.ReturnStmt:
				usesLabel = true
				brk := &ast.BranchStmt{Tok: token.BREAK, Label: ast.NewIdent(label)}
				if len(rnames) == 0 {
					c.Replace(brk)
					return false
				}
				var lhs []ast.Expr
				for _, id := range rnames {
					lhs = append(lhs, ast.NewIdent(id.Name))
				}
				rhs := x.Results
				if len(rhs) == 0 {
					// bare return: the named results
					for _, nm := range named {
						rhs = append(rhs, ast.NewIdent(nm.Name))
					}
				}
				c.Replace(&ast.BlockStmt{List: []ast.Stmt{&ast.AssignStmt{Lhs: lhs, Tok: token.ASSIGN, Rhs: rhs}, brk}})
				return false
			}
			return true
		}, nil)
		stmts := append(bind, body.List...)
		if len(named) > 0 && !endsInReturn(body) {
			// falling off the end of a literal is only possible without results; kept for symmetry
		}
		if usesLabel {
			pre = append(pre, &ast.LabeledStmt{Label: ast.NewIdent(label), Stmt: &ast.SwitchStmt{Body: &ast.BlockStmt{List: []ast.Stmt{&ast.CaseClause{Body: stmts}}}}})
		} else {
			pre = append(pre, &ast.BlockStmt{List: stmts})
		}
		return pre, results
	}
	replaceCall := func(s ast.Stmt, results []ast.Expr) ast.Stmt {
		_, _, slot := iifeSlot(s)
		switch x := s.(type) {
		case *ast.ExprStmt:
			if slot == &x.X {
				return nil // the statement disappears
			}
			*slot = results[0]
			return x
		case *ast.AssignStmt:
			if len(x.Rhs) == 1 && slot == &x.Rhs[0] {
				x.Rhs = results
				return x
			}
			*slot = results[0]
			return x
		case *ast.ReturnStmt:
			if len(x.Results) == 1 && slot == &x.Results[0] {
				x.Results = results
				return x
			}
			*slot = results[0]
			return x
		case *ast.IfStmt:
			*slot = results[0]
			return x
		case *ast.SwitchStmt:
			*slot = results[0]
			return x
		case *ast.RangeStmt:
			*slot = results[0]
			return x
		}
		return s
	}
	astutil.Apply(f, func(c *astutil.Cursor) bool {
		st, ok := c.Node().(ast.Stmt)
		if !ok || c.Index() < 0 {
			// statements outside a list (if/switch init) are handled through their parent below
			if ifs, isIf := c.Node().(*ast.IfStmt); isIf && ifs.Init != nil && c.Index() >= 0 {
				_ = ifs
			}
			return true
		}
		// `if INIT; cond {` / `switch INIT; tag {` with an IIFE in INIT
		var init *ast.Stmt
		switch x := st.(type) {
		case *ast.IfStmt:
			if x.Init != nil {
				init = &x.Init
			}
		case *ast.SwitchStmt:
			if x.Init != nil {
				init = &x.Init
			}
		}
		if init != nil {
			if call, lit, slot := iifeSlot(*init); call != nil && supported(lit) && len(pend) == 0 && guards[slot] == nil {
				if as, isAssign := (*init).(*ast.AssignStmt); isAssign {
					direct := len(as.Rhs) == 1 && slot == &as.Rhs[0]
					if !direct && litResultCount(lit) != 1 {
						return true
					}
					if direct && litResultCount(lit) != len(as.Lhs) {
						return true
					}
					pre, results := build(lit, call)
					for _, p := range pre {
						c.InsertBefore(p)
					}
					if direct {
						as.Rhs = results
					} else {
						// the literal sits inside the right-hand side (an argument of the call that is assigned)
						*slot = results[0]
					}
					n++
				} else if es, isExpr := (*init).(*ast.ExprStmt); isExpr && slot == &es.X {
					pre, _ := build(lit, call)
					for _, p := range pre {
						c.InsertBefore(p)
					}
					*init = nil
					n++
				}
			}
			return true
		}
		call, lit := iifeOf(st)
		if call == nil || !supported(lit) {
			return true
		}
		// a return of the literal's results needs one result per returned value
		if rs, isRet := st.(*ast.ReturnStmt); isRet {
			_ = rs
			if lit.Type.Results == nil || len(lit.Type.Results.List) == 0 {
				return true
			}
		}
		if as, isAssign := st.(*ast.AssignStmt); isAssign && len(as.Rhs) == 1 && isIIFE(as.Rhs[0]) {
			nres := litResultCount(lit)
			if nres != len(as.Lhs) {
				return true
			}
		}
		if _, _, slot := iifeSlot(st); slot != nil {
			direct := false
			switch x := st.(type) {
			case *ast.ExprStmt:
				direct = slot == &x.X
			case *ast.AssignStmt:
				direct = len(x.Rhs) == 1 && slot == &x.Rhs[0]
			case *ast.ReturnStmt:
				direct = len(x.Results) == 1 && slot == &x.Results[0]
			}
			if !direct && litResultCount(lit) != 1 {
				return true
			}
		}
		_, _, gslot := iifeSlot(st)
		guard := guards[gslot]
		if guard != nil && litResultCount(lit) != 1 {
			return true
		}
		hoists := append([]*ast.Expr{}, pend...)
		pre, results := build(lit, call)
		for _, h := range hoists {
			unlitCounter++
			id := fmt.Sprintf("dvTmp%d", unlitCounter)
			c.InsertBefore(&ast.AssignStmt{Lhs: []ast.Expr{ast.NewIdent(id)}, Tok: token.DEFINE, Rhs: []ast.Expr{*h}})
			*h = ast.NewIdent(id)
			for _, paren := range guardWraps[h] {
				paren.X = ast.NewIdent(id)
			}
		}
		if guard != nil {
			// declarations first, the body under the condition that the operand is evaluated at all
			nres := len(results)
			pre = append(append([]ast.Stmt{}, pre[:nres]...), &ast.IfStmt{Cond: guard, Body: &ast.BlockStmt{List: pre[nres:]}})
		}
		for _, p := range pre {
			c.InsertBefore(p)
		}
		if rep := replaceCall(st, results); rep == nil {
			c.Delete()
		} else {
			c.Replace(rep)
		}
		n++
		return true
	}, nil)
	if n == 0 && relabelled == 0 {
		return src, 0
	}
	var buf bytes.Buffer
	if err := format.Node(&buf, fset, f); err != nil {
		return src, 0
	}
	// the result must parse
	if _, err := parser.ParseFile(token.NewFileSet(), filename, buf.Bytes(), 0); err != nil {
		return src, 0
	}
	return buf.Bytes(), n
}

// litParamCount: the number of (named) parameters of a literal the unfolding can bind, -1 when it has unnamed or
// variadic parameters.
func litParamCount(lit *ast.FuncLit) int {
	n := 0
	if lit.Type.Params == nil {
		return 0
	}
	for _, fl := range lit.Type.Params.List {
		if _, variadic := fl.Type.(*ast.Ellipsis); variadic || len(fl.Names) == 0 {
			return -1
		}
		n += len(fl.Names)
	}
	return n
}

func endsInReturn(b *ast.BlockStmt) bool {
	if len(b.List) == 0 {
		return false
	}
	_, ok := b.List[len(b.List)-1].(*ast.ReturnStmt)
	return ok
}

func litResultCount(lit *ast.FuncLit) int {
	n := 0
	if lit.Type.Results != nil {
		for _, fl := range lit.Type.Results.List {
			if len(fl.Names) == 0 {
				n++
			} else {
				n += len(fl.Names)
			}
		}
	}
	return n
}
