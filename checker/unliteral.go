package main

import (
	"bytes"
	"fmt"
	"go/ast"
	"go/format"
	"go/parser"
	"go/token"

	"golang.org/x/tools/go/ast/astutil"
)

// unliteralize rewrites immediately-invoked function literals that stand for a whole statement
//
//	func() { ...; return; ... }()                 (expression statement)
//	x, y := func() (T, U) { ... return a, b }()   (assignment / definition / return / if-init with that single call)
//
// - the shape the inliner falls back to when the callee has early returns - into straight-line code: the results
// become fresh variables, the body becomes `L: switch { default: BODY }` and every `return e...` of the literal
// becomes `r... = e...; break L`. The literal must have no named results and its body no defer / recover / go
// statement on the literal's own level. Evaluation order and scoping are unchanged (the literal's variables stay
// inside the switch clause).
var unlitCounter int

func unliteralize(filename string, src []byte) ([]byte, int) {
	fset := token.NewFileSet()
	f, err := parser.ParseFile(fset, filename, src, parser.ParseComments)
	if err != nil {
		return src, 0
	}
	n := 0
	// the IIFE of a statement, if the statement has one of the supported shapes: the call is the whole expression
	// (modulo parentheses and !) of an expression statement, of the single right-hand side of an assignment, of the
	// single result of a return, or of the condition of an if without init statement. slot is where it sits.
	find := func(e *ast.Expr) (**ast.CallExpr, *ast.Expr) {
		for {
			switch x := (*e).(type) {
			case *ast.ParenExpr:
				e = &x.X
				continue
			case *ast.UnaryExpr:
				if x.Op == token.NOT {
					e = &x.X
					continue
				}
			}
			break
		}
		if call, ok := (*e).(*ast.CallExpr); ok {
			return &call, e
		}
		return nil, nil
	}
	iifeSlot := func(s ast.Stmt) (*ast.CallExpr, *ast.FuncLit, *ast.Expr) {
		var e *ast.Expr
		switch x := s.(type) {
		case *ast.ExprStmt:
			e = &x.X
		case *ast.AssignStmt:
			if len(x.Rhs) == 1 {
				e = &x.Rhs[0]
			}
		case *ast.ReturnStmt:
			if len(x.Results) == 1 {
				e = &x.Results[0]
			}
		case *ast.IfStmt:
			if x.Init == nil {
				e = &x.Cond
			}
		}
		if e == nil {
			return nil, nil, nil
		}
		pc, slot := find(e)
		if pc == nil {
			return nil, nil, nil
		}
		call := *pc
		if len(call.Args) != 0 || call.Ellipsis.IsValid() {
			return nil, nil, nil
		}
		lit, ok := ast.Unparen(call.Fun).(*ast.FuncLit)
		if !ok {
			return nil, nil, nil
		}
		return call, lit, slot
	}
	iifeOf := func(s ast.Stmt) (*ast.CallExpr, *ast.FuncLit) {
		c, l, _ := iifeSlot(s)
		return c, l
	}
	supported := func(lit *ast.FuncLit) bool {
		if lit.Type.Params != nil && len(lit.Type.Params.List) > 0 {
			return false
		}
		if lit.Type.Results != nil {
			for _, fl := range lit.Type.Results.List {
				if len(fl.Names) > 0 {
					return false
				}
			}
		}
		ok := true
		ast.Inspect(lit.Body, func(n ast.Node) bool {
			switch x := n.(type) {
			case *ast.FuncLit:
				return false
			case *ast.DeferStmt, *ast.GoStmt:
				ok = false
			case *ast.CallExpr:
				if id, isID := x.Fun.(*ast.Ident); isID && id.Name == "recover" {
					ok = false
				}
			}
			return ok
		})
		return ok
	}
	// build the replacement prelude for a literal; returns the statements to put before and the result idents
	build := func(lit *ast.FuncLit) (pre []ast.Stmt, results []ast.Expr) {
		unlitCounter++
		counter := unlitCounter
		label := fmt.Sprintf("dvFold%d", counter)
		var rtypes []ast.Expr
		if lit.Type.Results != nil {
			for _, fl := range lit.Type.Results.List {
				rtypes = append(rtypes, fl.Type)
			}
		}
		var rnames []*ast.Ident
		for i, t := range rtypes {
			id := ast.NewIdent(fmt.Sprintf("dvRes%d_%d", counter, i+1))
			rnames = append(rnames, id)
			pre = append(pre, &ast.DeclStmt{Decl: &ast.GenDecl{Tok: token.VAR, Specs: []ast.Spec{&ast.ValueSpec{Names: []*ast.Ident{id}, Type: t}}}})
			results = append(results, ast.NewIdent(id.Name))
		}
		body := lit.Body
		// a trailing bare return is dropped
		if l := len(body.List); l > 0 && len(rtypes) == 0 {
			if r, ok := body.List[l-1].(*ast.ReturnStmt); ok && len(r.Results) == 0 {
				body.List = body.List[:l-1]
			}
		}
		usesLabel := false
		astutil.Apply(body, func(c *astutil.Cursor) bool {
			switch x := c.Node().(type) {
			case *ast.FuncLit:
				return false
			case *ast.ReturnStmt:
				usesLabel = true
				brk := &ast.BranchStmt{Tok: token.BREAK, Label: ast.NewIdent(label)}
				if len(rnames) == 0 {
					c.Replace(brk)
					return false
				}
				var lhs []ast.Expr
				for _, id := range rnames {
					lhs = append(lhs, ast.NewIdent(id.Name))
				}
				c.Replace(&ast.BlockStmt{List: []ast.Stmt{&ast.AssignStmt{Lhs: lhs, Tok: token.ASSIGN, Rhs: x.Results}, brk}})
				return false
			}
			return true
		}, nil)
		if usesLabel {
			pre = append(pre, &ast.LabeledStmt{Label: ast.NewIdent(label), Stmt: &ast.SwitchStmt{Body: &ast.BlockStmt{List: []ast.Stmt{&ast.CaseClause{Body: body.List}}}}})
		} else {
			pre = append(pre, &ast.BlockStmt{List: body.List})
		}
		return pre, results
	}
	replaceCall := func(s ast.Stmt, results []ast.Expr) ast.Stmt {
		_, _, slot := iifeSlot(s)
		switch x := s.(type) {
		case *ast.ExprStmt:
			if slot == &x.X {
				return nil // the statement disappears
			}
			*slot = results[0]
			return x
		case *ast.AssignStmt:
			if slot == &x.Rhs[0] {
				x.Rhs = results
				return x
			}
			*slot = results[0]
			return x
		case *ast.ReturnStmt:
			if slot == &x.Results[0] {
				x.Results = results
				return x
			}
			*slot = results[0]
			return x
		case *ast.IfStmt:
			*slot = results[0]
			return x
		}
		return s
	}
	astutil.Apply(f, func(c *astutil.Cursor) bool {
		st, ok := c.Node().(ast.Stmt)
		if !ok || c.Index() < 0 {
			// statements outside a list (if/switch init) are handled through their parent below
			if ifs, isIf := c.Node().(*ast.IfStmt); isIf && ifs.Init != nil && c.Index() >= 0 {
				_ = ifs
			}
			return true
		}
		// `if INIT; cond {` / `switch INIT; tag {` with an IIFE in INIT
		var init *ast.Stmt
		switch x := st.(type) {
		case *ast.IfStmt:
			if x.Init != nil {
				init = &x.Init
			}
		case *ast.SwitchStmt:
			if x.Init != nil {
				init = &x.Init
			}
		}
		if init != nil {
			if call, lit := iifeOf(*init); call != nil && supported(lit) {
				if as, isAssign := (*init).(*ast.AssignStmt); isAssign {
					pre, results := build(lit)
					for _, p := range pre {
						c.InsertBefore(p)
					}
					as.Rhs = results
					n++
				} else if _, isExpr := (*init).(*ast.ExprStmt); isExpr {
					pre, _ := build(lit)
					for _, p := range pre {
						c.InsertBefore(p)
					}
					*init = nil
					n++
				}
			}
			return true
		}
		call, lit := iifeOf(st)
		if call == nil || !supported(lit) {
			return true
		}
		// a return of the literal's results needs one result per returned value
		if rs, isRet := st.(*ast.ReturnStmt); isRet {
			_ = rs
			if lit.Type.Results == nil || len(lit.Type.Results.List) == 0 {
				return true
			}
		}
		if as, isAssign := st.(*ast.AssignStmt); isAssign {
			nres := 0
			if lit.Type.Results != nil {
				nres = len(lit.Type.Results.List)
			}
			if nres != len(as.Lhs) {
				return true
			}
		}
		if _, _, slot := iifeSlot(st); slot != nil {
			direct := false
			switch x := st.(type) {
			case *ast.ExprStmt:
				direct = slot == &x.X
			case *ast.AssignStmt:
				direct = slot == &x.Rhs[0]
			case *ast.ReturnStmt:
				direct = slot == &x.Results[0]
			}
			if !direct && (lit.Type.Results == nil || len(lit.Type.Results.List) != 1) {
				return true
			}
		}
		pre, results := build(lit)
		for _, p := range pre {
			c.InsertBefore(p)
		}
		if rep := replaceCall(st, results); rep == nil {
			c.Delete()
		} else {
			c.Replace(rep)
		}
		n++
		return true
	}, nil)
	if n == 0 {
		return src, 0
	}
	var buf bytes.Buffer
	if err := format.Node(&buf, fset, f); err != nil {
		return src, 0
	}
	// the result must parse
	if _, err := parser.ParseFile(token.NewFileSet(), filename, buf.Bytes(), 0); err != nil {
		return src, 0
	}
	return buf.Bytes(), n
}
