package main

import (
	"go/types"

	"golang.org/x/tools/go/ssa"
)

// A static call graph over the repo's source functions. Dynamic dispatch that
// matters to the rules (interfaces Source/Watcher/Mangler/WatchArgs, callback
// function values) is handled by the rules themselves; here an interface
// invoke or a call through a function value has no edge, and a function whose
// value is taken (escapes) is marked so that "only reachable from" arguments
// treat it as an entry point.
type callEdge struct {
	From, To *ssa.Function
	Site     ssa.CallInstruction
	Kind     string // "call", "defer", "go", "closure"
}

type callGraph struct {
	w       *World
	out     map[*ssa.Function][]callEdge
	in      map[*ssa.Function][]callEdge
	escapes map[*ssa.Function]bool // value taken other than as static callee / immediately-invoked closure
}

func (w *World) callGraph() *callGraph {
	g := &callGraph{w: w, out: map[*ssa.Function][]callEdge{}, in: map[*ssa.Function][]callEdge{}, escapes: map[*ssa.Function]bool{}}
	add := func(e callEdge) {
		g.out[e.From] = append(g.out[e.From], e)
		g.in[e.To] = append(g.in[e.To], e)
	}
	for _, f := range w.Funcs {
		for _, i := range allInstrs(f) {
			if ci, ok := i.(ssa.CallInstruction); ok {
				kind := "call"
				switch i.(type) {
				case *ssa.Go:
					kind = "go"
				case *ssa.Defer:
					kind = "defer"
				}
				if callee := staticCallee(ci); callee != nil && w.inRepo(callee) {
					add(callEdge{From: f, To: callee, Site: ci, Kind: kind})
				}
				// a closure called/spawned directly: MakeClosure in call position
				if mc, ok := ci.Common().Value.(*ssa.MakeClosure); ok {
					if cf, ok := mc.Fn.(*ssa.Function); ok {
						add(callEdge{From: f, To: origin(cf), Site: ci, Kind: kind})
					}
				}
			}
			// operands that are functions / closures not in callee position escape
			var ops []*ssa.Value
			ops = i.Operands(ops)
			for k, op := range ops {
				if op == nil || *op == nil {
					continue
				}
				var fn *ssa.Function
				switch x := (*op).(type) {
				case *ssa.Function:
					fn = x
				case *ssa.MakeClosure:
					fn, _ = x.Fn.(*ssa.Function)
				}
				if fn == nil {
					continue
				}
				if ci, ok := i.(ssa.CallInstruction); ok && k == 0 && !ci.Common().IsInvoke() && *op == ci.Common().Value {
					continue // callee position
				}
				if _, ok := i.(*ssa.MakeClosure); ok && k == 0 {
					continue // the MakeClosure's own Fn operand
				}
				g.escapes[origin(fn)] = true
			}
		}
		// MakeClosure values used as operands elsewhere are found above via
		// their referrers: mark closures whose MakeClosure has a non-call use
		for _, i := range allInstrs(f) {
			if mc, ok := i.(*ssa.MakeClosure); ok {
				cf, _ := mc.Fn.(*ssa.Function)
				if cf == nil {
					continue
				}
				add(callEdge{From: f, To: origin(cf), Kind: "closure"})
				for _, r := range *mc.Referrers() {
					if ci, ok := r.(ssa.CallInstruction); ok && ci.Common().Value == mc {
						continue
					}
					g.escapes[origin(cf)] = true
				}
			}
		}
	}
	return g
}

// isAPI reports whether f can be called from outside the module: an exported
// package-level function, or an exported method of any type (methods can be
// reached through interfaces even when the type is unexported).
func isAPI(f *ssa.Function) bool {
	if f.Parent() != nil {
		return false
	}
	o, _ := f.Object().(*types.Func)
	if o == nil {
		return false
	}
	return o.Exported()
}

// goroutineRootsOf computes the functions from which target is reachable
// through call/defer/closure edges (not "go" edges) and classifies the maximal
// ones. It returns the set of goroutine roots (functions started only by `go`
// statements), and a list of other entries (API functions or escaping
// functions) from which target is reachable synchronously.
func (g *callGraph) goroutineRootsOf(target *ssa.Function) (roots map[*ssa.Function][]callEdge, otherEntries []*ssa.Function) {
	roots = map[*ssa.Function][]callEdge{}
	seen := map[*ssa.Function]bool{}
	var visit func(f *ssa.Function)
	visit = func(f *ssa.Function) {
		if seen[f] {
			return
		}
		seen[f] = true
		if isAPI(f) || g.escapes[f] {
			otherEntries = append(otherEntries, f)
		}
		sync := 0
		for _, e := range g.in[f] {
			switch e.Kind {
			case "go":
				roots[f] = append(roots[f], e)
			case "closure":
				// the closure's creation site; reachability goes through its call
				// edge (if invoked directly) or it escapes
			default:
				sync++
				visit(e.From)
			}
		}
		if sync == 0 && len(roots[f]) == 0 && !isAPI(f) && !g.escapes[f] {
			// unreferenced function: dead, not an entry
		}
	}
	visit(origin(target))
	return roots, otherEntries
}

// reachableFrom returns all functions reachable from root through
// call/defer/closure-invocation edges (not spawning edges unless followGo).
func (g *callGraph) reachableFrom(root *ssa.Function, followGo bool) map[*ssa.Function]bool {
	seen := map[*ssa.Function]bool{}
	var visit func(f *ssa.Function)
	visit = func(f *ssa.Function) {
		if seen[f] {
			return
		}
		seen[f] = true
		for _, e := range g.out[f] {
			if e.Kind == "go" && !followGo {
				continue
			}
			if e.Kind == "closure" {
				// a closure created in f: treat as reachable (it may be invoked
				// by f or handed to a callee that runs it synchronously)
			}
			visit(e.To)
		}
	}
	visit(origin(root))
	return seen
}

// inLoop reports whether instruction i lies on a CFG cycle.
func inLoop(i ssa.Instruction) bool {
	b := i.Block()
	seen := map[*ssa.BasicBlock]bool{}
	var work []*ssa.BasicBlock
	work = append(work, b.Succs...)
	for len(work) > 0 {
		x := work[len(work)-1]
		work = work[:len(work)-1]
		if x == b {
			return true
		}
		if seen[x] {
			continue
		}
		seen[x] = true
		work = append(work, x.Succs...)
	}
	return false
}

// underLoop reports whether instruction i is in a loop body or in a block
// only reachable from inside one (e.g. an early return inside the loop).
func underLoop(i ssa.Instruction) bool {
	b := i.Block()
	for h := b; h != nil; h = h.Idom() {
		isHeader := false
		for _, p := range h.Preds {
			if h.Dominates(p) {
				isHeader = true
			}
		}
		if !isHeader {
			continue
		}
		if h == b {
			return true
		}
		// blocks dominated by one of the header's exit successors are after the loop
		after := false
		for _, s := range h.Succs {
			if !inLoopBody(h, s) && (s == b || s.Dominates(b)) {
				after = true
			}
		}
		if !after {
			return true
		}
	}
	return false
}
