package main

import (
	"go/token"
	"go/types"

	"golang.org/x/tools/go/ssa"
)

func init() {
	props["C05"] = &propMeta{
		run: runC05,
		explanation: "Decides that the incremental path and a fresh Config are the same computation over the same inputs: both obtain their result from compose(defaults copy, slots); " +
			"compose works on a deep copy of the defaults it is given (so the copy kept by the monitor stays pristine); the reporting source's slot is found by source identity and overwritten " +
			"with exactly the reported value, and slots are written nowhere else; the serial of each install is (serial loaded just before, no store in between) + constant 1; config and serial are " +
			"published as one freshly allocated pair and read by exactly one atomic load per View/ViewVersion; the event serial/old config come from the load preceding the install. " +
			"Not decided: value-level equality of stacked results.",
		assumptions: []string{"sync/atomic semantics", "reflect-level results of overlaying are not modelled (C01/C02 cover the structural part)"},
	}
}

func runC05(c *Ctx) {
	c.rule("same-compose", "the struct-merging routine is applied to a config only inside compose and the overlayer; Config and the update path both take their result from compose, called with the same defaults copy and the same slot slice that Config hands to the monitor, unchanged", 5)
	c.rule("defaults-pristine", "compose overlays onto (and returns) a deep copy of its defaults argument made inside compose, never the argument itself", 1)
	c.rule("slot-by-identity", "every write to a source slot's value in the update path stores exactly the reported value, at the index whose source compared identical to the reporting source; slot values are written nowhere else after Config", 2)
	c.rule("serial-plus-one", "the stored serial is the serial loaded in the same function (no store in between) plus the constant 1, and the new-config event carries (serial loaded before the install call) + 1 with the config loaded by the same call as oldConfig", 2)
	c.rule("atomic-pair", "View and ViewVersion perform exactly one atomic load each (directly or through callees) and every result derives from it; the store publishes a freshly allocated (serial, cfg) pair", 3)
	c.rule("events-in-order", "every send on the Events channel is executed synchronously by the function that stored that version, after the store, and the update path starts no goroutine (a hand-off goroutine would deliver versions out of order)", 2)
	c.rule("enable-result", "(shared with C09) the config and serial EnableVerification returns belong to one ViewVersion call / one monitor reply", 6)
	c.rule("exit-on-fresh-scan", "(shared with C08) the monitor stops stacking reports only when a scan of the watching bits made for the Done event finds none: a still-watching source's reports are always stacked", 1)
	c.rule("copier-state-fresh", "(shared with C02) every stack starts with empty memo tables: a re-stack cannot be answered from an earlier stack's copies", 2)
	c.rule("watchargs-per-source", "(shared with C01) reports are attributed to the reporting source", 1)
	c.rule("events-capacity", "the Events channel is created with a constant capacity of at least 1 (the writer's non-blocking send can park one version)", 1)

	k := loadCore(c)
	if !k.ok {
		return
	}
	w := c.W
	c.analysed(relName(k.config))
	c.analysed(relName(k.monitor))
	c.analysed(relName(k.compose))
	c.analysed(relName(k.view))
	c.analysed(relName(k.viewVersion))

	// ---- same-compose --------------------------------------------------------
	merge := w.fn("", "overlayer.overlayStruct")
	if c.need(merge != nil, "dials.overlayer.overlayStruct") {
		okAll := true
		for _, e := range k.cg.in[merge] {
			from := origin(e.From)
			recvOK := from == k.compose
			if sig := from.Signature; sig.Recv() != nil && namedTypeName(sig.Recv().Type()) == ".overlayer" {
				recvOK = true
			}
			if !recvOK {
				okAll = false
				c.bad("same-compose", relName(from)+"#merge-call", e.Site.Pos(), "struct merge invoked outside compose/overlayer")
			}
		}
		if okAll {
			c.ok("same-compose", "merge-callers", merge.Pos(), "overlayStruct is only called from compose and overlayer methods (%d call sites)", len(k.cg.in[merge]))
		}
	}
	// Config: compose(copy.Interface(), computed); go monitor(ctx, copy.Interface().(*T), computed, ...)
	cc := callsToFn(k.config, k.compose)
	var dcCall *ssa.Call
	dcFn := w.fn("", "realDeepCopy")
	if c.need(dcFn != nil, "dials.realDeepCopy") && len(cc) == 1 {
		through := map[string]bool{"(reflect.Value).Interface": true, "(reflect.Value).Elem": true, "(reflect.Value).Addr": true}
		isDC := func(v ssa.Value) bool {
			if isCallToFn(v, dcFn) {
				dcCall = v.(*ssa.Call)
				return true
			}
			return false
		}
		fo := &flowOpts{through: through}
		a0 := cc[0].Common().Args[0]
		slots := livePhiValue(cc[0].Common().Args[1], cc[0].Block())
		c.check(derivesAll(a0, isDC, fo), "same-compose", relName(k.config)+"#compose-defaults", cc[0].Pos(),
			"Config composes from the deep copy of the caller's defaults", "Config's compose call does not start from the deep copy of the defaults")
		// the go statement
		nGo := 0
		for _, e := range k.cg.in[k.monitor] {
			if e.Kind != "go" {
				continue
			}
			nGo++
			args := e.Site.Common().Args
			okD, okS := false, false
			var first *ssa.Call
			for _, a := range args {
				if sameValue(livePhiValue(a, e.Site.Block()), slots) {
					okS = true
				}
				if _, isPtr := a.Type().Underlying().(*types.Pointer); isPtr {
					dcCall = nil
					if derivesAll(a, isDC, fo) && a != e.Site.Common().Args[0] {
						okD = true
						first = dcCall
					}
				}
			}
			// same deep copy call as compose's
			dcCall = nil
			derivesAll(a0, isDC, fo)
			sameDC := first != nil && first == dcCall
			c.check(okD && okS && sameDC, "same-compose", relName(k.config)+"#monitor-args", e.Site.Pos(),
				"the monitor receives the same defaults copy and the same slot slice that Config composed from",
				"the monitor is not started with the defaults copy and slot slice that Config composed from")
		}
		if nGo == 0 {
			c.bad("same-compose", relName(k.config)+"#monitor-args", k.config.Pos(), "monitor is not started with `go` from Config")
		}
		// the slots slice: no reordering after filling: only IndexAddr stores with the range index
		c05SlotsFill(c, k, slots)
	} else if len(cc) != 1 {
		c.bad("same-compose", relName(k.config)+"#compose-defaults", k.config.Pos(), "Config has %d compose calls, want 1", len(cc))
	}
	// monitor passes its own parameters through unchanged
	for _, sf := range k.storeFns {
		for _, ci := range callsToFn(k.frame().fn, sf) {
			okp := true
			// the positions that matter: the parameters of the storing function that its compose call consumes (all
			// slice / *T arguments when that cannot be told)
			consumed := map[int]bool{}
			if cs := callsToFn(sf, k.compose); len(cs) == 1 {
				for _, ca := range cs[0].Common().Args {
					if cp, ok := stripConv(ca).(*ssa.Parameter); ok && cp.Parent() == sf {
						for pi, fp := range sf.Params {
							if fp == cp {
								consumed[pi] = true
							}
						}
					}
				}
			}
			for ai, a := range ci.Common().Args {
				if ai == 0 || (len(consumed) > 0 && !consumed[ai]) {
					continue
				}
				a = k.frame().toMonitor(a)
				switch a.Type().Underlying().(type) {
				case *types.Slice:
					if p, ok := a.(*ssa.Parameter); !ok || p.Parent() != k.monitor {
						okp = false
					}
				case *types.Pointer:
					if namedTypeName(a.Type()) == "" { // *T
						if p, ok := a.(*ssa.Parameter); !ok || p.Parent() != k.monitor {
							okp = false
						}
					}
				}
			}
			c.check(okp, "same-compose", relName(k.monitor)+"#passes-params", ci.Pos(),
				"monitor hands its own defaults copy and slot slice to the update path", "monitor passes something other than its own defaults/slots parameters to the update path")
		}
		cs := callsToFn(sf, k.compose)
		if len(cs) == 1 {
			args := cs[0].Common().Args
			p0, ok0 := stripConv(args[0]).(*ssa.Parameter)
			p1, ok1 := args[1].(*ssa.Parameter)
			c.check(ok0 && ok1 && p0.Parent() == sf && p1.Parent() == sf, "same-compose", relName(sf)+"#compose-args", cs[0].Pos(),
				"the update path composes from its defaults and slots parameters", "the update path composes from something other than its defaults/slots parameters")
		}
	}

	// ---- defaults-pristine -----------------------------------------------------
	c05ComposeFresh(c, k, "defaults-pristine")

	// ---- slot-by-identity --------------------------------------------------------
	c05Slots(c, k)

	// ---- serial-plus-one -----------------------------------------------------------
	c05Serial(c, k)

	// ---- atomic-pair ------------------------------------------------------------------
	k.checkExitOnFreshScan("exit-on-fresh-scan")
	k.checkWatchArgsPerSource("watchargs-per-source")
	if cp := loadCopier(c); cp != nil {
		c02CopierStateFresh(c, cp, "copier-state-fresh")
	}
	c05Atomic(c, k)
	c09EnableResult(c, k, k.enableHelper())

	// ---- events-capacity -----------------------------------------------------------------
	found := false
	for _, st := range w.storesToField(k.fUpdates) {
		if mc, ok := stripConv(st.Val).(*ssa.MakeChan); ok {
			found = true
			n, isC := constInt(mc.Size)
			c.check(isC && n >= 1, "events-capacity", relName(st.Parent()), st.Pos(), "Events channel has constant capacity >= 1", "Events channel capacity is not a constant >= 1")
		}
	}
	if !found {
		// composite literal field: updatesChan: make(chan *T, 1)
		for _, f := range w.funcsIn("") {
			for _, i := range allInstrs(f) {
				if mc, ok := i.(*ssa.MakeChan); ok {
					for _, r := range *mc.Referrers() {
						if s, ok := r.(*ssa.Store); ok {
							if fa, ok := s.Addr.(*ssa.FieldAddr); ok && sameField(fieldVar(fa.X.Type(), fa.Field), k.fUpdates) {
								found = true
								n, isC := constInt(mc.Size)
								c.check(isC && n >= 1, "events-capacity", relName(f), mc.Pos(), "Events channel has constant capacity >= 1", "Events channel capacity is not a constant >= 1")
							}
						}
					}
				}
			}
		}
	}
	if !found {
		c.bad("events-capacity", "updatesChan", 0, "no make(chan) flows into Dials.updatesChan")
	}
	c05EventsInOrder(c, k)
}

// c05EventsInOrder: versions reach the Events channel in installation order
// only if every send on it is executed synchronously by the function that
// stored that version (which runs on the single monitor goroutine): no send
// from another function or from a closure, and no goroutine is started in the
// update path.
func c05EventsInOrder(c *Ctx, k *core) {
	w := c.W
	isStoreFn := map[*ssa.Function]bool{}
	for _, f := range k.storeFns {
		isStoreFn[f] = true
	}
	n := 0
	for _, f := range w.Funcs {
		if _, _, isFwd := k.eventsForwarder(f); isFwd {
			// a forwarding helper: its send is attributed to its call sites (below)
			cg := w.callGraph()
			okCallers := len(cg.in[origin(f)]) > 0
			for _, e := range cg.in[origin(f)] {
				if e.Kind != "call" || !isStoreFn[origin(e.From)] && e.From != k.enableHelper() {
					okCallers = false
				}
			}
			c.check(okCallers, "events-in-order", relName(f)+"#forwarder", f.Pos(), "the Events forwarding helper is only called synchronously from the storing function / the enable helper", "a helper that sends on the Events channel is called from somewhere other than the storing function (or is spawned / deferred)")
			continue
		}
		for _, op := range k.eventsSendsIn(f) {
			n++
			okS := f.Parent() == nil && isStoreFn[origin(f)]
			// after the store of that version
			after := false
			for _, sc := range k.storeCalls {
				if origin(sc.Parent()) == origin(f) && domI(sc, op.Instr) {
					after = true
				}
			}
			// or: a refresh of the slot with the current version - a non-blocking send of the config just loaded with
			// ViewVersion in a function that only runs on the monitor goroutine, after taking the parked value out
			if !okS && f.Parent() == nil && !isAPI(f) && !op.Blocking && k.vvCall(livePhiValue(op.Val, op.Instr.Block()), 0) != nil {
				cg := w.callGraph()
				roots, others := cg.goroutineRootsOf(f)
				onlyMonitor := len(others) == 0 && len(roots) == 1
				for r := range roots {
					if r != k.monitor {
						onlyMonitor = false
					}
				}
				drained := false
				for _, op2 := range chanOps(f) {
					if !op2.Send && chanIsField(op2.Chan, k.fUpdates) && op2.Sel != nil && domI(op2.Sel, op.Instr) {
						drained = true
					}
				}
				if onlyMonitor && drained {
					c.ok("events-in-order", relName(f)+"#events-refresh", op.Instr.Pos(), "the monitor goroutine swaps a parked config for the current version (loaded in the same function): never older than what was parked")
					continue
				}
			}
			c.check(okS && after, "events-in-order", relName(f)+"#events-send", op.Instr.Pos(), "the Events send is executed by the storing function itself, after the store",
				"a send on the Events channel is executed by "+relName(f)+", which is not the storing function of the monitor goroutine (or precedes the store): consumers can receive versions out of order")
		}
	}
	if n == 0 {
		c.bad("events-in-order", "updatesChan", 0, "no send on Dials.updatesChan found")
	}
	for _, f := range k.storeFns {
		spawned := false
		for _, i := range allInstrs(f) {
			if g, ok := i.(*ssa.Go); ok {
				spawned = true
				c.bad("events-in-order", relName(f)+"#go", g.Pos(), "the update path starts a goroutine: whatever it delivers (Events, replies) is no longer ordered with the installs")
			}
		}
		if !spawned {
			c.ok("events-in-order", relName(f)+"#no-go", f.Pos(), "the update path starts no goroutine")
		}
	}
}

// c05SlotsFill: in Config the slots slice is made once and only written at
// computed[i] with the range key i of the sources loop.
func c05SlotsFill(c *Ctx, k *core, slots ssa.Value) {
	f := k.config
	name := relName(f) + "#slots"
	mk, ok := slots.(*ssa.MakeSlice)
	if !ok {
		c.undecided("same-compose", name, slots.Pos(), "the slot slice is not a make() result")
		return
	}
	bad := ""
	for _, r := range *mk.Referrers() {
		switch x := r.(type) {
		case *ssa.IndexAddr:
			// index must be a loop induction variable of a range over the sources
			if _, isPhiPlus := x.Index.(*ssa.BinOp); !isPhiPlus {
				if _, isPhi := x.Index.(*ssa.Phi); !isPhi {
					bad = "slot written at a non-range index"
				}
			}
		case *ssa.Call, *ssa.Go, *ssa.DebugRef:
		default:
			if _, ok := r.(*ssa.Slice); ok {
				bad = "slot slice is re-sliced"
			}
		}
	}
	for _, i := range allInstrs(f) {
		if ci, ok := i.(*ssa.Call); ok {
			n := calleeFullName(ci)
			if n == "builtin.append" || n == "sort.Slice" || n == "sort.SliceStable" || n == "slices.Reverse" || n == "slices.SortFunc" {
				for _, a := range ci.Call.Args {
					if a == slots {
						bad = "slot slice passed to " + n
					}
				}
			}
		}
	}
	c.check(bad == "", "same-compose", name, mk.Pos(), "slots are filled in argument order at the range index and never reordered", bad)
}

// c05ComposeFresh: the base value compose merges into and returns derives
// from a deep copy (made in compose) of its first parameter.
func c05ComposeFresh(c *Ctx, k *core, rule string) {
	w := c.W
	f := k.compose
	name := relName(f)
	dcFn := w.fn("", "realDeepCopy")
	dcVal := w.fn("", "deepCopyValue")
	dcM := w.fn("", "deepCopier.deepCopyValue")
	isCopyOfParam := func(v ssa.Value) bool {
		call, ok := v.(*ssa.Call)
		if !ok {
			return false
		}
		callee := staticCallee(call)
		if callee == nil || (callee != origin(dcFn) && callee != origin(dcVal) && callee != origin(dcM)) {
			return false
		}
		args := call.Call.Args
		a := args[len(args)-1]
		return derivesAll(a, func(x ssa.Value) bool { p, ok := x.(*ssa.Parameter); return ok && p == f.Params[0] },
			&flowOpts{through: map[string]bool{"reflect.ValueOf": true, "(reflect.Value).Elem": true}})
	}
	fo := &flowOpts{through: map[string]bool{"(reflect.Value).Elem": true, "(reflect.Value).Addr": true, "(reflect.Value).Interface": true}}
	merge := w.fn("", "overlayer.overlayStruct")
	n := 0
	for _, ci := range callsToFn(f, merge) {
		n++
		args := ci.Common().Args
		base := args[len(args)-2]
		c.check(derivesAll(base, isCopyOfParam, fo), rule, name+"#merge-base", ci.Pos(),
			"the base compose merges into is a deep copy (made in compose) of the defaults argument", "compose merges into something that is not a fresh deep copy of its defaults argument")
	}
	if n == 0 {
		c.bad(rule, name+"#merge-base", f.Pos(), "compose does not call the struct merge")
	}
	for _, r := range returnsOf(f) {
		rv := retVals(r)
		if isNilConst(rv[1]) {
			c.check(derivesAll(rv[0], isCopyOfParam, fo), rule, name+"#result", r.Pos(),
				"compose returns (the address of) that fresh copy", "compose's result does not derive from its fresh copy of the defaults")
		}
	}
}

func c05Slots(c *Ctx, k *core) {
	w := c.W
	fSlotVal := w.field("", "sourceValue", "value")
	fSlotSrc := w.field("", "sourceValue", "source")
	fUpdVal := w.field("", "valueUpdate", "value")
	fUpdSrc := w.field("", "valueUpdate", "source")
	if !c.need(fSlotVal != nil && fSlotSrc != nil && fUpdVal != nil && fUpdSrc != nil, "dials.sourceValue/valueUpdate fields") {
		return
	}
	for _, st := range w.wholeStoresOfNamed("sourceValue") {
		f := origin(st.Parent())
		c.check(f == k.config, "slot-by-identity", relName(f)+"#slot-overwrite", st.Pos(), "whole slot written by Config's initial fill",
			"a whole source slot is overwritten outside Config's initial fill: the stored value of that source is lost, so the incremental stack differs from a fresh one")
	}
	// all writes to sourceValue.value
	n := 0
	for _, st := range w.storesToField(fSlotVal) {
		f := origin(st.Parent())
		name := relName(f) + "#slot-write"
		if f == k.config {
			// initial fill via composite literal / index store: fine (before the monitor exists)
			c.okTrivial("slot-by-identity", name, st.Pos(), "initial fill in Config")
			continue
		}
		n++
		isStoreFn := false
		for _, sf := range k.storeFns {
			if sf == f {
				isStoreFn = true
			}
		}
		if !isStoreFn {
			c.bad("slot-by-identity", name, st.Pos(), "a source slot is written outside Config and the update path")
			continue
		}
		// stored value: load of valueUpdate.value
		_, isUpd := isFieldLoad(st.Val, fUpdVal)
		// address: &slots[i].value with slots a parameter
		fa := st.Addr.(*ssa.FieldAddr)
		ia, okIA := fa.X.(*ssa.IndexAddr)
		okAddr := false
		var idx ssa.Value
		if okIA {
			if p, ok := ia.X.(*ssa.Parameter); ok && p.Parent() == f {
				okAddr = true
				idx = ia.Index
			}
		}
		// guard: dominated by update.source == slots[idx].source (or != on the false edge)
		identAt := func(blk *ssa.BasicBlock, idxV ssa.Value) bool {
			for _, ec := range condsDominating(blk) {
				b, ok := ec.Cond.(*ssa.BinOp)
				if !ok || !((b.Op == token.EQL && ec.Val) || (b.Op == token.NEQ && !ec.Val)) {
					continue
				}
				isUpdSrc := func(v ssa.Value) bool { _, ok := isFieldLoad(v, fUpdSrc); return ok }
				isSlotSrc := func(v ssa.Value) bool {
					base, ok := isFieldLoad(v, fSlotSrc)
					if !ok {
						return false
					}
					// base: &slots[idx] directly, or a local copy of *(&slots[idx])
					if ia2, ok := base.(*ssa.IndexAddr); ok {
						return ia2.X == ia.X && ia2.Index == idxV
					}
					if al, ok := base.(*ssa.Alloc); ok {
						for _, r := range *al.Referrers() {
							if s, ok := r.(*ssa.Store); ok && s.Addr == al {
								if ld, ok := s.Val.(*ssa.UnOp); ok && ld.Op == token.MUL {
									if ia2, ok := ld.X.(*ssa.IndexAddr); ok && ia2.X == ia.X && ia2.Index == idxV {
										return true
									}
								}
							}
						}
					}
					return false
				}
				if (isUpdSrc(b.X) && isSlotSrc(b.Y)) || (isUpdSrc(b.Y) && isSlotSrc(b.X)) {
					return true
				}
			}
			return false
		}
		nonNegAt := func(blk *ssa.BasicBlock, v ssa.Value) bool {
			for _, ec := range condsDominating(blk) {
				b, ok := ec.Cond.(*ssa.BinOp)
				if !ok {
					continue
				}
				lo, isLo := constInt(b.Y)
				if b.X != v || !isLo {
					continue
				}
				switch {
				case b.Op == token.GEQ && lo == 0 && ec.Val, b.Op == token.GTR && lo == -1 && ec.Val, b.Op == token.NEQ && lo == -1 && ec.Val,
					b.Op == token.LSS && lo == 0 && !ec.Val, b.Op == token.EQL && lo == -1 && !ec.Val, b.Op == token.LEQ && lo == -1 && !ec.Val:
					return true
				}
			}
			return false
		}
		okGuard := false
		if okAddr {
			okGuard = identAt(st.Block(), idx)
			// ... or the index is "the matching slot, else a negative constant" (a scan folded back in), tested non-negative
			if ph, isPhi := idx.(*ssa.Phi); !okGuard && isPhi && nonNegAt(st.Block(), idx) {
				all := len(ph.Edges) > 0
				for ei, e := range ph.Edges {
					if n, isC := constInt(e); isC && n < 0 {
						continue
					}
					if !identAt(ph.Block().Preds[ei], e) {
						all = false
					}
				}
				okGuard = all
			}
		}
		// ... or the index was found by a slot-finder helper applied to (slots, update.source) and tested non-negative
		if okAddr && !okGuard {
			if call, ok := idx.(*ssa.Call); ok {
				if h := staticCallee(call); h != nil && len(call.Call.Args) == 2 && slotFinder(h, fSlotSrc) {
					_, srcOK := isFieldLoad(call.Call.Args[1], fUpdSrc)
					if call.Call.Args[0] == ia.X && srcOK {
						for _, ec := range condsDominating(st.Block()) {
							b, ok := ec.Cond.(*ssa.BinOp)
							if !ok {
								continue
							}
							// idx >= 0, idx > -1, idx != -1, 0 <= idx (and their negated forms on the false edge)
							lo, isLo := constInt(b.Y)
							if b.X != idx || !isLo {
								continue
							}
							switch {
							case b.Op == token.GEQ && lo == 0 && ec.Val, b.Op == token.GTR && lo == -1 && ec.Val, b.Op == token.NEQ && lo == -1 && ec.Val,
								b.Op == token.LSS && lo == 0 && !ec.Val, b.Op == token.EQL && lo == -1 && !ec.Val, b.Op == token.LEQ && lo == -1 && !ec.Val:
								okGuard = true
							}
						}
					}
				}
			}
		}
		switch {
		case !isUpd:
			c.bad("slot-by-identity", name, st.Pos(), "a slot is overwritten with something other than the reported value (%s)", canon(st.Val))
		case !okAddr:
			c.bad("slot-by-identity", name, st.Pos(), "slot write does not address the slots parameter by index")
		case !okGuard:
			c.bad("slot-by-identity", name, st.Pos(), "slot write is not guarded by identity of the reporting source with the source of the same slot")
		default:
			c.ok("slot-by-identity", name, st.Pos(), "slot[i].value = reported value, under update.source == slot[i].source")
		}
	}
	if n == 0 {
		c.bad("slot-by-identity", "update-path", 0, "the update path never replaces a slot value")
	}
}

// serialLoadOf: v == (load of field s/serial of the result of a ViewVersion
// call or an atomic Load) ; returns the call.
func (k *core) serialSource(v ssa.Value) *ssa.Call {
	v = stripConv(v)
	ld, ok := v.(*ssa.UnOp)
	var base ssa.Value
	var fname string
	if ok && ld.Op == token.MUL {
		fa, ok := ld.X.(*ssa.FieldAddr)
		if !ok {
			return nil
		}
		base, fname = fa.X, fieldName(fa.X.Type(), fa.Field)
	} else if fl, ok := v.(*ssa.Field); ok {
		base, fname = fl.X, fieldName(fl.X.Type(), fl.Field)
	} else {
		return nil
	}
	if fname != "s" && fname != "serial" {
		return nil
	}
	// base: local holding Extract#1 of ViewVersion call, or the Extract itself, or Load() result
	var src ssa.Value = base
	if al, ok := base.(*ssa.Alloc); ok {
		st := uniqueStore(al)
		if st == nil {
			return nil
		}
		src = st.Val
	}
	if ex, ok := src.(*ssa.Extract); ok {
		if call, ok := ex.Tuple.(*ssa.Call); ok && staticCallee(call) == origin(k.viewVersion) && ex.Index == 1 {
			return call
		}
	}
	if call, ok := src.(*ssa.Call); ok && atomicLoadNames[calleeFullName(call)] {
		return call
	}
	return nil
}

func c05Serial(c *Ctx, k *core) {
	isStoreCall := func(i ssa.Instruction) bool {
		for _, sc := range k.storeCalls {
			if sc.(ssa.Instruction) == i {
				return true
			}
		}
		return false
	}
	for _, sc := range k.storeCalls {
		f := origin(sc.Parent())
		if f == k.config {
			continue
		}
		name := relName(f) + "#stored-serial"
		args := callArgs(sc)
		ser := litField(stripConv(args[len(args)-1]), "serial")
		cfg := litField(stripConv(args[len(args)-1]), "cfg")
		if ser == nil || cfg == nil {
			c.bad("atomic-pair", relName(f)+"#fresh-pair", sc.Pos(), "the stored value is not a freshly allocated versionedConfig{serial, cfg} literal")
			continue
		}
		c.ok("atomic-pair", relName(f)+"#fresh-pair", sc.Pos(), "store publishes a freshly allocated (serial, cfg) pair")
		// the serial may be handed in by the monitor (`next := old.s + 1; install(..., next, ...)`): then the same is asked
		// of the argument at the (single) call site - loaded there, no store between the load and the call - and, inside
		// the storing function, no other store before this one
		// ... or the monitor hands in the serial it loaded and the storing function adds the one itself
		plusOneInside := false
		serParam := stripConv(ser)
		if add, isAdd := serParam.(*ssa.BinOp); isAdd && add.Op == token.ADD {
			if n, isC := constInt(add.Y); isC && n == 1 {
				if p, isP := stripConv(add.X).(*ssa.Parameter); isP {
					serParam, plusOneInside = p, true
				}
			} else if n, isC := constInt(add.X); isC && n == 1 {
				if p, isP := stripConv(add.Y).(*ssa.Parameter); isP {
					serParam, plusOneInside = p, true
				}
			}
		}
		if sp, isParam := serParam.(*ssa.Parameter); isParam {
			acts := k.actualsOf(sp)
			okP := len(acts) > 0
			why := "the serial parameter has no visible call site"
			for _, a := range acts {
				add, ok := stripConv(a.Arg).(*ssa.BinOp)
				var src *ssa.Call
				if plusOneInside {
					src = k.serialSource(stripConv(a.Arg))
				} else if ok && add.Op == token.ADD {
					if n, isC := constInt(add.Y); isC && n == 1 {
						src = k.serialSource(add.X)
					} else if n, isC := constInt(add.X); isC && n == 1 {
						src = k.serialSource(add.Y)
					}
				}
				site := a.Site.(ssa.Instruction)
				switch {
				case src == nil:
					okP, why = false, "the serial passed by "+relName(site.Parent())+" is "+canon(a.Arg)+", not <loaded serial> + 1"
				case !domI(src, site):
					okP, why = false, "the serial load in "+relName(site.Parent())+" does not dominate the call"
				case reachAvoid(site.Parent(), src, func(i ssa.Instruction) bool {
					if isStoreCall(i) {
						return true
					}
					if ci, ok := i.(*ssa.Call); ok && i != site {
						for _, sf := range k.storeFns {
							if staticCallee(ci) == origin(sf) {
								return true
							}
						}
					}
					return false
				}, func(i ssa.Instruction) bool { return i == site }) != nil:
					okP, why = false, "another install lies between the serial load in "+relName(site.Parent())+" and the call"
				}
			}
			if okP && reachAvoid(f, nil, func(i ssa.Instruction) bool { return isStoreCall(i) && i != sc.(ssa.Instruction) }, func(i ssa.Instruction) bool { return i == sc.(ssa.Instruction) }) != nil {
				okP, why = false, "another store precedes this one in the storing function"
			}
			c.check(okP, "serial-plus-one", name, sc.Pos(), "stored serial = the serial the caller loaded immediately before the call (no store in between) + 1", why)
			continue
		}
		add, ok := ser.(*ssa.BinOp)
		var src *ssa.Call
		okOne := false
		if ok && add.Op == token.ADD {
			if n, isC := constInt(add.Y); isC && n == 1 {
				src = k.serialSource(add.X)
				okOne = true
			} else if n, isC := constInt(add.X); isC && n == 1 {
				src = k.serialSource(add.Y)
				okOne = true
			}
		}
		switch {
		case !okOne:
			c.bad("serial-plus-one", name, sc.Pos(), "stored serial is %s, not <loaded serial> + 1", canon(ser))
		case src == nil:
			c.bad("serial-plus-one", name, sc.Pos(), "stored serial is not derived from a serial loaded in this function (%s)", canon(ser))
		case !domI(src, sc.(ssa.Instruction)):
			c.bad("serial-plus-one", name, sc.Pos(), "the serial load does not dominate the store")
		default:
			// no store between the load and this store
			hit := reachAvoid(f, src, func(i ssa.Instruction) bool { return isStoreCall(i) && i != sc.(ssa.Instruction) }, func(i ssa.Instruction) bool { return i == sc.(ssa.Instruction) })
			c.check(hit == nil, "serial-plus-one", name, sc.Pos(), "stored serial = serial loaded in this function (no store in between) + 1", "another store lies between the serial load and this store")
		}
	}
	// the event serial in the monitor (or the helper it delegates the install to)
	f := k.frame().fn
	for _, i := range allInstrs(f) {
		al, ok := i.(*ssa.Alloc)
		if !ok || litTypeName(al) != ".newConfigEvent" {
			continue
		}
		name := relName(f) + "#event-serial"
		ser := litField(al, "serial")
		old := litField(al, "oldConfig")
		nc := litField(al, "newConfig")
		add, okb := ser.(*ssa.BinOp)
		var src *ssa.Call
		if okb && add.Op == token.ADD {
			if n, isC := constInt(add.Y); isC && n == 1 {
				src = k.serialSource(add.X)
			} else if n, isC := constInt(add.X); isC && n == 1 {
				src = k.serialSource(add.Y)
			}
		}
		upd, _ := nc.(*ssa.Call)
		switch {
		case src == nil:
			c.bad("serial-plus-one", name, al.Pos(), "event serial is %s, not <serial loaded before the install> + 1", canon(ser))
		case upd == nil || !domI(src, upd):
			c.bad("serial-plus-one", name, al.Pos(), "the serial load does not precede the install call")
		default:
			// no other install call / store between the load and the install call
			isInstall := func(i ssa.Instruction) bool {
				ci, ok := i.(*ssa.Call)
				if !ok || ci == upd {
					return false
				}
				for _, sf := range k.storeFns {
					if staticCallee(ci) == origin(sf) {
						return true
					}
				}
				return isStoreCall(i)
			}
			hit := reachAvoid(f, src, isInstall, func(i ssa.Instruction) bool { return i == ssa.Instruction(upd) })
			okOld := false
			if ex, ok := old.(*ssa.Extract); ok && ex.Tuple == ssa.Value(src) && ex.Index == 0 {
				okOld = true
			}
			c.check(hit == nil && okOld, "serial-plus-one", name, al.Pos(),
				"event serial = (serial loaded immediately before the install call) + 1 and oldConfig is the config of that same load (the predecessor)",
				"event serial/oldConfig are not taken from the load immediately preceding the install call")
		}
	}
}

// loadsIn counts atomic loads of Dials.value performed by f directly and
// through repo callees (bounded depth).
func (k *core) loadsIn(f *ssa.Function, depth int) (n int, loads []*ssa.Call) {
	for _, i := range allInstrs(f) {
		ci, ok := i.(*ssa.Call)
		if !ok {
			continue
		}
		if atomicLoadNames[calleeFullName(ci)] {
			args := callArgs(ci)
			if fa, ok := args[0].(*ssa.FieldAddr); ok && sameField(fieldVar(fa.X.Type(), fa.Field), k.fValue) {
				n++
				loads = append(loads, ci)
			}
			continue
		}
		if callee := staticCallee(ci); callee != nil && k.w.inRepo(callee) && depth < 3 {
			m, _ := k.loadsIn(callee, depth+1)
			n += m
		}
	}
	return
}

func c05Atomic(c *Ctx, k *core) {
	for _, f := range []*ssa.Function{k.view, k.viewVersion} {
		name := relName(f)
		n, loads := k.loadsIn(f, 0)
		if n == 1 && len(loads) == 0 {
			// the accessor delegates to the other accessor (itself checked): every result is taken from that one call
			var via *ssa.Call
			for _, i := range allInstrs(f) {
				if ci, ok := i.(*ssa.Call); ok {
					if callee := staticCallee(ci); callee != nil && (callee == origin(k.view) || callee == origin(k.viewVersion)) && callee != origin(f) {
						via = ci
					}
				}
			}
			okVia := via != nil
			if via != nil {
				for _, r := range returnsOf(f) {
					for _, rv := range retVals(r) {
						if !derivesAll(rv, func(x ssa.Value) bool {
							if x == ssa.Value(via) {
								return true
							}
							e, ok := x.(*ssa.Extract)
							return ok && e.Tuple == ssa.Value(via)
						}, nil) {
							okVia = false
						}
					}
				}
			}
			c.check(okVia, "atomic-pair", name+"#one-load", f.Pos(), "delegates to the other accessor (one atomic load there); every result is taken from that single call", "the accessor reaches the published version through a callee but its results are not all taken from that one call")
			continue
		}
		if n != 1 || len(loads) != 1 {
			c.bad("atomic-pair", name+"#one-load", f.Pos(), "%d atomic loads of the published version on the way through this accessor (want exactly 1): config and serial may come from different versions", n)
			continue
		}
		ld := loads[0]
		okAll := true
		for _, r := range returnsOf(f) {
			for _, rv := range retVals(r) {
				if !c05FromLoad(rv, ld) {
					okAll = false
				}
			}
		}
		c.check(okAll, "atomic-pair", name+"#one-load", f.Pos(), "exactly one atomic load; every result (cfg, serial, token fields) derives from it", "a result does not derive from the single atomic load")
	}
}

// c05FromLoad: v is built only from fields of the loaded versionedConfig.
func c05FromLoad(v ssa.Value, ld *ssa.Call) bool {
	seen := map[ssa.Value]bool{}
	var rec func(v ssa.Value) bool
	rec = func(v ssa.Value) bool {
		if v == ssa.Value(ld) {
			return true
		}
		if seen[v] {
			return true
		}
		seen[v] = true
		switch x := v.(type) {
		case *ssa.UnOp:
			if x.Op == token.MUL {
				if al, ok := x.X.(*ssa.Alloc); ok {
					// struct literal built field by field: every field store derives
					okc, n := 0, 0
					for _, r := range *al.Referrers() {
						switch y := r.(type) {
						case *ssa.FieldAddr:
							for _, rr := range *y.Referrers() {
								if s, ok := rr.(*ssa.Store); ok && s.Addr == y {
									n++
									if rec(s.Val) {
										okc++
									}
								}
							}
						case *ssa.Store:
							if y.Addr == al {
								n++
								if rec(y.Val) {
									okc++
								}
							}
						}
					}
					return n > 0 && n == okc
				}
				return rec(x.X)
			}
		case *ssa.FieldAddr:
			return rec(x.X)
		case *ssa.Field:
			return rec(x.X)
		case *ssa.TypeAssert:
			return rec(x.X)
		case *ssa.Extract:
			return rec(x.Tuple)
		case *ssa.ChangeType:
			return rec(x.X)
		case *ssa.MakeInterface:
			return rec(x.X)
		}
		return false
	}
	return rec(v)
}

// slotFinder: h(slots []sourceValue, src Source) int returns either a negative constant or an index i whose
// return is dominated by src == slots[i].source (the range key of its own scan over the slots parameter).
func slotFinder(h *ssa.Function, fSlotSrc *types.Var) bool {
	h = origin(h)
	if len(h.Blocks) == 0 || len(h.Params) != 2 {
		return false
	}
	slots, src := ssa.Value(h.Params[0]), ssa.Value(h.Params[1])
	found := false
	for _, r := range returnsOf(h) {
		rv := retVals(r)
		if len(rv) != 1 {
			return false
		}
		if n, isC := constInt(rv[0]); isC {
			if n >= 0 {
				return false
			}
			continue
		}
		idx := rv[0]
		ok := false
		for _, ec := range condsDominating(r.Block()) {
			b, isB := ec.Cond.(*ssa.BinOp)
			if !isB || b.Op != token.EQL || !ec.Val {
				continue
			}
			isSlotSrc := func(v ssa.Value) bool {
				base, ok := isFieldLoad(v, fSlotSrc)
				if !ok {
					return false
				}
				if ia, ok := base.(*ssa.IndexAddr); ok {
					return ia.X == slots && ia.Index == idx
				}
				if al, ok := base.(*ssa.Alloc); ok {
					for _, rr := range *al.Referrers() {
						if st, ok := rr.(*ssa.Store); ok && st.Addr == al {
							if ld, ok := st.Val.(*ssa.UnOp); ok && ld.Op == token.MUL {
								if ia, ok := ld.X.(*ssa.IndexAddr); ok && ia.X == slots && ia.Index == idx {
									return true
								}
							}
						}
					}
				}
				return false
			}
			if (b.X == src && isSlotSrc(b.Y)) || (b.Y == src && isSlotSrc(b.X)) {
				ok = true
			}
		}
		if !ok {
			return false
		}
		found = true
	}
	return found
}
