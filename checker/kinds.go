package main

import (
	"go/types"

	"golang.org/x/tools/go/ssa"
)

// kindsOf is a small abstract interpretation for reflect.Value kinds: it
// returns the set of reflect kinds the value v can have at the start of block
// `at`, or nil when nothing is known. Sources of knowledge: constructors
// (reflect.New -> Ptr ...), dominating tests of v.Kind() (evaluated as a
// reaching-condition formula), and - for parameters of unexported functions -
// the union over all static call sites.
type kindCtx struct {
	w    *World
	cg   *callGraph
	memo map[string]map[int64]bool
}

func newKindCtx(w *World) *kindCtx {
	return &kindCtx{w: w, cg: w.callGraph(), memo: map[string]map[int64]bool{}}
}

func only(k ...int64) map[int64]bool {
	m := map[int64]bool{}
	for _, x := range k {
		m[x] = true
	}
	return m
}

func (kc *kindCtx) kindsOf(v ssa.Value, at *ssa.BasicBlock, depth int) map[int64]bool {
	if depth > 3 || v == nil {
		return nil
	}
	// 1. constructors
	if call, ok := v.(*ssa.Call); ok {
		switch calleeFullName(call) {
		case "reflect.New":
			return only(kPtr)
		case "reflect.MakeSlice", "(reflect.Value).Slice", "(reflect.Value).Slice3":
			return only(kSlice)
		case "reflect.MakeMap", "reflect.MakeMapWithSize":
			return only(kMap)
		case "(reflect.Value).Addr":
			return only(kPtr)
		case "reflect.ValueOf":
			if mi, ok := call.Call.Args[0].(*ssa.MakeInterface); ok {
				if ks := staticKind(mi.X.Type()); ks != nil {
					return ks
				}
			}
		}
	}
	// 2. dominating kind tests on the same value
	if at != nil {
		f := at.Parent()
		atom := "(reflect.Value).Kind(" + canon(v) + ")"
		pb := &predBuilder{}
		g := pb.pathCond(f.Blocks[0], at)
		fb, fi := map[string]bool{}, map[string]bool{}
		atomsOf(g, fb, fi)
		if fi[atom] && len(fb) <= 14 {
			ks := kindsWhere(g, atom)
			if len(ks) > 0 && len(ks) < len(allKinds) {
				return ks
			}
		}
		// a local alias: k := v.Kind(); switch k  -> the atom is canon of the call as well (no CSE needed)
	}
	// 3. parameters: union over call sites
	if p, ok := v.(*ssa.Parameter); ok {
		f := p.Parent()
		if f == nil || isAPI(f) || kc.cg.escapes[origin(f)] {
			return nil
		}
		idx := -1
		for i, fp := range f.Params {
			if fp == p {
				idx = i
			}
		}
		var out map[int64]bool
		edges := kc.cg.in[origin(f)]
		n := 0
		for _, e := range edges {
			if e.Site == nil || e.Kind == "closure" {
				continue
			}
			args := e.Site.Common().Args
			if idx >= len(args) {
				return nil
			}
			if origin(e.From) == origin(f) {
				continue // recursion adds nothing
			}
			n++
			ks := kc.kindsOf(args[idx], e.Site.Block(), depth+1)
			if ks == nil {
				return nil
			}
			if out == nil {
				out = map[int64]bool{}
			}
			for k := range ks {
				out[k] = true
			}
		}
		if n == 0 {
			return nil
		}
		return out
	}
	return nil
}

// staticKind: the reflect kind of a value of static Go type t (when t is not
// an interface).
func staticKind(t types.Type) map[int64]bool {
	switch u := t.Underlying().(type) {
	case *types.Pointer:
		return only(kPtr)
	case *types.Slice:
		return only(kSlice)
	case *types.Map:
		return only(kMap)
	case *types.Struct:
		return only(kStruct)
	case *types.Array:
		return only(kArray)
	case *types.Chan:
		return only(kChan)
	case *types.Signature:
		return only(kFunc)
	case *types.Basic:
		if k := basicKindToReflect(u.Kind()); k != 0 {
			return only(k)
		}
	}
	return nil
}

func kindsSubset(ks map[int64]bool, allowed ...int64) bool {
	if len(ks) == 0 {
		return false
	}
	al := only(allowed...)
	for k := range ks {
		if !al[k] {
			return false
		}
	}
	return true
}
