// dialscheck decides structural clauses of the properties C01..C20 of
// vimeo/dials by static analysis of /repo's current working tree (go/packages
// + go/types + go/ssa). It never executes dials code.
package main

import (
	"encoding/json"
	"flag"
	"fmt"
	"os"
	"os/exec"
	"path/filepath"
	"runtime/debug"
	"sort"
	"strconv"
	"strings"
	"sync"
	"time"
)

type propMeta struct {
	run         func(c *Ctx)
	explanation string
	assumptions []string
}

var props = map[string]*propMeta{}

var trustedBase = []string{
	"go/packages, go/types, go/ssa of golang.org/x/tools v0.29.0 and the Go 1.23 type checker",
	"third-party modules (structtag, fsnotify, yaml.v2, go-toml, cue, pflag, x/text) and the standard library (reflect, strconv, text/scanner) behave as documented; they are type-checked, not analysed",
	"the rule tables written in /verif/checker (which constructs count as a guard / copy / memo lookup) as reviewed against the pinned tree",
}

type mutantSpec struct {
	Name    string `json:"name"`
	Prop    string `json:"property"`
	File    string `json:"file"`
	Find    string `json:"find"`
	Replace string `json:"replace"`
	// More holds further (find, replace) pairs in the same file, applied after the first
	// (each anchor must occur exactly once): refactorings that touch two places.
	More []struct {
		Find    string `json:"find"`
		Replace string `json:"replace"`
	} `json:"more,omitempty"`
	Expect []string `json:"expect"`
	Note   string   `json:"note,omitempty"`
	// Equivalent marks a behaviour-preserving refactoring: the rules must stay silent.
	Equivalent bool `json:"equivalent,omitempty"`
}

func main() {
	prop := flag.String("prop", "", "property id (C01..C20)")
	tier := flag.String("tier", "quick", "quick|thorough")
	repo := flag.String("repo", "/repo", "repository root")
	verif := flag.String("verif", "", "verification root (default: parent of the binary's directory)")
	mutant := flag.String("mutant", "", "mutant spec (json) to self-test the rules against; never prints VIOLATION")
	seedPatch := flag.String("seedpatch", "", "unified diff (a confirmed seeded change) to self-test the rules against through an overlay; never prints VIOLATION")
	variantFlag := flag.String("variants", "", "comma separated build variants (default native; thorough: native,go118,386)")
	verbose := flag.Bool("v", false, "print every obligation")
	dump := flag.String("dump", "", "debug: print the SSA of rel/pkg:Func (e.g. :Dials.monitor, transform:Transformer.ReverseTranslate)")
	allProps := flag.Bool("all", false, "development aid: run every property's rules on one load (native), print non-discharged obligations only")
	genAnchorsTo := flag.String("gen-anchors", "", "write the structural fingerprints of the current tree (rename tolerance) to this file and exit")
	flag.Parse()
	if *genAnchorsTo != "" {
		noFold = true
		w, err := loadVariant(*repo, "native", nil)
		if err != nil {
			fmt.Println(err)
			os.Exit(2)
		}
		if len(renameNotes) > 0 {
			fmt.Println("refusing to record fingerprints of a tree that is itself seen through renames:", renameNotes)
			os.Exit(2)
		}
		if err := writeAnchors(w, *genAnchorsTo); err != nil {
			fmt.Println(err)
			os.Exit(2)
		}
		os.Exit(0)
	}
	if *allProps {
		// development aid (sweeps): every property's rules on ONE load of the tree; prints the non-discharged
		// obligations, writes no evidence, never prints VIOLATION
		w, err := loadVariant(*repo, "native", nil)
		if err != nil {
			fmt.Println("LOAD-ERROR", err)
			os.Exit(2)
		}
		allKnown := map[string]bool{}
		if fs, err := loadFindings(filepath.Join(*verif, "known_findings.json")); err == nil {
			for _, f := range fs {
				if f.Status == "finding" {
					allKnown[f.Obligation] = true
				}
			}
		}
		ids := make([]string, 0, len(props))
		for id := range props {
			ids = append(ids, id)
		}
		sort.Strings(ids)
		for _, id := range ids {
			func() {
				defer func() {
					if r := recover(); r != nil {
						fmt.Printf("UNDECIDED %s/analysis: checker panic: %v\n", id, r)
					}
				}()
				c := newCtx(id, "quick", w)
				props[id].run(c)
				for rid, min := range c.ruleMin {
					if c.ruleCnt[rid] < min {
						c.add(rid, "instance-count", 0, Undecided, true, 0, "rule matched %d instances, fewer than the %d confirmed by hand (vacuity guard)", c.ruleCnt[rid], min)
					}
				}
				for _, o := range c.Obs {
					if o.Verdict != OK && !allKnown[o.ID] {
						fmt.Printf("%s %s at %s: %s\n", o.Verdict, o.ID, o.Site, o.Detail)
					}
				}
			}()
		}
		for _, n := range foldAssumptions() {
			fmt.Println("NOTE", n)
		}
		for _, n := range renameAssumptions() {
			fmt.Println("NOTE", n)
		}
		os.Exit(0)
	}
	if *dump != "" {
		w, err := loadVariant(*repo, "native", nil)
		if err != nil {
			fmt.Println(err)
			os.Exit(2)
		}
		i := strings.IndexByte(*dump, ':')
		f := w.fn((*dump)[:i], (*dump)[i+1:])
		if f == nil {
			fmt.Println("not found")
			os.Exit(2)
		}
		f.WriteTo(os.Stdout)
		for _, a := range f.AnonFuncs {
			a.WriteTo(os.Stdout)
		}
		os.Exit(0)
	}

	if *verif == "" {
		exe, err := os.Executable()
		if err == nil {
			*verif = filepath.Dir(filepath.Dir(exe))
		} else {
			*verif = "/verif"
		}
	}
	if t := os.Getenv("VERIF_TIER"); t != "" && *tier == "" {
		*tier = t
	}
	seed := 0
	if s := os.Getenv("VERIF_SEED"); s != "" {
		seed, _ = strconv.Atoi(s)
	}
	pm := props[*prop]
	if pm == nil {
		fmt.Fprintf(os.Stderr, "unknown property %q\n", *prop)
		os.Exit(2)
	}
	// the self-tests look at what a change adds: an obligation recorded as a known finding of the unchanged tree is not a report on the change
	if fs, err := loadFindings(filepath.Join(*verif, "known_findings.json")); err == nil {
		for _, f := range fs {
			if f.Status == "finding" {
				selfTestKnown[f.Obligation] = true
			}
		}
	}
	if *mutant != "" {
		os.Exit(runMutant(*repo, *prop, pm, *mutant))
	}
	if *seedPatch != "" {
		os.Exit(runSeedPatch(*repo, *prop, pm, *seedPatch))
	}

	start := time.Now()
	evPath := filepath.Join(*verif, "evidence", *prop+".json")
	res := &runResult{prop: *prop, tier: *tier, seed: seed, rules: map[string]string{}, start: start, extra: map[string]interface{}{}}
	fail := func(reason string) {
		// an analysis that cannot be carried out never passes silently
		res.violations = append(res.violations, "undecided: "+reason)
		res.obs = append(res.obs, &Obligation{ID: *prop + "/analysis", Rule: "analysis", Verdict: Undecided, Detail: reason, Site: "-"})
		res.rules["analysis"] = "the analysis itself must complete"
		writeEvidence(filepath.Join(*verif, "evidence"), res, pm.explanation, trustedBase, pm.assumptions)
		fmt.Printf("UNDECIDED %s: %s\n", *prop, reason)
		fmt.Printf("VIOLATION property=%s replay=%s\n", *prop, evPath)
		os.Exit(1)
	}
	defer func() {
		if r := recover(); r != nil {
			fail(fmt.Sprintf("checker panic: %v\n%s", r, debug.Stack()))
		}
	}()

	variants := []string{"native"}
	if *tier == "thorough" {
		variants = []string{"native", "go118", "386"}
	}
	if *variantFlag != "" {
		variants = strings.Split(*variantFlag, ",")
	}
	funcs := map[string]bool{}
	for _, v := range variants {
		w, err := loadVariant(*repo, v, nil)
		if err != nil {
			fail(err.Error())
		}
		c := newCtx(*prop, *tier, w)
		pm.run(c)
		for id, t := range c.rules {
			res.rules[id] = t
		}
		// vacuity guard
		for id, min := range c.ruleMin {
			if c.ruleCnt[id] < min {
				c.add(id, "instance-count", 0, Undecided, true, 0,
					"rule matched %d instances, fewer than the %d confirmed by hand (vacuity guard)", c.ruleCnt[id], min)
			}
		}
		res.obs = append(res.obs, c.Obs...)
		res.variants = append(res.variants, v)
		if res.packages < len(w.Pkgs) {
			res.packages = len(w.Pkgs)
		}
		for f := range c.funcs {
			funcs[f] = true
		}
	}
	for f := range funcs {
		res.funcsNamed = append(res.funcsNamed, f)
	}
	sort.Strings(res.funcsNamed)
	res.functions = len(res.funcsNamed)

	findings, err := loadFindings(filepath.Join(*verif, "known_findings.json"))
	if err != nil {
		fail("known_findings.json: " + err.Error())
	}
	isKnown := func(o *Obligation) *Finding {
		for i := range findings {
			f := &findings[i]
			if f.Status == "finding" && f.Property == *prop && f.Obligation == o.ID {
				return f
			}
		}
		return nil
	}
	printedKnown := map[string]bool{}
	nOK := 0
	for _, o := range res.obs {
		switch o.Verdict {
		case OK:
			nOK++
			if *verbose {
				fmt.Printf("ok    %-60s %s [%s] %s\n", o.ID, o.Site, o.Variant, o.Detail)
			}
		default:
			if f := isKnown(o); f != nil && o.Verdict == Violated {
				if !printedKnown[o.ID] {
					fmt.Printf("KNOWN-FINDING: property=%s %s (%s at %s)\n", *prop, f.What, o.ID, o.Site)
					printedKnown[o.ID] = true
					res.known = append(res.known, o.ID)
				}
				continue
			}
			fmt.Printf("%s %s at %s [%s]: %s\n", o.Verdict, o.ID, o.Site, o.Variant, o.Detail)
			res.violations = append(res.violations, o.ID)
		}
	}

	if *tier == "thorough" {
		res.mutants = runMutants(*verif, *repo, *prop)
	}

	if _, err := writeEvidence(filepath.Join(*verif, "evidence"), res, pm.explanation, trustedBase, pm.assumptions); err != nil {
		fmt.Printf("cannot write evidence: %v\n", err)
		fmt.Printf("VIOLATION property=%s replay=%s\n", *prop, evPath)
		os.Exit(1)
	}
	fmt.Printf("%s %s: %d obligations, %d discharged, %d known findings, %d violated/undecided; variants=%v; %d functions; %.1fs\n",
		*prop, *tier, len(res.obs), nOK, len(res.known), len(res.violations), res.variants, res.functions, time.Since(start).Seconds())
	if len(res.violations) > 0 {
		fmt.Printf("VIOLATION property=%s replay=%s\n", *prop, evPath)
		os.Exit(1)
	}
}

func loadVariant(repo, v string, overlay map[string][]byte) (*World, error) {
	o := LoadOpts{Variant: v, Overlay: map[string][]byte{}}
	for k, b := range overlay {
		o.Overlay[k] = b
	}
	switch v {
	case "native":
	case "386":
		o.Env = []string{"GOARCH=386"}
	case "go118":
		// the !go1.19 variant of the Dials struct cannot be selected by tag with
		// the installed toolchains: type-check it in place of the go1.19 file.
		f118 := filepath.Join(repo, "dials_118.go")
		f119 := filepath.Join(repo, "dials_119.go")
		b, ok := o.Overlay[f118]
		if !ok {
			var err error
			b, err = os.ReadFile(f118)
			if err != nil {
				return nil, fmt.Errorf("variant go118: %w", err)
			}
		}
		s := string(b)
		if !strings.Contains(s, "//go:build !go1.19") {
			return nil, fmt.Errorf("variant go118: dials_118.go has no '//go:build !go1.19' constraint")
		}
		o.Overlay[f119] = []byte(strings.Replace(s, "//go:build !go1.19", "//go:build go1.19", 1))
	default:
		return nil, fmt.Errorf("unknown variant %q", v)
	}
	return Load(repo, o)
}

// runMutant self-tests the rules of one property against one seeded breakage,
// applied through a go/packages overlay. Exit codes: 0 detected, 3 skipped
// (anchor text absent), 4 invalid (does not type-check), 5 missed.
var selfTestKnown = map[string]bool{}

func runMutant(repo, prop string, pm *propMeta, specPath string) int {
	b, err := os.ReadFile(specPath)
	if err != nil {
		fmt.Println("MUTANT error", err)
		return 2
	}
	var m mutantSpec
	if err := json.Unmarshal(b, &m); err != nil {
		fmt.Println("MUTANT error", specPath, err)
		return 2
	}
	file := filepath.Join(repo, m.File)
	src, err := os.ReadFile(file)
	if err != nil || strings.Count(string(src), m.Find) != 1 {
		fmt.Printf("MUTANT skipped %s (anchor text not found exactly once in %s)\n", m.Name, m.File)
		return 3
	}
	text := strings.Replace(string(src), m.Find, m.Replace, 1)
	for _, e := range m.More {
		if strings.Count(text, e.Find) != 1 {
			fmt.Printf("MUTANT skipped %s (anchor text not found exactly once in %s)\n", m.Name, m.File)
			return 3
		}
		text = strings.Replace(text, e.Find, e.Replace, 1)
	}
	ov := map[string][]byte{file: []byte(text)}
	w, err := loadVariant(repo, "native", ov)
	if err != nil {
		fmt.Printf("MUTANT invalid %s: %v\n", m.Name, err)
		return 4
	}
	c := newCtx(prop, "quick", w)
	func() {
		defer func() {
			if r := recover(); r != nil {
				c.rules["analysis"] = "analysis must complete"
				c.add("analysis", "panic", 0, Undecided, true, 0, "checker panic: %v", r)
			}
		}()
		pm.run(c)
		for id, min := range c.ruleMin {
			if c.ruleCnt[id] < min {
				c.add(id, "instance-count", 0, Undecided, true, 0, "vacuity guard")
			}
		}
	}()
	var hits, other []string
	for _, o := range c.Obs {
		if o.Verdict == OK || selfTestKnown[o.ID] {
			continue
		}
		matched := false
		for _, e := range m.Expect {
			if strings.Contains(o.ID, e) {
				matched = true
			}
		}
		if matched {
			hits = append(hits, o.ID)
		} else {
			other = append(other, o.ID)
		}
	}
	if m.Equivalent {
		if len(hits)+len(other) == 0 {
			fmt.Printf("MUTANT silent-ok %s (behaviour-preserving refactoring, no report)\n", m.Name)
			return 0
		}
		fmt.Printf("MUTANT false-alarm %s (behaviour-preserving refactoring reported: %s)\n", m.Name, strings.Join(append(hits, other...), ","))
		return 6
	}
	if len(hits) > 0 {
		fmt.Printf("MUTANT detected %s by %s (also: %s)\n", m.Name, strings.Join(hits, ","), strings.Join(other, ","))
		return 0
	}
	fmt.Printf("MUTANT missed %s (expected %v; other reports: %s)\n", m.Name, m.Expect, strings.Join(other, ","))
	return 5
}

// runSeedPatch applies a unified diff to a private temporary copy of the
// files it touches (removed before returning), loads /repo with the patched
// contents as an overlay and reports whether any rule of the property objects.
func runSeedPatch(repo, prop string, pm *propMeta, patchPath string) int {
	if abs, err := filepath.Abs(patchPath); err == nil {
		patchPath = abs
	}
	name := filepath.Base(filepath.Dir(patchPath))
	diff, err := os.ReadFile(patchPath)
	if err != nil {
		fmt.Println("MUTANT error", err)
		return 2
	}
	tmp, err := os.MkdirTemp("", "dialscheck-seed-")
	if err != nil {
		fmt.Println("MUTANT error", err)
		return 2
	}
	defer os.RemoveAll(tmp)
	var files []string
	for _, l := range strings.Split(string(diff), "\n") {
		if strings.HasPrefix(l, "+++ b/") {
			files = append(files, strings.TrimSpace(strings.TrimPrefix(l, "+++ b/")))
		}
	}
	for _, f := range files {
		os.MkdirAll(filepath.Dir(filepath.Join(tmp, f)), 0o755)
		src, err := os.ReadFile(filepath.Join(repo, f))
		if err != nil {
			if strings.Contains(string(diff), "--- /dev/null\n+++ b/"+f) {
				continue // a file the change adds
			}
			fmt.Printf("MUTANT skipped seed:%s (file %s missing)\n", name, f)
			return 3
		}
		os.WriteFile(filepath.Join(tmp, f), src, 0o644)
	}
	cmd := exec.Command("patch", "-p1", "-s", "--no-backup-if-mismatch", "-d", tmp, "-i", patchPath)
	if out, err := cmd.CombinedOutput(); err != nil {
		fmt.Printf("MUTANT skipped seed:%s (patch no longer applies: %s)\n", name, strings.TrimSpace(string(out)))
		return 3
	}
	ov := map[string][]byte{}
	for _, f := range files {
		b, _ := os.ReadFile(filepath.Join(tmp, f))
		ov[filepath.Join(repo, f)] = b
	}
	w, err := loadVariant(repo, "native", ov)
	if err != nil {
		fmt.Printf("MUTANT invalid seed:%s: %v\n", name, err)
		return 4
	}
	c := newCtx(prop, "quick", w)
	func() {
		defer func() {
			if r := recover(); r != nil {
				c.rules["analysis"] = "analysis must complete"
				c.add("analysis", "panic", 0, Undecided, true, 0, "checker panic: %v", r)
			}
		}()
		pm.run(c)
		for id, min := range c.ruleMin {
			if c.ruleCnt[id] < min {
				c.add(id, "instance-count", 0, Undecided, true, 0, "vacuity guard")
			}
		}
	}()
	var hits []string
	for _, o := range c.Obs {
		if o.Verdict != OK && !selfTestKnown[o.ID] {
			hits = append(hits, o.ID)
		}
	}
	if strings.Contains(patchPath, string(filepath.Separator)+"refactors"+string(filepath.Separator)) {
		// a confirmed behaviour-preserving refactoring: every report is a false alarm
		if len(hits) == 0 {
			fmt.Printf("MUTANT silent-ok refactor:%s (behaviour-preserving refactoring, no report)\n", name)
			return 0
		}
		if len(hits) > 3 {
			hits = hits[:3]
		}
		fmt.Printf("MUTANT false-alarm refactor:%s (behaviour-preserving refactoring reported: %s)\n", name, strings.Join(hits, ","))
		return 6
	}
	if len(hits) > 0 {
		if len(hits) > 3 {
			hits = hits[:3]
		}
		fmt.Printf("MUTANT detected seed:%s by %s\n", name, strings.Join(hits, ","))
		return 0
	}
	fmt.Printf("MUTANT missed seed:%s (independent seeded change not reported by this property's rules)\n", name)
	return 5
}

// runMutants runs every mutant spec of the property in its own process.
func runMutants(verif, repo, prop string) map[string]interface{} {
	files, _ := filepath.Glob(filepath.Join(verif, "mutants", prop, "*.json"))
	sort.Strings(files)
	seeds, _ := filepath.Glob(filepath.Join(verif, "seeded", prop+"-*", "patch.diff"))
	sort.Strings(seeds)
	files = append(files, seeds...)
	refs, _ := filepath.Glob(filepath.Join(verif, "refactors", prop+"-*", "patch.diff"))
	sort.Strings(refs)
	files = append(files, refs...)
	type res struct {
		name, out string
		code      int
	}
	results := make([]res, len(files))
	sem := make(chan struct{}, 6)
	var wg sync.WaitGroup
	for i, f := range files {
		wg.Add(1)
		go func(i int, f string) {
			defer wg.Done()
			sem <- struct{}{}
			defer func() { <-sem }()
			flagName := "-mutant"
			if strings.HasSuffix(f, "patch.diff") {
				flagName = "-seedpatch"
			}
			cmd := exec.Command(os.Args[0], "-prop", prop, "-repo", repo, "-verif", verif, flagName, f)
			out, err := cmd.CombinedOutput()
			code := 0
			if ee, ok := err.(*exec.ExitError); ok {
				code = ee.ExitCode()
			} else if err != nil {
				code = 2
			}
			results[i] = res{name: filepath.Base(filepath.Dir(f)) + "/" + filepath.Base(f), out: strings.TrimSpace(string(out)), code: code}
		}(i, f)
	}
	wg.Wait()
	st := map[string]int{}
	var lines []string
	for _, r := range results {
		switch r.code {
		case 0:
			st["detected"]++
		case 3:
			st["skipped"]++
		case 4:
			st["invalid"]++
		case 5:
			st["missed"]++
		case 6:
			st["false_alarm"]++
		default:
			st["error"]++
		}
		last := r.out
		if i := strings.LastIndexByte(last, '\n'); i >= 0 {
			last = last[i+1:]
		}
		lines = append(lines, last)
		fmt.Println("  self-test:", last)
	}
	return map[string]interface{}{
		"note":     "self-validation of the rules on seeded breakages applied through a go/packages overlay; informational, never affects the verdict on /repo",
		"applied":  len(files) - st["skipped"],
		"detected": st["detected"], "missed": st["missed"], "skipped": st["skipped"], "invalid": st["invalid"], "error": st["error"], "false_alarms_on_equivalent": st["false_alarm"],
		"results": lines,
	}
}
