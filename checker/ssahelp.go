package main

import (
	"fmt"
	"go/constant"
	"go/token"
	"go/types"
	"sort"
	"strings"

	"golang.org/x/tools/go/ssa"
)

// ---- basic navigation -------------------------------------------------------

func instrIndex(i ssa.Instruction) int {
	for k, x := range i.Block().Instrs {
		if x == i {
			return k
		}
	}
	return -1
}

// domI reports whether instruction a strictly precedes b on every path from
// the function entry to b (a dominates b).
func domI(a, b ssa.Instruction) bool {
	if a.Parent() != b.Parent() {
		return false
	}
	if a.Block() == b.Block() {
		return instrIndex(a) < instrIndex(b)
	}
	return a.Block().Dominates(b.Block())
}

func allInstrs(fn *ssa.Function) []ssa.Instruction {
	var out []ssa.Instruction
	for _, b := range fn.Blocks {
		out = append(out, b.Instrs...)
	}
	return out
}

// reachable blocks only (go/ssa removes unreachable blocks, but be safe)
func returnsOf(fn *ssa.Function) []*ssa.Return {
	var out []*ssa.Return
	for _, b := range fn.Blocks {
		if len(b.Instrs) == 0 || b == fn.Recover {
			continue // the recover block re-returns the spilled results after a panic
		}
		if r, ok := b.Instrs[len(b.Instrs)-1].(*ssa.Return); ok {
			out = append(out, r)
		}
	}
	return out
}

// retVals returns the values returned by r, looking through the spill that
// go/ssa introduces for functions with defers (results are stored to locals,
// rundefers, then re-loaded).
func retVals(r *ssa.Return) []ssa.Value {
	out := make([]ssa.Value, len(r.Results))
	for k, v := range r.Results {
		out[k] = v
		ld, ok := v.(*ssa.UnOp)
		if !ok || ld.Op != token.MUL {
			continue
		}
		a, ok := ld.X.(*ssa.Alloc)
		if !ok {
			continue
		}
		b := r.Block()
		for i := instrIndex(ld) - 1; i >= 0; i-- {
			if st, ok := b.Instrs[i].(*ssa.Store); ok && st.Addr == a {
				out[k] = st.Val
				break
			}
		}
	}
	return out
}

func origin(f *ssa.Function) *ssa.Function {
	if f == nil {
		return nil
	}
	if o := f.Origin(); o != nil {
		return o
	}
	return f
}

// staticCallee returns the (generic-origin) static callee of a call, or nil.
func staticCallee(ci ssa.CallInstruction) *ssa.Function {
	return origin(ci.Common().StaticCallee())
}

// calleeFullName returns e.g. "(reflect.Value).Set", "reflect.New",
// "(*sync/atomic.Pointer[T]).Store", "(github.com/vimeo/dials.Source).Value"
// for static calls and interface invokes; "" for dynamic calls of func values.
func calleeFullName(ci ssa.CallInstruction) string {
	cc := ci.Common()
	if cc.IsInvoke() {
		return cc.Method.Origin().FullName()
	}
	if f := cc.StaticCallee(); f != nil {
		if o := origin(f).Object(); o != nil {
			if fo, ok := o.(*types.Func); ok {
				if cf := recordedCalleeName(fo); cf != "" {
					return cf
				}
				return unrename(fo.Origin().FullName(), fo)
			}
		}
		return origin(f).String()
	}
	if b, ok := cc.Value.(*ssa.Builtin); ok {
		return "builtin." + b.Name()
	}
	return ""
}

func isCall(i ssa.Instruction, fullNames ...string) (ssa.CallInstruction, bool) {
	ci, ok := i.(ssa.CallInstruction)
	if !ok {
		return nil, false
	}
	n := calleeFullName(ci)
	for _, f := range fullNames {
		if n == f {
			return ci, true
		}
	}
	return nil, false
}

// callsTo lists the call instructions (call, go, defer) in fn whose callee has
// one of the given full names.
func callsTo(fn *ssa.Function, fullNames ...string) []ssa.CallInstruction {
	var out []ssa.CallInstruction
	for _, i := range allInstrs(fn) {
		if ci, ok := isCall(i, fullNames...); ok {
			out = append(out, ci)
		}
	}
	return out
}

// callsToFn lists call instructions in fn whose static callee is target.
func callsToFn(fn, target *ssa.Function) []ssa.CallInstruction {
	var out []ssa.CallInstruction
	for _, i := range allInstrs(fn) {
		if ci, ok := i.(ssa.CallInstruction); ok && staticCallee(ci) == origin(target) && target != nil {
			out = append(out, ci)
		}
	}
	return out
}

// callArgs returns receiver (if any) followed by the arguments.
func callArgs(ci ssa.CallInstruction) []ssa.Value {
	cc := ci.Common()
	if cc.IsInvoke() {
		return append([]ssa.Value{cc.Value}, cc.Args...)
	}
	return cc.Args
}

// ---- reachability avoiding instructions -------------------------------------

// reachAvoid searches forward from just after `start` (or from the function
// entry when start is nil) for an instruction satisfying target, along CFG
// paths on which no instruction satisfies avoid. It returns the first target
// found (nil if none is reachable).
func reachAvoid(fn *ssa.Function, start ssa.Instruction, target, avoid func(ssa.Instruction) bool) ssa.Instruction {
	type pt struct {
		b *ssa.BasicBlock
		i int
	}
	var work []pt
	seen := map[*ssa.BasicBlock]bool{}
	if start == nil {
		if len(fn.Blocks) == 0 {
			return nil
		}
		work = append(work, pt{fn.Blocks[0], 0})
		seen[fn.Blocks[0]] = true
	} else {
		work = append(work, pt{start.Block(), instrIndex(start) + 1})
	}
	for len(work) > 0 {
		p := work[len(work)-1]
		work = work[:len(work)-1]
		blocked := false
		for k := p.i; k < len(p.b.Instrs); k++ {
			in := p.b.Instrs[k]
			if avoid != nil && avoid(in) {
				blocked = true
				break
			}
			if target(in) {
				return in
			}
		}
		if blocked {
			continue
		}
		for _, s := range p.b.Succs {
			if !seen[s] {
				seen[s] = true
				work = append(work, pt{s, 0})
			}
		}
	}
	return nil
}

func isReturn(i ssa.Instruction) bool { _, ok := i.(*ssa.Return); return ok }

// startOfBlock returns a pseudo start so that reachAvoid begins at the first
// instruction of b: we use index -1 via a helper.
func reachAvoidFromBlock(b *ssa.BasicBlock, target, avoid func(ssa.Instruction) bool) ssa.Instruction {
	// emulate by scanning b from 0
	for _, in := range b.Instrs {
		if avoid != nil && avoid(in) {
			return nil
		}
		if target(in) {
			return in
		}
	}
	seen := map[*ssa.BasicBlock]bool{b: true}
	var work []*ssa.BasicBlock
	for _, s := range b.Succs {
		if !seen[s] {
			seen[s] = true
			work = append(work, s)
		}
	}
	for len(work) > 0 {
		x := work[len(work)-1]
		work = work[:len(work)-1]
		blocked := false
		for _, in := range x.Instrs {
			if avoid != nil && avoid(in) {
				blocked = true
				break
			}
			if target(in) {
				return in
			}
		}
		if blocked {
			continue
		}
		for _, s := range x.Succs {
			if !seen[s] {
				seen[s] = true
				work = append(work, s)
			}
		}
	}
	return nil
}

// ---- edge conditions --------------------------------------------------------

type edgeCond struct {
	Cond ssa.Value
	Val  bool
	If   *ssa.If
}

// uniqueEdgeInto reports, for an If-terminated block x, whether b is entered
// only through x's true (0) or false (1) edge: the successor s dominates b and
// s has x as its only predecessor.
func condsDominating(b *ssa.BasicBlock) []edgeCond { return condsDominatingD(b, 0) }

func peelNot(cond ssa.Value, val bool) (ssa.Value, bool) {
	for {
		u, ok := cond.(*ssa.UnOp)
		if !ok || u.Op != token.NOT {
			return cond, val
		}
		cond, val = u.X, !val
	}
}

// impliedByPhi: a boolean phi that is not loop-carried and is known to be val
// (the joined result of a folded predicate helper: `return false` / `return
// isWatcher`) can only have come through an edge whose operand is not the
// opposite constant; when exactly one such edge exists, its operand has that
// value too and everything that holds where the edge leaves holds as well.
func impliedByPhi(cond ssa.Value, val bool, iff *ssa.If, depth int) []edgeCond {
	ph, ok := cond.(*ssa.Phi)
	if !ok || depth >= 3 {
		return nil
	}
	if bt, ok := ph.Type().Underlying().(*types.Basic); !ok || bt.Kind() != types.Bool {
		return nil
	}
	blk := ph.Block()
	for _, p := range blk.Preds {
		if blk.Dominates(p) {
			return nil
		}
	}
	live, n := -1, 0
	for ei, e := range ph.Edges {
		if cst, isC := e.(*ssa.Const); isC && cst.Value != nil && cst.Value.Kind() == constant.Bool && constant.BoolVal(cst.Value) != val {
			continue
		}
		n++
		live = ei
	}
	if n != 1 {
		return nil
	}
	var out []edgeCond
	e, pred := ph.Edges[live], blk.Preds[live]
	if _, isC := e.(*ssa.Const); !isC {
		c, v := peelNot(e, val)
		out = append(out, edgeCond{Cond: c, Val: v, If: iff})
		out = append(out, impliedByPhi(c, v, iff, depth+1)...)
	}
	if len(pred.Instrs) > 0 {
		if iff2, ok := pred.Instrs[len(pred.Instrs)-1].(*ssa.If); ok && pred.Succs[0] != pred.Succs[1] {
			for k, sc := range pred.Succs {
				if sc == blk {
					c, v := peelNot(iff2.Cond, k == 0)
					out = append(out, edgeCond{Cond: c, Val: v, If: iff2})
					out = append(out, impliedByPhi(c, v, iff2, depth+1)...)
				}
			}
		}
	}
	out = append(out, condsDominatingD(pred, depth+1)...)
	return out
}

// impliedByNilPhi: cond is `ph == nil` / `ph != nil` for a join ph of the results of a folded helper
// (`return &wrappedErr{...}` / `return fmt.Errorf(...)` / `return nil`). Knowing the outcome of the test rules out
// the edges that cannot have it (a nil constant when ph is non-nil; a value that is non-nil by construction when ph
// is nil); if exactly one edge is left, what holds on that edge holds here.
func impliedByNilPhi(cond ssa.Value, val bool, iff *ssa.If, depth int) []edgeCond {
	if depth >= 3 {
		return nil
	}
	x, nilWhenTrue, ok := nilCheckOf(cond)
	if !ok {
		return nil
	}
	ph, ok := x.(*ssa.Phi)
	if !ok {
		return nil
	}
	blk := ph.Block()
	for _, p := range blk.Preds {
		if blk.Dominates(p) {
			return nil
		}
	}
	isNilHere := nilWhenTrue == val
	live, n := -1, 0
	for ei, e := range ph.Edges {
		if isNilHere && nonNilByConstruction(e) {
			continue
		}
		if !isNilHere && isNilConst(e) {
			continue
		}
		n++
		live = ei
	}
	if n != 1 {
		return nil
	}
	var out []edgeCond
	e, pred := ph.Edges[live], blk.Preds[live]
	if _, isC := e.(*ssa.Const); !isC {
		// the value on the live edge has the tested nil-ness
		syn := &ssa.BinOp{Op: token.EQL, X: e, Y: ssa.NewConst(nil, e.Type())}
		out = append(out, edgeCond{Cond: syn, Val: isNilHere, If: iff})
		out = append(out, impliedByNilPhi(syn, isNilHere, iff, depth+1)...)
	}
	if len(pred.Instrs) > 0 {
		if iff2, ok := pred.Instrs[len(pred.Instrs)-1].(*ssa.If); ok && pred.Succs[0] != pred.Succs[1] {
			for k, sc := range pred.Succs {
				if sc == blk {
					c, v := peelNot(iff2.Cond, k == 0)
					out = append(out, edgeCond{Cond: c, Val: v, If: iff2})
					out = append(out, impliedByPhi(c, v, iff2, depth+1)...)
					out = append(out, impliedByNilPhi(c, v, iff2, depth+1)...)
				}
			}
		}
	}
	out = append(out, condsDominatingD(pred, depth+1)...)
	return out
}

func condsDominatingD(b *ssa.BasicBlock, depth int) []edgeCond {
	var out []edgeCond
	for x := b; x != nil; {
		id := x.Idom()
		if id == nil {
			break
		}
		if len(id.Instrs) > 0 {
			if iff, ok := id.Instrs[len(id.Instrs)-1].(*ssa.If); ok && id.Succs[0] != id.Succs[1] {
				for k, s := range id.Succs {
					if len(s.Preds) == 1 && (s == b || s.Dominates(b)) {
						cond, val := iff.Cond, k == 0
						// peel negations: `if !x` / `y := !x; if !y`
						for {
							u, ok := cond.(*ssa.UnOp)
							if !ok || u.Op != token.NOT {
								break
							}
							cond, val = u.X, !val
						}
						out = append(out, edgeCond{Cond: cond, Val: val, If: iff})
						out = append(out, impliedByPhi(cond, val, iff, depth)...)
						out = append(out, impliedByNilPhi(cond, val, iff, depth)...)
					}
				}
			}
		}
		x = id
	}
	return out
}

// nilCheckOf decomposes cond into (value, isNilWhenTrue) if cond is `v == nil`
// or `v != nil`.
func nilCheckOf(cond ssa.Value) (ssa.Value, bool, bool) {
	b, ok := cond.(*ssa.BinOp)
	if !ok || (b.Op != token.EQL && b.Op != token.NEQ) {
		return nil, false, false
	}
	isNil := func(v ssa.Value) bool {
		c, ok := v.(*ssa.Const)
		return ok && c.IsNil()
	}
	switch {
	case isNil(b.Y):
		return b.X, b.Op == token.EQL, true
	case isNil(b.X):
		return b.Y, b.Op == token.EQL, true
	}
	return nil, false, false
}

// knownNil reports whether, at block b, value v is known to be nil (want=true)
// or known to be non-nil (want=false) because of a dominating branch.
func knownNil(b *ssa.BasicBlock, v ssa.Value, want bool) bool {
	for _, ec := range condsDominating(b) {
		x, nilWhenTrue, ok := nilCheckOf(ec.Cond)
		if !ok || !sameValue(x, v) {
			continue
		}
		isNil := nilWhenTrue == ec.Val
		if isNil == want {
			return true
		}
	}
	return false
}

// ---- value canonicalisation -------------------------------------------------

func stripConv(v ssa.Value) ssa.Value {
	for {
		switch x := v.(type) {
		case *ssa.ChangeType:
			v = x.X
		case *ssa.MakeInterface:
			v = x.X
		case *ssa.ChangeInterface:
			v = x.X
		default:
			return v
		}
	}
}

func fieldName(t types.Type, idx int) string {
	if p, ok := t.Underlying().(*types.Pointer); ok {
		t = p.Elem()
	}
	if st, ok := t.Underlying().(*types.Struct); ok && idx < st.NumFields() {
		return vname(st.Field(idx))
	}
	return fmt.Sprintf("f%d", idx)
}

func fieldVar(t types.Type, idx int) *types.Var {
	if p, ok := t.Underlying().(*types.Pointer); ok {
		t = p.Elem()
	}
	if st, ok := t.Underlying().(*types.Struct); ok && idx < st.NumFields() {
		return st.Field(idx)
	}
	return nil
}

// canon renders a value as an access path so that two SSA values denoting the
// same source-level expression (go/ssa does no CSE) compare equal.
func canon(v ssa.Value) string { return canonD(v, 0) }

func canonD(v ssa.Value, d int) string {
	if v == nil {
		return "<nil>"
	}
	if d > 12 {
		return v.Name()
	}
	switch x := v.(type) {
	case *ssa.Parameter:
		return x.Name()
	case *ssa.FreeVar:
		return x.Name()
	case *ssa.Global:
		return x.Name()
	case *ssa.Function:
		return "func:" + relName(x)
	case *ssa.Builtin:
		return "builtin:" + x.Name()
	case *ssa.Const:
		if x.IsNil() {
			return "nil"
		}
		if x.Value == nil {
			return "zero"
		}
		return x.Value.ExactString()
	case *ssa.ChangeType:
		return canonD(x.X, d+1)
	case *ssa.MakeInterface:
		return canonD(x.X, d+1)
	case *ssa.ChangeInterface:
		return canonD(x.X, d+1)
	case *ssa.Convert:
		return "conv(" + canonD(x.X, d+1) + ")"
	case *ssa.UnOp:
		switch x.Op {
		case token.MUL:
			switch a := x.X.(type) {
			case *ssa.FieldAddr:
				return canonD(a.X, d+1) + "." + fieldName(a.X.Type(), a.Field)
			case *ssa.Alloc:
				if s := uniqueStore(a); s != nil {
					return canonD(s.Val, d+1)
				}
				return "var:" + a.Comment
			}
			return "*" + canonD(x.X, d+1)
		case token.NOT:
			return "!" + canonD(x.X, d+1)
		case token.ARROW:
			return "<-" + canonD(x.X, d+1)
		}
		return x.Op.String() + canonD(x.X, d+1)
	case *ssa.FieldAddr:
		return "&" + canonD(x.X, d+1) + "." + fieldName(x.X.Type(), x.Field)
	case *ssa.Field:
		return canonD(x.X, d+1) + "." + fieldName(x.X.Type(), x.Field)
	case *ssa.IndexAddr:
		return "&" + canonD(x.X, d+1) + "[" + canonD(x.Index, d+1) + "]"
	case *ssa.Index:
		return canonD(x.X, d+1) + "[" + canonD(x.Index, d+1) + "]"
	case *ssa.Lookup:
		return canonD(x.X, d+1) + "[" + canonD(x.Index, d+1) + "]"
	case *ssa.Phi:
		if x.Comment != "" {
			return "φ" + x.Comment
		}
		return "φ" + x.Name()
	case *ssa.Alloc:
		return "alloc:" + x.Comment
	case *ssa.Extract:
		return canonD(x.Tuple, d+1) + "#" + fmt.Sprint(x.Index)
	case *ssa.TypeAssert:
		return canonD(x.X, d+1) + ".(" + types.TypeString(x.AssertedType, func(p *types.Package) string { return p.Name() }) + ")"
	case *ssa.BinOp:
		return "(" + canonD(x.X, d+1) + x.Op.String() + canonD(x.Y, d+1) + ")"
	case *ssa.Call:
		n := calleeFullName(x)
		if n == "" {
			n = "dyn:" + canonD(x.Call.Value, d+1)
		}
		var as []string
		for _, a := range callArgs(x) {
			as = append(as, canonD(a, d+1))
		}
		return n + "(" + strings.Join(as, ",") + ")"
	case *ssa.Slice:
		return canonD(x.X, d+1) + "[:]"
	case *ssa.MakeClosure:
		return "closure:" + relName(x.Fn.(*ssa.Function))
	}
	return v.Name()
}

// uniqueStore returns the only store into alloc a (nil if none or several).
func uniqueStore(a *ssa.Alloc) *ssa.Store {
	var st *ssa.Store
	for _, r := range *a.Referrers() {
		if s, ok := r.(*ssa.Store); ok && s.Addr == a {
			if st != nil {
				return nil
			}
			st = s
		}
	}
	return st
}

func sameValue(a, b ssa.Value) bool {
	if a == b {
		return true
	}
	return canon(a) == canon(b)
}

// constInt returns the integer value of a constant.
func constInt(v ssa.Value) (int64, bool) {
	c, ok := stripConv(v).(*ssa.Const)
	if !ok || c.Value == nil || c.Value.Kind() != constant.Int {
		if cv, ok2 := v.(*ssa.Convert); ok2 {
			return constInt(cv.X)
		}
		return 0, false
	}
	n, exact := constant.Int64Val(c.Value)
	return n, exact
}

func constString(v ssa.Value) (string, bool) {
	c, ok := stripConv(v).(*ssa.Const)
	if !ok || c.Value == nil || c.Value.Kind() != constant.String {
		return "", false
	}
	return constant.StringVal(c.Value), true
}

// ---- def-use flow ---------------------------------------------------------------

// flowOpts configures derivesFrom.
type flowOpts struct {
	// through lists full names of calls whose result is considered derived
	// from their receiver/first argument (e.g. reflect.Value.Elem).
	through map[string]bool
	// maxDepth bounds inlining into repo callees via their return values.
	maxDepth int
	w        *World
}

// derivesAll reports whether on every def-use path (all phi inputs, the unique
// or every store into a spilled local) v is derived from a value accepted by
// src. stop values (accepted==false and terminal) make it false.
func derivesAll(v ssa.Value, src func(ssa.Value) bool, o *flowOpts) bool {
	return derives(v, src, o, map[ssa.Value]bool{}, 0, true)
}

// derivesAny: some def-use path leads to a src value.
func derivesAny(v ssa.Value, src func(ssa.Value) bool, o *flowOpts) bool {
	return derives(v, src, o, map[ssa.Value]bool{}, 0, false)
}

func derives(v ssa.Value, src func(ssa.Value) bool, o *flowOpts, seen map[ssa.Value]bool, depth int, all bool) bool {
	if v == nil {
		return false
	}
	if src(v) {
		return true
	}
	if seen[v] {
		return all // a cycle adds no new origin
	}
	seen[v] = true
	rec := func(x ssa.Value) bool { return derives(x, src, o, seen, depth, all) }
	switch x := v.(type) {
	case *ssa.ChangeType:
		return rec(x.X)
	case *ssa.MakeInterface:
		return rec(x.X)
	case *ssa.ChangeInterface:
		return rec(x.X)
	case *ssa.Convert:
		return rec(x.X)
	case *ssa.TypeAssert:
		return rec(x.X)
	case *ssa.Extract:
		return rec(x.Tuple)
	case *ssa.Field:
		return rec(x.X)
	case *ssa.FieldAddr:
		return rec(x.X)
	case *ssa.IndexAddr:
		return rec(x.X)
	case *ssa.Index:
		return rec(x.X)
	case *ssa.Slice:
		return rec(x.X)
	case *ssa.UnOp:
		if x.Op == token.MUL {
			if a, ok := x.X.(*ssa.Alloc); ok {
				delete(seen, a)
				return rec(a)
			}
		}
		return rec(x.X)
	case *ssa.Alloc:
		// a local (struct) variable: every value stored into it (whole or by field)
		n, okc := 0, 0
		var scan func(addr ssa.Value)
		scan = func(addr ssa.Value) {
			for _, r := range *addr.Referrers() {
				switch y := r.(type) {
				case *ssa.Store:
					if y.Addr == addr {
						n++
						if rec(y.Val) {
							okc++
						}
					}
				case *ssa.FieldAddr:
					if y.X == addr {
						scan(y)
					}
				}
			}
		}
		scan(x)
		if n == 0 {
			return false
		}
		if all {
			return okc == n
		}
		return okc > 0
	case *ssa.Phi:
		okc := 0
		for _, e := range x.Edges {
			if rec(e) {
				okc++
			}
		}
		if all {
			return okc == len(x.Edges)
		}
		return okc > 0
	case *ssa.Call:
		n := calleeFullName(x)
		if o != nil && o.through[n] {
			args := callArgs(x)
			if len(args) > 0 {
				return rec(args[0])
			}
		}
		if o != nil && o.w != nil && depth < o.maxDepth {
			if f := staticCallee(x); f != nil && o.w.inRepo(f) {
				// derived if every returned value (first result) derives, with
				// parameters mapped to arguments
				return derivesViaCallee(x, f, src, o, seen, depth, all)
			}
		}
		return false
	}
	return false
}

func derivesViaCallee(call *ssa.Call, f *ssa.Function, src func(ssa.Value) bool, o *flowOpts, seen map[ssa.Value]bool, depth int, all bool) bool {
	rets := returnsOf(f)
	if len(rets) == 0 {
		return false
	}
	okc := 0
	for _, r := range rets {
		if len(r.Results) == 0 {
			continue
		}
		res := r.Results[0]
		src2 := func(v ssa.Value) bool {
			if p, ok := v.(*ssa.Parameter); ok && p.Parent() == f {
				for k, fp := range f.Params {
					if fp == p && k < len(call.Call.Args) {
						return derives(call.Call.Args[k], src, o, seen, depth+1, all)
					}
				}
				return false
			}
			return src(v)
		}
		if derives(res, src2, o, map[ssa.Value]bool{}, depth+1, all) {
			okc++
		}
	}
	if all {
		return okc == len(rets)
	}
	return okc > 0
}

// ---- misc -----------------------------------------------------------------------

func sortedKeys(m map[string]bool) []string {
	var out []string
	for k := range m {
		out = append(out, k)
	}
	sort.Strings(out)
	return out
}

// storesToField lists (whole program, repo functions) the store instructions
// whose address is a FieldAddr of the given struct field.
func (w *World) storesToField(fld *types.Var) []*ssa.Store {
	var out []*ssa.Store
	for _, f := range w.Funcs {
		for _, i := range allInstrs(f) {
			if s, ok := i.(*ssa.Store); ok {
				if fa, ok := s.Addr.(*ssa.FieldAddr); ok && sameField(fieldVar(fa.X.Type(), fa.Field), fld) {
					out = append(out, s)
				}
			}
		}
	}
	return out
}

func sameField(a, b *types.Var) bool {
	if a == nil || b == nil {
		return false
	}
	return a.Origin() == b.Origin()
}

// fieldAddrsOf lists every FieldAddr/Field instruction selecting fld in fn.
func fieldRefs(fn *ssa.Function, fld *types.Var) []ssa.Value {
	var out []ssa.Value
	for _, i := range allInstrs(fn) {
		switch x := i.(type) {
		case *ssa.FieldAddr:
			if sameField(fieldVar(x.X.Type(), x.Field), fld) {
				out = append(out, x)
			}
		case *ssa.Field:
			if sameField(fieldVar(x.X.Type(), x.Field), fld) {
				out = append(out, x)
			}
		}
	}
	return out
}

// isFieldLoad reports whether v is a load of (or Field selection of) fld, and
// returns the base.
func isFieldLoad(v ssa.Value, fld *types.Var) (ssa.Value, bool) {
	switch x := v.(type) {
	case *ssa.UnOp:
		if x.Op == token.MUL {
			if fa, ok := x.X.(*ssa.FieldAddr); ok && sameField(fieldVar(fa.X.Type(), fa.Field), fld) {
				return fa.X, true
			}
		}
	case *ssa.Field:
		if sameField(fieldVar(x.X.Type(), x.Field), fld) {
			return x.X, true
		}
	}
	return nil, false
}

// wholeStoresOfNamed lists stores of a whole struct value of the root-package
// named type `name` (e.g. `slots[i] = sourceValue{...}`), which overwrite every
// field at once and are not seen by storesToField.
func (w *World) wholeStoresOfNamed(name string) []*ssa.Store {
	var out []*ssa.Store
	for _, f := range w.Funcs {
		for _, i := range allInstrs(f) {
			st, ok := i.(*ssa.Store)
			if !ok {
				continue
			}
			if namedTypeName(st.Val.Type()) != "."+name {
				continue
			}
			// stores into a local composite-literal temporary are construction, not slot writes
			if a, ok := st.Addr.(*ssa.Alloc); ok && !a.Heap {
				continue
			}
			if _, ok := st.Addr.(*ssa.IndexAddr); ok {
				out = append(out, st)
				continue
			}
			if _, ok := st.Addr.(*ssa.Alloc); !ok {
				out = append(out, st)
			}
		}
	}
	return out
}

// loopHeaders returns the blocks of f that have a back edge.
func loopHeaders(f *ssa.Function) []*ssa.BasicBlock {
	var out []*ssa.BasicBlock
	for _, b := range f.Blocks {
		for _, p := range b.Preds {
			if b.Dominates(p) {
				out = append(out, b)
				break
			}
		}
	}
	return out
}

// earlyLoopExits lists the edges that leave the natural loop of header h from
// its body (break / goto / return), not counting the header's own exit edge.
// When allowErrReturn is set, a body block ending in a return whose last
// result is a non-nil error is not reported.
func earlyLoopExits(f *ssa.Function, h *ssa.BasicBlock, allowErrReturn bool) []*ssa.BasicBlock {
	var out []*ssa.BasicBlock
	for _, b := range f.Blocks {
		if b == h || !inLoopBody(h, b) {
			continue
		}
		for _, s := range b.Succs {
			if s == h || inLoopBody(h, s) {
				continue
			}
			// the successor is outside the loop: allowed only if it is an error return
			if allowErrReturn {
				if r, ok := s.Instrs[len(s.Instrs)-1].(*ssa.Return); ok && len(s.Succs) == 0 {
					rv := retVals(r)
					if len(rv) > 0 && !isNilConst(rv[len(rv)-1]) && isErrorLike(rv[len(rv)-1].Type()) {
						continue
					}
				}
				if exitIsErrorOutcome(b, s) {
					continue
				}
			}
			out = append(out, b)
		}
	}
	return out
}

// loopBodyEntry returns, for a block inside a loop, the first block of the
// body of the innermost enclosing loop (the in-loop successor of its header;
// the header itself for a condition-less loop), or nil outside loops.
func loopBodyEntry(b *ssa.BasicBlock) *ssa.BasicBlock {
	var best *ssa.BasicBlock
	for _, h := range loopHeaders(b.Parent()) {
		if !inLoopBody(h, b) {
			continue
		}
		if best == nil || best.Dominates(h) {
			best = h
		}
	}
	if best == nil {
		return nil
	}
	if _, isIf := best.Instrs[len(best.Instrs)-1].(*ssa.If); !isIf {
		return best
	}
	var entry *ssa.BasicBlock
	for _, s := range best.Succs {
		if s != best && inLoopBody(best, s) {
			if entry != nil {
				return best // both successors stay in the loop: the header is part of the body
			}
			entry = s
		}
	}
	if entry == nil || !(entry == b || entry.Dominates(b)) {
		return best
	}
	return entry
}

// livePhiValue: v may be a phi that joins the outcomes of a folded helper
// (`return nil, false, err` / `return slots, watching, nil`). An edge is dead at
// block `at` when a sibling phi of the same block is known nil (non-nil) at `at`
// while its operand on that edge is known non-nil (nil) where the edge leaves.
// When exactly one distinct value remains on the live edges it is returned
// (recursively); otherwise v itself.
func livePhiValue(v ssa.Value, at *ssa.BasicBlock) ssa.Value {
	for hops := 0; hops < 4; hops++ {
		ph, ok := v.(*ssa.Phi)
		if !ok {
			return v
		}
		dead := deadPhiEdges(ph, at)
		var live []ssa.Value
		for ei, e := range ph.Edges {
			if dead[ei] {
				continue
			}
			dup := false
			for _, l := range live {
				if l == e {
					dup = true
				}
			}
			if !dup {
				live = append(live, e)
			}
		}
		if len(live) != 1 {
			return v
		}
		v = live[0]
	}
	return v
}

// deadPhiEdges: the edges of ph that cannot have been taken when control is at
// block `at`, judged by the sibling phis of the same block (the other results
// of a folded helper): a sibling known nil / non-nil at `at` whose operand on
// that edge is known to be the opposite, or a boolean sibling joined from
// constants that is known true / false at `at`.
func deadPhiEdges(ph *ssa.Phi, at *ssa.BasicBlock) map[int]bool {
	dead := map[int]bool{}
	if at == nil {
		return dead
	}
	for _, ins := range ph.Block().Instrs {
		sib, isPhi := ins.(*ssa.Phi)
		if !isPhi {
			break
		}
		if sib == ph {
			continue
		}
		for ei := range ph.Edges {
			pred := ph.Block().Preds[ei]
			for _, want := range []bool{true, false} {
				if knownNil(at, sib, want) && edgeKnownNil(sib.Edges[ei], pred, !want) {
					dead[ei] = true
				}
			}
		}
		if bt, ok := sib.Type().Underlying().(*types.Basic); !ok || bt.Kind() != types.Bool {
			continue
		}
		for _, ec := range condsDominating(at) {
			cond, val := ec.Cond, ec.Val
			for {
				if u, isNot := cond.(*ssa.UnOp); isNot && u.Op == token.NOT {
					cond, val = u.X, !val
					continue
				}
				break
			}
			if cond != ssa.Value(sib) {
				continue
			}
			for ei, e := range sib.Edges {
				if cst, isC := e.(*ssa.Const); isC && cst.Value != nil && cst.Value.Kind() == constant.Bool && constant.BoolVal(cst.Value) != val {
					dead[ei] = true
				}
			}
		}
	}
	return dead
}

func edgeKnownNil(v ssa.Value, pred *ssa.BasicBlock, wantNil bool) bool {
	if isNilConst(v) {
		return wantNil
	}
	if nonNilByConstruction(v) {
		return !wantNil
	}
	return knownNil(pred, v, wantNil)
}

// errCarrier: the value through which an error result is observed: v itself
// or, when the code computing it was folded into the function, the phi that
// joins it with nil constants only (nil on the paths where the call is not made).
func errCarrier(v ssa.Value) ssa.Value {
	for hops := 0; hops < 3; hops++ {
		refs := v.Referrers()
		if refs == nil {
			return v
		}
		var ph *ssa.Phi
		n := 0
		for _, r := range *refs {
			if _, dbg := r.(*ssa.DebugRef); dbg {
				continue
			}
			n++
			if p, ok := r.(*ssa.Phi); ok {
				ph = p
			}
		}
		if n != 1 || ph == nil {
			return v
		}
		for _, e := range ph.Edges {
			if e != v && !isNilConst(e) {
				return v
			}
		}
		v = ph
	}
	return v
}

// knownNilVia: v is known nil (want) / non-nil (!want) at block b, directly, or
// through a tested phi that stands for it - the joined result of a folded
// helper (`if err == nil { return nil }; return fmt.Errorf("...: %w", err)`):
// the phi being nil implies v is nil when each of its operands is v itself,
// something non-nil by construction, or arrives from where v is known nil;
// the phi being non-nil implies v is non-nil when each operand is v itself, a
// nil constant, or arrives from where v is known non-nil.
func knownNilVia(b *ssa.BasicBlock, v ssa.Value, want bool) bool {
	return knownNilViaD(b, v, want, 0)
}

func knownNilViaD(b *ssa.BasicBlock, v ssa.Value, want bool, depth int) bool {
	if knownNil(b, v, want) {
		return true
	}
	if depth > 2 {
		return false
	}
	for _, ec := range condsDominating(b) {
		x, nilWhenTrue, ok := nilCheckOf(ec.Cond)
		if !ok {
			continue
		}
		ph, isPhi := x.(*ssa.Phi)
		if !isPhi || (nilWhenTrue == ec.Val) != want {
			continue
		}
		all := len(ph.Edges) > 0
		for ei, e := range ph.Edges {
			pred := ph.Block().Preds[ei]
			switch {
			case e == v:
			case want && nonNilByConstruction(e):
			case !want && isNilConst(e):
			case knownNilViaD(pred, v, want, depth+1):
			default:
				all = false
			}
		}
		if all {
			return true
		}
	}
	return false
}

func nonNilByConstruction(v ssa.Value) bool {
	switch x := v.(type) {
	case *ssa.Alloc, *ssa.MakeClosure, *ssa.MakeMap, *ssa.MakeChan, *ssa.MakeSlice:
		return true
	case *ssa.MakeInterface:
		return nonNilByConstruction(x.X) || !isNilConst(x.X)
	case *ssa.Call:
		switch calleeFullName(x) {
		case "fmt.Errorf", "errors.New":
			return true
		}
	}
	return false
}

// exitIsErrorOutcome: the edge b -> s leaves a loop as the error outcome of a
// folded helper: s joins an error value that is non-nil on this edge, and the
// code after the join returns a non-nil error as soon as it has tested it.
func exitIsErrorOutcome(b, s *ssa.BasicBlock) bool {
	// the block that builds the error and jumps to the join
	for hops := 0; hops < 2; hops++ {
		if _, isPhi := s.Instrs[0].(*ssa.Phi); isPhi || len(s.Preds) != 1 || len(s.Succs) != 1 {
			break
		}
		if _, isJump := s.Instrs[len(s.Instrs)-1].(*ssa.Jump); !isJump {
			break
		}
		b, s = s, s.Succs[0]
	}
	ei := -1
	for i, p := range s.Preds {
		if p == b {
			ei = i
		}
	}
	if ei < 0 {
		return false
	}
	for _, ins := range s.Instrs {
		ph, ok := ins.(*ssa.Phi)
		if !ok {
			break
		}
		if !isErrorLike(ph.Type()) {
			continue
		}
		if e := ph.Edges[ei]; !(nonNilByConstruction(e) || knownNil(b, e, false)) {
			continue
		}
		// follow unconditional jumps to the test of the joined error
		blk := s
		for hops := 0; hops < 4; hops++ {
			last := blk.Instrs[len(blk.Instrs)-1]
			if iff, ok := last.(*ssa.If); ok {
				x, nilWhenTrue, okc := nilCheckOf(iff.Cond)
				if !okc || x != ssa.Value(ph) {
					break
				}
				rb := blk.Succs[0]
				if nilWhenTrue {
					rb = blk.Succs[1]
				}
				if r, ok := rb.Instrs[len(rb.Instrs)-1].(*ssa.Return); ok {
					rv := retVals(r)
					if len(rv) > 0 && !isNilConst(rv[len(rv)-1]) && isErrorLike(rv[len(rv)-1].Type()) {
						return true
					}
				}
				break
			}
			if _, ok := last.(*ssa.Jump); ok && len(blk.Succs) == 1 {
				// nothing but the jump (and phis / debug refs) may happen on the way
				blk = blk.Succs[0]
				continue
			}
			break
		}
	}
	return false
}

// boolCarrier: the value through which a boolean is tested: v itself or, when
// the predicate computing it was folded into the function, the phi that joins
// it with false constants only (so the phi is true exactly when v was computed
// and is true).
func boolCarrier(v ssa.Value) ssa.Value {
	for hops := 0; hops < 3; hops++ {
		refs := v.Referrers()
		if refs == nil {
			return v
		}
		var ph *ssa.Phi
		n := 0
		for _, r := range *refs {
			if _, dbg := r.(*ssa.DebugRef); dbg {
				continue
			}
			n++
			if p, ok := r.(*ssa.Phi); ok {
				ph = p
			}
		}
		if n != 1 || ph == nil {
			return v
		}
		for _, e := range ph.Edges {
			if e == v {
				continue
			}
			cst, ok := e.(*ssa.Const)
			if !ok || cst.Value == nil || cst.Value.Kind() != constant.Bool || constant.BoolVal(cst.Value) {
				return v
			}
		}
		v = ph
	}
	return v
}

// feasibleSuccs: the successors of block b that can be taken when b was entered
// from predecessor p, as far as b's branch condition is decided by the values
// b's phis take on that edge (a constant boolean; a nil constant compared with
// nil; the length of a nil constant compared with 0).
func feasibleSuccs(b, p *ssa.BasicBlock) []int {
	all := make([]int, len(b.Succs))
	for i := range all {
		all[i] = i
	}
	if len(b.Instrs) == 0 || p == nil {
		return all
	}
	iff, ok := b.Instrs[len(b.Instrs)-1].(*ssa.If)
	if !ok {
		return all
	}
	ei := -1
	for i, q := range b.Preds {
		if q == p {
			ei = i
		}
	}
	if ei < 0 {
		return all
	}
	subst := func(v ssa.Value) ssa.Value {
		if ph, ok := v.(*ssa.Phi); ok && ph.Block() == b {
			return ph.Edges[ei]
		}
		return v
	}
	cond, want := peelNot(iff.Cond, true)
	var known, val bool
	switch x := subst(cond).(type) {
	case *ssa.Const:
		if x.Value != nil && x.Value.Kind() == constant.Bool {
			known, val = true, constant.BoolVal(x.Value)
		}
	case *ssa.BinOp:
		if x.Block() != b {
			break
		}
		if nv, nilWhenTrue, ok := nilCheckOf(x); ok {
			e := subst(nv)
			if isNilConst(e) {
				known, val = true, nilWhenTrue
			} else if nonNilByConstruction(e) {
				known, val = true, !nilWhenTrue
			}
			break
		}
		if call, ok := x.X.(*ssa.Call); ok && call.Block() == b {
			if bi, ok := call.Call.Value.(*ssa.Builtin); ok && bi.Name() == "len" && isNilConst(subst(call.Call.Args[0])) {
				if n, ok := constInt(x.Y); ok {
					known = true
					switch x.Op {
					case token.EQL:
						val = 0 == n
					case token.NEQ:
						val = 0 != n
					case token.GTR:
						val = 0 > n
					case token.GEQ:
						val = 0 >= n
					case token.LSS:
						val = 0 < n
					case token.LEQ:
						val = 0 <= n
					default:
						known = false
					}
				}
			}
		}
	}
	if !known {
		return all
	}
	if val == want {
		return []int{0}
	}
	return []int{1}
}

// returnsReachableFrom lists the returns reachable from the edge p -> b,
// pruning branches decided by the phi values of the edge just taken.
func returnsReachableFrom(p, b *ssa.BasicBlock) []*ssa.Return {
	type st struct{ b, p *ssa.BasicBlock }
	seen := map[st]bool{}
	var out []*ssa.Return
	work := []st{{b, p}}
	for len(work) > 0 {
		x := work[len(work)-1]
		work = work[:len(work)-1]
		if seen[x] {
			continue
		}
		seen[x] = true
		if r, ok := x.b.Instrs[len(x.b.Instrs)-1].(*ssa.Return); ok {
			out = append(out, r)
			continue
		}
		for _, si := range feasibleSuccs(x.b, x.p) {
			work = append(work, st{x.b.Succs[si], x.b})
		}
	}
	return out
}

// resolveLocalField: v loads a field of a local struct variable that never
// escapes and whose field is written exactly once - by the literal the variable
// is initialised from, or by one direct assignment: that value. Otherwise v.
func resolveLocalField(v ssa.Value) ssa.Value {
	ld, ok := v.(*ssa.UnOp)
	if !ok || ld.Op != token.MUL {
		return v
	}
	fa, ok := ld.X.(*ssa.FieldAddr)
	if !ok {
		return v
	}
	al, ok := fa.X.(*ssa.Alloc)
	if !ok {
		return v
	}
	name := fieldName(fa.X.Type(), fa.Field)
	var vals []ssa.Value
	for _, r := range *al.Referrers() {
		switch x := r.(type) {
		case *ssa.FieldAddr:
			for _, rr := range *x.Referrers() {
				switch y := rr.(type) {
				case *ssa.Store:
					if y.Addr != ssa.Value(x) {
						return v // the field's address is stored somewhere
					}
					if x.Field == fa.Field {
						vals = append(vals, y.Val)
					}
				case *ssa.UnOp, *ssa.DebugRef:
				default:
					return v // the field's address is passed on
				}
			}
		case *ssa.Store:
			if x.Addr != ssa.Value(al) {
				return v // the variable's address is stored
			}
			src, ok := x.Val.(*ssa.UnOp)
			if !ok || src.Op != token.MUL {
				return v
			}
			lit, ok := src.X.(*ssa.Alloc)
			if !ok {
				return v
			}
			fv := litField(lit, name)
			if fv == nil {
				return v
			}
			vals = append(vals, fv)
		case *ssa.UnOp, *ssa.DebugRef:
		case *ssa.MakeClosure:
			// captured by a closure: fine as long as the closure does not assign this field
			fn, _ := x.Fn.(*ssa.Function)
			if fn == nil {
				return v
			}
			for bi, b := range x.Bindings {
				if b != ssa.Value(al) || bi >= len(fn.FreeVars) {
					continue
				}
				for _, fr := range *fn.FreeVars[bi].Referrers() {
					cfa, ok := fr.(*ssa.FieldAddr)
					if !ok {
						if _, isLoad := fr.(*ssa.UnOp); isLoad {
							continue
						}
						if _, isDbg := fr.(*ssa.DebugRef); isDbg {
							continue
						}
						return v
					}
					if cfa.Field != fa.Field {
						continue
					}
					for _, rr := range *cfa.Referrers() {
						if _, isLoad := rr.(*ssa.UnOp); !isLoad {
							if _, isDbg := rr.(*ssa.DebugRef); !isDbg {
								return v // the closure writes (or passes on the address of) this field
							}
						}
					}
				}
			}
		default:
			return v // escapes
		}
	}
	if len(vals) != 1 {
		return v
	}
	return vals[0]
}

// derivesAllLive is derivesAll over the outcomes of v that are still possible
// at block `at` (see deadPhiEdges): the error outcome of a folded helper, tested
// away before `at`, is not a value v can hold there.
func derivesAllLive(v ssa.Value, at *ssa.BasicBlock, pred func(ssa.Value) bool, fo *flowOpts) bool {
	var rec func(v ssa.Value, d int) bool
	rec = func(v ssa.Value, d int) bool {
		x := stripConv(v)
		if ph, ok := x.(*ssa.Phi); ok && d < 4 {
			dead := deadPhiEdges(ph, at)
			if len(dead) > 0 {
				n := 0
				for ei, e := range ph.Edges {
					if dead[ei] {
						continue
					}
					n++
					if !rec(e, d+1) {
						return false
					}
				}
				return n > 0
			}
		}
		return derivesAll(v, pred, fo)
	}
	return rec(v, 0)
}

// headerUpperBound: the value B when the loop header's branch is `idx < B`
// (or the mirrored `B > idx`) with the loop body on the true edge; nil otherwise.
func headerUpperBound(hdr *ssa.BasicBlock, idx ssa.Value) ssa.Value {
	if len(hdr.Instrs) == 0 {
		return nil
	}
	iff, ok := hdr.Instrs[len(hdr.Instrs)-1].(*ssa.If)
	if !ok {
		return nil
	}
	cmp, ok := iff.Cond.(*ssa.BinOp)
	if !ok {
		return nil
	}
	switch {
	case cmp.Op == token.LSS && sameValue(cmp.X, idx):
		return cmp.Y
	case cmp.Op == token.GTR && sameValue(cmp.Y, idx):
		return cmp.X
	}
	return nil
}

// reachesPruned: some instruction satisfying target is reachable from the edge
// p -> b, pruning branches decided by the phi values of the edge just taken
// (see feasibleSuccs).
func reachesPruned(p, b *ssa.BasicBlock, target func(ssa.Instruction) bool) bool {
	type st struct{ b, p *ssa.BasicBlock }
	seen := map[st]bool{}
	work := []st{{b, p}}
	for len(work) > 0 {
		x := work[len(work)-1]
		work = work[:len(work)-1]
		if seen[x] {
			continue
		}
		seen[x] = true
		for _, i := range x.b.Instrs {
			if target(i) {
				return true
			}
		}
		for _, si := range feasibleSuccs(x.b, x.p) {
			work = append(work, st{x.b.Succs[si], x.b})
		}
	}
	return false
}

// sameLocalLoad: a and b are the same value, or two loads of one local variable
// that is stored to exactly once (`v, err := parse(...)` whose address is taken
// later, so that every use is a load).
func sameLocalLoad(a, b ssa.Value) bool {
	if a == b {
		return true
	}
	la, ok1 := a.(*ssa.UnOp)
	lb, ok2 := b.(*ssa.UnOp)
	if !ok1 || !ok2 || la.Op != token.MUL || lb.Op != token.MUL || la.X != lb.X {
		return false
	}
	al, ok := la.X.(*ssa.Alloc)
	return ok && uniqueStore(al) != nil
}

// isErrorLike: the predeclared error type, or a concrete type with an Error() string method (a function that
// returns *UnmangleError reports failure through it just the same).
func isErrorLike(t types.Type) bool {
	if types.TypeString(t, nil) == "error" {
		return true
	}
	ms := types.NewMethodSet(t)
	for i := 0; i < ms.Len(); i++ {
		if m := ms.At(i).Obj(); m.Name() == "Error" {
			if sig, ok := m.Type().(*types.Signature); ok && sig.Params().Len() == 0 && sig.Results().Len() == 1 {
				return true
			}
		}
	}
	return false
}
