package main

import (
	"go/token"
	"go/types"

	"golang.org/x/tools/go/ssa"
)

// Package-level memos below the mangler methods.
//
// A mangler is a value with its own configuration (the alias mangler's list of alias tags, the tag encoders of the
// reformatting mangler), and several differently configured manglers of one type live in one process: one per source.
// What Mangle / Unmangle / ShouldRecurse (or a function they call) write into *package-level* state - a variable, a
// map, a sync.Map - is shared by all of them. Such a memo is harmless when its key covers everything the stored value
// was computed from; it hands one mangler the answer worked out for another when the stored value was computed from
// the mangler's own fields and the key was not. The rule follows the receiver's fields through the function
// (flow-insensitive data dependence: operands, stores into locals, map updates, calls that are given a dependent
// argument) and reports a package-level write whose value depends on them while its key does not (a plain variable has
// no key). Control dependence is not followed: what is reported is a data dependence that exists.

type memoWrite struct {
	at       ssa.Instruction
	key, val ssa.Value
	what     string
	name     string
}

// globalRoot: v is (derived from) the address or the loaded value of a package-level variable of the repository.
func globalRoot(w *World, v ssa.Value) *ssa.Global {
	for d := 0; d < 12 && v != nil; d++ {
		switch x := v.(type) {
		case *ssa.Global:
			if x.Pkg != nil && x.Pkg.Pkg != nil && w.ByPath[x.Pkg.Pkg.Path()] != nil {
				return x
			}
			return nil
		case *ssa.FieldAddr:
			v = x.X
		case *ssa.IndexAddr:
			v = x.X
		case *ssa.UnOp:
			v = x.X
		case *ssa.Field:
			v = x.X
		case *ssa.ChangeType:
			v = x.X
		default:
			return nil
		}
	}
	return nil
}

func packageLevelWrites(w *World, f *ssa.Function) []memoWrite {
	var out []memoWrite
	for _, i := range allInstrs(f) {
		switch x := i.(type) {
		case *ssa.Store:
			if g := globalRoot(w, x.Addr); g != nil {
				out = append(out, memoWrite{x, nil, x.Val, "the package-level variable " + g.Name(), g.Name()})
			}
		case *ssa.MapUpdate:
			if g := globalRoot(w, x.Map); g != nil {
				out = append(out, memoWrite{x, x.Key, x.Value, "the package-level map " + g.Name(), g.Name()})
			}
		case *ssa.Call:
			switch calleeFullName(x) {
			case "(*sync.Map).Store", "(*sync.Map).LoadOrStore", "(*sync.Map).Swap":
				args := callArgs(x)
				if len(args) == 3 {
					if g := globalRoot(w, args[0]); g != nil {
						out = append(out, memoWrite{x, args[1], args[2], "the package-level sync.Map " + g.Name(), g.Name()})
					}
				}
			case "(*sync.Map).CompareAndSwap":
				args := callArgs(x)
				if len(args) == 4 {
					if g := globalRoot(w, args[0]); g != nil {
						out = append(out, memoWrite{x, args[1], args[3], "the package-level sync.Map " + g.Name(), g.Name()})
					}
				}
			}
		}
	}
	return out
}

// dependentValues: the values of f that are computed from the given seeds. Data dependence through operands, through
// the contents of locals (a load depends on the stores that can execute before it), through map updates and through
// calls that are given a dependent argument (their result, and what they were handed by reference, from there on).
func dependentValues(f *ssa.Function, seeds map[ssa.Value]bool) map[ssa.Value]bool {
	t := map[ssa.Value]bool{}
	for s := range seeds {
		t[s] = true
	}
	rootOf := func(v ssa.Value) ssa.Value {
		for d := 0; d < 12; d++ {
			switch x := v.(type) {
			case *ssa.FieldAddr:
				v = x.X
			case *ssa.IndexAddr:
				v = x.X
			default:
				return v
			}
		}
		return v
	}
	isRef := func(v ssa.Value) bool {
		switch v.Type().Underlying().(type) {
		case *types.Pointer, *types.Map, *types.Slice:
			return true
		}
		return false
	}
	// block reachability (through at least one edge)
	reach := map[*ssa.BasicBlock]map[*ssa.BasicBlock]bool{}
	for _, b := range f.Blocks {
		r := map[*ssa.BasicBlock]bool{}
		work := append([]*ssa.BasicBlock{}, b.Succs...)
		for len(work) > 0 {
			x := work[len(work)-1]
			work = work[:len(work)-1]
			if r[x] {
				continue
			}
			r[x] = true
			work = append(work, x.Succs...)
		}
		reach[b] = r
	}
	mayPrecede := func(a, b ssa.Instruction) bool {
		if a.Block() == b.Block() && instrIndex(a) < instrIndex(b) {
			return true
		}
		return reach[a.Block()][b.Block()]
	}
	// the instructions after which the content of a local is dependent
	events := map[*ssa.Alloc][]ssa.Instruction{}
	contentDep := func(addr ssa.Value, at ssa.Instruction) bool {
		al, ok := rootOf(addr).(*ssa.Alloc)
		if !ok {
			return false
		}
		for _, e := range events[al] {
			if mayPrecede(e, at) {
				return true
			}
		}
		return false
	}
	instrs := allInstrs(f)
	for changed := true; changed; {
		changed = false
		mark := func(v ssa.Value) {
			if v == nil {
				return
			}
			switch v.(type) {
			case *ssa.Const, *ssa.Global, *ssa.Function, *ssa.Builtin:
				return
			}
			if !t[v] {
				t[v] = true
				changed = true
			}
		}
		taintContent := func(addr ssa.Value, at ssa.Instruction) {
			r := rootOf(addr)
			if al, ok := r.(*ssa.Alloc); ok {
				for _, e := range events[al] {
					if e == at {
						return
					}
				}
				events[al] = append(events[al], at)
				changed = true
				return
			}
			mark(r)
		}
		for _, i := range instrs {
			switch x := i.(type) {
			case *ssa.Store:
				if t[x.Val] {
					taintContent(x.Addr, x)
				}
				continue
			case *ssa.MapUpdate:
				if t[x.Key] || t[x.Value] {
					mark(x.Map)
				}
				continue
			case *ssa.UnOp:
				if x.Op == token.MUL && (t[x.X] || contentDep(x.X, x)) {
					mark(x)
				}
				if x.Op == token.MUL {
					continue
				}
			}
			if ci, ok := i.(ssa.CallInstruction); ok {
				args := callArgs(ci)
				dep := false
				for _, a := range args {
					if t[a] || (isRef(a) && contentDep(a, i)) {
						dep = true
					}
				}
				if dep {
					// what the callee is handed by reference may come back changed
					for _, a := range args {
						if mi, boxed := a.(*ssa.MakeInterface); boxed {
							a = mi.X
						}
						if isRef(a) {
							taintContent(a, i)
						}
					}
					if v, isV := i.(ssa.Value); isV {
						mark(v)
					}
				}
				continue
			}
			v, isV := i.(ssa.Value)
			if !isV || t[v] {
				continue
			}
			for _, op := range i.Operands(nil) {
				if *op != nil && t[*op] {
					mark(v)
					break
				}
			}
		}
	}
	return t
}

// c14MemoKeyCoversReceiver: see the comment at the top of the file.
func c14MemoKeyCoversReceiver(c *Ctx, rule string) {
	w := c.W
	n := 0
	for _, im := range manglerImpls(c) {
		for _, root := range []*ssa.Function{im.mangle, im.unmangle, im.recurse} {
			if root == nil || root.Blocks == nil || len(root.Params) == 0 {
				continue
			}
			n++
			// the functions of the repository below this method, each with the parameters that depend on the receiver
			depParams := map[*ssa.Function]map[int]bool{root: {0: true}}
			order := []*ssa.Function{root}
			for changed, rounds := true, 0; changed && rounds < 8; rounds++ {
				changed = false
				for k := 0; k < len(order); k++ {
					g := order[k]
					seeds := map[ssa.Value]bool{}
					for p := range depParams[g] {
						if p < len(g.Params) {
							seeds[g.Params[p]] = true
						}
					}
					dep := dependentValues(g, seeds)
					for _, i := range allInstrs(g) {
						ci, ok := i.(ssa.CallInstruction)
						if !ok {
							continue
						}
						callee := staticCallee(ci)
						if callee == nil || !w.inRepo(callee) || callee.Blocks == nil {
							continue
						}
						if depParams[callee] == nil {
							depParams[callee] = map[int]bool{}
							order = append(order, callee)
							changed = true
						}
						for ai, a := range callArgs(ci) {
							if dep[a] && !depParams[callee][ai] {
								depParams[callee][ai] = true
								changed = true
							}
						}
					}
				}
			}
			bad := false
			for _, g := range order {
				ws := packageLevelWrites(w, g)
				if len(ws) == 0 {
					continue
				}
				seeds := map[ssa.Value]bool{}
				for p := range depParams[g] {
					if p < len(g.Params) {
						seeds[g.Params[p]] = true
					}
				}
				dep := dependentValues(g, seeds)
				for _, mw := range ws {
					if mw.key != nil && dep[mw.key] {
						continue
					}
					switch {
					case dep[mw.val]:
						bad = true
						c.bad(rule, relName(root)+"#"+mw.name, mw.at.Pos(), "%s (below %s) writes a value computed from the mangler's own fields into %s under a key that is not: every mangler of this type in the process shares that state, and one configured differently (another source's alias tags, another encoder) is handed this one's answer", relName(g), relName(root), mw.what)
					case isConstLike(mw.val) && controlledByDependent(g, dep, mw.at.Block()):
						bad = true
						c.bad(rule, relName(root)+"#"+mw.name, mw.at.Pos(), "%s (below %s) records a constant in %s where a condition computed from the mangler's own fields decides whether it is reached, under a key that is not computed from them: the presence of the entry is this mangler's answer, and every mangler of the type in the process - one configured differently included - reads it", relName(g), relName(root), mw.what)
					}
				}
			}
			if !bad {
				c.ok(rule, relName(root), root.Pos(), "no package-level memo below it stores a value computed from the receiver under a key that is not")
			}
		}
	}
	if n == 0 {
		c.bad(rule, "manglers", 0, "no mangler implementation found")
	}
}

func isConstLike(v ssa.Value) bool {
	for d := 0; d < 6; d++ {
		switch x := v.(type) {
		case *ssa.Const:
			return true
		case *ssa.MakeInterface:
			v = x.X
		case *ssa.ChangeType:
			v = x.X
		case *ssa.Convert:
			v = x.X
		default:
			return false
		}
	}
	return false
}

// controlledByDependent: the execution of block b is control dependent (transitively) on a branch whose condition is
// one of the dependent values: b post-dominates one successor of the branch and not the branch itself.
func controlledByDependent(f *ssa.Function, dep map[ssa.Value]bool, b *ssa.BasicBlock) bool {
	n := len(f.Blocks)
	// post-dominator sets by iteration (functions are small)
	pdom := make([]map[int]bool, n)
	all := map[int]bool{}
	for i := 0; i < n; i++ {
		all[i] = true
	}
	for i, blk := range f.Blocks {
		if len(blk.Succs) == 0 {
			pdom[i] = map[int]bool{i: true}
		} else {
			m := map[int]bool{}
			for k := range all {
				m[k] = true
			}
			pdom[i] = m
		}
	}
	for changed := true; changed; {
		changed = false
		for i := n - 1; i >= 0; i-- {
			blk := f.Blocks[i]
			if len(blk.Succs) == 0 {
				continue
			}
			m := map[int]bool{}
			for k := range pdom[blk.Succs[0].Index] {
				m[k] = true
			}
			for _, s := range blk.Succs[1:] {
				for k := range m {
					if !pdom[s.Index][k] {
						delete(m, k)
					}
				}
			}
			m[i] = true
			if len(m) != len(pdom[i]) {
				pdom[i] = m
				changed = true
			}
		}
	}
	// direct control dependence: ctrl[x] = the branching blocks x depends on
	ctrl := func(x int) []*ssa.BasicBlock {
		var out []*ssa.BasicBlock
		for _, q := range f.Blocks {
			if len(q.Succs) < 2 || (pdom[q.Index][x] && q.Index != x) {
				continue
			}
			for _, s := range q.Succs {
				if pdom[s.Index][x] {
					out = append(out, q)
					break
				}
			}
		}
		return out
	}
	seen := map[int]bool{}
	work := []int{b.Index}
	for len(work) > 0 {
		x := work[len(work)-1]
		work = work[:len(work)-1]
		if seen[x] {
			continue
		}
		seen[x] = true
		for _, q := range ctrl(x) {
			if iff, ok := q.Instrs[len(q.Instrs)-1].(*ssa.If); ok && condDependent(dep, iff.Cond, 0) {
				return true
			}
			work = append(work, q.Index)
		}
	}
	return false
}

// condDependent: the condition is a dependent value, or a join of constants whose choice was made by one (a flag set
// under a dependent condition).
func condDependent(dep map[ssa.Value]bool, v ssa.Value, depth int) bool {
	if dep[v] {
		return true
	}
	if depth > 4 {
		return false
	}
	switch x := v.(type) {
	case *ssa.UnOp:
		return condDependent(dep, x.X, depth+1)
	case *ssa.BinOp:
		return condDependent(dep, x.X, depth+1) || condDependent(dep, x.Y, depth+1)
	case *ssa.Phi:
		for i, e := range x.Edges {
			if condDependent(dep, e, depth+1) {
				return true
			}
			p := x.Block().Preds[i]
			if controlledByDependentShallow(dep, p, x.Block()) {
				return true
			}
		}
	}
	return false
}

// controlledByDependentShallow: the edge p -> b is taken by a dependent branch at the end of p, or p has a single
// predecessor whose dependent branch chose p.
func controlledByDependentShallow(dep map[ssa.Value]bool, p, b *ssa.BasicBlock) bool {
	if iff, ok := p.Instrs[len(p.Instrs)-1].(*ssa.If); ok && dep[iff.Cond] {
		return true
	}
	if len(p.Preds) == 1 {
		if iff, ok := p.Preds[0].Instrs[len(p.Preds[0].Instrs)-1].(*ssa.If); ok && dep[iff.Cond] {
			return true
		}
	}
	return false
}
