package main

import (
	"go/ast"
	"go/token"
	"go/types"
	"strings"

	"golang.org/x/tools/go/ssa"
)

func init() {
	props["C20"] = &propMeta{
		run: runC20,
		explanation: "Decides that the source/decoder wrappers are pipelines of the right shape: translate the type, call the inner source/decoder with the translated type, reverse-translate what it returned with the same transformer, return exactly that, " +
			"and return each of the three possible errors (wrapped) instead of a value; that the watch arguments handed to a wrapped watcher declare - not merely promote - every WatchArgs method that carries a value, reverse-translate it and forward to the " +
			"same method of the wrapped arguments; and Blank's delegation, refusal, Done-forwarding and locking rules as reaching-condition truth tables and dominance facts. Not decided: the values that flow through.",
		assumptions: []string{"transform.Transformer behaves as decided under C10", "inner sources honour the Source/Watcher contracts"},
	}
}

// pipelineOf checks the translate -> inner -> reverse pipeline in f.
func c20Pipeline(c *Ctx, f *ssa.Function, innerName string, rule string) {
	name := relName(f)
	var tr, inner, rev *ssa.Call
	for _, i := range allInstrs(f) {
		ci, ok := i.(*ssa.Call)
		if !ok {
			continue
		}
		switch calleeFullName(ci) {
		case "(*" + modPath + "/transform.Transformer).TranslateType", "(*" + modPath + "/transform.Transformer).Translate":
			tr = ci
		case "(*" + modPath + "/transform.Transformer).ReverseTranslate":
			rev = ci
		case innerName:
			inner = ci
		}
	}
	if tr == nil || inner == nil || rev == nil {
		c.bad(rule, name, f.Pos(), "the wrapper does not call TranslateType, the inner %s and ReverseTranslate", innerName)
		return
	}
	ext := func(call *ssa.Call, idx int) ssa.Value {
		for _, r := range *call.Referrers() {
			if e, ok := r.(*ssa.Extract); ok && e.Index == idx {
				return e
			}
		}
		return nil
	}
	// same transformer
	// (values that come out of a folded helper as joined results are taken on their live outcome)
	sameT := tr.Call.Args[0] == livePhiValue(rev.Call.Args[0], rev.Block())
	// inner is called with NewType(translated type)
	innerArgs := callArgs(inner)
	tyArg := livePhiValue(innerArgs[len(innerArgs)-1], inner.Block())
	okTy := false
	if nt, ok := tyArg.(*ssa.Call); ok && calleeFullName(nt) == modPath+".NewType" && nt.Call.Args[0] == ext(tr, 0) {
		okTy = true
	}
	okRev := rev.Call.Args[1] == ext(inner, 0)
	okOrder := domI(tr, inner) && domI(inner, rev)
	c.check(sameT && okTy && okRev && okOrder, rule, name+"#shape", inner.Pos(),
		"translate -> inner(translated type) -> ReverseTranslate(inner's value) with one transformer", "the wrapper is not translate -> inner(translated type) -> reverse-translate(inner's value) on one transformer")
	// success return: value is ReverseTranslate's result, dominated by all three error tests being nil
	errs := []ssa.Value{ext(tr, 1), ext(inner, 1), ext(rev, 1)}
	for _, r := range returnsOf(f) {
		rv := retVals(r)
		if len(rv) != 2 {
			continue
		}
		if isNilConst(rv[1]) {
			okv := rv[0] == ext(rev, 0)
			for _, e := range errs {
				if e == nil || !knownNilVia(r.Block(), e, true) {
					okv = false
				}
			}
			c.check(okv, rule, name+"#success", r.Pos(), "success returns exactly the reverse-translated value, after all three errors tested nil", "a success return is not the reverse-translated value or an error was not tested")
			continue
		}
		// error return: which error is known non-nil here
		which := -1
		for k, e := range errs {
			if e != nil && knownNilVia(r.Block(), e, false) {
				which = k
			}
		}
		okE := which >= 0 && errDerivesNonNil(rv[1], r.Block(), func(v ssa.Value) bool { return v == errs[which] })
		zero := false
		if cst, ok := stripConv(rv[0]).(*ssa.Const); ok && cst.Value == nil {
			zero = true
		}
		if ld, ok := rv[0].(*ssa.UnOp); ok && ld.Op == token.MUL {
			if al, ok := ld.X.(*ssa.Alloc); ok && len(*al.Referrers()) == 1 {
				zero = true // zero-valued composite literal reflect.Value{}
			}
		}
		c.check(okE && zero, rule, name+"#error", r.Pos(), "an error return carries the (wrapped) error that was tested and the zero value", "an error return swallows the tested error or carries a non-zero value")
	}
}

func runC20(c *Ctx) {
	c.rule("value-pipeline", "transforming source Value and transforming decoder Decode: translate, call the inner with the translated type, reverse-translate its value with the same transformer, return that; each of the three errors is tested and returned (wrapped) with a zero value", 6)
	c.rule("watch-reverse-translates", "the concrete watch arguments handed to a wrapped watcher declare (selection depth 1, not promoted from the embedded original) every WatchArgs method that carries a reflect.Value; each reverse-translates the value with the transformer whose TranslateType produced the inner type, returns the error if that fails, and forwards to the same-named method of the wrapped arguments", 3)
	c.rule("reverse-derefs", "Transformer.ReverseTranslate never unpacks a value of pointer kind: a pointer to the translated struct (what Blank and pointer-returning sources hand back, and what dials dereferences natively) is dereferenced first", 1)
	c.rule("reply-capacity", "(shared with C07) the blocking report a Blank's SetSource makes carries a freshly made reply channel with room for the one answer", 1)
	c.rule("zero-only-for-unset", "(shared with C10) on the way back through a wrapper reflect.Zero (unset) is produced only under a true nil-ness test: an explicitly empty list stays a non-nil empty list, as it does natively", 7)
	c.rule("no-self-call", "no wrapper method calls itself", 1)
	c.rule("blank-delegation", "Blank.Value delegates exactly when an inner source is set, else returns a fresh zero of the requested type; SetSource refuses to replace a watching inner source before writing any field; Done forwards exactly when the inner source is not a Watcher and watch arguments are present; the inner Watch gets the saved Dials watch context, type and arguments", 5)
	c.rule("setsource-order", "(shared with C07) Blank.SetSource assigns the inner source only after s.Value succeeded (a failed SetSource must not install the source), reports exactly that value with its own context, returns nil only after the report did, and starts the inner Watch afterwards", 4)
	c.rule("blank-locking", "every access to Blank.inner/wa/t/watchCtx is dominated by b.mu.Lock() in the same function (one documented exception: the nil-source error message)", 8)
	c.rule("reformat-source", "ReformatDialsTagSource wraps the given source with a transforming source whose mangler reformats the `dials` tag", 1)

	w := c.W
	val := w.fn("sourcewrap", "transformingSourceNoWatch.Value")
	dec := w.fn("sourcewrap", "transformingDecoder.Decode")
	watch := w.fn("sourcewrap", "transformingSourceWithWatch.Watch")
	if !c.need(val != nil && dec != nil && watch != nil, "sourcewrap transforming source/decoder methods") {
		return
	}
	c.analysed(relName(val))
	c.analysed(relName(dec))
	c.analysed(relName(watch))
	c20Pipeline(c, val, "("+modPath+".Source).Value", "value-pipeline")
	c20Pipeline(c, dec, "("+modPath+".Decoder).Decode", "value-pipeline")
	c20ReverseDerefs(c, "reverse-derefs")
	c07ReplyCapacity(c)
	c10ZeroOnlyUnset(c)

	// ---- watch-reverse-translates -----------------------------------------------
	waIface := w.named("", "WatchArgs")
	var innerWatch *ssa.Call
	for _, i := range allInstrs(watch) {
		if ci, ok := i.(*ssa.Call); ok && calleeFullName(ci) == "("+modPath+".Watcher).Watch" {
			innerWatch = ci
		}
	}
	if !c.need(waIface != nil && innerWatch != nil, "dials.WatchArgs and the inner Watch call") {
		return
	}
	waArg := innerWatch.Call.Args[len(innerWatch.Call.Args)-1]
	mi, ok := waArg.(*ssa.MakeInterface)
	if !ok {
		c.bad("watch-reverse-translates", relName(watch)+"#args", innerWatch.Pos(), "the inner watcher is handed the original watch arguments (or something that is not a concrete wrapper): reported values are never reverse-translated")
		return
	}
	wt := mi.X.Type()
	// the transformer in the wrapper literal is the one TranslateType was called on; the inner type is its result
	var tr *ssa.Call
	for _, i := range allInstrs(watch) {
		if ci, ok := i.(*ssa.Call); ok && strings.HasSuffix(calleeFullName(ci), "transform.Transformer).TranslateType") {
			tr = ci
		}
	}
	okLit := false
	if al, ok := mi.X.(*ssa.Alloc); ok && tr != nil {
		tf := litField(al, "tfm")
		orig := litField(al, "WatchArgs")
		_, isP := orig.(*ssa.Parameter)
		if tf != nil {
			tf = livePhiValue(tf, innerWatch.Block())
		}
		okLit = tf != nil && tf == tr.Call.Args[0] && isP && domI(tr, innerWatch)
	}
	okTy := false
	if nt, ok := livePhiValue(innerWatch.Call.Args[1], innerWatch.Block()).(*ssa.Call); ok && tr != nil && calleeFullName(nt) == modPath+".NewType" {
		for _, r := range *tr.Referrers() {
			if e, ok := r.(*ssa.Extract); ok && e.Index == 0 && nt.Call.Args[0] == ssa.Value(e) {
				okTy = true
			}
		}
	}
	_, ctxIsParam := innerWatch.Call.Args[0].(*ssa.Parameter)
	c.check(okLit && okTy && ctxIsParam, "watch-reverse-translates", relName(watch)+"#wrapper", innerWatch.Pos(),
		"inner Watch gets (own ctx, translated type, wrapper{original args, the translating transformer})", "the wrapper literal / inner type / context handed to the inner Watch are not the translated ones")

	it := waIface.Underlying().(*types.Interface)
	ms := types.NewMethodSet(wt)
	for i := 0; i < it.NumMethods(); i++ {
		m := it.Method(i)
		sig := m.Type().(*types.Signature)
		carries := false
		for p := 0; p < sig.Params().Len(); p++ {
			if types.TypeString(sig.Params().At(p).Type(), nil) == "reflect.Value" {
				carries = true
			}
		}
		if !carries {
			continue
		}
		sel := ms.Lookup(m.Pkg(), m.Name())
		id := types.TypeString(wt, func(p *types.Package) string { return p.Name() }) + "." + m.Name()
		if sel == nil {
			c.bad("watch-reverse-translates", id, innerWatch.Pos(), "wrapper has no method %s", m.Name())
			continue
		}
		if len(sel.Index()) != 1 {
			c.bad("watch-reverse-translates", id, innerWatch.Pos(), "%s is promoted from the embedded original WatchArgs: values reported through it reach Dials without reverse translation", m.Name())
			continue
		}
		mf := w.Prog.FuncValue(sel.Obj().(*types.Func))
		if mf == nil || mf.Blocks == nil {
			c.undecided("watch-reverse-translates", id, innerWatch.Pos(), "no body for %s", m.Name())
			continue
		}
		c.analysed(relName(mf))
		var rev, fwd *ssa.Call
		for _, i2 := range allInstrs(mf) {
			ci, ok := i2.(*ssa.Call)
			if !ok {
				continue
			}
			n := calleeFullName(ci)
			if strings.HasSuffix(n, "transform.Transformer).ReverseTranslate") {
				rev = ci
			}
			if n == "("+modPath+".WatchArgs)."+m.Name() {
				fwd = ci
			}
			if staticCallee(ci) == origin(mf) {
				c.bad("no-self-call", id, ci.Pos(), "%s calls itself", m.Name())
			}
		}
		switch {
		case rev == nil:
			c.bad("watch-reverse-translates", id, mf.Pos(), "%s does not reverse-translate the reported value", m.Name())
		case fwd == nil:
			c.bad("watch-reverse-translates", id, mf.Pos(), "%s does not forward to the wrapped arguments' %s (a different method changes blocking/error semantics)", m.Name(), m.Name())
		default:
			var revVal, revErr ssa.Value
			for _, r := range *rev.Referrers() {
				if e, ok := r.(*ssa.Extract); ok {
					if e.Index == 0 {
						revVal = e
					} else {
						revErr = e
					}
				}
			}
			// the value param flows into ReverseTranslate; its result into the forward call; receiver of forward is the embedded field
			_, isValParam := rev.Call.Args[1].(*ssa.Parameter)
			_, tfIsField := loadOfTypeField(rev.Call.Args[0], "sourcewrap.wrappedWatchArgs", "tfm")
			_, recvEmbedded := loadOfTypeField(fwd.Call.Value, "sourcewrap.wrappedWatchArgs", "WatchArgs")
			okFwd := len(fwd.Call.Args) == 2 && livePhiValue(fwd.Call.Args[1], fwd.Block()) == revVal && revErr != nil && knownNilVia(fwd.Block(), revErr, true)
			_, ctxP := fwd.Call.Args[0].(*ssa.Parameter)
			// results: forward's result returned; reverse error returned wrapped
			okRet := true
			for _, r := range returnsOf(mf) {
				rv := retVals(r)
				if len(rv) != 1 {
					continue
				}
				if rv[0] == ssa.Value(fwd) {
					continue
				}
				if revErr != nil && knownNilVia(r.Block(), revErr, false) && errDerivesNonNil(rv[0], r.Block(), func(v ssa.Value) bool { return v == revErr }) {
					continue
				}
				okRet = false
			}
			c.check(isValParam && tfIsField && recvEmbedded && okFwd && ctxP && okRet, "watch-reverse-translates", id, mf.Pos(),
				m.Name()+": ReverseTranslate(val) with the wrapper's transformer, error returned, result forwarded to the wrapped "+m.Name()+" whose result is returned",
				m.Name()+" does not reverse-translate -> test error -> forward to the wrapped "+m.Name()+" -> return its result")
		}
	}
	// no-self-call over all methods of the wrapper
	selfCalls := 0
	for _, f := range w.funcsIn("sourcewrap") {
		if f.Signature.Recv() == nil {
			continue
		}
		for _, ci := range callsToFn(f, f) {
			selfCalls++
			c.bad("no-self-call", relName(f), ci.Pos(), "method calls itself")
		}
	}
	if selfCalls == 0 {
		c.ok("no-self-call", "sourcewrap", watch.Pos(), "no method of the sourcewrap package calls itself")
	}

	// ---- blank ----------------------------------------------------------------------------
	c20Blank(c)

	// ---- reformat-source --------------------------------------------------------------------
	rf := w.fn("tagformat", "ReformatDialsTagSource")
	nts := w.fn("sourcewrap", "NewTransformingSource")
	if c.need(rf != nil && nts != nil, "tagformat.ReformatDialsTagSource / sourcewrap.NewTransformingSource") {
		c.analysed(relName(rf))
		okR := false
		for _, ci := range callsToFn(rf, nts) {
			args := ci.Common().Args
			if p, ok := args[0].(*ssa.Parameter); ok && p.Parent() == rf {
				// the variadic manglers: a slice of one element, a *TagReformattingMangler literal with tag "dials"
				if sl, ok := args[1].(*ssa.Slice); ok {
					if al, ok := sl.X.(*ssa.Alloc); ok {
						for _, r := range *al.Referrers() {
							if ia, ok := r.(*ssa.IndexAddr); ok {
								for _, rr := range *ia.Referrers() {
									if st, ok := rr.(*ssa.Store); ok {
										if lit := allocOf(st.Val); lit != nil && litTypeName(lit) == "tagformat.TagReformattingMangler" {
											if s, ok := constString(litField(lit, "tag")); ok && s == "dials" {
												okR = true
											}
										}
										// ... or built by the package's constructor, whose literal takes its tag from the first argument
										if call, ok := stripConv(st.Val).(*ssa.Call); ok {
											if ctor := staticCallee(call); ctor != nil && len(ctor.Blocks) > 0 && c.W.pkgRelOfFn(ctor) == "tagformat" && len(call.Call.Args) > 0 {
												if s, ok := constString(call.Call.Args[0]); ok && s == "dials" {
													for _, rt := range returnsOf(ctor) {
														if lit := allocOf(retVals(rt)[0]); lit != nil && litTypeName(lit) == "tagformat.TagReformattingMangler" && litField(lit, "tag") == ssa.Value(ctor.Params[0]) {
															okR = true
														}
													}
												}
											}
										}
									}
								}
							}
						}
					}
				}
			}
		}
		c.check(okR, "reformat-source", relName(rf), rf.Pos(), "wraps the given source with a reformatter of the `dials` tag", "ReformatDialsTagSource does not wrap the given source with a `dials`-tag reformatter")
	}
	c07SetSourceOrder(c)
}

func c20Blank(c *Ctx) {
	w := c.W
	bv := w.fn("sourcewrap", "Blank.Value")
	ss := w.fn("sourcewrap", "Blank.SetSource")
	dn := w.fn("sourcewrap", "Blank.Done")
	bw := w.fn("sourcewrap", "Blank.Watch")
	gi := w.fn("sourcewrap", "Blank.getInner")
	if !c.need(bv != nil && ss != nil && dn != nil && bw != nil, "sourcewrap.Blank methods") {
		return
	}
	for _, f := range []*ssa.Function{bv, ss, dn, bw} {
		c.analysed(relName(f))
	}
	srcValue := "(" + modPath + ".Source).Value"
	// Value: delegate iff inner != nil
	var del *ssa.Call
	for _, i := range allInstrs(bv) {
		if ci, ok := i.(*ssa.Call); ok && calleeFullName(ci) == srcValue {
			del = ci
		}
	}
	if del == nil {
		c.bad("blank-delegation", relName(bv)+"#delegate", bv.Pos(), "Blank.Value never delegates to the inner source")
	} else {
		inner := del.Call.Value
		okInner := false
		if call, ok := inner.(*ssa.Call); ok && gi != nil && staticCallee(call) == origin(gi) {
			okInner = true
		}
		if _, ok := loadOfTypeField(inner, "sourcewrap.Blank", "inner"); ok {
			okInner = true
		}
		pb := &predBuilder{name: func(v ssa.Value) string {
			if v == inner {
				return "inner"
			}
			return ""
		}}
		g := pb.pathCond(bv.Blocks[0], del.Block())
		r := compareTable(g, []string{"isnil(inner)"}, nil, func(e env) bool { return !e.B["isnil(inner)"] })
		// delegated with the caller's ctx and type; result returned unchanged
		_, p0 := del.Call.Args[0].(*ssa.Parameter)
		_, p1 := del.Call.Args[1].(*ssa.Parameter)
		okRet := false
		for _, rt := range returnsOf(bv) {
			rv := retVals(rt)
			if e0, ok := rv[0].(*ssa.Extract); ok && e0.Tuple == ssa.Value(del) {
				if e1, ok := rv[1].(*ssa.Extract); ok && e1.Tuple == ssa.Value(del) && e0.Index == 0 && e1.Index == 1 {
					okRet = true
				}
			}
		}
		c.check(okInner && len(r.Unknown) == 0 && r.Mismatch == "" && p0 && p1 && okRet, "blank-delegation", relName(bv)+"#delegate", del.Pos(),
			"delegates exactly when the inner source is non-nil, with the caller's ctx and type, returning its (value, error) unchanged", "Blank.Value's delegation is not `inner != nil -> return inner.Value(ctx, t)` ("+g.String()+")")
		// the blank case: reflect.New(t.Type()) and nil error
		okBlank := false
		for _, rt := range returnsOf(bv) {
			rv := retVals(rt)
			if call, ok := rv[0].(*ssa.Call); ok && calleeFullName(call) == "reflect.New" && isNilConst(rv[1]) {
				okBlank = true
			}
		}
		c.check(okBlank, "blank-delegation", relName(bv)+"#blank", bv.Pos(), "without an inner source a fresh all-unset value of the requested type is returned", "the blank case does not return a fresh zero value with a nil error")
	}

	// SetSource refuses a Watcher before any write
	var taW *ssa.TypeAssert
	for _, i := range allInstrs(ss) {
		if ta, ok := i.(*ssa.TypeAssert); ok && ta.CommaOk && namedTypeName(ta.AssertedType) == ".Watcher" {
			if _, ok := loadOfTypeField(ta.X, "sourcewrap.Blank", "inner"); ok {
				taW = ta
			}
		}
	}
	var testI ssa.Instruction
	var okV ssa.Value
	if taW != nil {
		testI = taW
		for _, r := range *taW.Referrers() {
			if e, ok := r.(*ssa.Extract); ok && e.Index == 1 {
				okV = e
			}
		}
	} else {
		// ... or a helper predicate of the Blank: true only under inner.(Watcher) ok
		for _, i := range allInstrs(ss) {
			if ci, ok := i.(*ssa.Call); ok {
				if h := staticCallee(ci); h != nil && c20WatcherPredicate(h) {
					testI, okV = ci, ci
				}
			}
		}
	}
	if testI == nil {
		c.bad("blank-delegation", relName(ss)+"#refuse", ss.Pos(), "SetSource does not test whether the current inner source is a Watcher")
	} else {
		// from the ok==true successor: returns a non-nil error, no stores to Blank fields, no calls on the new source
		var succ, succFrom *ssa.BasicBlock
		if okV != nil {
			for _, r := range *boolCarrier(okV).Referrers() {
				if iff, ok := r.(*ssa.If); ok {
					succ, succFrom = iff.Block().Succs[0], iff.Block()
				}
			}
		}
		okRef := succ != nil
		if succ != nil {
			isSide := func(i ssa.Instruction) bool {
				if st, ok := i.(*ssa.Store); ok {
					if fa, ok := st.Addr.(*ssa.FieldAddr); ok && namedTypeName(fa.X.Type()) == "sourcewrap.Blank" {
						return true
					}
				}
				if ci, ok := i.(*ssa.Call); ok && ci.Call.IsInvoke() {
					return true
				}
				if r, ok := i.(*ssa.Return); ok && isNilConst(retVals(r)[0]) {
					return true
				}
				return false
			}
			// (branches decided by the values joined on the edge taken - the error a folded check helper hands back - are pruned)
			if reachesPruned(succFrom, succ, isSide) {
				okRef = false
			}
			// and it precedes every write/call in the function
			for _, i := range allInstrs(ss) {
				if st, ok := i.(*ssa.Store); ok {
					if fa, ok := st.Addr.(*ssa.FieldAddr); ok && namedTypeName(fa.X.Type()) == "sourcewrap.Blank" {
						// no field write may happen on a path that still reaches the test
						if reachAvoid(ss, st, func(x ssa.Instruction) bool { return x == testI }, nil) != nil {
							okRef = false
						}
					}
				}
			}
		}
		c.check(okRef, "blank-delegation", relName(ss)+"#refuse", testI.Pos(), "a watching inner source is never replaced: the test precedes every field write and its true branch only returns an error",
			"the Watcher test does not precede every write, or its true branch does more than return an error")
	}
	// the inner Watch call gets the saved context, type and arguments
	for _, i := range allInstrs(ss) {
		ci, ok := i.(*ssa.Call)
		if !ok || calleeFullName(ci) != "("+modPath+".Watcher).Watch" {
			continue
		}
		_, a0 := loadOfTypeField(ci.Call.Args[0], "sourcewrap.Blank", "watchCtx")
		_, a1 := loadOfTypeField(ci.Call.Args[1], "sourcewrap.Blank", "t")
		_, a2 := loadOfTypeField(ci.Call.Args[2], "sourcewrap.Blank", "wa")
		c.check(a0 && a1 && a2, "blank-delegation", relName(ss)+"#inner-watch", ci.Pos(), "inner Watch(b.watchCtx, b.t, b.wa): the watcher lives as long as the Dials watch context, not the SetSource call",
			"the inner Watch is not started with the saved Dials watch context/type/arguments (updates stop when the SetSource context ends)")
	}
	// Done forwards iff !isWatcher(inner) && wa != nil
	var fwd *ssa.Call
	for _, i := range allInstrs(dn) {
		if ci, ok := i.(*ssa.Call); ok && calleeFullName(ci) == "("+modPath+".WatchArgs).Done" {
			fwd = ci
		}
	}
	if fwd == nil {
		c.bad("blank-delegation", relName(dn)+"#forward", dn.Pos(), "Blank.Done never forwards Done")
	} else {
		pb := &predBuilder{name: func(v ssa.Value) string {
			if e, ok := v.(*ssa.Extract); ok && e.Index == 1 {
				if ta, ok := e.Tuple.(*ssa.TypeAssert); ok && namedTypeName(ta.AssertedType) == ".Watcher" {
					if _, ok := loadOfTypeField(ta.X, "sourcewrap.Blank", "inner"); ok {
						return "innerIsWatcher"
					}
				}
			}
			if _, ok := loadOfTypeField(v, "sourcewrap.Blank", "wa"); ok {
				return "wa"
			}
			if _, ok := loadOfTypeField(v, "sourcewrap.Blank", "inner"); ok {
				return "inner"
			}
			return ""
		}}
		g := pb.pathCond(dn.Blocks[0], fwd.Block())
		fbD, fiD := map[string]bool{}, map[string]bool{}
		atomsOf(g, fbD, fiD)
		if fbD["isnil(inner)"] {
			// an explicit `inner != nil` beside the assertion: a nil interface never satisfies it, so the rows with
			// innerIsWatcher && inner == nil do not exist
			unknown := len(fiD) > 0
			for a := range fbD {
				if a != "innerIsWatcher" && a != "isnil(wa)" && a != "isnil(inner)" {
					unknown = true
				}
			}
			rows, counter := forAll(g, nil, func(e env, fv bool) bool {
				if e.B["innerIsWatcher"] && e.B["isnil(inner)"] {
					return true
				}
				return fv == (!e.B["innerIsWatcher"] && !e.B["isnil(wa)"])
			})
			switch {
			case unknown:
				c.undecided("blank-delegation", relName(dn)+"#forward", fwd.Pos(), "guard %s contains atoms the rule cannot interpret (spec: !innerIsWatcher && wa != nil)", g)
			case counter != "":
				c.bad("blank-delegation", relName(dn)+"#forward", fwd.Pos(), "guard %s differs from spec !innerIsWatcher && wa != nil at %s", g, counter)
			default:
				c.okRows("blank-delegation", relName(dn)+"#forward", fwd.Pos(), rows, "guard %s == spec !innerIsWatcher && wa != nil on all feasible rows", g)
			}
		} else {
			c.checkTable("blank-delegation", relName(dn)+"#forward", fwd.Pos(), g, []string{"innerIsWatcher", "isnil(wa)"}, nil, "!innerIsWatcher && wa != nil",
				func(e env) bool { return !e.B["innerIsWatcher"] && !e.B["isnil(wa)"] })
		}
	}

	// ---- blank-locking --------------------------------------------------------------------------
	for _, f := range w.funcsIn("sourcewrap") {
		var lock *ssa.Call
		for _, i := range allInstrs(f) {
			if ci, ok := i.(*ssa.Call); ok && calleeFullName(ci) == "(*sync.Mutex).Lock" {
				if fa, ok := ci.Call.Args[0].(*ssa.FieldAddr); ok && namedTypeName(fa.X.Type()) == "sourcewrap.Blank" {
					lock = ci
				}
			}
		}
		for _, i := range allInstrs(f) {
			fa, ok := i.(*ssa.FieldAddr)
			if !ok || namedTypeName(fa.X.Type()) != "sourcewrap.Blank" {
				continue
			}
			fn := fieldName(fa.X.Type(), fa.Field)
			if fn != "inner" && fn != "wa" && fn != "t" && fn != "watchCtx" {
				continue
			}
			okl := lock != nil && domI(lock, fa)
			if !okl && lock == nil && f.Signature.Recv() != nil && !ast.IsExported(f.Name()) {
				// an unexported method without a lock of its own: every call site (all in this package, all
				// static) is dominated by b.mu.Lock() in its caller
				callers := 0
				held := true
				for _, g := range w.funcsIn("sourcewrap") {
					for _, cs := range callsToFn(g, f) {
						callers++
						var glock *ssa.Call
						for _, gi := range allInstrs(g) {
							if ci, ok := gi.(*ssa.Call); ok && calleeFullName(ci) == "(*sync.Mutex).Lock" {
								if gfa, ok := ci.Call.Args[0].(*ssa.FieldAddr); ok && namedTypeName(gfa.X.Type()) == "sourcewrap.Blank" {
									glock = ci
								}
							}
						}
						csi, isInstr := cs.(ssa.Instruction)
						if glock == nil || !isInstr || !domI(glock, csi) {
							held = false
						}
						if _, isGo := cs.(*ssa.Go); isGo {
							held = false
						}
					}
				}
				// the method value must not escape (no other references)
				if callers > 0 && held && !w.funcValueEscapes(f) {
					okl = true
				}
			}
			if !okl {
				// the documented exception: reading b.t for the nil-source error message
				if fn == "t" {
					for _, ec := range condsDominating(fa.Block()) {
						if nv, nilWhenTrue, ok := nilCheckOf(ec.Cond); ok && nilWhenTrue == ec.Val {
							if _, isP := nv.(*ssa.Parameter); isP {
								okl = true
							}
						}
					}
				}
			}
			c.check(okl, "blank-locking", relName(f)+"#"+fn, fa.Pos(), "access to Blank."+fn+" under b.mu", "Blank."+fn+" accessed without holding b.mu")
		}
	}
}

// c20ReverseDerefs: dials dereferences a pointer-valued source value when it stacks it (and sourcewrap.Blank
// hands back such a value), so a wrapped source is transparent only if Transformer.ReverseTranslate unpacks the
// pointee: the value handed to unpackValueFields must not be a reflect.Value of pointer kind (D28).
func c20ReverseDerefs(c *Ctx, rule string) {
	w := c.W
	rt := w.fn("transform", "Transformer.ReverseTranslate")
	unpack := w.fn("transform", "unpackValueFields")
	if !c.need(rt != nil && unpack != nil, "transform.Transformer.ReverseTranslate / unpackValueFields") {
		return
	}
	c.analysed(relName(rt))
	n := 0
	for _, ci := range callsToFn(rt, unpack) {
		call := ci.(*ssa.Call)
		n++
		var why string
		seen := map[ssa.Value]bool{}
		var okVal func(v ssa.Value, p, b *ssa.BasicBlock) bool
		okVal = func(v ssa.Value, p, b *ssa.BasicBlock) bool {
			if cc, ok := v.(*ssa.Call); ok {
				switch calleeFullName(cc) {
				case "(reflect.Value).Elem", "reflect.Zero", "reflect.Indirect":
					return true
				}
			}
			// guarded by Kind(v) != Ptr on the way in
			pb := &predBuilder{name: func(x ssa.Value) string {
				if kc, ok := x.(*ssa.Call); ok && calleeFullName(kc) == "(reflect.Value).Kind" && kc.Call.Args[0] == v {
					return "kind"
				}
				return ""
			}}
			var g formula
			if p != nil {
				g = pb.pathCondEdge(rt.Blocks[0], p, b)
			} else {
				g = pb.pathCond(rt.Blocks[0], b)
			}
			fb, fi := map[string]bool{}, map[string]bool{}
			atomsOf(g, fb, fi)
			if fi["kind"] {
				if _, counter := forAll(g, map[string][]int64{"kind": allKinds}, func(e env, fv bool) bool { return !fv || e.I["kind"] != kPtr }); counter == "" {
					return true
				}
			}
			ph, isPhi := v.(*ssa.Phi)
			if !isPhi || seen[v] {
				if !isPhi {
					why = canon(v) + " reaches unpackValueFields without a Kind() != Ptr guard or a dereference"
				}
				return isPhi
			}
			seen[v] = true
			for ei, e := range ph.Edges {
				if !okVal(e, ph.Block().Preds[ei], ph.Block()) {
					return false
				}
			}
			return true
		}
		good := okVal(call.Call.Args[0], nil, call.Block())
		c.check(good, rule, relName(rt)+"#unpack#"+itoa(n), call.Pos(), "the value unpacked field by field is never of pointer kind (pointer values are dereferenced first, as dials does when stacking)",
			"a pointer-kind value can reach unpackValueFields ("+why+"): a wrapped source that returns a pointer to the translated struct - sourcewrap.Blank does - panics in Config or has its value dropped, although the same source works natively")
	}
	if n == 0 {
		c.bad(rule, relName(rt), rt.Pos(), "ReverseTranslate no longer unpacks its value through unpackValueFields")
	}
}

// c20WatcherPredicate: h is a method of Blank returning a bool that is true only when b.inner.(dials.Watcher)
// succeeded (every return is the assertion's ok result or the constant false).
func c20WatcherPredicate(h *ssa.Function) bool {
	h = origin(h)
	if len(h.Blocks) == 0 || h.Signature.Recv() == nil || h.Signature.Results().Len() != 1 {
		return false
	}
	if namedTypeName(h.Signature.Recv().Type()) != "sourcewrap.Blank" {
		return false
	}
	sawOK := false
	for _, r := range returnsOf(h) {
		v := retVals(r)[0]
		if cst, ok := v.(*ssa.Const); ok && cst.Value != nil {
			if cst.Value.ExactString() != "false" {
				return false
			}
			continue
		}
		ex, ok := v.(*ssa.Extract)
		if !ok || ex.Index != 1 {
			return false
		}
		ta, ok := ex.Tuple.(*ssa.TypeAssert)
		if !ok || !ta.CommaOk || namedTypeName(ta.AssertedType) != ".Watcher" {
			return false
		}
		if _, ok := loadOfTypeField(ta.X, "sourcewrap.Blank", "inner"); !ok {
			return false
		}
		sawOK = true
	}
	return sawOK
}
