package main

import (
	"bytes"
	"go/ast"
	"go/format"
	"go/parser"
	"go/token"
	"go/types"
	"reflect"
	"strings"

	"golang.org/x/tools/go/ast/astutil"
	"golang.org/x/tools/go/packages"
)

// Tables of functions.
//
// A `switch k { case A: f(x); case B: g(x) }` rewritten as a lookup in a package-level table of functions
// (`if h, ok := byKind[k]; ok { h(x) }`, the table a map or an array filled by the package initialiser) has the same
// calls, but none that a static call graph can see. Where a *new* unexported package-level table of function values
// is written only by `init()` (one keyed composite literal, or constant-indexed element assignments) and read only
// in the forms `if h, ok := tbl[K]; ok { ... }` / `if h := tbl[K]; h != nil { ... }` with h only ever called, the if
// statement is written back as the switch it stands for: one case per table entry, the body with h replaced by the
// entry. (An else branch becomes the default case.)
func (w *World) detable(p *packages.Package, rec map[string]anchorType, recF map[string]anchorFunc) map[string][]byte {
	info := p.TypesInfo
	type entry struct {
		key ast.Expr
		fn  ast.Expr
	}
	tables := map[*types.Var][]entry{}
	bad := map[*types.Var]bool{}
	isFuncTable := func(v *types.Var) bool {
		if v == nil || v.Exported() || v.Pkg() == nil || v.Parent() != v.Pkg().Scope() {
			return false
		}
		switch t := v.Type().Underlying().(type) {
		case *types.Map:
			_, ok := t.Elem().Underlying().(*types.Signature)
			return ok
		case *types.Array:
			_, ok := t.Elem().Underlying().(*types.Signature)
			return ok
		}
		return false
	}
	fnExpr := func(e ast.Expr) bool {
		// a function or method expression: f, pkg.F, (*T).m, T.m
		switch x := ast.Unparen(e).(type) {
		case *ast.Ident:
			_, ok := info.Uses[x].(*types.Func)
			return ok
		case *ast.SelectorExpr:
			if sel := info.Selections[x]; sel != nil {
				return sel.Kind() == types.MethodExpr
			}
			_, ok := info.Uses[x.Sel].(*types.Func)
			return ok
		}
		return false
	}
	// writers: only init()
	for _, f := range p.Syntax {
		for _, d := range f.Decls {
			switch x := d.(type) {
			case *ast.GenDecl:
				for _, sp := range x.Specs {
					vs, ok := sp.(*ast.ValueSpec)
					if !ok {
						continue
					}
					for i, nm := range vs.Names {
						v, _ := info.Defs[nm].(*types.Var)
						if !isFuncTable(v) {
							continue
						}
						if i < len(vs.Values) {
							bad[v] = true // initialised at the declaration: not the pattern handled here
						}
					}
				}
			case *ast.FuncDecl:
				if x.Body == nil {
					continue
				}
				isInit := x.Recv == nil && x.Name.Name == "init"
				ast.Inspect(x.Body, func(n ast.Node) bool {
					as, ok := n.(*ast.AssignStmt)
					if !ok {
						return true
					}
					for i, l := range as.Lhs {
						switch lx := l.(type) {
						case *ast.Ident:
							v, _ := info.Uses[lx].(*types.Var)
							if !isFuncTable(v) {
								continue
							}
							cl, isLit := as.Rhs[min(i, len(as.Rhs)-1)].(*ast.CompositeLit)
							if !isInit || as.Tok != token.ASSIGN || len(as.Lhs) != len(as.Rhs) || !isLit || len(tables[v]) > 0 {
								bad[v] = true
								continue
							}
							for _, el := range cl.Elts {
								kv, isKV := el.(*ast.KeyValueExpr)
								if !isKV || !fnExpr(kv.Value) || info.Types[kv.Key].Value == nil {
									bad[v] = true
									break
								}
								tables[v] = append(tables[v], entry{kv.Key, kv.Value})
							}
						case *ast.IndexExpr:
							id, isID := lx.X.(*ast.Ident)
							if !isID {
								continue
							}
							v, _ := info.Uses[id].(*types.Var)
							if !isFuncTable(v) {
								continue
							}
							if !isInit || as.Tok != token.ASSIGN || len(as.Lhs) != len(as.Rhs) || !fnExpr(as.Rhs[i]) || info.Types[lx.Index].Value == nil {
								bad[v] = true
								continue
							}
							tables[v] = append(tables[v], entry{lx.Index, as.Rhs[i]})
						}
					}
					return true
				})
			}
		}
	}
	for v := range tables {
		if bad[v] {
			delete(tables, v)
			continue
		}
		if _, known := rec[v.Name()]; known {
			delete(tables, v)
		}
	}
	if len(tables) == 0 {
		return nil
	}
	// readers: every other use is the index expression of the if-init pattern
	type site struct {
		ifs  *ast.IfStmt
		h    *types.Var
		tbl  *types.Var
		key  ast.Expr
		file *ast.File
	}
	var sites []site
	for _, f := range p.Syntax {
		var stack []ast.Node
		ast.Inspect(f, func(n ast.Node) bool {
			if n == nil {
				stack = stack[:len(stack)-1]
				return true
			}
			stack = append(stack, n)
			id, ok := n.(*ast.Ident)
			if !ok {
				return true
			}
			v, _ := info.Uses[id].(*types.Var)
			if v == nil || tables[v] == nil {
				return true
			}
			// inside init: the writes
			for _, nd := range stack {
				if fd, isFD := nd.(*ast.FuncDecl); isFD && fd.Recv == nil && fd.Name.Name == "init" {
					return true
				}
			}
			okUse := false
			if len(stack) >= 4 {
				ix, isIx := stack[len(stack)-2].(*ast.IndexExpr)
				as, isAs := stack[len(stack)-3].(*ast.AssignStmt)
				ifs, isIf := stack[len(stack)-4].(*ast.IfStmt)
				if isIx && isAs && isIf && ix.X == ast.Expr(id) && ifs.Init == ast.Stmt(as) && as.Tok == token.DEFINE && len(as.Rhs) == 1 && as.Rhs[0] == ast.Expr(ix) {
					hid, isH := as.Lhs[0].(*ast.Ident)
					var h *types.Var
					if isH {
						h, _ = info.Defs[hid].(*types.Var)
					}
					condOK := false
					switch {
					case len(as.Lhs) == 2:
						if okID, isOK := as.Lhs[1].(*ast.Ident); isOK {
							if c, isC := ifs.Cond.(*ast.Ident); isC && info.Uses[c] == info.Defs[okID] {
								condOK = true
							}
						}
					case len(as.Lhs) == 1:
						if b, isB := ifs.Cond.(*ast.BinaryExpr); isB && b.Op == token.NEQ {
							if c, isC := b.X.(*ast.Ident); isC && info.Uses[c] == types.Object(h) {
								if nl, isNil := b.Y.(*ast.Ident); isNil && nl.Name == "nil" {
									condOK = true
								}
							}
						}
					}
					if h != nil && condOK {
						okUse = true
						sites = append(sites, site{ifs, h, v, ix.Index, f})
					}
				}
			}
			if !okUse {
				bad[v] = true
			}
			return true
		})
	}
	changed := map[*ast.File]bool{}
	for _, st := range sites {
		if bad[st.tbl] {
			continue
		}
		// h is only called in the body
		onlyCalled := true
		var stack []ast.Node
		ast.Inspect(st.ifs.Body, func(n ast.Node) bool {
			if n == nil {
				stack = stack[:len(stack)-1]
				return true
			}
			stack = append(stack, n)
			if id, ok := n.(*ast.Ident); ok && info.Uses[id] == types.Object(st.h) {
				call, isCall := stack[len(stack)-2].(*ast.CallExpr)
				if !isCall || call.Fun != ast.Expr(id) {
					onlyCalled = false
				}
			}
			return true
		})
		if !onlyCalled {
			continue
		}
		// the body once per entry, h replaced by the entry's function (printed and re-parsed: the copies are independent)
		var bodySrc bytes.Buffer
		if format.Node(&bodySrc, w.Fset, st.ifs.Body) != nil {
			continue
		}
		sw := &ast.SwitchStmt{Tag: st.key, Body: &ast.BlockStmt{}}
		okAll := true
		for _, e := range tables[st.tbl] {
			var fnSrc bytes.Buffer
			if format.Node(&fnSrc, w.Fset, e.fn) != nil {
				okAll = false
				break
			}
			body := st.ifs.Body
			isMethodExpr := false
			var methodSel *ast.Ident
			if se, isSE := ast.Unparen(e.fn).(*ast.SelectorExpr); isSE {
				if sel := info.Selections[se]; sel != nil && sel.Kind() == types.MethodExpr {
					isMethodExpr, methodSel = true, se.Sel
				}
			}
			cp := astutil.Apply(cloneBlock(body), func(cur *astutil.Cursor) bool {
				call, ok := cur.Node().(*ast.CallExpr)
				if !ok {
					return true
				}
				id, ok := call.Fun.(*ast.Ident)
				if !ok || id.Name != st.h.Name() {
					return true
				}
				if isMethodExpr && len(call.Args) >= 1 {
					// (*T).m(recv, args...) is the method call recv.m(args...): written so, it is a static call
					call.Fun = &ast.SelectorExpr{X: call.Args[0], Sel: ast.NewIdent(methodSel.Name)}
					call.Args = call.Args[1:]
				} else {
					call.Fun = e.fn
				}
				return true
			}, nil).(*ast.BlockStmt)
			sw.Body.List = append(sw.Body.List, &ast.CaseClause{List: []ast.Expr{e.key}, Body: cp.List})
		}
		if !okAll {
			continue
		}
		if st.ifs.Else != nil {
			var eb []ast.Stmt
			switch x := st.ifs.Else.(type) {
			case *ast.BlockStmt:
				eb = x.List
			default:
				eb = []ast.Stmt{x}
			}
			sw.Body.List = append(sw.Body.List, &ast.CaseClause{Body: eb})
		}
		// replace the if statement
		replaced := false
		astutil.Apply(st.file, func(cur *astutil.Cursor) bool {
			if cur.Node() == ast.Node(st.ifs) {
				cur.Replace(sw)
				replaced = true
				return false
			}
			return true
		}, nil)
		if replaced {
			changed[st.file] = true
			foldNotes = append(foldNotes, "function tables: the lookup in the package-level table "+relOfPkg(p.Types)+"."+st.tbl.Name()+" (written only by init) is read as the switch over its "+itoa(len(tables[st.tbl]))+" entries")
		}
	}
	if len(changed) == 0 {
		return nil
	}
	out := map[string][]byte{}
	for f := range changed {
		name := w.Fset.Position(f.Pos()).Filename
		if strings.HasSuffix(name, "_test.go") {
			continue
		}
		var buf bytes.Buffer
		if format.Node(&buf, w.Fset, f) == nil {
			out[name] = buf.Bytes()
		}
	}
	return out
}

// cloneBlock: an independent copy of a block statement, through its source text (positions cleared).
func cloneBlock(b *ast.BlockStmt) *ast.BlockStmt {
	var buf bytes.Buffer
	if format.Node(&buf, token.NewFileSet(), b) != nil {
		return &ast.BlockStmt{}
	}
	f, err := parser.ParseFile(token.NewFileSet(), "x.go", "package p\nfunc _() "+buf.String(), 0)
	if err != nil {
		return &ast.BlockStmt{}
	}
	body := f.Decls[0].(*ast.FuncDecl).Body
	clearPos(body)
	return body
}

// clearPos sets every token.Pos field below n to NoPos, so that the printer lays the copy out afresh.
func clearPos(n ast.Node) {
	ast.Inspect(n, func(x ast.Node) bool {
		if x == nil {
			return true
		}
		v := reflect.ValueOf(x)
		if v.Kind() == reflect.Ptr && !v.IsNil() {
			v = v.Elem()
		}
		if v.Kind() != reflect.Struct {
			return true
		}
		for i := 0; i < v.NumField(); i++ {
			f := v.Field(i)
			if f.Type() == reflect.TypeOf(token.NoPos) && f.CanSet() {
				f.SetInt(0)
			}
		}
		return true
	})
}
