package main

import (
	"go/token"

	"golang.org/x/tools/go/ssa"
)

// Provenance of "x is an element of a table of string constants" and "x is a
// prefix of s", used by C16 (slice bounds s[len(x):], loop progress) and C19
// (initialism extraction).

// tableLoad: v is a load of a package-level slice variable.
func tableLoad(v ssa.Value) *ssa.Global {
	if ld, ok := v.(*ssa.UnOp); ok && ld.Op == token.MUL {
		if g, ok := ld.X.(*ssa.Global); ok {
			return g
		}
	}
	return nil
}

// elemOf: x is `*&base[idx]` (or base[idx]); returns base and the index.
func elemOf(x ssa.Value) (base, idx ssa.Value, ok bool) {
	switch e := x.(type) {
	case *ssa.UnOp:
		if e.Op != token.MUL {
			return nil, nil, false
		}
		if ia, ok := e.X.(*ssa.IndexAddr); ok {
			return ia.X, ia.Index, true
		}
	case *ssa.Index:
		return e.X, e.Index, true
	}
	return nil, nil, false
}

// hasPrefixCondAt: a true-edge of strings.HasPrefix(s, x) dominates block b.
func hasPrefixCondAt(b *ssa.BasicBlock, s, x ssa.Value) bool {
	for _, ec := range condsDominating(b) {
		call, ok := ec.Cond.(*ssa.Call)
		if !ok || !ec.Val || calleeFullName(call) != "strings.HasPrefix" {
			continue
		}
		if sameValue(call.Call.Args[0], s) && sameValue(call.Call.Args[1], x) {
			return true
		}
	}
	return false
}

// prefixCollector describes a function `f(s string) []string` that returns
// only elements e of one package-level table for which strings.HasPrefix(s, e)
// held (in any order: sorting the collected slice is allowed).
type prefixCollector struct {
	Table   *ssa.Global
	Param   int
	Sorted  *ssa.Call     // the sort.Slice/SliceStable call on the collected slice, if any
	Less    *ssa.Function // its comparator
	Appends int
}

var prefixCollectorCache = map[*ssa.Function]*prefixCollector{}

func prefixCollectorOf(f *ssa.Function) *prefixCollector {
	f = origin(f)
	if pc, ok := prefixCollectorCache[f]; ok {
		return pc
	}
	prefixCollectorCache[f] = nil
	if len(f.Blocks) == 0 || len(f.Params) == 0 {
		return nil
	}
	rets := returnsOf(f)
	if len(rets) != 1 || len(rets[0].Results) != 1 {
		return nil
	}
	ld, ok := rets[0].Results[0].(*ssa.UnOp)
	if !ok || ld.Op != token.MUL {
		return nil
	}
	acc, ok := ld.X.(*ssa.Alloc)
	if !ok {
		return nil
	}
	pc := &prefixCollector{Param: -1}
	for _, r := range *acc.Referrers() {
		switch u := r.(type) {
		case *ssa.UnOp: // load
		case *ssa.Store:
			if u.Addr != ssa.Value(acc) {
				return nil
			}
			// empty literal
			if sl, ok := u.Val.(*ssa.Slice); ok {
				if a, ok := sl.X.(*ssa.Alloc); ok && arrayLenOfPtr(a.Type()) == 0 {
					continue
				}
				return nil
			}
			call, ok := u.Val.(*ssa.Call)
			if !ok || calleeFullName(call) != "builtin.append" {
				return nil
			}
			if !isLoadOf(call.Call.Args[0], acc) {
				return nil
			}
			els, ok := sliceElems(call.Call.Args[1], 0)
			if !ok || len(els) != 1 {
				return nil
			}
			e := els[0].V
			base, _, ok := elemOf(e)
			if !ok {
				return nil
			}
			g := tableLoad(base)
			if g == nil || (pc.Table != nil && pc.Table != g) {
				return nil
			}
			pc.Table = g
			found := -1
			for pi, p := range f.Params {
				if hasPrefixCondAt(u.Block(), p, e) {
					found = pi
				}
			}
			if found < 0 || (pc.Param >= 0 && pc.Param != found) {
				return nil
			}
			pc.Param = found
			pc.Appends++
		case *ssa.MakeClosure:
			// the comparator of a sort call on the same slice
			cf, _ := u.Fn.(*ssa.Function)
			if cf == nil || storesThroughFreeVars(cf) {
				return nil
			}
			okUse := false
			for _, rr := range *u.Referrers() {
				call, ok := rr.(*ssa.Call)
				if !ok {
					return nil
				}
				n := calleeFullName(call)
				if (n != "sort.Slice" && n != "sort.SliceStable") || call.Call.Args[1] != ssa.Value(u) {
					return nil
				}
				mi, ok := call.Call.Args[0].(*ssa.MakeInterface)
				if !ok || !isLoadOf(mi.X, acc) {
					return nil
				}
				pc.Sorted, pc.Less = call, cf
				okUse = true
			}
			if !okUse {
				return nil
			}
		default:
			return nil
		}
	}
	if pc.Table == nil || pc.Param < 0 || pc.Appends == 0 {
		return nil
	}
	prefixCollectorCache[f] = pc
	return pc
}

func arrayLenOfPtr(t interface{ String() string }) int {
	s := t.String()
	// *[N]T
	if len(s) > 2 && s[0] == '*' && s[1] == '[' {
		n := 0
		for i := 2; i < len(s) && s[i] >= '0' && s[i] <= '9'; i++ {
			n = n*10 + int(s[i]-'0')
		}
		return n
	}
	return -1
}

func isLoadOf(v ssa.Value, a *ssa.Alloc) bool {
	ld, ok := v.(*ssa.UnOp)
	return ok && ld.Op == token.MUL && ld.X == ssa.Value(a)
}

func storesThroughFreeVars(f *ssa.Function) bool {
	for _, i := range allInstrs(f) {
		if st, ok := i.(*ssa.Store); ok {
			if _, ok := st.Addr.(*ssa.FreeVar); ok {
				return true
			}
		}
	}
	return false
}

// lessByLenDesc: the comparator returns len(x[i]) > len(x[j]) (or the mirrored
// form) for its two parameters i, j over the captured slice.
func lessByLenDesc(less *ssa.Function) bool {
	rets := returnsOf(less)
	if len(rets) != 1 || len(less.Params) != 2 {
		return false
	}
	b, ok := rets[0].Results[0].(*ssa.BinOp)
	if !ok {
		return false
	}
	idxOfLen := func(v ssa.Value) ssa.Value {
		call, ok := v.(*ssa.Call)
		if !ok || calleeFullName(call) != "builtin.len" {
			return nil
		}
		base, idx, ok := elemOf(call.Call.Args[0])
		if !ok {
			return nil
		}
		if ld, ok := base.(*ssa.UnOp); !ok || ld.Op != token.MUL {
			return nil
		} else if _, ok := ld.X.(*ssa.FreeVar); !ok {
			return nil
		}
		return idx
	}
	xi, yi := idxOfLen(b.X), idxOfLen(b.Y)
	if xi == nil || yi == nil {
		return false
	}
	i, j := ssa.Value(less.Params[0]), ssa.Value(less.Params[1])
	switch b.Op {
	case token.GTR:
		return xi == i && yi == j
	case token.LSS:
		return xi == j && yi == i
	}
	return false
}

// prefixOrigin classifies x, used as `s[len(x):]` or `append(words, lower(x))`:
//
//	"collector": x is an element of the result of a prefix collector applied to s
//	"table":     x is an element of a package-level table directly
//
// and returns the table, and for "collector" the collector and the index used.
type prefixOrigin struct {
	Kind      string
	Table     *ssa.Global
	Collector *prefixCollector
	Index     ssa.Value
	Call      *ssa.Call
	Phi       *ssa.Phi // set when the collector result is loop-carried: Call is then one of its incoming calls
}

func prefixOriginOf(x ssa.Value) *prefixOrigin {
	base, idx, ok := elemOf(x)
	if !ok {
		return nil
	}
	if g := tableLoad(base); g != nil {
		return &prefixOrigin{Kind: "table", Table: g, Index: idx}
	}
	if call, ok := base.(*ssa.Call); ok {
		if callee := staticCallee(call); callee != nil {
			if pc := prefixCollectorOf(callee); pc != nil {
				return &prefixOrigin{Kind: "collector", Table: pc.Table, Collector: pc, Index: idx, Call: call}
			}
		}
	}
	// a loop-carried result (`for p := f(s); len(p) > 0; p = f(s)`): every incoming value is a call of one collector
	if ph, ok := base.(*ssa.Phi); ok {
		var po *prefixOrigin
		for _, e := range ph.Edges {
			call, ok := e.(*ssa.Call)
			if !ok {
				return nil
			}
			callee := staticCallee(call)
			if callee == nil {
				return nil
			}
			pc := prefixCollectorOf(callee)
			if pc == nil || (po != nil && po.Collector != pc) {
				return nil
			}
			po = &prefixOrigin{Kind: "collector", Table: pc.Table, Collector: pc, Index: idx, Call: call, Phi: ph}
		}
		return po
	}
	return nil
}

// isPrefixOf: x is provably a prefix of s at instruction `at`.
func isPrefixOf(x, s ssa.Value, at ssa.Instruction) bool {
	if hasPrefixCondAt(at.Block(), s, x) {
		return true
	}
	if po := prefixOriginOf(x); po != nil && po.Kind == "collector" {
		if po.Phi == nil {
			return sameValue(po.Call.Call.Args[po.Collector.Param], s)
		}
		// loop-carried: s must be a phi of the same block whose k-th incoming value is the argument of the k-th incoming call
		sp, ok := s.(*ssa.Phi)
		if !ok || sp.Block() != po.Phi.Block() {
			return false
		}
		for k, e := range po.Phi.Edges {
			call := e.(*ssa.Call)
			if !sameValue(call.Call.Args[po.Collector.Param], sp.Edges[k]) {
				return false
			}
		}
		return true
	}
	return false
}

// tableConstants returns the string constants a package-level slice is
// initialised with (nil when any element is not a constant or the variable is
// assigned anywhere else).
func (w *World) tableConstants(g *ssa.Global) []string {
	initF := g.Pkg.Func("init")
	if initF == nil {
		return nil
	}
	var out []string
	for _, f := range w.Funcs {
		if f == initF {
			continue
		}
		for _, i := range allInstrs(f) {
			if st, ok := i.(*ssa.Store); ok && st.Addr == ssa.Value(g) {
				return nil
			}
		}
	}
	stores := 0
	for _, i := range allInstrs(initF) {
		st, ok := i.(*ssa.Store)
		if !ok || st.Addr != ssa.Value(g) {
			continue
		}
		stores++
		els, ok := sliceElems(st.Val, 0)
		if !ok {
			return nil
		}
		for _, e := range els {
			s, ok := constString(e.V)
			if !ok {
				return nil
			}
			out = append(out, s)
		}
	}
	if stores != 1 {
		return nil
	}
	return out
}
