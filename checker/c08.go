package main

import (
	"go/token"
	"go/types"
	"strconv"
	"strings"

	"golang.org/x/tools/go/ssa"
)

func init() {
	props["C08"] = &propMeta{
		run: runC08,
		explanation: "Decides a set of structural conditions, each necessary for 'no deadlock, crash or leak; clean shutdown' and each holding for all interleavings by construction: the monitor never blocks on the callback queue; " +
			"every channel operation reachable from an API entry point is bounded by that call's own context (or is non-blocking); a channel that is closed is never sent to by a goroutine other than the closer's " +
			"(so late API calls cannot hit 'send on closed channel'); the sealed event type switches are exhaustive (their panic defaults are dead); no make() size can be negative; reply channels have room for their single answer; " +
			"every blocking operation of the two goroutine roots has an exit (context arm, or a shutdown channel closed by a deferred close in the monitor); monitor and callback goroutine take no locks and call no Source methods; " +
			"every Lock is paired with a deferred Unlock. This is not a proof of deadlock freedom: no scheduler model is explored (that would be a different technique family).",
		assumptions: []string{"user callbacks may block (documented): only the callback goroutine waits for them", "fsnotify and the Go runtime are trusted"},
	}
}

func runC08(c *Ctx) {
	c.rule("monitor-never-blocks-on-callbacks", "every send on the callback queue from a function reachable from the monitor goroutine is inside a non-blocking select (drop instead of deadlock)", 1)
	c.rule("api-waits-honour-ctx", "every channel operation in root-package functions that run on caller goroutines (not the monitor / callback roots) is in a non-blocking select or in a select with <-ctx.Done() of that function's own context parameter", 6)
	c.rule("close-ownership", "a struct-field channel that is closed is never sent to from functions that can run on another goroutine than the closer (no 'send on closed channel' for late API calls)", 2)
	c.rule("sealed-switch", "each type implementing a sealed event interface has a case in the type switch over it (the panic default is unreachable)", 2)
	c.rule("make-nonneg", "every non-constant make() length/capacity in the root package is built from len/cap terms without subtraction", 2)
	c.rule("reply-capacity", "channels carrying a single reply (value-update reply, verification-enable reply) are made with constant capacity >= 1 and get exactly one answer per request on every path", 3)
	c.rule("goroutine-exit", "every blocking channel operation of the monitor has a <-ctx.Done() arm that returns; every blocking operation of the callback loop includes a receive on a shutdown channel that the monitor closes in a deferred call at its entry", 3)
	c.rule("shutdown-checked-first", "a caller-goroutine function that blocks on a send to the callback queue first polls the monitor's shutdown channel without blocking and fails when it is closed (a select between a closed channel and a send on a buffered queue picks at random, so a call issued after shutdown would report success half the time)", 1)
	c.rule("unregister-handshake", "(shared with C06) the unregister arm rebuilds the handle list without mutating it in place and closes the done channel on every path (a second unregister of the same handle must be answered too), and the API returns true only after that acknowledgement", 4)
	c.rule("monitor-ops-bounded", "in the functions the monitor goroutine calls, every channel operation is non-blocking except the single answer on a roomy reply channel", 2)
	c.rule("asserts-guarded", "on the background goroutines' call paths every unchecked type assertion asserts the compose result under a nil compose error (at every call site for a helper's parameter)", 1)
	c.rule("exit-on-fresh-scan", "the monitor leaves its loop on a Done event only on a scan of the slots' watching bits made for that event, never on state carried across events", 1)
	c.rule("cbloop-drains", "the callback loop's exit is the drained-queue exit (non-blocking receive found nothing), so it neither leaks nor drops queued unregister acknowledgements while alive", 1)
	c.rule("goroutines-lock-free", "functions reachable from the monitor and callback roots acquire no mutex and invoke no Source/Watcher/Decoder method", 2)
	c.rule("lock-pairing", "every Mutex.Lock in the repository is immediately followed by a deferred Unlock of the same mutex", 4)
	c.rule("blank-own-ctx", "Blank.SetSource and Blank.Done bound their blocking calls by the context passed to them", 2)

	k := loadCore(c)
	if !k.ok {
		return
	}
	w := c.W
	c.analysed(relName(k.monitor))
	c.analysed(relName(k.cbLoop))
	monReach := k.cg.reachableFrom(k.monitor, false)
	cbReach := k.cg.reachableFrom(k.cbLoop, false)

	// ---- monitor-never-blocks-on-callbacks -----------------------------------
	n := 0
	for f := range monReach {
		if w.pkgOfFn(f) != w.pkg("") {
			continue
		}
		for _, op := range chanOps(f) {
			if op.Send && isEventChan(op.Chan.Type()) {
				n++
				c.check(op.InSelect && !op.Blocking, "monitor-never-blocks-on-callbacks", relName(f)+"#send", op.Instr.Pos(),
					"non-blocking send on the callback queue", "the monitor can block sending on the callback queue (a blocked callback would stop configs from being installed)")
			}
		}
	}
	if n == 0 {
		c.bad("monitor-never-blocks-on-callbacks", "monitor", k.monitor.Pos(), "the monitor never submits callback events")
	}

	// ---- api-waits-honour-ctx ------------------------------------------------------
	for _, f := range w.funcsIn("") {
		if monReach[origin(f)] && !apiReaches(k, f) || cbReach[origin(f)] && origin(f) != k.cbLoop && !apiReaches(k, f) {
			continue
		}
		if origin(f) == k.monitor || origin(f) == k.cbLoop {
			continue
		}
		ops := chanOps(f)
		if len(ops) == 0 {
			continue
		}
		c.analysed(relName(f))
		sels := map[*ssa.Select]bool{}
		for _, op := range ops {
			if op.Sel != nil {
				if sels[op.Sel] {
					continue
				}
				sels[op.Sel] = true
				if !op.Sel.Blocking {
					c.ok("api-waits-honour-ctx", relName(f)+"#select", op.Sel.Pos(), "non-blocking select")
					continue
				}
				has := false
				for _, st := range op.Sel.States {
					if st.Dir == types.RecvOnly {
						if cv, ok := isCtxDone(st.Chan); ok {
							if p, ok := cv.(*ssa.Parameter); ok && p.Parent() == f {
								has = true
							}
						}
					}
				}
				c.check(has, "api-waits-honour-ctx", relName(f)+"#select", op.Sel.Pos(),
					"blocking select contains <-ctx.Done() of the call's own context", "blocking select without the call's own <-ctx.Done(): the call can block past its context")
				continue
			}
			// bare operation: allowed only on the monitor-owned side
			if monReach[origin(f)] && !apiReaches(k, f) {
				continue
			}
			c.bad("api-waits-honour-ctx", relName(f)+"#bare-op", op.Instr.Pos(), "bare blocking channel operation on a caller goroutine")
		}
	}

	// ---- close-ownership ------------------------------------------------------------------
	c08CloseOwnership(c, k)

	// ---- sealed-switch -----------------------------------------------------------------------
	c08Sealed(c, k, "userCallbackEvent", k.cbLoop)
	c08Sealed(c, k, "watchStatusUpdate", k.monitor)

	// ---- make-nonneg ----------------------------------------------------------------------------
	for _, f := range w.funcsIn("") {
		for _, i := range allInstrs(f) {
			var sizes []ssa.Value
			switch x := i.(type) {
			case *ssa.MakeSlice:
				sizes = []ssa.Value{x.Len, x.Cap}
			case *ssa.MakeChan:
				sizes = []ssa.Value{x.Size}
			case *ssa.MakeMap:
				if x.Reserve != nil {
					sizes = []ssa.Value{x.Reserve}
				}
			default:
				continue
			}
			for _, s := range sizes {
				if _, isC := constInt(s); isC {
					continue
				}
				bad := c08HasSub(s, 0)
				c.check(!bad, "make-nonneg", relName(f)+"#make", i.Pos(),
					"size "+canon(s)+" is a sum of len/cap terms", "size "+canon(s)+" involves a subtraction and can be negative (runtime panic)")
			}
		}
	}

	// ---- reply-capacity --------------------------------------------------------------------------
	c08Replies(c, k)

	// ---- goroutine-exit ----------------------------------------------------------------------------
	c08Exit(c, k)
	k.checkCbLoopDrains("cbloop-drains")

	// ---- goroutines-lock-free ------------------------------------------------------------------------
	for _, root := range []*ssa.Function{k.monitor, k.cbLoop} {
		bad := ""
		for f := range k.cg.reachableFrom(root, false) {
			for _, i := range allInstrs(f) {
				ci, ok := i.(ssa.CallInstruction)
				if !ok {
					continue
				}
				nme := calleeFullName(ci)
				if strings.HasPrefix(nme, "(*sync.Mutex).") || strings.HasPrefix(nme, "(*sync.RWMutex).") {
					bad = relName(f) + " calls " + nme
				}
				if strings.HasPrefix(nme, "("+modPath+".Source).") || strings.HasPrefix(nme, "("+modPath+".Watcher).") || strings.HasPrefix(nme, "("+modPath+".Decoder).") {
					bad = relName(f) + " invokes " + nme
				}
			}
		}
		c.check(bad == "", "goroutines-lock-free", relName(root), root.Pos(), "no mutex and no Source/Watcher/Decoder call reachable from this goroutine root", bad)
	}

	// ---- lock-pairing ------------------------------------------------------------------------------------
	for _, f := range w.Funcs {
		for _, i := range allInstrs(f) {
			ci, ok := i.(*ssa.Call)
			if !ok {
				continue
			}
			nme := calleeFullName(ci)
			if nme != "(*sync.Mutex).Lock" && nme != "(*sync.RWMutex).Lock" && nme != "(*sync.RWMutex).RLock" {
				continue
			}
			want := strings.Replace(strings.Replace(nme, "RLock", "RUnlock", 1), ").Lock", ").Unlock", 1)
			// later in the same block (before any branch): defer Unlock on the same receiver
			okp := false
			for _, j := range ci.Block().Instrs[instrIndex(ci)+1:] {
				if d, ok := j.(*ssa.Defer); ok && calleeFullName(d) == want && sameValue(d.Call.Args[0], ci.Call.Args[0]) {
					okp = true
					break
				}
				if cj, isCall := j.(*ssa.Call); isCall {
					// ... or the plain Unlock itself, with only loads and stores since the Lock (`mu.Lock(); x := b.f; mu.Unlock()`)
					if calleeFullName(cj) == want && sameValue(cj.Call.Args[0], ci.Call.Args[0]) {
						okp = true
					}
					break // something else runs before the unlock is registered
				}
			}
			if !okp {
				okp = unlockedOnEveryPath(ci, want)
			}
			c.check(okp, "lock-pairing", relName(f)+"#lock", ci.Pos(), "Lock followed (same block, nothing called in between) by defer Unlock of the same mutex, or by the Unlock itself, or every path from the Lock passes an Unlock of the same mutex before it returns, with no interface or function-value call while it is held", "Lock without a directly following (deferred) Unlock of the same mutex, and some path from it returns (or calls foreign code) before the mutex is unlocked")
		}
	}

	// ---- blank-own-ctx ---------------------------------------------------------------------------------------
	for _, mn := range []string{"Blank.SetSource", "Blank.Done"} {
		f := w.fn("sourcewrap", mn)
		if !c.need(f != nil, "sourcewrap."+mn) {
			continue
		}
		c.analysed(relName(f))
		okc, nn := true, 0
		for _, i := range allInstrs(f) {
			ci, ok := i.(*ssa.Call)
			if !ok || !ci.Call.IsInvoke() {
				continue
			}
			nme := calleeFullName(ci)
			if !strings.HasPrefix(nme, "("+modPath+".WatchArgs).") && nme != "("+modPath+".Source).Value" {
				continue
			}
			nn++
			if p, ok := ci.Call.Args[0].(*ssa.Parameter); !ok || p.Parent() != f {
				okc = false
				c.bad("blank-own-ctx", relName(f)+"#ctx", ci.Pos(), "%s is not bounded by the context passed to %s", nme, mn)
			}
		}
		if okc {
			c.check(nn > 0, "blank-own-ctx", relName(f)+"#ctx", f.Pos(), "blocking calls are bounded by the method's own context argument", "no WatchArgs/Source call found")
		}
	}
	c08ShutdownFirst(c, k)
	if ua := eventArm(k.cbLoop, ".userCallbackUnregister"); ua != nil {
		c06Unregister(c, k, ua)
	} else {
		c.bad("unregister-handshake", relName(k.cbLoop), k.cbLoop.Pos(), "no unregister arm in the callback loop")
	}
	k.checkMonitorOpsBounded("monitor-ops-bounded")
	k.checkAssertsGuarded("asserts-guarded")
	k.checkExitOnFreshScan("exit-on-fresh-scan")
}

// apiReaches: f is reachable (synchronously) from an exported function/method.
func apiReaches(k *core, f *ssa.Function) bool {
	_, others := k.cg.goroutineRootsOf(f)
	return len(others) > 0
}

func c08HasSub(v ssa.Value, d int) bool {
	if d > 8 {
		return true
	}
	switch x := v.(type) {
	case *ssa.BinOp:
		if x.Op == token.SUB {
			return true
		}
		return c08HasSub(x.X, d+1) || c08HasSub(x.Y, d+1)
	case *ssa.Convert:
		return c08HasSub(x.X, d+1)
	case *ssa.Call:
		n := calleeFullName(x)
		if n == "builtin.len" || n == "builtin.cap" || n == "(reflect.Value).Len" || n == "(reflect.Value).Cap" || n == "(reflect.Type).NumField" || n == "(reflect.Value).NumField" {
			return false
		}
		return true
	case *ssa.Const:
		n, ok := constInt(x)
		return !ok || n < 0
	case *ssa.Phi:
		for _, e := range x.Edges {
			if e != v && c08HasSub(e, d+1) {
				return true
			}
		}
		return false
	}
	return true
}

func c08CloseOwnership(c *Ctx, k *core) {
	w := c.W
	n := 0
	for _, f := range w.funcsIn("") {
		for _, i := range allInstrs(f) {
			ci, ok := i.(ssa.CallInstruction)
			if !ok || calleeFullName(ci) != "builtin.close" {
				continue
			}
			arg := stripConv(ci.Common().Args[0])
			ld, ok := arg.(*ssa.UnOp)
			if !ok || ld.Op != token.MUL {
				// closing a local channel: owner is this function
				c.okTrivial("close-ownership", relName(f)+"#close-local", ci.Pos(), "closes a local channel")
				n++
				continue
			}
			fa, ok := ld.X.(*ssa.FieldAddr)
			if !ok {
				continue
			}
			fld := fieldVar(fa.X.Type(), fa.Field)
			n++
			closerRoots, _ := k.cg.goroutineRootsOf(f)
			// all senders on this field anywhere in the repo
			bad := ""
			for _, g := range w.Funcs {
				for _, op := range chanOps(g) {
					if !op.Send {
						continue
					}
					if _, isF := isFieldLoad(stripConv(op.Chan), fld); !isF {
						continue
					}
					roots, others := k.cg.goroutineRootsOf(g)
					same := len(others) == 0 && len(roots) > 0
					for r := range roots {
						if _, ok := closerRoots[r]; !ok {
							same = false
						}
					}
					if !same {
						bad = relName(g) + " sends on " + fld.Name() + " at " + w.pos(op.Instr.Pos()) + " from another goroutine than the closer"
					}
				}
			}
			c.check(bad == "", "close-ownership", fld.Name(), ci.Pos(),
				"field "+fld.Name()+" is closed here; nobody on another goroutine sends on it", bad)
		}
	}
	// closing through a field that aliases a sent-to field: the callback queue must never be closed
	for _, f := range w.funcsIn("") {
		for _, i := range allInstrs(f) {
			if ci, ok := i.(ssa.CallInstruction); ok && calleeFullName(ci) == "builtin.close" && isEventChan(ci.Common().Args[0].Type()) {
				c.bad("close-ownership", "callback-queue", ci.Pos(), "the callback queue is closed although API goroutines send on it")
			}
		}
	}
	_ = n
}

func c08Sealed(c *Ctx, k *core, ifaceName string, f *ssa.Function) {
	w := c.W
	iface := w.named("", ifaceName)
	if !c.need(iface != nil, "dials."+ifaceName) {
		return
	}
	it := iface.Underlying().(*types.Interface)
	impls := map[string]bool{}
	sc := w.pkg("").Types.Scope()
	for _, nme := range sc.Names() {
		tn, ok := sc.Lookup(nme).(*types.TypeName)
		if !ok || tn.Name() == ifaceName {
			continue
		}
		t := tn.Type()
		if _, isIface := t.Underlying().(*types.Interface); isIface {
			continue
		}
		// generic types: instantiate check via method set lookup by name
		has := func(t types.Type) bool {
			ms := types.NewMethodSet(t)
			for i := 0; i < it.NumMethods(); i++ {
				if ms.Lookup(w.pkg("").Types, it.Method(i).Name()) == nil {
					return false
				}
			}
			return it.NumMethods() > 0
		}
		if has(t) || has(types.NewPointer(t)) {
			impls["."+tname(tn)] = true
		}
	}
	cases := map[string]bool{}
	for _, i := range allInstrs(f) {
		if ta, ok := i.(*ssa.TypeAssert); ok && ta.CommaOk {
			if n := namedTypeName(ta.X.Type()); n == "."+ifaceName {
				cases[namedTypeName(ta.AssertedType)] = true
			}
		}
	}
	missing := []string{}
	for t := range impls {
		if !cases[t] {
			missing = append(missing, t)
		}
	}
	c.check(len(missing) == 0 && len(impls) >= 2, "sealed-switch", ifaceName, f.Pos(),
		"all "+itoa(len(impls))+" implementations of "+ifaceName+" have a case in "+relName(f), "implementations without a case (the default panics): "+strings.Join(missing, ","))
}

func itoa(n int) string { return strconv.Itoa(n) }

func c08Replies(c *Ctx, k *core) {
	w := c.W
	c08ReplyChannels(c)
	// exactly one answer per enable request on every path of the monitor's control arm
	isRespSend := func(i ssa.Instruction) bool {
		s, ok := i.(*ssa.Send)
		if !ok {
			return false
		}
		ch, ok := s.Chan.Type().Underlying().(*types.Chan)
		return ok && namedTypeName(ch.Elem()) == ".verifyEnableResp"
	}
	// helper functions that answer exactly once on every path
	answers := func(f *ssa.Function) bool {
		if hit := reachAvoid(f, nil, isReturn, isRespSend); hit != nil {
			return false
		}
		for _, i := range allInstrs(f) {
			if isRespSend(i) && reachAvoid(f, i, isRespSend, nil) != nil {
				return false
			}
		}
		return true
	}
	isAnswer := func(i ssa.Instruction) bool {
		if isRespSend(i) {
			return true
		}
		if ci, ok := i.(*ssa.Call); ok {
			if callee := staticCallee(ci); callee != nil && w.inRepo(callee) {
				hasSend := false
				for _, j := range allInstrs(callee) {
					if isRespSend(j) {
						hasSend = true
					}
				}
				return hasSend && answers(callee)
			}
		}
		return false
	}
	m := k.monitor
	// the control arm: the select state receiving a verifyEnable
	for _, i := range allInstrs(m) {
		sel, ok := i.(*ssa.Select)
		if !ok {
			continue
		}
		for si, st := range sel.States {
			ch, ok := st.Chan.Type().Underlying().(*types.Chan)
			if !ok || st.Dir != types.RecvOnly || namedTypeName(ch.Elem()) != ".verifyEnable" {
				continue
			}
			// arm entry: block dominated by index == si
			var entry *ssa.BasicBlock
			for _, b := range m.Blocks {
				for _, ec := range condsDominating(b) {
					if bo, ok := ec.Cond.(*ssa.BinOp); ok && ec.Val && bo.Op == token.EQL {
						if ex, ok := bo.X.(*ssa.Extract); ok && ex.Tuple == ssa.Value(sel) && ex.Index == 0 {
							if idx, ok := constInt(bo.Y); ok && int(idx) == si && ec.If.Block().Succs[0] == b {
								entry = b
							}
						}
					}
				}
			}
			if entry == nil {
				c.undecided("reply-capacity", relName(m)+"#enable-arm", sel.Pos(), "cannot locate the control arm")
				continue
			}
			leaves := func(j ssa.Instruction) bool {
				return !(entry == j.Block() || entry.Dominates(j.Block())) || isReturn(j)
			}
			hit := reachAvoidFromBlock(entry, leaves, isAnswer)
			twice := false
			for _, j := range allInstrs(m) {
				if (entry == j.Block() || entry.Dominates(j.Block())) && isAnswer(j) {
					if reachAvoid(m, j, func(x ssa.Instruction) bool {
						return (entry == x.Block() || entry.Dominates(x.Block())) && isAnswer(x)
					}, func(x ssa.Instruction) bool { return !(entry == x.Block() || entry.Dominates(x.Block())) }) != nil {
						twice = true
					}
				}
			}
			c.check(hit == nil && !twice, "reply-capacity", relName(m)+"#enable-arm", sel.Pos(),
				"every path through the enable arm answers the request exactly once", "a path through the enable arm answers the request zero or two times")
		}
	}
}

func c08Exit(c *Ctx, k *core) {
	w := c.W
	m := k.monitor
	// monitor: every blocking op is a select with own ctx.Done arm leading to return
	nSel := 0
	for _, op := range chanOps(m) {
		if op.Sel == nil {
			if isErrorChan(op.Chan.Type()) || func() bool {
				ch, ok := op.Chan.Type().Underlying().(*types.Chan)
				return ok && namedTypeName(ch.Elem()) == ".verifyEnableResp"
			}() {
				continue // reply channels with room (reply-capacity)
			}
			c.bad("goroutine-exit", relName(m)+"#bare-op", op.Instr.Pos(), "bare blocking channel operation in the monitor")
			continue
		}
		if op.StateIdx != 0 || !op.Sel.Blocking {
			continue
		}
		nSel++
		ctxIdx := -1
		for si, st := range op.Sel.States {
			if st.Dir == types.RecvOnly {
				if cv, ok := isCtxDone(st.Chan); ok {
					if p, ok := cv.(*ssa.Parameter); ok && p.Parent() == m {
						ctxIdx = si
					}
				}
			}
		}
		okRet := false
		if ctxIdx >= 0 {
			for _, b := range m.Blocks {
				for _, ec := range condsDominating(b) {
					if bo, ok := ec.Cond.(*ssa.BinOp); ok && ec.Val && bo.Op == token.EQL {
						if ex, ok := bo.X.(*ssa.Extract); ok && ex.Tuple == ssa.Value(op.Sel) && ex.Index == 0 {
							if idx, ok := constInt(bo.Y); ok && int(idx) == ctxIdx && ec.If.Block().Succs[0] == b {
								// from b every path returns without another blocking select
								if reachAvoidFromBlock(b, func(i ssa.Instruction) bool { _, ok := i.(*ssa.Select); return ok }, isReturn) == nil {
									okRet = true
								}
							}
						}
					}
				}
			}
		}
		c.check(okRet, "goroutine-exit", relName(m)+"#select", op.Sel.Pos(), "the monitor's blocking select has a <-ctx.Done() arm that returns", "the monitor's blocking select has no returning <-ctx.Done() arm")
	}
	if nSel == 0 {
		c.bad("goroutine-exit", relName(m)+"#select", m.Pos(), "no blocking select in the monitor")
	}
	// shutdown channel: monitor defers close(d.F) in its entry block
	var shutdownFld *types.Var
	for _, i := range m.Blocks[0].Instrs {
		if d, ok := i.(*ssa.Defer); ok && calleeFullName(d) == "builtin.close" {
			if ld, ok := stripConv(d.Call.Args[0]).(*ssa.UnOp); ok && ld.Op == token.MUL {
				if fa, ok := ld.X.(*ssa.FieldAddr); ok {
					shutdownFld = fieldVar(fa.X.Type(), fa.Field)
				}
			}
		}
	}
	if shutdownFld == nil {
		c.bad("goroutine-exit", relName(m)+"#deferred-close", m.Pos(), "the monitor does not defer closing a shutdown channel at its entry")
		return
	}
	c.ok("goroutine-exit", relName(m)+"#deferred-close", m.Pos(), "the monitor defers close(%s) at entry: it is closed on every exit, including panics", shutdownFld.Name())
	// Config stores the same channel into Dials.<F> and into a callbackMgr field G
	var cbFld *types.Var
	var made ssa.Value
	for _, st := range w.storesToField(shutdownFld) {
		if origin(st.Parent()) == k.config {
			made = stripConv(st.Val)
		}
	}
	for _, i := range allInstrs(k.config) {
		al, ok := i.(*ssa.Alloc)
		if !ok || litTypeName(al) != ".callbackMgr" {
			continue
		}
		for _, r := range *al.Referrers() {
			fa, ok := r.(*ssa.FieldAddr)
			if !ok {
				continue
			}
			for _, rr := range *fa.Referrers() {
				if s, ok := rr.(*ssa.Store); ok && s.Addr == fa {
					v := stripConv(s.Val)
					_, fromFld := isFieldLoad(v, shutdownFld)
					if (made != nil && v == made) || fromFld {
						cbFld = fieldVar(fa.X.Type(), fa.Field)
					}
				}
			}
		}
	}
	if cbFld == nil {
		c.bad("goroutine-exit", relName(k.cbLoop)+"#shutdown-link", k.config.Pos(), "Config does not hand the monitor's shutdown channel to the callback loop")
		return
	}
	f := k.cbLoop
	for _, i := range allInstrs(f) {
		sel, ok := i.(*ssa.Select)
		if ok && sel.Blocking {
			has := false
			for _, st := range sel.States {
				if st.Dir == types.RecvOnly {
					if _, isF := isFieldLoad(stripConv(st.Chan), cbFld); isF {
						has = true
					}
				}
			}
			c.check(has, "goroutine-exit", relName(f)+"#select", sel.Pos(),
				"blocking select of the callback loop includes the shutdown channel closed by the monitor", "a blocking select of the callback loop does not include the monitor's shutdown channel: the goroutine can park forever after shutdown")
		}
		if u, ok := i.(*ssa.UnOp); ok && u.Op == token.ARROW {
			c.bad("goroutine-exit", relName(f)+"#bare-recv", u.Pos(), "bare receive in the callback loop (needs the queue to be closed to exit)")
		}
	}
}

// c08ShutdownFirst: blocking sends on the callback queue from caller goroutines
// are preceded by a non-blocking poll of the monitor's shutdown channel.
func c08ShutdownFirst(c *Ctx, k *core) {
	w := c.W
	fMonDone := w.field("", "Dials", "monDone")
	if !c.need(fMonDone != nil, "dials.Dials.monDone") {
		return
	}
	n := 0
	for _, f := range w.funcsIn("") {
		for _, op := range chanOps(f) {
			if !op.Send || !op.Blocking || !chanIsField(op.Chan, k.fCbch) || op.Sel == nil {
				continue
			}
			// only caller-goroutine functions (the monitor must not block on this queue at all: other rule)
			n++
			c.analysed(relName(f))
			okP := false
			for _, p := range chanOps(f) {
				if p.Sel == nil || p.Sel.Blocking || p.Send || !chanIsField(p.Chan, fMonDone) || !domI(p.Sel, op.Sel) {
					continue
				}
				// the ready arm returns a failure (false)
				arm := selectArm(p.Sel, p.StateIdx)
				if arm == nil {
					continue
				}
				for _, i := range arm.Instrs {
					if r, ok := i.(*ssa.Return); ok && len(r.Results) == 1 {
						if cst, ok := r.Results[0].(*ssa.Const); ok && cst.Value != nil && cst.Value.ExactString() == "false" {
							okP = true
						}
					}
				}
				// ... or (the poll folded back in from a predicate helper) the blocking select cannot follow the ready
				// arm - with the joined flag taken as on that edge - and every return that can is a failure
				if !okP && len(arm.Preds) == 1 {
					reachesSel := reachesPruned(arm.Preds[0], arm, func(i ssa.Instruction) bool { return i == ssa.Instruction(op.Sel) })
					rets := returnsReachableFrom(arm.Preds[0], arm)
					allFalse := len(rets) > 0
					for _, r := range rets {
						rv := retVals(r)
						cst, ok := rv[0].(*ssa.Const)
						if len(rv) != 1 || !ok || cst.Value == nil || cst.Value.ExactString() != "false" {
							allFalse = false
						}
					}
					if !reachesSel && allFalse {
						okP = true
					}
				}
			}
			c.check(okP, "shutdown-checked-first", relName(f)+"#cbch-send", op.Sel.Pos(), "a non-blocking poll of monDone that returns false dominates the blocking select with the queue send", "the blocking select offers the send on the (buffered) callback queue together with the shutdown channel without polling the shutdown channel first: after the monitor has exited both are ready and the call reports success at random")
		}
	}
	if n == 0 {
		c.bad("shutdown-checked-first", "cbch", 0, "no blocking send on the callback queue found in a select")
	}
}

// c08ReplyChannels: every request that carries a reply channel (enable requests, blocking reports) makes that channel
// itself, with room for the one answer (shared with C09: EnableVerification must return the verdict on *its* request).
func c08ReplyChannels(c *Ctx) {
	w := c.W
	// verifyEnable.resp
	found := false
	for _, f := range w.funcsIn("") {
		for _, i := range allInstrs(f) {
			al, ok := i.(*ssa.Alloc)
			if !ok {
				continue
			}
			var fld string
			switch litTypeName(al) {
			case ".verifyEnable":
				fld = "resp"
			case ".valueUpdate":
				fld = "installed"
			default:
				continue
			}
			v := litField(al, fld)
			if v == nil {
				continue
			}
			found = true
			mc, ok := stripConv(v).(*ssa.MakeChan)
			nn, isC := int64(0), false
			if ok {
				nn, isC = constInt(mc.Size)
			}
			c.check(ok && isC && nn >= 1, "reply-capacity", relName(f)+"#"+fld, al.Pos(), "reply channel is made for this very request with constant capacity >= 1", "reply channel is not a channel made for this request with room for the answer: a channel shared between requests hands an abandoned request's answer to the next caller, an unbuffered one lets the monitor block (reply channel has no room for the answer (the monitor can block on an abandoned caller)")
		}
	}
	if !found {
		c.bad("reply-capacity", "reply-channels", 0, "no reply channels found")
	}
}

// unlockedOnEveryPath: the explicit form of the pairing. Every path from the Lock reaches an Unlock (plain or
// deferred) of the same mutex before a return, a panic, a second Lock of it, or a call whose callee is not statically
// known (foreign code run under the lock).
func unlockedOnEveryPath(lock *ssa.Call, want string) bool {
	mu := lock.Call.Args[0]
	seen := map[*ssa.BasicBlock]bool{}
	var walk func(b *ssa.BasicBlock, from int) bool
	walk = func(b *ssa.BasicBlock, from int) bool {
		for _, j := range b.Instrs[from:] {
			switch x := j.(type) {
			case *ssa.Defer:
				if calleeFullName(x) == want && sameValue(x.Call.Args[0], mu) {
					return true
				}
			case *ssa.Call:
				if calleeFullName(x) == want && len(x.Call.Args) > 0 && sameValue(x.Call.Args[0], mu) {
					return true
				}
				if x.Call.IsInvoke() {
					return false
				}
				if _, isBuiltin := x.Call.Value.(*ssa.Builtin); !isBuiltin && staticCallee(x) == nil {
					return false
				}
				if calleeFullName(x) == calleeFullName(lock) && len(x.Call.Args) > 0 && sameValue(x.Call.Args[0], mu) {
					return false
				}
			case *ssa.Go:
				return false
			case *ssa.Return, *ssa.Panic:
				return false
			}
		}
		if len(b.Succs) == 0 {
			return false
		}
		for _, sc := range b.Succs {
			if seen[sc] {
				continue
			}
			seen[sc] = true
			if !walk(sc, 0) {
				return false
			}
		}
		return true
	}
	return walk(lock.Block(), instrIndex(lock)+1)
}
