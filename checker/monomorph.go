package main

import (
	"fmt"
	"go/ast"
	"go/token"
	"go/types"
	"os"
	"sort"
	"strings"

	"golang.org/x/tools/go/packages"
)

// Generic helpers.
//
// A refactoring that replaces duplicated code by a new generic helper (`indexFunc[E any](s []E, f func(E) bool)`,
// `parseAll[I](parse func(string, int, int) (I, error))`) calls it with concrete type arguments; the source-level
// inliner only handles a generic callee whose type parameters are the caller's own. Before folding, every call of
// a *new* unexported generic function with type arguments that mention no type parameter and only types of the
// same package (or predeclared ones) is pointed at a specialised copy of the function - the declaration with the
// type parameters replaced by the arguments, appended to the file that declares it - which is then folded like
// any other new helper (a function-valued argument ends up called directly and is folded in its turn).
func (w *World) monomorphize(p *packages.Package, rec map[string]anchorFunc, overlay map[string][]byte) map[string][]byte {
	info := p.TypesInfo
	decls := map[*types.Func]*ast.FuncDecl{}
	declFile := map[*types.Func]*ast.File{}
	for _, f := range p.Syntax {
		for _, d := range f.Decls {
			if fd, ok := d.(*ast.FuncDecl); ok && fd.Body != nil && fd.Recv == nil && fd.Type.TypeParams != nil {
				if fo, ok := info.Defs[fd.Name].(*types.Func); ok && !fo.Exported() {
					if _, known := rec[fo.Name()]; !known {
						decls[fo] = fd
						declFile[fo] = f
					}
				}
			}
		}
	}
	if len(decls) == 0 {
		return nil
	}
	content := func(f *ast.File) ([]byte, bool) {
		name := w.Fset.Position(f.Pos()).Filename
		b, ok := overlay[name]
		if !ok {
			b, _ = os.ReadFile(name)
		}
		return b, len(b) == w.Fset.File(f.Pos()).Size()
	}
	off := func(pos token.Pos) int { return w.Fset.Position(pos).Offset }
	type edit struct {
		from, to int
		text     string
	}
	edits := map[*ast.File][]edit{}
	appended := map[*ast.File][]string{}
	made := map[string]bool{}
	local := true
	qual := func(q *types.Package) string {
		if q != p.Types {
			local = false
		}
		return ""
	}
	hasTypeParam := func(t types.Type) bool {
		found := false
		var walk func(t types.Type, d int)
		walk = func(t types.Type, d int) {
			if d > 6 || found {
				return
			}
			switch x := t.(type) {
			case *types.TypeParam:
				found = true
			case *types.Pointer:
				walk(x.Elem(), d+1)
			case *types.Slice:
				walk(x.Elem(), d+1)
			case *types.Array:
				walk(x.Elem(), d+1)
			case *types.Map:
				walk(x.Key(), d+1)
				walk(x.Elem(), d+1)
			case *types.Chan:
				walk(x.Elem(), d+1)
			case *types.Named:
				for i := 0; i < x.TypeArgs().Len(); i++ {
					walk(x.TypeArgs().At(i), d+1)
				}
			case *types.Signature:
				for i := 0; i < x.Params().Len(); i++ {
					walk(x.Params().At(i).Type(), d+1)
				}
				for i := 0; i < x.Results().Len(); i++ {
					walk(x.Results().At(i).Type(), d+1)
				}
			}
		}
		walk(t, 0)
		return found
	}
	for _, f := range p.Syntax {
		if strings.HasSuffix(w.Fset.Position(f.Pos()).Filename, "_test.go") {
			continue
		}
		if _, ok := content(f); !ok {
			continue
		}
		ast.Inspect(f, func(n ast.Node) bool {
			call, ok := n.(*ast.CallExpr)
			if !ok {
				return true
			}
			fun := ast.Unparen(call.Fun)
			funEnd := fun.End()
			if ie, ok := fun.(*ast.IndexExpr); ok {
				fun = ie.X
			} else if ile, ok := fun.(*ast.IndexListExpr); ok {
				fun = ile.X
			}
			id, ok := fun.(*ast.Ident)
			if !ok {
				return true
			}
			fo, ok := info.Uses[id].(*types.Func)
			if !ok {
				return true
			}
			fd := decls[fo.Origin()]
			if fd == nil {
				return true
			}
			inst, ok := info.Instances[id]
			if !ok || inst.TypeArgs.Len() != fd.Type.TypeParams.NumFields() {
				return true
			}
			var targs []string
			var keepArg []bool // the argument is the caller's own type parameter of the same name: stays a parameter
			local = true
			sig := fo.Origin().Type().(*types.Signature)
			nSubst := 0
			for i := 0; i < inst.TypeArgs.Len(); i++ {
				ta := inst.TypeArgs.At(i)
				if tp, isTP := ta.(*types.TypeParam); isTP && i < sig.TypeParams().Len() && tp.Obj().Name() == sig.TypeParams().At(i).Obj().Name() {
					targs = append(targs, tp.Obj().Name())
					keepArg = append(keepArg, true)
					continue
				}
				if hasTypeParam(ta) {
					return true
				}
				targs = append(targs, types.TypeString(ta, qual))
				keepArg = append(keepArg, false)
				nSubst++
			}
			if !local || nSubst == 0 {
				return true
			}
			df := declFile[fo.Origin()]
			dsrc, okSrc := content(df)
			if !okSrc {
				return true
			}
			san := func(s string) string {
				var b strings.Builder
				for _, r := range s {
					if r >= 'a' && r <= 'z' || r >= 'A' && r <= 'Z' || r >= '0' && r <= '9' {
						b.WriteRune(r)
					} else {
						b.WriteRune('_')
					}
				}
				return b.String()
			}
			name := fo.Name() + "__" + san(strings.Join(targs, "_"))
			var keptNames []string
			for i, k := range keepArg {
				if k {
					keptNames = append(keptNames, targs[i])
				}
			}
			if !made[name] {
				// the specialised declaration
				tpName := map[types.Object]string{}
				k := 0
				var keptFields []string
				okList := true
				for _, fl := range fd.Type.TypeParams.List {
					kept, dropped := 0, 0
					for _, nm := range fl.Names {
						if keepArg[k] {
							kept++
						} else {
							dropped++
							if o := info.Defs[nm]; o != nil {
								tpName[o] = targs[k]
							}
						}
						k++
					}
					if kept > 0 && dropped > 0 {
						okList = false
					}
					if kept > 0 {
						keptFields = append(keptFields, string(dsrc[off(fl.Pos()):off(fl.End())]))
					}
				}
				if !okList {
					return true
				}
				made[name] = true
				var des []edit
				des = append(des, edit{off(fd.Name.Pos()), off(fd.Name.End()), name})
				list := ""
				if len(keptFields) > 0 {
					list = "[" + strings.Join(keptFields, ", ") + "]"
				}
				des = append(des, edit{off(fd.Type.TypeParams.Opening), off(fd.Type.TypeParams.Closing) + 1, list})
				ast.Inspect(fd, func(m ast.Node) bool {
					if x, ok := m.(*ast.Ident); ok {
						if o := info.Uses[x]; o != nil {
							if t, isTP := tpName[o]; isTP {
								des = append(des, edit{off(x.Pos()), off(x.End()), t})
							}
						}
					}
					return true
				})
				// edits inside the type parameter list itself are dropped with the list
				lo, hi := off(fd.Type.TypeParams.Opening), off(fd.Type.TypeParams.Closing)+1
				var keep []edit
				for _, e := range des {
					if e.from > lo && e.to < hi {
						continue
					}
					keep = append(keep, e)
				}
				sort.Slice(keep, func(i, j int) bool { return keep[i].from > keep[j].from })
				start, end := off(fd.Pos()), off(fd.End())
				text := append([]byte{}, dsrc[start:end]...)
				for _, e := range keep {
					text = append(text[:e.from-start], append([]byte(e.text), text[e.to-start:]...)...)
				}
				appended[df] = append(appended[df], "\n\n"+string(text)+"\n")
				foldNotes = append(foldNotes, fmt.Sprintf("generic helpers: %s.%s is read through a copy specialised for [%s]", relOfPkg(p.Types), fo.Name(), strings.Join(targs, ", ")))
			}
			callee := name
			if len(keptNames) > 0 {
				callee += "[" + strings.Join(keptNames, ", ") + "]"
			}
			edits[f] = append(edits[f], edit{off(fun.Pos()), off(funEnd), callee})
			return true
		})
	}
	if len(edits) == 0 {
		return nil
	}
	out := map[string][]byte{}
	files := map[*ast.File]bool{}
	for f := range edits {
		files[f] = true
	}
	for f := range appended {
		files[f] = true
	}
	for f := range files {
		src, ok := content(f)
		if !ok {
			return nil
		}
		b := append([]byte{}, src...)
		es := edits[f]
		sort.Slice(es, func(i, j int) bool { return es[i].from > es[j].from })
		for _, e := range es {
			b = append(b[:e.from], append([]byte(e.text), b[e.to:]...)...)
		}
		for _, a := range appended[f] {
			b = append(b, []byte(a)...)
		}
		out[w.Fset.Position(f.Pos()).Filename] = b
	}
	return out
}
