package main

import (
	"go/token"
	"go/types"
	"strings"

	"golang.org/x/tools/go/ssa"
)

func init() {
	props["C15"] = &propMeta{
		run: runC15,
		explanation: "Round-tripping arbitrary values through text is a law about runtime strings and is not decided. Decided completely: the no-wrap clause - every numeric conversion of a parsed value that narrows (on amd64, and on 386 in the thorough tier) " +
			"is discharged either by the bit size handed to strconv (a constant no larger than the result, or unsafe.Sizeof of the same type parameter) or by a dominating reflect Overflow* test on a zero value of the type whose kind selected that arm, with the " +
			"arm's kind equal to the conversion's result kind. Also decided: parser arguments (base 0, trimming), that every error produced while parsing reaches the caller, writer/reader agreement on quoting and separators and on signedness of integer " +
			"formatting, and rejection of duplicate keys before storing.",
		assumptions: []string{"strconv and reflect.Value.Overflow* behave as documented", "text/scanner tokenises as documented"},
	}
}

func basicKindToReflect(k types.BasicKind) int64 {
	switch k {
	case types.Bool:
		return kBool
	case types.Int:
		return kInt
	case types.Int8:
		return kInt8
	case types.Int16:
		return kInt16
	case types.Int32:
		return kInt32
	case types.Int64:
		return kInt64
	case types.Uint:
		return kUint
	case types.Uint8:
		return kUint8
	case types.Uint16:
		return kUint16
	case types.Uint32:
		return kUint32
	case types.Uint64:
		return kUint64
	case types.Uintptr:
		return kUintptr
	case types.Float32:
		return kFloat32
	case types.Float64:
		return kFloat64
	case types.Complex64:
		return kComplex64
	case types.Complex128:
		return kComplex128
	case types.String:
		return kString
	}
	return 0
}

var parseFuncs = map[string]int{ // name -> index of the bitSize argument
	"strconv.ParseInt": 2, "strconv.ParseUint": 2, "strconv.ParseFloat": 1, "strconv.ParseComplex": 1,
}

func runC15(c *Ctx) {
	c.rule("narrowing-guard", "every conversion of a parsed number to a narrower (or differently signed) type is discharged by the strconv bit size (constant <= result width, or Sizeof of the same type parameter) or by a dominating reflect Overflow* test on the zero of the type whose kind selected the arm (arm kind == result kind)", 10)
	c.rule("parse-args", "integer parsers are called with base 0 and the integral slice parsers trim whitespace around each element", 4)
	c.rule("errors-propagate", "every error returned to the parse package by strconv / the scanner / Unquote / a callback is tested and leads to a non-nil error result (no path returns a value together with a swallowed error)", 15)
	c.rule("syntax-agree", "writers (flag helpers' String) quote with strconv.Quote and separate with ',' (and ':' for maps); readers unquote with strconv.Unquote and split on the same runes; unsigned slices are formatted with FormatUint and parsed with ParseUint, signed ones with FormatInt/ParseInt, base 10 out / base 0 in", 8)
	c.rule("empty-forms", "the empty string is a legitimate map key (the splitter never tests the key text against \"\" to decide whether a key was read) and the empty text is the canonical form of an empty collection (strings.Split-based parsers answer it with an empty result)", 3)
	c.rule("typed-registration", "(shared with C12) the pflag source registers every numeric leaf with the flag type of its own width (it has no overflow helper: a wider flag type wraps out-of-range input in the later Convert)", 1)
	c.rule("quoted-through-unquote", "in both splitters the text of a quoted literal reaches the result only as strconv.Unquote of the token text; the raw token text is used only for tokens that are not quoted literals", 4)
	c.rule("single-token-per-part", "in the map splitter a token's text is stored into the key (value) state only while that part's already-read flag is false, and the store sets the flag: a second token for the same part is an error, never a silent replacement (an unparsable value is an error rather than a truncated one)", 2)
	c.rule("error-not-value", "(shared with C12) when the flag source detects an out-of-range or unconvertible flag value its Value returns the error and not a config", 1)
	c.rule("pair-state-reset", "after the map splitter hands a (key, value) pair to its callback, both pieces of state are reset to \"\" on every path that continues parsing (a value must not leak into a later key that has none)", 2)
	c.rule("map-results-made", "(shared with C16) a map handed back by a parser is made by that very call - never nil, never a package-level value shared by all calls (the flag helpers merge later occurrences of a flag into the first parsed map, so a shared empty set would accumulate every member ever given and print it as the text of the empty set)", 3)
	c.rule("dups-rejected", "Map and StringSet report an error for a key that is already present, before storing", 2)

	w := c.W
	c15Narrowing(c)
	// the standard-library flag source narrows the parsed flag value itself (reflect Convert after its own overflow helper)
	if val := c.W.fn("sources/flag", "Set.Value"); val != nil {
		c12Narrowing(c, val)
	}
	c15PairStateReset(c, "pair-state-reset")
	c15SingleTokenPerPart(c, "single-token-per-part")
	c15QuotedThroughUnquote(c, "quoted-through-unquote")
	c12PflagTypedRegistration(c)
	c15EmptyForms(c, "empty-forms")
	c16MapResultsMade(c)

	// ---- parse-args ------------------------------------------------------------------
	for _, f := range w.funcsIn("parse") {
		for _, i := range allInstrs(f) {
			ci, ok := i.(*ssa.Call)
			if !ok {
				continue
			}
			n := calleeFullName(ci)
			if n == "strconv.ParseInt" || n == "strconv.ParseUint" {
				base, okb := constInt(ci.Call.Args[1])
				c.check(okb && base == 0, "parse-args", relName(f)+"#base", ci.Pos(), "base 0 (Go prefixes and digit separators accepted)", "integer parser not called with base 0")
				if strings.HasSuffix(f.Name(), "IntegralSlice") || strings.Contains(relName(f), "IntegralSlice") {
					_, trimmed := ci.Call.Args[0].(*ssa.Call)
					okT := trimmed && calleeFullName(ci.Call.Args[0].(*ssa.Call)) == "strings.TrimSpace"
					c.check(okT, "parse-args", relName(f)+"#trim", ci.Pos(), "each element is trimmed before parsing", "slice elements are not trimmed before parsing")
				}
			}
		}
	}

	// ---- errors-propagate ---------------------------------------------------------------
	for _, f := range w.funcsIn("parse") {
		if w.pkgOfFn(f) == nil {
			continue
		}
		// skip the !go1.15 file's functions (not in this build)
		for _, i := range allInstrs(f) {
			ci, ok := i.(*ssa.Call)
			if !ok {
				continue
			}
			var errV ssa.Value
			if isErrorType(ci.Type()) {
				errV = ci
			} else {
				for _, r := range *ci.Referrers() {
					if e, ok := r.(*ssa.Extract); ok && isErrorType(e.Type()) {
						errV = e
					}
				}
				if tup, ok := ci.Type().(*types.Tuple); ok && errV == nil {
					for k := 0; k < tup.Len(); k++ {
						if isErrorType(tup.At(k).Type()) {
							c.bad("errors-propagate", relName(f)+"#"+shortCallee(ci), ci.Pos(), "the error result of %s is discarded", calleeFullName(ci))
						}
					}
					continue
				}
			}
			if errV == nil {
				continue
			}
			n := calleeFullName(ci)
			if n == "fmt.Errorf" || strings.HasPrefix(n, "errors.") {
				continue
			}
			c.analysed(relName(f))
			name := relName(f) + "#" + shortCallee(ci)
			// forwarded directly
			fwd := false
			okRet, badRet := false, false
			for _, r := range returnsOf(f) {
				rv := retVals(r)
				if len(rv) == 0 {
					continue
				}
				last := rv[len(rv)-1]
				if last == errV {
					fwd = true
				}
				if knownNilVia(r.Block(), errV, false) {
					if isNilConst(last) {
						badRet = true
					} else {
						okRet = true
					}
				} else if ph, isPhi := last.(*ssa.Phi); isPhi {
					// the joined outcome of a folded helper returned as it is: the operand that arrives from where the
					// error is known non-nil
					for ei, e := range ph.Edges {
						if knownNilVia(ph.Block().Preds[ei], errV, false) {
							if isNilConst(e) {
								badRet = true
							} else {
								okRet = true
							}
						}
					}
				}
			}
			c.check((fwd || okRet) && !badRet, "errors-propagate", name, ci.Pos(), "error tested (or forwarded) and returned", "the error of "+n+" does not lead to a non-nil error result")
		}
	}

	// ---- syntax-agree ------------------------------------------------------------------------
	c15Syntax(c)

	// ---- dups-rejected --------------------------------------------------------------------------
	for _, f := range w.funcsIn("parse") {
		for _, i := range allInstrs(f) {
			switch x := i.(type) {
			case *ssa.Call:
				if calleeFullName(x) != "(reflect.Value).SetMapIndex" {
					continue
				}
				okD := false
				for _, ec := range condsDominating(x.Block()) {
					if cc, ok := ec.Cond.(*ssa.Call); ok && !ec.Val && calleeFullName(cc) == "(reflect.Value).IsValid" {
						if mi, ok := cc.Call.Args[0].(*ssa.Call); ok && calleeFullName(mi) == "(reflect.Value).MapIndex" && sameValue(mi.Call.Args[1], x.Call.Args[1]) {
							okD = true
						}
					}
				}
				c.check(okD, "dups-rejected", relName(f)+"#map", x.Pos(), "a key is stored only after MapIndex showed it absent (present -> error)", "map entries are stored without first rejecting a duplicate key")
			case *ssa.MapUpdate:
				if !strings.Contains(relName(f), "StringSet") {
					continue
				}
				okD := false
				for _, ec := range condsDominating(x.Block()) {
					if e, ok := ec.Cond.(*ssa.Extract); ok && !ec.Val && e.Index == 1 {
						if lk, ok := e.Tuple.(*ssa.Lookup); ok && lk.CommaOk && sameValue(lk.Index, x.Key) {
							okD = true
						}
					}
				}
				c.check(okD, "dups-rejected", relName(f)+"#set", x.Pos(), "a set element is stored only after it was found absent (present -> error)", "set elements are stored without first rejecting a duplicate")
			}
		}
	}
}

func shortCallee(ci ssa.CallInstruction) string {
	n := calleeFullName(ci)
	if n == "" {
		return "dynamic"
	}
	if i := strings.LastIndex(n, "/"); i >= 0 {
		n = n[i+1:]
	}
	return n
}

func extract0(call *ssa.Call) *ssa.Extract {
	if call == nil {
		return nil
	}
	for _, r := range *call.Referrers() {
		if e, ok := r.(*ssa.Extract); ok && e.Index == 0 {
			return e
		}
	}
	return nil
}

// bitSizeOfTypeParam: v == int(unsafe.Sizeof(I(0)) * 8) for the type parameter tp.
func bitSizeOfTypeParam(v ssa.Value, tp *types.TypeParam) bool {
	cv, ok := v.(*ssa.Convert)
	if !ok {
		return false
	}
	mul, ok := cv.X.(*ssa.BinOp)
	if !ok || mul.Op != token.MUL {
		return false
	}
	n, okn := constInt(mul.Y)
	call, okc := mul.X.(*ssa.Call)
	if !okn || n != 8 || !okc {
		return false
	}
	b, ok := call.Call.Value.(*ssa.Builtin)
	if !ok || b.Name() != "Sizeof" {
		return false
	}
	return types.Identical(call.Call.Args[0].Type(), tp)
}

// overflowGuard: inst is dominated by (reflect.Value).OverflowX(recv, operand)
// being false, recv derives from reflect.Zero(T), and the kinds of T reaching
// inst are exactly the kind of the result type.
func overflowGuard(inst ssa.Instruction, operand ssa.Value, res *types.Basic) (bool, string) {
	for _, ec := range condsDominating(inst.Block()) {
		call, ok := ec.Cond.(*ssa.Call)
		if !ok || ec.Val {
			continue
		}
		n := calleeFullName(call)
		if !strings.HasPrefix(n, "(reflect.Value).Overflow") {
			continue
		}
		arg := call.Call.Args[1]
		same := sameLocalLoad(arg, operand)
		if cv, ok := arg.(*ssa.Convert); ok && sameLocalLoad(cv.X, operand) {
			same = true // e.g. OverflowComplex(complex128(c64))
		}
		if !same {
			continue
		}
		// method matches the class of the result
		want := ""
		switch {
		case res.Info()&types.IsUnsigned != 0:
			want = "OverflowUint"
		case res.Info()&types.IsInteger != 0:
			want = "OverflowInt"
		case res.Info()&types.IsFloat != 0:
			want = "OverflowFloat"
		case res.Info()&types.IsComplex != 0:
			want = "OverflowComplex"
		}
		if !strings.HasSuffix(n, want) {
			return false, n + " does not match the result class " + want
		}
		// receiver: reflect.Zero(T)
		var tv ssa.Value
		okZ := derivesAll(call.Call.Args[0], func(v ssa.Value) bool {
			z, ok := v.(*ssa.Call)
			if ok && calleeFullName(z) == "reflect.Zero" {
				tv = z.Call.Args[0]
				return true
			}
			return false
		}, nil)
		if !okZ || tv == nil {
			return false, "the Overflow receiver is not reflect.Zero(T)"
		}
		// kinds of T reaching inst
		atom := "(reflect.Type).Kind(" + canon(tv) + ")"
		pb := &predBuilder{}
		g := pb.pathCond(inst.Parent().Blocks[0], inst.Block())
		ks := kindsWhere(g, atom)
		wantK := basicKindToReflect(res.Kind())
		if len(ks) != 1 || !ks[wantK] {
			return false, "arm kinds " + kindSetString(ks) + " of the tested type do not equal the result kind " + kindNames[wantK]
		}
		return true, n + " on reflect.Zero(T) is false here and T's kind is " + kindNames[wantK]
	}
	return false, "no dominating Overflow test of the converted value"
}

func c15Syntax(c *Ctx) {
	w := c.W
	// writers
	type wr struct {
		typ   string
		colon bool
	}
	writers := []wr{{"StringSliceFlag", false}, {"StringSetFlag", false}, {"MapStringStringSliceFlag", true}, {"MapStringStringFlag", true}}
	for _, wv := range writers {
		f := w.fn("sources/flag/flaghelper", wv.typ+".String")
		if !c.need(f != nil, "flaghelper."+wv.typ+".String") {
			continue
		}
		c.analysed(relName(f))
		quote := false
		for _, i := range allInstrs(f) {
			if ci, ok := i.(*ssa.Call); ok && calleeFullName(ci) == "strconv.Quote" {
				quote = true
			}
		}
		seps := emittedSeparators(f)
		comma, colon := seps[','], seps[':']
		c.check(quote && comma && colon == wv.colon, "syntax-agree", "writer:"+wv.typ, f.Pos(), "elements quoted with strconv.Quote, separated by ','"+map[bool]string{true: ", key:value by ':'", false: ""}[wv.colon],
			"the writer does not emit strconv.Quote'd elements separated by ',' (and ':' exactly for maps)")
	}
	// readers
	for _, rd := range []struct {
		fn    string
		colon bool
	}{{"splitStringsSlice", false}, {"splitMap", true}} {
		f := w.fn("parse", rd.fn)
		if !c.need(f != nil, "parse."+rd.fn) {
			continue
		}
		c.analysed(relName(f))
		unq, comma, colon := false, false, false
		for _, i := range allInstrs(f) {
			switch x := i.(type) {
			case *ssa.Call:
				if calleeFullName(x) == "strconv.Unquote" {
					unq = true
				}
			case *ssa.BinOp:
				if x.Op == token.EQL {
					if r, ok := constInt(x.Y); ok {
						if r == ',' {
							comma = true
						}
						if r == ':' {
							colon = true
						}
					}
				}
			}
		}
		c.check(unq && comma && colon == rd.colon, "syntax-agree", "reader:"+rd.fn, f.Pos(), "tokens unquoted with strconv.Unquote, split on ','"+map[bool]string{true: " and ':'", false: ""}[rd.colon],
			"the reader does not unquote and split on the writer's separators")
	}
	// integer formatting / parsing signedness
	for _, spec := range []struct{ typ, format, parse string }{
		{"SignedIntegralSliceFlag", "strconv.FormatInt", modPath + "/parse.SignedIntegralSlice"},
		{"UnsignedIntegralSliceFlag", "strconv.FormatUint", modPath + "/parse.UnsignedIntegralSlice"},
	} {
		sf := w.fn("sources/flag/flaghelper", spec.typ+".String")
		st := w.fn("sources/flag/flaghelper", spec.typ+".Set")
		if !c.need(sf != nil && st != nil, "flaghelper."+spec.typ) {
			continue
		}
		c.analysed(relName(sf))
		okF, bad := false, false
		for _, i := range allInstrs(sf) {
			if ci, ok := i.(*ssa.Call); ok {
				n := calleeFullName(ci)
				if n == spec.format {
					if b, ok := constInt(ci.Call.Args[1]); ok && b == 10 {
						okF = true
					}
				} else if n == "strconv.FormatInt" || n == "strconv.FormatUint" {
					bad = true
				}
			}
		}
		okP := len(callsTo(st, spec.parse)) == 1
		c.check(okF && !bad && okP, "syntax-agree", "integral:"+spec.typ, sf.Pos(), spec.typ+": "+spec.format+"(.., 10) out, "+shortName(spec.parse)+" in",
			spec.typ+" does not format with "+spec.format+" base 10 / parse with "+shortName(spec.parse)+" (values above the signed range would print as negatives and be rejected on the way back)")
	}
	// parsers' signedness
	for _, spec := range []struct{ fn, parse string }{{"SignedIntegralSlice", "strconv.ParseInt"}, {"UnsignedIntegralSlice", "strconv.ParseUint"}} {
		f := w.fn("parse", spec.fn)
		if c.need(f != nil, "parse."+spec.fn) {
			c.check(len(callsTo(f, spec.parse)) == 1, "syntax-agree", "parser:"+spec.fn, f.Pos(), spec.fn+" uses "+spec.parse, spec.fn+" does not use "+spec.parse)
		}
	}
}

func shortName(s string) string {
	if i := strings.LastIndex(s, "/"); i >= 0 {
		return s[i+1:]
	}
	return s
}

// c15Narrowing: the no-wrap rule (shared with C11/C12).
func c15Narrowing(c *Ctx) {
	w := c.W
	sizes := w.pkg("parse").TypesSizes
	sizeof := func(t types.Type) int64 { return sizes.Sizeof(t) }
	// ---- narrowing-guard --------------------------------------------------------
	for _, rel := range []string{"parse", "sources/flag/flaghelper", "sources/flag", "sources/pflag", "transform"} {
		for _, f := range w.funcsIn(rel) {
			for _, i := range allInstrs(f) {
				var x, res ssa.Value
				switch cv := i.(type) {
				case *ssa.Convert:
					x, res = cv.X, cv
				case *ssa.MultiConvert:
					x, res = cv.X, cv
				default:
					continue
				}
				// only conversions of parsed values
				var pcall *ssa.Call
				isParsed := derivesAny(x, func(v ssa.Value) bool {
					e, ok := v.(*ssa.Extract)
					if !ok || e.Index != 0 {
						return false
					}
					call, ok := e.Tuple.(*ssa.Call)
					if !ok {
						return false
					}
					n := calleeFullName(call)
					if _, ok := parseFuncs[n]; ok {
						pcall = call
						return true
					}
					if n == modPath+"/parse.Complex64" || n == modPath+"/parse.Complex128" {
						pcall = call
						return true
					}
					return false
				}, nil)
				if !isParsed {
					continue
				}
				c.analysed(relName(f))
				name := relName(f) + "#" + types.TypeString(res.Type(), nil) + "<-" + types.TypeString(x.Type(), nil)
				inst := i
				// type parameter result
				if tp, ok := res.Type().(*types.TypeParam); ok {
					okTP := false
					if pcall != nil {
						if idx, ok := parseFuncs[calleeFullName(pcall)]; ok {
							okTP = bitSizeOfTypeParam(pcall.Call.Args[idx], tp)
						}
					}
					c.check(okTP && x == ssa.Value(extract0(pcall)), "narrowing-guard", name, inst.Pos(), "strconv is given unsafe.Sizeof(I(0))*8 of the same type parameter: out-of-range literals are rejected by strconv",
						"conversion to a type parameter without strconv being bounded by that parameter's size")
					continue
				}
				ob, ok1 := x.Type().Underlying().(*types.Basic)
				rb, ok2 := res.Type().Underlying().(*types.Basic)
				if !ok1 || !ok2 || ob.Info()&types.IsNumeric == 0 || rb.Info()&types.IsNumeric == 0 {
					continue
				}
				narrow := sizeof(rb) < sizeof(ob)
				if ob.Info()&types.IsInteger != 0 && rb.Info()&types.IsInteger != 0 && (ob.Info()&types.IsUnsigned != rb.Info()&types.IsUnsigned) {
					narrow = true
				}
				if !narrow {
					c.okTrivial("narrowing-guard", name, inst.Pos(), "not narrowing on this architecture (%d -> %d bytes)", sizeof(ob), sizeof(rb))
					continue
				}
				// (a) strconv bit size
				if pcall != nil && x == ssa.Value(extract0(pcall)) {
					if idx, ok := parseFuncs[calleeFullName(pcall)]; ok {
						if bs, ok := constInt(pcall.Call.Args[idx]); ok && bs > 0 && bs <= 8*sizeof(rb) {
							c.ok("narrowing-guard", name, inst.Pos(), "strconv bit size %d <= %d bits of the result", bs, 8*sizeof(rb))
							continue
						}
						// the bit size read from the requested type, t.Bits(), and the conversion reached only for kinds
						// of t that are no wider than the result
						if bc, isCall := pcall.Call.Args[idx].(*ssa.Call); isCall && calleeFullName(bc) == "(reflect.Type).Bits" {
							atom := "(reflect.Type).Kind(" + canon(callArgs(bc)[0]) + ")"
							pbk := &predBuilder{}
							ks := kindsWhere(pbk.pathCond(f.Blocks[0], inst.Block()), atom)
							bitsOf := map[int64]int64{kInt8: 8, kInt16: 16, kInt32: 32, kInt64: 64, kUint8: 8, kUint16: 16, kUint32: 32, kUint64: 64, kFloat32: 32, kFloat64: 64, kComplex64: 64, kComplex128: 128}
							okBits := len(ks) > 0 && len(ks) < len(allKinds)
							for kk := range ks {
								if b, known := bitsOf[kk]; !known || b > 8*sizeof(rb) {
									okBits = false
								}
							}
							if okBits {
								c.ok("narrowing-guard", name, inst.Pos(), "strconv bit size is Bits() of the requested type, whose kind is %s here: no wider than the result", kindSetString(ks))
								continue
							}
						}
					}
				}
				// floating point: only strconv rounds a decimal correctly to the narrow type and knows its range (the
				// shortest text of MaxFloat32 is, as a real number, above MaxFloat32: a float64 range test rejects it, and
				// narrowing an already rounded float64 rounds twice)
				if rb.Kind() == types.Float32 || rb.Kind() == types.Complex64 {
					c.bad("narrowing-guard", name, inst.Pos(), "a parsed %s is narrowed to %s after the fact instead of being parsed at the result's own bit size: values just above a float32 midpoint are rounded twice, and the canonical text of ±MaxFloat32 (3.4028235e+38) is rejected by the float64 range test", ob.Name(), rb.Name())
					continue
				}
				// (b) dominating Overflow* test
				okOv, why := overflowGuard(inst, x, rb)
				c.check(okOv, "narrowing-guard", name, inst.Pos(), "guarded: "+why, "narrowing conversion of a parsed value without a strconv bit-size bound or a dominating reflect Overflow test of the matching type: "+why)
			}
		}
	}

}

// c15PairStateReset: the map splitter hands (key, value) pairs to a callback
// and must forget both before the next pair: after every callback call, every
// path that continues parsing (next loop iteration, or a nil-error return of a
// helper closure) has reset both the key and the value state to "". A value
// that survives would be inherited by a later key without a value ("a:1,b:" ->
// b=1).
func c15PairStateReset(c *Ctx, rule string) {
	w := c.W
	sm := w.fn("parse", "splitMap")
	if !c.need(sm != nil, "parse.splitMap") {
		return
	}
	cb := sm.Params[len(sm.Params)-1]
	// callback calls in splitMap and its closures
	type site struct {
		f    *ssa.Function
		call *ssa.Call
	}
	var sites []site
	fns := []*ssa.Function{sm}
	fns = append(fns, sm.AnonFuncs...)
	for _, f := range fns {
		for _, i := range allInstrs(f) {
			call, ok := i.(*ssa.Call)
			if !ok || call.Call.IsInvoke() {
				continue
			}
			v := call.Call.Value
			isCB := v == ssa.Value(cb)
			if ld, ok := v.(*ssa.UnOp); ok { // captured callback
				if fv, ok := ld.X.(*ssa.FreeVar); ok && fv.Name() == cb.Name() {
					isCB = true
				}
			}
			if fv, ok := v.(*ssa.FreeVar); ok && fv.Name() == cb.Name() {
				isCB = true
			}
			if isCB && len(call.Call.Args) == 2 {
				sites = append(sites, site{f, call})
			}
		}
	}
	if len(sites) == 0 {
		c.bad(rule, relName(sm), sm.Pos(), "the map splitter never calls its pair callback")
		return
	}
	isEmptyConst := func(v ssa.Value) bool { s, ok := constString(v); return ok && s == "" }
	n := 0
	for _, st := range sites {
		c.analysed(relName(st.f))
		for ai, what := range []string{"key", "value"} {
			arg := st.call.Call.Args[ai]
			n++
			id := relName(st.f) + "#" + what + "#" + itoa(n)
			switch x := arg.(type) {
			case *ssa.Phi:
				// loop-carried state in SSA form: the edges into the header that come after this call carry ""
				okR, found := true, false
				// blocks reachable from the call without passing through the loop header
				after := map[*ssa.BasicBlock]bool{st.call.Block(): true}
				work := []*ssa.BasicBlock{st.call.Block()}
				for len(work) > 0 {
					b := work[len(work)-1]
					work = work[:len(work)-1]
					for _, sc := range b.Succs {
						if sc == x.Block() || after[sc] {
							continue
						}
						after[sc] = true
						work = append(work, sc)
					}
				}
				seenPhi := map[*ssa.Phi]bool{}
				var walk func(ph *ssa.Phi)
				walk = func(ph *ssa.Phi) {
					if seenPhi[ph] {
						return
					}
					seenPhi[ph] = true
					hb := ph.Block()
					for ei, e := range ph.Edges {
						p := hb.Preds[ei]
						if !after[p] {
							continue
						}
						// merge blocks between the arms and the loop header (the `for` post block)
						if inner, ok := e.(*ssa.Phi); ok && inner != x && after[inner.Block()] {
							walk(inner)
							continue
						}
						found = true
						if !isEmptyConst(e) {
							okR = false
						}
					}
				}
				walk(x)
				// a call followed only by returns (end of input) needs no reset
				if !found {
					c.okTrivial(rule, id, st.call.Pos(), "no parsing continues after this call (end of input)")
					continue
				}
				c.check(okR, rule, id, st.call.Pos(), "the "+what+" state is \"\" on every edge back to the loop after the pair was handed over", "after handing a pair to the callback the "+what+" state is not reset to \"\" before the next pair: a later entry without its own "+what+" inherits this one")
			case *ssa.UnOp:
				// state in a variable (captured by a closure): a store of "" must intervene before parsing continues
				loc := x.X
				sameLoc := func(a ssa.Value) bool { return a == loc }
				avoid := func(i ssa.Instruction) bool {
					s, ok := i.(*ssa.Store)
					return ok && sameLoc(s.Addr) && isEmptyConst(s.Val)
				}
				// the loop header of splitMap, if the call is in splitMap itself
				var hdr *ssa.BasicBlock
				if st.f == sm {
					for b := st.call.Block(); b != nil; b = b.Idom() {
						for _, p := range b.Preds {
							if b.Dominates(p) && inLoopBody(b, st.call.Block()) {
								hdr = b
							}
						}
						if hdr != nil {
							break
						}
					}
				}
				target := func(i ssa.Instruction) bool {
					if r, ok := i.(*ssa.Return); ok && st.f != sm {
						rv := r.Results
						return len(rv) == 0 || isNilConst(rv[len(rv)-1])
					}
					return hdr != nil && i == hdr.Instrs[0]
				}
				hit := reachAvoid(st.f, st.call, target, avoid)
				// a closure may leave the reset to its caller: every call of the closure in splitMap is then followed by the store
				if hit != nil && st.f != sm {
					callerResets := true
					ncalls := 0
					for _, i := range allInstrs(sm) {
						cc, ok := i.(*ssa.Call)
						if !ok {
							continue
						}
						if mc, ok := cc.Call.Value.(*ssa.MakeClosure); !ok || mc.Fn != ssa.Value(st.f) {
							continue
						}
						ncalls++
						callerResets = false // the bound variable has a different SSA name in the caller; not followed here
					}
					_ = ncalls
					if callerResets {
						hit = nil
					}
				}
				c.check(hit == nil, rule, id, st.call.Pos(), "a store of \"\" to the "+what+" state intervenes on every path that continues parsing", "after handing a pair to the callback parsing can continue without the "+what+" state having been reset to \"\": a later entry without its own "+what+" inherits this one")
			default:
				c.undecided(rule, id, st.call.Pos(), "the %s handed to the callback is neither loop-carried state nor a variable: %s", what, canon(arg))
			}
		}
	}
}

// c15EmptyForms: the empty string is a legitimate key, and the empty text is
// the canonical form of an empty collection.
//
//	(a) the map splitter never compares the key it hands to its callback with the
//	    constant "" (that would make "" mean 'no key' and the printed form
//	    `"":"v"` unreadable);
//	(b) a parser that cuts its input with strings.Split (which returns one empty
//	    element for the empty string) and parses every element first tests the
//	    input for emptiness and returns an empty result.
func c15EmptyForms(c *Ctx, rule string) {
	w := c.W
	sm := w.fn("parse", "splitMap")
	if c.need(sm != nil, "parse.splitMap") {
		cb := sm.Params[len(sm.Params)-1]
		keyVals := map[ssa.Value]bool{}
		fns := append([]*ssa.Function{sm}, sm.AnonFuncs...)
		for _, f := range fns {
			for _, i := range allInstrs(f) {
				call, ok := i.(*ssa.Call)
				if !ok || call.Call.IsInvoke() || len(call.Call.Args) != 2 {
					continue
				}
				v := call.Call.Value
				isCB := v == ssa.Value(cb)
				if ld, ok := v.(*ssa.UnOp); ok {
					if fv, ok := ld.X.(*ssa.FreeVar); ok && fv.Name() == cb.Name() {
						isCB = true
					}
				}
				if isCB {
					keyVals[call.Call.Args[0]] = true
					// phis feeding it
					if ph, ok := call.Call.Args[0].(*ssa.Phi); ok {
						for _, e := range ph.Edges {
							keyVals[e] = true
						}
					}
				}
			}
		}
		bad := token.NoPos
		for _, f := range fns {
			for _, i := range allInstrs(f) {
				b, ok := i.(*ssa.BinOp)
				if !ok || (b.Op != token.EQL && b.Op != token.NEQ) {
					continue
				}
				for _, pr := range [][2]ssa.Value{{b.X, b.Y}, {b.Y, b.X}} {
					if s, ok := constString(pr[1]); ok && s == "" {
						isKey := keyVals[pr[0]]
						for kv := range keyVals {
							if sameValue(kv, pr[0]) {
								isKey = true
							}
						}
						if isKey {
							bad = b.Pos()
						}
					}
				}
			}
		}
		pos := sm.Pos()
		if bad.IsValid() {
			pos = bad
		}
		c.check(len(keyVals) > 0 && !bad.IsValid(), rule, relName(sm)+"#key-text", pos, "whether a key was read is never decided by comparing the key's text with \"\"",
			"the map splitter compares the key it hands to its callback with \"\": the empty string then means 'no key', so the printed form of a map with an empty-string key (\"\":\"v\") is rejected or dropped")
	}
	n := 0
	for _, f := range w.funcsIn("parse") {
		if f.Parent() != nil || len(f.Blocks) == 0 {
			continue
		}
		for _, i := range allInstrs(f) {
			call, ok := i.(*ssa.Call)
			if !ok || calleeFullName(call) != "strings.Split" {
				continue
			}
			n++
			c.analysed(relName(f))
			s := call.Call.Args[0]
			// an emptiness test of s whose true branch returns a nil error, evaluated before the split
			okE := false
			for _, j := range allInstrs(f) {
				b, ok := j.(*ssa.BinOp)
				if !ok || b.Op != token.EQL || !domI(b, call) {
					continue
				}
				emptyTest := false
				if z, ok := constString(b.Y); ok && z == "" {
					if sameValue(b.X, s) {
						emptyTest = true
					}
					if tc, ok := b.X.(*ssa.Call); ok && calleeFullName(tc) == "strings.TrimSpace" && sameValue(tc.Call.Args[0], s) {
						emptyTest = true
					}
				}
				if z, ok := constInt(b.Y); ok && z == 0 {
					if lc, ok := b.X.(*ssa.Call); ok && calleeFullName(lc) == "builtin.len" && sameValue(lc.Call.Args[0], s) {
						emptyTest = true
					}
				}
				if !emptyTest {
					continue
				}
				for _, r := range returnsOf(f) {
					rv := retVals(r)
					if !isNilConst(rv[len(rv)-1]) {
						continue
					}
					for _, ec := range condsDominating(r.Block()) {
						if ec.Cond == ssa.Value(b) && ec.Val {
							okE = true
						}
					}
				}
				// ... or (the test folded back in from a helper that yields "no parts" for the empty input) the split is
				// only reached when the test fails, and every return that can follow the test's success - with the
				// joined values taken as on that edge - has a nil error
				if !okE {
					for _, r := range *b.Referrers() {
						iff, ok := r.(*ssa.If)
						if !ok {
							continue
						}
						splitUnderFalse := false
						for _, ec := range condsDominating(call.Block()) {
							if ec.Cond == ssa.Value(b) && !ec.Val {
								splitUnderFalse = true
							}
						}
						rets := returnsReachableFrom(iff.Block(), iff.Block().Succs[0])
						allNil := len(rets) > 0
						for _, rt := range rets {
							rv := retVals(rt)
							last := rv[len(rv)-1]
							if isNilConst(last) {
								continue
							}
							// a joined error: its value on the edges that can be reached from the test's success
							okPhi := false
							if ph, isPhi := last.(*ssa.Phi); isPhi {
								reach := map[*ssa.BasicBlock]bool{}
								var walk func(x *ssa.BasicBlock)
								walk = func(x *ssa.BasicBlock) {
									if reach[x] || x == ph.Block() {
										return
									}
									reach[x] = true
									for _, sc := range x.Succs {
										walk(sc)
									}
								}
								walk(iff.Block().Succs[0])
								n := 0
								okPhi = true
								for pi, pr := range ph.Block().Preds {
									if reach[pr] {
										n++
										if !isNilConst(ph.Edges[pi]) {
											okPhi = false
										}
									}
								}
								okPhi = okPhi && n > 0
							}
							if !okPhi {
								allNil = false
							}
						}
						if splitUnderFalse && allNil {
							okE = true
						}
					}
				}
			}
			c.check(okE, rule, relName(f)+"#empty-input", call.Pos(), "the empty input is answered with an empty result before strings.Split", "the input is cut with strings.Split without handling the empty string first: the canonical text of an empty collection (\"\") yields one empty element and a parse error instead of the empty collection")
		}
	}
	if n == 0 {
		c.okTrivial(rule, "parse#no-split", 0, "no strings.Split-based parser in the parse package")
	}
}

// c15SingleTokenPerPart: in the map splitter the key and the value handed to
// the callback are each taken from one token: every path that stores a token's
// text into the key (value) state is guarded by a "not read yet" flag that is
// false on that path and set true with the store, so a second token for the
// same part is reported instead of silently replacing the first.
func c15SingleTokenPerPart(c *Ctx, rule string) {
	w := c.W
	sm := w.fn("parse", "splitMap")
	if !c.need(sm != nil, "parse.splitMap") {
		return
	}
	cb := sm.Params[len(sm.Params)-1]
	var call *ssa.Call
	for _, i := range allInstrs(sm) {
		if ci, ok := i.(*ssa.Call); ok && ci.Call.Value == ssa.Value(cb) && len(ci.Call.Args) == 2 {
			call = ci
		}
	}
	if call == nil {
		c.undecided(rule, relName(sm), sm.Pos(), "the pair callback is not called directly in the splitter (state captured by a closure): single-token discipline not analysed")
		return
	}
	for ai, what := range []string{"key", "value"} {
		hp, ok := call.Call.Args[ai].(*ssa.Phi)
		if !ok {
			c.undecided(rule, relName(sm)+"#"+what, call.Pos(), "the %s state is not loop-carried", what)
			continue
		}
		hb := hp.Block()
		// edges carrying a token text into the state
		type edge struct {
			pred *ssa.BasicBlock
			into *ssa.Phi
			idx  int
		}
		var stores []edge
		seen := map[*ssa.Phi]bool{}
		var walk func(ph *ssa.Phi)
		walk = func(ph *ssa.Phi) {
			if seen[ph] {
				return
			}
			seen[ph] = true
			for ei, e := range ph.Edges {
				if e == ssa.Value(hp) {
					continue
				}
				if s, ok := constString(e); ok && s == "" {
					continue
				}
				if inner, ok := e.(*ssa.Phi); ok {
					// a join that passes the state itself along on some edge is part of the state's flow: look inside.
					// A join of values only (the text or "" of a folded token helper) is what is stored, on this edge.
					carries := false
					var cs func(x *ssa.Phi, d int) bool
					cs = func(x *ssa.Phi, d int) bool {
						if d > 4 {
							return false
						}
						for _, ee := range x.Edges {
							if ee == ssa.Value(hp) {
								return true
							}
							if ip, ok := ee.(*ssa.Phi); ok && ip != x && cs(ip, d+1) {
								return true
							}
						}
						return false
					}
					carries = cs(inner, 0)
					if inner.Block() != hb && derivesTokenText(inner) == false && carries {
						walk(inner)
						continue
					}
					if inner.Block() != hb {
						// a merge of token texts (quoted / unquoted): treat the merge block's successor edge as the store
					}
				}
				stores = append(stores, edge{ph.Block().Preds[ei], ph, ei})
			}
		}
		walk(hp)
		if len(stores) == 0 {
			c.bad(rule, relName(sm)+"#"+what, call.Pos(), "no token is ever stored into the %s state", what)
			continue
		}
		// boolean loop-carried flags
		var flags []*ssa.Phi
		for _, i := range hb.Instrs {
			ph, ok := i.(*ssa.Phi)
			if !ok {
				break
			}
			if b, ok := ph.Type().Underlying().(*types.Basic); ok && b.Kind() == types.Bool {
				flags = append(flags, ph)
			}
		}
		for n, st := range stores {
			okG := false
			for _, fl := range flags {
				// the store is only reachable with the flag false (formula over the loop body; && / || conditions are expanded)
				flv := fl
				pb := &predBuilder{name: func(v ssa.Value) string {
					if v == ssa.Value(flv) {
						return "alreadyRead"
					}
					return ""
				}}
				var body *ssa.BasicBlock
				for _, sc := range hb.Succs {
					if inLoopBody(hb, sc) && sc != hb {
						body = sc
					}
				}
				if body == nil {
					continue
				}
				g := pb.pathCond(body, st.pred)
				fb, fi := map[string]bool{}, map[string]bool{}
				atomsOf(g, fb, fi)
				if !fb["alreadyRead"] {
					continue
				}
				if _, counter := forAll(g, nil, func(e env, fv bool) bool { return !fv || !e.B["alreadyRead"] }); counter != "" {
					continue
				}
				// the same path sets the flag: the sibling phi of the flag in the merge block has const true on this edge
				for _, i := range st.into.Block().Instrs {
					ph, ok := i.(*ssa.Phi)
					if !ok {
						break
					}
					if cst, ok := ph.Edges[st.idx].(*ssa.Const); ok && cst.Value != nil && cst.Value.ExactString() == "true" && flowsIntoPhi(ph, fl) {
						okG = true
					}
				}
			}
			pos := call.Pos()
			for _, i := range st.pred.Instrs {
				if i.Pos().IsValid() {
					pos = i.Pos()
				}
			}
			c.check(okG, rule, relName(sm)+"#"+what+"#"+itoa(n+1), pos, "the "+what+" is stored only while its 'already read' flag is false, and the store sets the flag",
				"a token's text is stored into the "+what+" state without a 'not read yet' guard: a second token for the same "+what+" (k:\"a\" \"b\") silently replaces the first instead of being reported")
		}
	}
}

// derivesTokenText is a placeholder for merges of differently decoded token
// texts; such a merge is itself a token text.
func derivesTokenText(p *ssa.Phi) bool {
	for _, e := range p.Edges {
		if call, ok := e.(*ssa.Call); ok && strings.Contains(calleeFullName(call), "TokenText") {
			return true
		}
		if ex, ok := e.(*ssa.Extract); ok {
			if call, ok := ex.Tuple.(*ssa.Call); ok && calleeFullName(call) == "strconv.Unquote" {
				return true
			}
		}
	}
	return false
}

// flowsIntoPhi: value phi a reaches the loop-header phi b through phi edges.
func flowsIntoPhi(a, b *ssa.Phi) bool {
	seen := map[*ssa.Phi]bool{}
	var walk func(p *ssa.Phi) bool
	walk = func(p *ssa.Phi) bool {
		if p == a {
			return true
		}
		if seen[p] {
			return false
		}
		seen[p] = true
		for _, e := range p.Edges {
			if q, ok := e.(*ssa.Phi); ok && walk(q) {
				return true
			}
		}
		return false
	}
	return walk(b)
}

// c15QuotedThroughUnquote: in both splitters a token's text reaches the parsed result either raw - only for tokens
// that are not quoted literals - or as the result of strconv.Unquote of that text. Any other transformation of a
// quoted literal (trimming the delimiters by hand) does not invert strconv.Quote for every string.
func c15QuotedThroughUnquote(c *Ctx, rule string) {
	w := c.W
	for _, fname := range []string{"splitStringsSlice", "splitMap"} {
		f := w.fn("parse", fname)
		if !c.need(f != nil, "parse."+fname) {
			continue
		}
		isTok := func(v ssa.Value) bool {
			ph, ok := v.(*ssa.Phi)
			if !ok {
				return false
			}
			for _, e := range ph.Edges {
				call, ok := e.(*ssa.Call)
				if !ok || !strings.HasSuffix(calleeFullName(call), "scanner.Scanner).Scan") {
					return false
				}
			}
			return len(ph.Edges) > 0
		}
		var tokPhi *ssa.Phi
		for _, i := range allInstrs(f) {
			if ph, ok := i.(*ssa.Phi); ok && isTok(ph) {
				tokPhi = ph
			}
		}
		if tokPhi == nil {
			c.undecided(rule, relName(f), f.Pos(), "the scanner token is not a loop-carried result of Scan()")
			continue
		}
		pb := &predBuilder{name: func(v ssa.Value) string {
			if v == ssa.Value(tokPhi) {
				return "tok"
			}
			return ""
		}}
		isTokenText := func(v ssa.Value) bool {
			call, ok := v.(*ssa.Call)
			return ok && strings.HasSuffix(calleeFullName(call), "scanner.Scanner).TokenText")
		}
		isUnquoted := func(v ssa.Value) bool {
			ex, ok := v.(*ssa.Extract)
			if !ok || ex.Index != 0 {
				return false
			}
			call, ok := ex.Tuple.(*ssa.Call)
			return ok && calleeFullName(call) == "strconv.Unquote" && isTokenText(call.Call.Args[0])
		}
		n, nUnq := 0, 0
		for _, i := range allInstrs(f) {
			ph, ok := i.(*ssa.Phi)
			if !ok || !derivesTokenText(ph) {
				continue
			}
			for ei, e := range ph.Edges {
				name := relName(f) + "#text#" + itoa(n+1)
				switch {
				case isUnquoted(e):
					n++
					nUnq++
					c.ok(rule, name, e.(*ssa.Extract).Tuple.Pos(), "a quoted literal's text is the result of strconv.Unquote")
				case isTokenText(e):
					n++
					g := pb.pathCondEdge(tokPhi.Block(), ph.Block().Preds[ei], ph.Block())
					_, counter := forAll(g, map[string][]int64{"tok": {-2, -3, -4, -5, -6, -7, -8, 44, 58}}, func(en env, fv bool) bool {
						return !fv || (en.I["tok"] != -6 && en.I["tok"] != -7)
					})
					c.check(counter == "", rule, name, e.Pos(), "the raw token text is used only for tokens that are not quoted literals", "the raw text of a quoted literal (delimiters and escapes included) can reach the result: "+counter)
				default:
					if _, isPhi := e.(*ssa.Phi); isPhi {
						continue // merged elsewhere: that phi is checked on its own
					}
					if s, ok := constString(e); ok && s == "" {
						continue
					}
					n++
					c.bad(rule, name, ph.Pos(), "a token's text reaches the result as %s instead of strconv.Unquote of the literal: hand-made unquoting does not invert strconv.Quote for every string (a string that itself starts or ends with a delimiter character loses it)", canon(e))
				}
			}
		}
		if nUnq == 0 {
			c.bad(rule, relName(f), f.Pos(), "no quoted literal goes through strconv.Unquote")
		}
	}
}

// emittedSeparators: the one-character constants a text-building function puts between the pieces it writes: the
// argument of a Builder/Buffer WriteRune / WriteByte / WriteString, the separator of strings.Join, a constant
// operand of a string concatenation.
func emittedSeparators(f *ssa.Function) map[rune]bool {
	out := map[rune]bool{}
	one := func(v ssa.Value) {
		if s, ok := constString(v); ok && len([]rune(s)) == 1 {
			out[[]rune(s)[0]] = true
		}
	}
	for _, i := range allInstrs(f) {
		switch x := i.(type) {
		case *ssa.Call:
			switch calleeFullName(x) {
			case "(*strings.Builder).WriteRune", "(*strings.Builder).WriteByte", "(*bytes.Buffer).WriteRune", "(*bytes.Buffer).WriteByte":
				if r, ok := constInt(x.Call.Args[1]); ok {
					out[rune(r)] = true
				}
			case "(*strings.Builder).WriteString", "(*bytes.Buffer).WriteString":
				one(x.Call.Args[1])
			case "strings.Join":
				one(x.Call.Args[1])
			}
		case *ssa.BinOp:
			if x.Op == token.ADD {
				one(x.X)
				one(x.Y)
			}
		}
	}
	return out
}
