package main

import (
	"go/token"
	"go/types"
	"strings"
	"unicode"

	"golang.org/x/tools/go/ssa"
)

func init() {
	props["C19"] = &propMeta{
		run: runC19,
		explanation: "Decode(Encode(words)) == words for all word lists, and the exact splitting of arbitrary Go identifiers, are laws about runtime strings and are not decided. " +
			"Decided: agreement of each matched encoder/decoder pair on the separator; that decoders never reject a digit (the encoders' alphabet); that every word a decoder emits is lower-cased or validated lower-case; that after a separator the next word starts " +
			"exactly past that separator's width; that the initialism table consists of non-empty upper-case constants and every scan of it is complete; that wherever a word is cut after an initialism the candidate is the longest one (sorted by descending length, taken from the front, " +
			"with back-off in the recursive split) so that no initialism is shadowed by a shorter one that prefixes it (HTTPS/HTTP, UID/UI: defect D13, fixed); that the Go-identifier decoder sends every all-upper-case word, including the last, through the extractor (D14, fixed).",
		assumptions: []string{"unicode and x/text/cases behave as documented"},
	}
}

func runC19(c *Ctx) {
	c.rule("chain", "(shared with C11) the environment source derives names with the documented casings: flatten encodes UpperCamelCase, the reformatter decodes Go identifiers and encodes UPPER_SNAKE_CASE (re-decoding an all-caps encoding would run initialism extraction on ordinary words)", 5)
	c11EnvChain(c)
	c.rule("field-names-decoded", "in FlattenMangler.getTag the words of a derived name are, per path element, the field's tag or DecodeGoCamelCase of the field's name - nothing else", 2)
	c19FieldNamesDecoded(c, "field-names-decoded")
	c.rule("separator-agree", "for each separator-based scheme the rune/string the encoder joins with equals the rune the decoder splits on", 4)
	c.rule("alphabet-agree", "no decoder's validity check rejects a decimal digit inside a word (encoders emit words over [a-z][a-z0-9]*), and all reject a leading digit the same way", 4)
	c.rule("decoder-lowers", "every word appended by a decoder is the result of strings.ToLower, of the initialism extractor (which lower-cases), or a substring whose every rune was validated lower-case/digit", 8)
	c.rule("skip-matches-width", "after a separator the next word starts at key + 1 for an ASCII separator constant, or key + utf8.RuneLen(separator) for the parameterised decoder; at an upper-case boundary it starts at the key itself", 4)
	c.rule("initialism-table", "the initialism table consists of non-empty, upper-case constants assigned once, and every scan of it is complete (no early exit that depends on the table's order)", 2)
	c.rule("initialism-longest", "wherever a word is cut after a table entry (s[len(x):]) the entry is the longest candidate: candidates come sorted by descending length and are taken from the front (or the scan is first-match over a table in which no entry is preceded by a proper prefix of it); the recursive split backs off to shorter candidates, and the greedy cut is only a fallback after the complete split failed", 4)
	c.rule("tail-flushed", "after a decoder's scan loop a non-empty remainder s[boundary:] is always appended as the last word (the guards of the tail append are evaluated for all boundary <= len(s) <= 3)", 3)
	c.rule("no-text-dropped", "in every decoder loop the word boundary (the index the next word starts at) only advances on paths that have emitted the pending text s[boundary:key], or on which boundary < key is false (nothing pending)", 5)
	c.rule("upper-words-extracted", "in the Go-identifier decoder a word is lower-cased whole only under word != strings.ToUpper(word); all-upper-case words go through the initialism extractor", 2)

	w := c.W
	pkg := "tagformat/caseconversion"
	fn := func(n string) *ssa.Function { return w.fn(pkg, n) }
	c.rule("separator-by-position", "in the encoders that write their separator inside the word loop, whether a separator is written is decided by the word's position (comparisons of the loop index), never by comparing word texts (a word equal to the last one would lose its separator)", 2)
	c19SeparatorByPosition(c, "separator-by-position")

	// ---- separator-agree ---------------------------------------------------------
	encSep := func(f *ssa.Function) (string, bool) {
		for _, i := range allInstrs(f) {
			ci, ok := i.(*ssa.Call)
			if !ok {
				continue
			}
			switch calleeFullName(ci) {
			case "strings.Join":
				return constString(ci.Call.Args[1])
			case "(*strings.Builder).WriteRune", "(*strings.Builder).WriteByte":
				if r, ok := constInt(ci.Call.Args[1]); ok {
					return string(rune(r)), true
				}
			case "(*strings.Builder).WriteString":
				if sep, ok := constString(ci.Call.Args[1]); ok && len([]rune(sep)) == 1 {
					return sep, true
				}
			}
		}
		// ... or a one-character constant operand of a concatenation
		seps := emittedSeparators(f)
		if len(seps) == 1 {
			for r := range seps {
				return string(r), true
			}
		}
		return "", false
	}
	decSep := func(f *ssa.Function) (string, bool) {
		// either passes a rune constant to the shared helper, or compares the range rune with a constant
		for _, i := range allInstrs(f) {
			switch x := i.(type) {
			case *ssa.Call:
				if callee := staticCallee(x); callee != nil && fnName(callee) == "decodeLowerCaseWithSplitChar" {
					if r, ok := constInt(x.Call.Args[0]); ok {
						return string(rune(r)), true
					}
				}
			case *ssa.BinOp:
				if x.Op == token.EQL || x.Op == token.NEQ {
					if r, ok := constInt(x.Y); ok && r > 0 && r < unicode.MaxRune && !strings.Contains(canon(x.X), "len(") {
						if ex, isExt := x.X.(*ssa.Extract); isExt {
							if _, isNext := ex.Tuple.(*ssa.Next); isNext {
								return string(rune(r)), true
							}
						}
					}
				}
			}
		}
		return "", false
	}
	for _, pr := range []struct{ enc, dec string }{
		{"EncodeLowerSnakeCase", "DecodeLowerSnakeCase"}, {"EncodeUpperSnakeCase", "DecodeUpperSnakeCase"},
		{"EncodeKebabCase", "DecodeKebabCase"}, {"EncodeCasePreservingSnakeCase", "DecodeCasePreservingSnakeCase"},
	} {
		e, d := fn(pr.enc), fn(pr.dec)
		if !c.need(e != nil && d != nil, pkg+"."+pr.enc+"/"+pr.dec) {
			continue
		}
		c.analysed(relName(e))
		c.analysed(relName(d))
		es, ok1 := encSep(e)
		ds, ok2 := decSep(d)
		c.check(ok1 && ok2 && es == ds, "separator-agree", pr.enc+"/"+pr.dec, e.Pos(), "encoder joins with "+q(es)+", decoder splits on "+q(ds), "encoder joins with "+q(es)+" but decoder splits on "+q(ds))
	}

	// ---- alphabet-agree / decoder-lowers / skip-matches-width ------------------------------
	decoders := []string{"decodeCamelCase", "decodeLowerCaseWithSplitChar", "DecodeUpperSnakeCase", "DecodeCasePreservingSnakeCase", "decodeGoCamelCase", "extractInitialisms"}
	for _, dn := range decoders {
		f := fn(dn)
		if !c.need(f != nil, pkg+"."+dn) {
			continue
		}
		c.analysed(relName(f))
		name := relName(f)
		// alphabet: error returns inside the rune loop
		pb := &predBuilder{name: func(v ssa.Value) string {
			if ci, ok := v.(*ssa.Call); ok {
				switch calleeFullName(ci) {
				case "unicode.IsDigit":
					if _, inl := ci.Call.Args[0].(*ssa.Extract); inl {
						return "isDigit"
					}
				}
			}
			return ""
		}}
		for _, r := range returnsOf(f) {
			rv := retVals(r)
			if len(rv) != 2 || isNilConst(rv[1]) || !underLoop(r) {
				continue
			}
			// from the loop body entry (the block extracting the rune)
			var body *ssa.BasicBlock
			for b := r.Block(); b != nil; b = b.Idom() {
				for _, i := range b.Instrs {
					if ex, ok := i.(*ssa.Extract); ok {
						if _, isNext := ex.Tuple.(*ssa.Next); isNext {
							body = b
						}
					}
				}
				if body != nil {
					break
				}
			}
			if body == nil {
				continue
			}
			g := pb.pathCond(body, r.Block())
			fb, fi := map[string]bool{}, map[string]bool{}
			atomsOf(g, fb, fi)
			_, counter := forAll(g, nil, func(e env, fv bool) bool { return !fv || (fb["isDigit"] && !e.B["isDigit"]) })
			c.check(counter == "", "alphabet-agree", name+"#rejects", r.Pos(), "a decimal digit inside a word is never rejected", "the decoder rejects digits inside words (words like ipv4 no longer round-trip): "+counter)
		}
		// appends
		for _, i := range allInstrs(f) {
			ci, ok := i.(*ssa.Call)
			if !ok || calleeFullName(ci) != "builtin.append" {
				continue
			}
			els, ok := sliceElems(ci.Call.Args[1], 0)
			okL := true
			why := ""
			if !ok {
				// append(words, other...) : other must come from the extractor
				if call, ok := ci.Call.Args[1].(*ssa.Call); ok && staticCallee(call) != nil && fnName(staticCallee(call)) == "extractInitialisms" {
					why = "words from the initialism extractor (which lower-cases)"
				} else {
					okL = false
				}
			}
			for _, e := range els {
				call, isCall := e.V.(*ssa.Call)
				switch {
				case isCall && calleeFullName(call) == "strings.ToLower":
					why = "strings.ToLower"
				default:
					// raw substring: the function validates every rune lower-case or digit
					if c19ValidatesLower(f) {
						why = "substring of an input validated rune-by-rune as lower-case/digit"
					} else {
						okL = false
					}
				}
			}
			c.check(okL, "decoder-lowers", name+"#append", ci.Pos(), "appended word: "+why, "a decoder appends a word that is neither lower-cased nor validated lower-case")
		}
	}
	// leading digit: the first-rune check of the separator decoders
	for _, dn := range []string{"decodeCamelCase", "decodeLowerCaseWithSplitChar", "DecodeUpperSnakeCase", "DecodeCasePreservingSnakeCase"} {
		f := fn(dn)
		if f == nil {
			continue
		}
		okLead := false
		for _, r := range returnsOf(f) {
			if underLoop(r) || isNilConst(retVals(r)[1]) {
				continue
			}
			for _, ec := range condsDominating(r.Block()) {
				if ci, ok := ec.Cond.(*ssa.Call); ok && ec.Val && calleeFullName(ci) == "unicode.IsDigit" {
					okLead = true
				}
			}
			// `r == RuneError || IsDigit(r)`: the return block has two predecessors
			for _, p := range r.Block().Preds {
				if iff, ok := p.Instrs[len(p.Instrs)-1].(*ssa.If); ok {
					if ci, ok := iff.Cond.(*ssa.Call); ok && calleeFullName(ci) == "unicode.IsDigit" && p.Succs[0] == r.Block() {
						okLead = true
					}
				}
			}
		}
		// ... or, whatever the test is built from (a predicate helper folded back in): whenever IsDigit of the first
		// rune holds, the paths to the error returns before the scan cover it
		if !okLead {
			pb := &predBuilder{name: func(v ssa.Value) string {
				if ci, ok := v.(*ssa.Call); ok && calleeFullName(ci) == "unicode.IsDigit" && !underLoop(ci) {
					return "leadingDigit"
				}
				return ""
			}}
			var g formula = fConst{false}
			for _, r := range returnsOf(f) {
				if underLoop(r) || isNilConst(retVals(r)[1]) {
					continue
				}
				g = mkOr(g, pb.pathCond(f.Blocks[0], r.Block()))
			}
			fb, fi := map[string]bool{}, map[string]bool{}
			atomsOf(g, fb, fi)
			if fb["leadingDigit"] {
				_, counter := forAll(g, nil, func(e env, fv bool) bool { return !e.B["leadingDigit"] || fv })
				okLead = counter == ""
			}
		}
		c.check(okLead, "alphabet-agree", relName(f)+"#leading-digit", f.Pos(), "a leading digit is rejected before the scan", "the decoder does not reject a leading digit like its siblings")
	}

	// ---- skip-matches-width --------------------------------------------------------------------
	for _, dn := range []string{"decodeLowerCaseWithSplitChar", "DecodeUpperSnakeCase", "DecodeCasePreservingSnakeCase", "decodeCamelCase"} {
		f := fn(dn)
		if f == nil {
			continue
		}
		c19Boundary(c, f)
	}

	// ---- initialism-table / initialism-longest ---------------------------------------------------
	c19Initialisms(c, pkg)

	// ---- no-text-dropped ------------------------------------------------------------------------------
	for _, dn := range []string{"decodeGoCamelCase", "decodeCamelCase", "decodeLowerCaseWithSplitChar", "DecodeUpperSnakeCase", "DecodeCasePreservingSnakeCase"} {
		if f := fn(dn); f != nil {
			c19NoTextDropped(c, f)
			c19TailFlushed(c, f, "tail-flushed")
		}
	}

	// ---- upper-words-extracted --------------------------------------------------------------------
	if f := fn("decodeGoCamelCase"); f != nil {
		n := 0
		for _, i := range allInstrs(f) {
			call, ok := i.(*ssa.Call)
			if !ok || calleeFullName(call) != "strings.ToLower" {
				continue
			}
			if !c19FlowsToAppend(call) {
				continue
			}
			n++
			x := call.Call.Args[0]
			okG := false
			for _, ec := range condsDominating(call.Block()) {
				if b, ok := ec.Cond.(*ssa.BinOp); ok && !ec.Val && b.Op == token.EQL || ok && ec.Val && b.Op == token.NEQ {
					for _, pr := range [][2]ssa.Value{{b.X, b.Y}, {b.Y, b.X}} {
						if up, ok := pr[1].(*ssa.Call); ok && calleeFullName(up) == "strings.ToUpper" && sameValue(up.Call.Args[0], pr[0]) && sameValue(pr[0], x) {
							okG = true
						}
					}
				}
			}
			c.check(okG, "upper-words-extracted", relName(f)+"#lower#"+itoa(n), call.Pos(), "the word is lower-cased whole only where word != strings.ToUpper(word)", "the word "+canon(x)+" is emitted lower-cased without the all-upper-case test: a run of initialisms here is never split (the other words of this function go through the initialism extractor)")
		}
	}
}

// c19FlowsToAppend: the string value is appended (as a single element) to a slice.
func c19FlowsToAppend(v ssa.Value) bool {
	for _, r := range *v.Referrers() {
		if st, ok := r.(*ssa.Store); ok && st.Val == v {
			if ia, ok := st.Addr.(*ssa.IndexAddr); ok {
				if a, ok := ia.X.(*ssa.Alloc); ok {
					for _, rr := range *a.Referrers() {
						if sl, ok := rr.(*ssa.Slice); ok {
							for _, r3 := range *sl.Referrers() {
								if call, ok := r3.(*ssa.Call); ok && calleeFullName(call) == "builtin.append" {
									return true
								}
							}
						}
					}
				}
			}
		}
	}
	return false
}

func c19Initialisms(c *Ctx, pkg string) {
	w := c.W
	var table *ssa.Global
	type site struct {
		f  *ssa.Function
		sl *ssa.Slice
		po *prefixOrigin
	}
	var sites []site
	for _, f := range w.funcsIn(pkg) {
		for _, i := range allInstrs(f) {
			sl, ok := i.(*ssa.Slice)
			if !ok || sl.Low == nil || sl.High != nil {
				continue
			}
			call, ok := sl.Low.(*ssa.Call)
			if !ok || calleeFullName(call) != "builtin.len" {
				continue
			}
			po := prefixOriginOf(call.Call.Args[0])
			if po == nil {
				continue
			}
			sites = append(sites, site{f, sl, po})
			table = po.Table
		}
	}
	if table == nil {
		c.undecided("initialism-table", "table", token.NoPos, "no site consumes an element of a package-level table as a prefix (s[len(x):]); the initialism extractor was not recognised")
		return
	}
	consts := w.tableConstants(table)
	okT := len(consts) >= 10
	for _, s := range consts {
		if s == "" || strings.ToUpper(s) != s {
			okT = false
		}
	}
	c.check(okT, "initialism-table", "table", table.Pos(), itoa(len(consts))+" non-empty upper-case constants, assigned once", "the initialism table "+table.Name()+" has an empty, non-constant or non-upper-case entry, or is reassigned")

	// shadowed entries: a proper prefix that precedes its extension in table order
	shadow := ""
	for i, a := range consts {
		for _, b := range consts[i+1:] {
			if a != b && strings.HasPrefix(b, a) && shadow == "" {
				shadow = a + " precedes " + b
			}
		}
	}
	collectors := map[*prefixCollector]*ssa.Function{}
	for k, st := range sites {
		id := relName(st.f) + "#consume"
		if k > 0 && sites[k-1].f == st.f {
			id += "#" + itoa(k)
		}
		switch st.po.Kind {
		case "table":
			// first match in table order
			c.check(shadow == "", "initialism-longest", id, st.sl.Pos(), "first match in table order, and no table entry is preceded by a proper prefix of it", "the word is cut after the first table entry that prefixes it, in table order, and "+shadow+" in "+table.Name()+": the longer initialism can never be decoded (HTTPS -> http, s)")
		case "collector":
			pc := st.po.Collector
			collectors[pc] = staticCallee(st.po.Call)
			okS := pc.Sorted != nil && pc.Less != nil && lessByLenDesc(pc.Less)
			first := false
			if n, ok := constInt(st.po.Index); ok && n == 0 {
				first = true
			}
			if isForwardRangeIndex(st.po.Index) {
				first = true
			}
			c.check(okS && first, "initialism-longest", id, st.sl.Pos(), "candidates come from "+relName(collectors[pc])+", which sorts the matching prefixes by descending length; taken first / in forward order", "the candidate initialisms are not tried longest-first (the collected prefixes must be sorted with len(p[i]) > len(p[j]) and taken from the front): HTTPS would be cut after HTTP")
		}
	}
	// complete scan of the table in each collector / direct scan: no exit from the range loop over the table other than exhaustion
	scanFns := map[*ssa.Function]bool{}
	for _, f := range collectors {
		scanFns[f] = true
	}
	for _, st := range sites {
		if st.po.Kind == "table" {
			scanFns[st.f] = true
		}
	}
	for f := range scanFns {
		var hdr *ssa.BasicBlock
		for _, b := range f.Blocks {
			if !strings.HasPrefix(b.Comment, "rangeindex.loop") {
				continue
			}
			// the loop whose bound is len(table)
			for _, i := range b.Instrs {
				if cmp, ok := i.(*ssa.BinOp); ok && cmp.Op == token.LSS {
					if l, ok := cmp.Y.(*ssa.Call); ok && calleeFullName(l) == "builtin.len" && tableLoad(l.Call.Args[0]) == table {
						hdr = b
					}
				}
			}
		}
		okScan := hdr != nil
		if hdr != nil {
			for _, b := range f.Blocks {
				if b == hdr || !inLoopBody(hdr, b) {
					continue
				}
				for _, s := range b.Succs {
					if s != hdr && !inLoopBody(hdr, s) {
						okScan = false
					}
				}
			}
		}
		c.check(okScan, "initialism-table", "complete-scan@"+relName(f), f.Pos(), "every pass compares the string with every table entry", "the scan of the initialism table in "+relName(f)+" can stop early (the result would depend on the order of the table, which is not sorted)")
	}
	recursive := map[*ssa.Function]bool{}
	defer func() {
		// the greedy (non-recursive) consumption is only a fallback: it is dominated by a failed complete split of the same word
		for _, st := range sites {
			if st.po.Kind != "collector" || recursive[origin(st.f)] || len(recursive) == 0 {
				continue
			}
			okF := false
			for _, ec := range condsDominating(st.sl.Block()) {
				if ex, ok := ec.Cond.(*ssa.Extract); ok && !ec.Val && ex.Index == 1 {
					if call, ok := ex.Tuple.(*ssa.Call); ok && staticCallee(call) != nil && recursive[origin(staticCallee(call))] {
						if p, ok := call.Call.Args[0].(*ssa.Parameter); ok && p.Parent() == st.f {
							okF = true
						}
					}
				}
			}
			c.check(okF, "initialism-longest", relName(st.f)+"#fallback-only", st.sl.Pos(), "the greedy cut is reached only after the complete split of the whole word failed", "the greedy longest-prefix cut can be reached without the complete (backing-off) split having been tried on the whole word: adjacent initialisms such as HTTP+SQL become https, ql")
		}
	}()
	// the complete split is tried with back-off: in the function that recurses on s[len(x):], the loop over candidates is left only by the successful return
	for _, st := range sites {
		if st.po.Kind != "collector" {
			continue
		}
		rec := false
		for _, r := range *st.sl.Referrers() {
			if call, ok := r.(*ssa.Call); ok && staticCallee(call) != nil && origin(staticCallee(call)) == origin(st.f) {
				rec = true
			}
		}
		if !rec {
			continue
		}
		// every return inside the candidate loop is under the recursive call's ok
		okB := true
		n := 0
		for _, r := range returnsOf(st.f) {
			if !underLoop(r) {
				continue
			}
			n++
			guarded := false
			for _, ec := range condsDominating(r.Block()) {
				if ex, ok := ec.Cond.(*ssa.Extract); ok && ec.Val && ex.Index == 1 {
					if call, ok := ex.Tuple.(*ssa.Call); ok && staticCallee(call) != nil && origin(staticCallee(call)) == origin(st.f) {
						guarded = true
					}
				}
			}
			if !guarded {
				okB = false
			}
		}
		recursive[origin(st.f)] = true
		c.check(okB && n > 0, "initialism-longest", relName(st.f)+"#backoff", st.f.Pos(), "the loop over candidate prefixes is left only by the return under the recursive call's ok: a candidate whose rest cannot be split is abandoned for the next shorter one", "the split of a run of initialisms does not back off to a shorter candidate when the rest cannot be split (HTTPSQL would become https, ql)")
	}
}

func q(s string) string { return "'" + s + "'" }

// c19ValidatesLower: the function returns an error for every rune that is
// neither the separator, nor a lower-case letter/digit.
func c19ValidatesLower(f *ssa.Function) bool {
	hasLower, hasErr := false, false
	for _, i := range allInstrs(f) {
		if ci, ok := i.(*ssa.Call); ok && calleeFullName(ci) == "unicode.IsLower" && underLoop(ci) {
			hasLower = true
		}
	}
	for _, r := range returnsOf(f) {
		if underLoop(r) && !isNilConst(retVals(r)[1]) {
			hasErr = true
		}
	}
	return hasLower && hasErr
}

// c19Boundary: the loop-carried word start only takes the values 0, key (at an
// upper-case boundary), key+1 (ASCII separator constant) or key+RuneLen(sep).
func c19Boundary(c *Ctx, f *ssa.Function) {
	name := relName(f)
	var lb *ssa.Phi
	for _, i := range allInstrs(f) {
		p, ok := i.(*ssa.Phi)
		if !ok || !isIntegral(p.Type()) {
			continue
		}
		hdr := false
		for _, pr := range p.Block().Preds {
			if p.Block().Dominates(pr) {
				hdr = true
			}
		}
		if hdr && p.Comment != "" && !strings.Contains(p.Comment, "range") {
			lb = p
		}
	}
	if lb == nil {
		c.bad("skip-matches-width", name, f.Pos(), "no loop-carried word boundary found")
		return
	}
	isKey := func(v ssa.Value) bool {
		e, ok := v.(*ssa.Extract)
		if !ok || e.Index != 1 {
			return false
		}
		_, ok = e.Tuple.(*ssa.Next)
		return ok
	}
	bad := ""
	seen := map[ssa.Value]bool{}
	var walk func(v ssa.Value, at *ssa.BasicBlock)
	walk = func(v ssa.Value, at *ssa.BasicBlock) {
		if seen[v] || v == ssa.Value(lb) {
			return
		}
		seen[v] = true
		switch x := v.(type) {
		case *ssa.Phi:
			for ei, e := range x.Edges {
				walk(e, x.Block().Preds[ei])
			}
			return
		case *ssa.Const:
			if n, ok := constInt(x); ok && n == 0 {
				return
			}
		case *ssa.Extract:
			if isKey(x) {
				return // boundary at the rune itself (upper-case start)
			}
		case *ssa.BinOp:
			if x.Op == token.ADD && isKey(x.X) {
				if n, ok := constInt(x.Y); ok && n == 1 {
					// under rune == ASCII constant
					for _, ec := range condsDominating(x.Block()) {
						if b, ok := ec.Cond.(*ssa.BinOp); ok && ((b.Op == token.EQL && ec.Val) || (b.Op == token.NEQ && !ec.Val)) {
							if r, ok := constInt(b.Y); ok && r > 0 && r < 128 {
								return
							}
						}
					}
					bad = "word start key+1 is not under a comparison of the rune with an ASCII constant"
					return
				}
				if call, ok := x.Y.(*ssa.Call); ok && calleeFullName(call) == "unicode/utf8.RuneLen" {
					for _, ec := range condsDominating(x.Block()) {
						if b, ok := ec.Cond.(*ssa.BinOp); ok && b.Op == token.EQL && ec.Val && (b.Y == call.Call.Args[0] || b.X == call.Call.Args[0]) {
							return
						}
					}
					bad = "word start key+RuneLen(x) is not under rune == x"
					return
				}
			}
		}
		bad = "the word boundary is assigned " + canon(v)
	}
	for ei, e := range lb.Edges {
		walk(e, lb.Block().Preds[ei])
	}
	c.check(bad == "", "skip-matches-width", name, lb.Pos(), "word starts are 0, the key of an upper-case rune, key+1 after an ASCII separator, or key+RuneLen(separator)", bad)
}

// c19NoTextDropped: the loop-carried start-of-word index of a decoder is only
// advanced after the pending text was appended, or when nothing is pending.
func c19NoTextDropped(c *Ctx, f *ssa.Function) {
	name := relName(f)
	var str ssa.Value
	for _, p := range f.Params {
		if b, ok := p.Type().Underlying().(*types.Basic); ok && b.Kind() == types.String {
			str = p // the last string parameter is the decoded text
		}
	}
	n := 0
	for _, hb := range f.Blocks {
		if !strings.HasPrefix(hb.Comment, "rangeiter.loop") {
			continue
		}
		for _, i := range hb.Instrs {
			p, ok := i.(*ssa.Phi)
			if !ok {
				break
			}
			if b, ok := p.Type().Underlying().(*types.Basic); !ok || b.Kind() != types.Int {
				continue
			}
			// used as the low bound of a slice of the text
			isBoundary := false
			var emits = map[*ssa.BasicBlock]bool{}
			for _, r := range *p.Referrers() {
				sl, ok := r.(*ssa.Slice)
				if !ok || sl.Low != ssa.Value(p) || !sameValue(sl.X, str) {
					continue
				}
				isBoundary = true
				// blocks in which (something derived from) that slice is appended
				var walk func(v ssa.Value, d int)
				walk = func(v ssa.Value, d int) {
					if d > 4 {
						return
					}
					for _, u := range *v.Referrers() {
						switch x := u.(type) {
						case *ssa.Call:
							if calleeFullName(x) == "builtin.append" {
								emits[x.Block()] = true
							} else if x.Type() != nil {
								walk(x, d+1)
							}
						case *ssa.Store:
							if ia, ok := x.Addr.(*ssa.IndexAddr); ok {
								if a, ok := ia.X.(*ssa.Alloc); ok {
									for _, rr := range *a.Referrers() {
										if s2, ok := rr.(*ssa.Slice); ok {
											walk(s2, d+1)
										}
									}
								}
							}
						}
					}
				}
				walk(sl, 0)
			}
			if !isBoundary {
				continue
			}
			// the range key
			var key ssa.Value
			var body *ssa.BasicBlock
			for _, s := range hb.Succs {
				if strings.HasPrefix(s.Comment, "rangeiter.body") {
					body = s
				}
			}
			if body == nil {
				continue
			}
			for _, bi := range body.Instrs {
				if ex, ok := bi.(*ssa.Extract); ok && ex.Index == 1 {
					key = ex
				}
			}
			pb := &predBuilder{name: func(v ssa.Value) string {
				if b, ok := v.(*ssa.BinOp); ok && key != nil {
					if b.Op == token.LSS && b.X == ssa.Value(p) && b.Y == key || b.Op == token.GTR && b.X == key && b.Y == ssa.Value(p) {
						return "pending"
					}
				}
				return ""
			}}
			for ei, e := range p.Edges {
				pred := hb.Preds[ei]
				if e == ssa.Value(p) || !hb.Dominates(pred) {
					continue
				}
				n++
				g := pb.pathCondAvoid(body, pred, emits)
				fb, fi := map[string]bool{}, map[string]bool{}
				atomsOf(g, fb, fi)
				_, counter := forAll(g, nil, func(ev env, fv bool) bool { return !fv || fb["pending"] && !ev.B["pending"] })
				pos := token.NoPos
				for _, pi := range pred.Instrs {
					if pi.Pos().IsValid() {
						pos = pi.Pos()
					}
				}
				if !pos.IsValid() {
					pos = p.Pos()
				}
				c.check(counter == "", "no-text-dropped", name+"#advance#"+itoa(n), pos, "the boundary advances to "+canon(e)+" only after s[boundary:key] was appended or when boundary < key is false",
					"the word boundary advances to "+canon(e)+" on a path that has not emitted the pending text s[boundary:key] (those runes are lost from the decoded words): "+counter)
			}
		}
	}
	if n == 0 {
		c.undecided("no-text-dropped", name, f.Pos(), "no loop-carried word boundary found in this decoder")
	}
}

// c19FieldNamesDecoded: the words a derived (env / flag) name is built from are, per path element, either the
// field's tag or the Go-identifier decoding of the field's name: in FlattenMangler.getTag nothing else is appended
// to the path words (a shortcut that takes an all-upper-case name as one word turns JSONAPI into `jsonapi`
// instead of `json`,`api`).
func c19FieldNamesDecoded(c *Ctx, rule string) {
	w := c.W
	f := w.fn("transform", "FlattenMangler.getTag")
	if !c.need(f != nil, "transform.FlattenMangler.getTag") {
		return
	}
	c.analysed(relName(f))
	n := 0
	for _, i := range allInstrs(f) {
		ci, ok := i.(*ssa.Call)
		if !ok || calleeFullName(ci) != "builtin.append" || len(ci.Call.Args) != 2 {
			continue
		}
		if _, isStrs := ci.Type().Underlying().(*types.Slice); !isStrs || types.TypeString(ci.Type(), nil) != "[]string" {
			continue
		}
		n++
		added := livePhiValue(ci.Call.Args[1], ci.Block()) // the words as they come out of a folded helper, error outcome tested away
		name := relName(f) + "#append#" + itoa(n)
		// (ii) the decoder's result, spread
		if ex, ok := stripConv(added).(*ssa.Extract); ok && ex.Index == 0 {
			if dc, ok := ex.Tuple.(*ssa.Call); ok && strings.HasSuffix(calleeFullName(dc), "caseconversion.DecodeGoCamelCase") {
				_, isName := loadOfFieldNamed(dc.Call.Args[0], "Name")
				c.check(isName, rule, name, ci.Pos(), "the field name's words come from DecodeGoCamelCase(sf.Name)", "the Go-identifier decoder is applied to "+canon(dc.Call.Args[0])+", not to the field's name")
				continue
			}
		}
		// (i) the tag looked up on the field
		if els, ok := sliceElems(added, 0); ok && len(els) == 1 {
			if ex, ok := els[0].V.(*ssa.Extract); ok && ex.Index == 0 {
				if lk, ok := ex.Tuple.(*ssa.Call); ok && calleeFullName(lk) == "(reflect.StructTag).Lookup" {
					c.ok(rule, name, ci.Pos(), "the tag given on the field is one path element")
					continue
				}
			}
		}
		c.bad(rule, name, ci.Pos(), "%s is appended to the words of the derived name: a field name reaches the name without going through the Go-identifier decoder (an all-upper-case name such as JSONAPI or HTTPSID is then one word, and the env variable JSON_API is ignored)", canon(added))
	}
	if n == 0 {
		c.bad(rule, relName(f), f.Pos(), "getTag appends nothing to the path words")
	}
}

// c19TailFlushed: after a decoder's scan loop the remainder s[boundary:] is a word of the identifier whenever it
// is not empty. The rule evaluates the conditions guarding the tail append for every 0 <= boundary <= len(s) <= 3
// (boundary and len(s) are the only integers they may mention, through +/- constants and len of the remainder):
// whenever len(s) - boundary > 0 all of them must hold. (`boundary < len(s)-1` drops a one-letter last word.)
func c19TailFlushed(c *Ctx, f *ssa.Function, rule string) {
	if len(f.Params) == 0 {
		return
	}
	s := ssa.Value(f.Params[0])
	hdrs := loopHeaders(f)
	if len(hdrs) == 0 {
		return
	}
	// the tail: a Slice s[L:] that is not in a loop
	for _, i := range allInstrs(f) {
		sl, ok := i.(*ssa.Slice)
		if !ok || sl.X != s || sl.High != nil || sl.Low == nil || inLoop(sl) {
			continue
		}
		L := sl.Low
		// appended (possibly lower-cased) to the words
		var app *ssa.Call
		for _, j := range allInstrs(f) {
			ci, ok := j.(*ssa.Call)
			if !ok || calleeFullName(ci) != "builtin.append" || inLoop(ci) {
				continue
			}
			els, ok := sliceElems(ci.Call.Args[1], 0)
			if !ok || len(els) != 1 {
				continue
			}
			if derivesAny(els[0].V, func(v ssa.Value) bool {
				x, ok := v.(*ssa.Slice)
				return ok && x.X == s && x.High == nil && x.Low == L
			}, &flowOpts{through: map[string]bool{"strings.ToLower": true}}) {
				app = ci
			}
		}
		if app == nil {
			continue
		}
		var eval func(v ssa.Value, l, n int64) (int64, bool)
		eval = func(v ssa.Value, l, n int64) (int64, bool) {
			v = stripConv(v)
			if v == L {
				return l, true
			}
			if k, ok := constInt(v); ok {
				return k, true
			}
			switch x := v.(type) {
			case *ssa.Call:
				if calleeFullName(x) == "builtin.len" {
					a := x.Call.Args[0]
					if a == s {
						return n, true
					}
					if rem := remainderOf(a, s, L); rem {
						return n - l, true
					}
				}
			case *ssa.BinOp:
				a, ok1 := eval(x.X, l, n)
				b, ok2 := eval(x.Y, l, n)
				if ok1 && ok2 {
					switch x.Op {
					case token.ADD:
						return a + b, true
					case token.SUB:
						return a - b, true
					}
				}
			}
			return 0, false
		}
		hdrDom := map[*ssa.If]bool{}
		for _, h := range hdrs {
			for _, ec := range condsDominating(h) {
				hdrDom[ec.If] = true
			}
			// the loop's own exit condition is not a guard of the tail
			if iff, ok := h.Instrs[len(h.Instrs)-1].(*ssa.If); ok {
				hdrDom[iff] = true
			}
		}
		type guard struct {
			b   *ssa.BinOp
			val bool
			str bool // remainder != ""
		}
		var guards []guard
		decided := true
		for _, ec := range condsDominating(app.Block()) {
			if hdrDom[ec.If] {
				continue
			}
			b, ok := ec.Cond.(*ssa.BinOp)
			if !ok {
				decided = false
				continue
			}
			// remainder == "" / != ""
			if cs, ok := constString(b.Y); ok && cs == "" && remainderOf(b.X, s, L) {
				guards = append(guards, guard{b: b, val: ec.Val, str: true})
				continue
			}
			if _, ok1 := eval(b.X, 0, 0); ok1 {
				if _, ok2 := eval(b.Y, 0, 0); ok2 {
					guards = append(guards, guard{b: b, val: ec.Val})
					continue
				}
			}
			decided = false
		}
		name := relName(f) + "#tail"
		if !decided {
			c.okTrivial(rule, name, app.Pos(), "the tail append is guarded by a condition over other quantities than the boundary and len(s): not decided")
			continue
		}
		counter := ""
		for n := int64(0); n <= 3 && counter == ""; n++ {
			for l := int64(0); l <= n && counter == ""; l++ {
				if n-l <= 0 {
					continue
				}
				for _, g := range guards {
					var holds bool
					if g.str {
						holds = (n-l == 0) == (g.b.Op == token.EQL)
					} else {
						a, _ := eval(g.b.X, l, n)
						b, _ := eval(g.b.Y, l, n)
						switch g.b.Op {
						case token.LSS:
							holds = a < b
						case token.LEQ:
							holds = a <= b
						case token.GTR:
							holds = a > b
						case token.GEQ:
							holds = a >= b
						case token.EQL:
							holds = a == b
						case token.NEQ:
							holds = a != b
						}
					}
					if holds != g.val {
						counter = "boundary=" + itoa(int(l)) + ", len(s)=" + itoa(int(n))
					}
				}
			}
		}
		c.check(counter == "", rule, name, app.Pos(), "a non-empty remainder s[boundary:] is always appended as the last word ("+itoa(len(guards))+" guard(s), all boundary <= len(s) <= 3)",
			"the last word is dropped although the remainder is not empty, e.g. for "+counter+": an identifier whose last word has that length decodes without it")
	}
}

// remainderOf: v is s[L:] (possibly lower-cased).
func remainderOf(v, s, L ssa.Value) bool {
	return derivesAny(v, func(x ssa.Value) bool {
		sl, ok := x.(*ssa.Slice)
		return ok && sl.X == s && sl.High == nil && sl.Low == L
	}, &flowOpts{through: map[string]bool{"strings.ToLower": true}}) && func() bool {
		// no further slicing in between
		_, isSlice := v.(*ssa.Slice)
		if isSlice {
			return true
		}
		if c, ok := v.(*ssa.Call); ok && calleeFullName(c) == "strings.ToLower" {
			return true
		}
		return false
	}()
}

// c19SeparatorByPosition: see the rule text.
func c19SeparatorByPosition(c *Ctx, rule string) {
	w := c.W
	n := 0
	for _, f := range w.funcsIn("tagformat/caseconversion") {
		if !strings.HasPrefix(fnName(f), "Encode") || len(f.Blocks) == 0 {
			continue
		}
		for _, i := range allInstrs(f) {
			ci, ok := i.(*ssa.Call)
			if ok && calleeFullName(ci) == "strings.Join" {
				if _, isConst := constString(ci.Call.Args[1]); isConst {
					// strings.Join puts its separator between consecutive elements: by position, by construction
					n++
					c.analysed(relName(f))
					c.okTrivial(rule, relName(f)+"#separator", ci.Pos(), "the separator is put between consecutive words by strings.Join")
					continue
				}
			}
			if !ok || !inLoop(ci) {
				continue
			}
			nm := calleeFullName(ci)
			isSep := false
			switch nm {
			case "(*strings.Builder).WriteRune", "(*strings.Builder).WriteByte":
				_, isSep = constInt(ci.Call.Args[1])
			case "(*strings.Builder).WriteString":
				_, isSep = constString(ci.Call.Args[1])
			}
			if !isSep {
				continue
			}
			n++
			c.analysed(relName(f))
			entry := loopBodyEntry(ci.Block())
			if entry == nil {
				continue
			}
			pb := &predBuilder{}
			g := pb.pathCond(entry, ci.Block())
			fb, fi := map[string]bool{}, map[string]bool{}
			atomsOf(g, fb, fi)
			bad := ""
			for a := range fb {
				if strings.HasPrefix(a, "eq(") {
					bad = a
				}
			}
			c.check(bad == "", rule, relName(f)+"#separator", ci.Pos(), "the separator is written under conditions on the position only ("+g.String()+")",
				"whether the separator is written depends on a comparison of texts ("+bad+"): a word equal to the one it is compared with loses (or gains) its separator, and the encoding no longer decodes to the same words")
		}
	}
	if n == 0 {
		c.okTrivial(rule, "encoders", 0, "no encoder writes a separator inside a loop")
	}
}
