package main

import (
	"go/token"
	"go/types"

	"golang.org/x/tools/go/ssa"
)

func init() {
	props["C09"] = &propMeta{
		run: runC09,
		explanation: "The delayed-verification mode is a two-bit state (delay in force, suppress option) plus the enable transition; every decision in the code is a boolean function of those bits. The check enumerates all Verify call sites " +
			"and decides each guard, the flag's only transitions, the suppression predicates for new-config events and source-reported errors, the unconditional delivery of error events by the callback loop, and the provenance of every " +
			"value EnableVerification can return, by reaching-condition truth tables, dominance and def-use flow. Not decided: user Verify behaviour; timing.",
		assumptions: []string{"Params fields are not mutated by users after Config (they are copied into the Dials)"},
	}
}

func runC09(c *Ctx) {
	c.rule("reply-capacity", "(shared with C08) every EnableVerification request makes its own reply channel with room for the answer: the verdict a call returns is the verdict on the config installed when the monitor handled that very request", 2)
	c.rule("atomic-pair", "(shared with C05/C06) the (config, serial) pair EnableVerification returns on its no-monitor paths comes from one atomic load in ViewVersion", 2)
	c.rule("verify-sites", "Verify is invoked only at the known sites, each under its exact guard: Config (isVerified && !Skip && !Delay), the re-stack (isVerified && !skipVerify), the monitor's enable helper (only when called, which the monitor does only while skipVerify), and the no-monitor fast path of EnableVerification (Delay && no monitor && isVerified)", 4)
	c.rule("flag-transitions", "skipVerify starts as DelayInitialVerification and is only ever reassigned !helper(...); the helper returns true exactly when the installed config is not a VerifiedConfig or Verify returned nil, and false (delay stays in force) otherwise; the monitor calls the helper only while skipVerify", 4)
	c.rule("enable-result", "every value EnableVerification or the monitor's replies can hand back with a nil error is the config and serial of one ViewVersion call - the one Verify was invoked on; error returns carry a nil config; the API returns exactly the fields of the monitor's reply", 6)
	c.rule("newcfg-suppression", "newConfigEvent.globalCBsSuppressed == skipVerify && CallGlobalCallbacksAfterVerificationEnabled (truth table)", 1)
	c.rule("source-error-delivery", "a source-reported error becomes an error event exactly when !(skipVerify && CallGlobalCallbacksAfterVerificationEnabled) (truth table)", 1)
	c.rule("error-cb-unconditional", "the callback loop calls OnWatchedError for every error event when it is non-nil, and OnNewConfig exactly when non-nil and not suppressed", 2)

	c.rule("store-after-verify", "(shared with C04) the update path's store/verify tables", 5)
	c.rule("publish-after-store", "(shared with C04) publication follows the store", 3)
	c.rule("reject-reports", "(shared with C04) stacking and verification errors of an update are submitted to the error callback on every path, whatever the delay state: OnWatchedError is withheld only for source-reported errors while suppressed", 6)
	c.rule("params-read-only", "the verification / callback fields of Params are never assigned inside the library", 1)
	c.rule("ez-suppression", "the ez entry points request delayed verification and suppression of global callbacks unconditionally (so that the precise-suppression clause is what ez users get)", 2)
	k := loadCore(c)
	if !k.ok {
		return
	}
	c05Atomic(c, k)
	c08ReplyChannels(c)
	c18ParamsOnly(c, "ez-suppression")
	w := c.W
	m := k.monitor
	c.analysed(relName(m))
	c.analysed(relName(k.enable))
	c.analysed(relName(k.config))

	// the skipVerify value as passed to the storing function
	args, origins := k.skipFlagOrigins()
	isSkip := func(v ssa.Value) bool {
		for _, a := range args {
			if v == a {
				return true
			}
		}
		return false
	}
	var helper *ssa.Function
	for _, o := range origins {
		if o.Kind == "not-call" {
			helper = o.Fn
		}
	}

	// ---- verify-sites --------------------------------------------------------
	sites := map[*ssa.Function]int{}
	for _, f := range w.Funcs {
		if k.verifyWrapOf(f) != nil {
			continue // a verify wrapper: its invoke is attributed to the functions that call it
		}
		if n := len(k.verifySites(f)); n > 0 {
			sites[origin(f)] += n
		}
	}
	for f, n := range sites {
		known := f == k.config || f == k.enable || f == helper
		for _, sf := range k.storeFns {
			if f == sf {
				known = true
			}
		}
		c.check(known && n == 1, "verify-sites", relName(f)+"#site", f.Pos(), "known Verify site", "unexpected Verify call site (or several in one function): verification may run while the delay is in force")
	}
	// Config + re-stack guards (same tables as C04)
	c04InitialVerifyGuardOnly(c, k, "verify-sites")
	for _, sf := range k.storeFns {
		c09RestackGuard(c, k, sf, "verify-sites")
	}
	c09FastpathGuard(c, k, "verify-sites")

	// ---- flag-transitions ------------------------------------------------------------
	k.checkSkipFlag("flag-transitions")
	if helper == nil {
		c.bad("flag-transitions", relName(m)+"#helper", m.Pos(), "skipVerify is never reassigned from an enable helper: verification can never be switched on")
	} else {
		c.analysed(relName(helper))
		// the helper is called only while skipVerify
		k.checkEnableHelperOnlyWhileSkipping("flag-transitions")
		// helper result table
		vis := k.verifySites(helper)
		if len(vis) != 1 {
			c.bad("flag-transitions", relName(helper)+"#result", helper.Pos(), "the enable helper has %d Verify invokes, want 1", len(vis))
		} else {
			vi := vis[0].Call
			pb := k.withSites(&predBuilder{name: k.namer(func(v ssa.Value) string {
				if v == ssa.Value(vi) && vis[0].wrap == nil {
					return "verifyErr"
				}
				return ""
			})}, vis)
			var trueF formula = fConst{false}
			okConst := true
			for _, r := range returnsOf(helper) {
				rv := retVals(r)
				cst, ok := rv[0].(*ssa.Const)
				if !ok || cst.Value == nil {
					okConst = false
					continue
				}
				if cst.Value.ExactString() == "true" {
					trueF = mkOr(trueF, pb.pathCond(helper.Blocks[0], r.Block()))
				}
			}
			if !okConst {
				c.undecided("flag-transitions", relName(helper)+"#result", helper.Pos(), "the enable helper returns non-constant booleans")
			} else {
				c.checkTable("flag-transitions", relName(helper)+"#result", helper.Pos(), trueF, []string{"isVerified", "isnil(verifyErr)"}, selAtomsOf(trueF),
					"returns true iff !isVerified || Verify()==nil",
					func(e env) bool { return !e.B["isVerified"] || e.B["isnil(verifyErr)"] })
			}
		}
	}

	// ---- enable-result --------------------------------------------------------------------
	c09EnableResult(c, k, helper)

	// ---- newcfg-suppression -------------------------------------------------------------------
	for _, i := range allInstrs(k.frame().fn) {
		al, ok := i.(*ssa.Alloc)
		if !ok || litTypeName(al) != ".newConfigEvent" {
			continue
		}
		v := litField(al, "globalCBsSuppressed")
		if v == nil {
			c.bad("newcfg-suppression", relName(m), al.Pos(), "newConfigEvent.globalCBsSuppressed is not set")
			continue
		}
		pb := &predBuilder{name: k.namer(func(x ssa.Value) string {
			if isSkip(x) {
				return "skipVerify"
			}
			return ""
		})}
		g := pb.valueFormula(v, 0)
		c.checkTable("newcfg-suppression", relName(m), al.Pos(), g, []string{"skipVerify", "Params.CallGlobalCallbacksAfterVerificationEnabled"}, nil,
			"skipVerify && option", func(e env) bool {
				return e.B["skipVerify"] && e.B["Params.CallGlobalCallbacksAfterVerificationEnabled"]
			})
	}

	// ---- source-error-delivery --------------------------------------------------------------------
	repArm := eventArm(m, ".watchErrorReport")
	if c.need(repArm != nil, "the watchErrorReport arm of the monitor") {
		found := false
		for _, i := range allInstrs(m) {
			al, ok := i.(*ssa.Alloc)
			if !ok || litTypeName(al) != ".watchErrorEvent" || !inArm(repArm, al.Block()) {
				continue
			}
			found = true
			pb := &predBuilder{name: k.namer(func(x ssa.Value) string {
				if isSkip(x) {
					return "skipVerify"
				}
				return ""
			})}
			// the submit call using this literal
			var site ssa.Instruction = al
			for _, j := range allInstrs(m) {
				if ci, ok := j.(*ssa.Call); ok && inArm(repArm, ci.Block()) {
					for _, a := range ci.Call.Args {
						if allocOf(a) == al {
							site = ci
						}
					}
				}
			}
			g := pb.pathCond(repArm.entry, site.Block())
			c.checkTable("source-error-delivery", relName(m), site.Pos(), g, []string{"skipVerify", "Params.CallGlobalCallbacksAfterVerificationEnabled"}, nil,
				"!(skipVerify && option)", func(e env) bool {
					return !(e.B["skipVerify"] && e.B["Params.CallGlobalCallbacksAfterVerificationEnabled"])
				})
			// the delivered error wraps the reported one, old config is the current view
			errV := litField(al, "err")
			okErr := errV != nil && errDerives(errV, func(x ssa.Value) bool {
				b, ok := loadOfTypeField(x, ".watchErrorReport", "err")
				return ok && b == repArm.ev
			})
			oc := litField(al, "oldConfig")
			c.check(okErr && oc != nil && isCallToFn(oc, k.view), "source-error-delivery", relName(m)+"#payload", al.Pos(),
				"the event carries the reported error (wrapped) and the current view", "the event does not carry the reported error and the current view")
		}
		if !found {
			c.bad("source-error-delivery", relName(m), m.Pos(), "source-reported errors are never turned into error events")
		}
	}

	// ---- error-cb-unconditional ---------------------------------------------------------------------
	f := k.cbLoop
	errArm := eventArm(f, ".watchErrorEvent")
	newArm := eventArm(f, ".newConfigEvent")
	if c.need(errArm != nil && newArm != nil, "callback loop arms") {
		for _, i := range allInstrs(f) {
			ci, ok := i.(*ssa.Call)
			if !ok || !isHandlerCall(ci) {
				continue
			}
			switch {
			case inArm(errArm, ci.Block()):
				pb := &predBuilder{name: func(v ssa.Value) string {
					if _, ok := loadOfTypeField(v, ".Params", "OnWatchedError"); ok {
						return "OnWatchedError"
					}
					return ""
				}}
				g := pb.pathCond(errArm.entry, ci.Block())
				c.checkTable("error-cb-unconditional", relName(f)+"#OnWatchedError", ci.Pos(), g, []string{"isnil(OnWatchedError)"}, nil,
					"OnWatchedError != nil", func(e env) bool { return !e.B["isnil(OnWatchedError)"] })
			case inArm(newArm, ci.Block()) && handlerTypeName(ci.Call.Value.Type()) == "NewConfigHandler":
				if _, isHandle := loadOfTypeField(ci.Call.Value, ".userCallbackHandle", "cb"); isHandle {
					continue
				}
				pb := &predBuilder{name: func(v ssa.Value) string {
					if _, ok := loadOfTypeField(v, ".Params", "OnNewConfig"); ok {
						return "OnNewConfig"
					}
					if b, ok := loadOfTypeField(v, ".newConfigEvent", "globalCBsSuppressed"); ok && b == newArm.ev {
						return "suppressed"
					}
					return ""
				}}
				g := pb.pathCond(newArm.entry, ci.Block())
				c.checkTable("error-cb-unconditional", relName(f)+"#OnNewConfig", ci.Pos(), g, []string{"isnil(OnNewConfig)", "suppressed"}, nil,
					"OnNewConfig != nil && !suppressed", func(e env) bool { return !e.B["isnil(OnNewConfig)"] && !e.B["suppressed"] })
			}
		}
	}
	for _, sf := range k.storeFns {
		c04StoreFn(c, k, sf)
	}
	k.checkParamsReadOnly("params-read-only")
}

// c04InitialVerifyGuardOnly: the guard table of Config's Verify under another rule.
func c04InitialVerifyGuardOnly(c *Ctx, k *core, rule string) {
	f := k.config
	vis := k.verifySites(f)
	if len(vis) != 1 {
		c.bad(rule, relName(f)+"#guard", f.Pos(), "Config has %d Verify invokes, want 1", len(vis))
		return
	}
	vi := vis[0].Call
	if vis[0].Recv == nil {
		c.undecided(rule, relName(f)+"#guard", vi.Pos(), "Verify receiver is not a comma-ok assertion")
		return
	}
	pb := k.withSites(&predBuilder{name: k.namer(nil)}, vis)
	g := k.siteGuard(pb, vis[0], c04GuardFrom(pb, vis[0]))
	c.checkTable(rule, relName(f)+"#guard", vi.Pos(), g,
		[]string{"isVerified", "Params.SkipInitialVerification", "Params.DelayInitialVerification"}, nil, "isVerified && !Skip && !Delay",
		func(e env) bool {
			return e.B["isVerified"] && !e.B["Params.SkipInitialVerification"] && !e.B["Params.DelayInitialVerification"]
		})
}

func c09RestackGuard(c *Ctx, k *core, f *ssa.Function, rule string) {
	vis := k.verifySites(f)
	if len(vis) != 1 {
		c.bad(rule, relName(f)+"#guard", f.Pos(), "%d Verify invokes, want 1", len(vis))
		return
	}
	vi := vis[0].Call
	if vis[0].Recv == nil {
		c.undecided(rule, relName(f)+"#guard", vi.Pos(), "Verify receiver is not a comma-ok assertion")
		return
	}
	pb := k.withSites(&predBuilder{name: k.namer(func(v ssa.Value) string {
		if p, ok := v.(*ssa.Parameter); ok && p.Parent() == f {
			if b, ok := p.Type().Underlying().(*types.Basic); ok && b.Kind() == types.Bool {
				return "skipVerify"
			}
		}
		return ""
	})}, vis)
	g := k.siteGuard(pb, vis[0], c04GuardFrom(pb, vis[0]))
	c.checkTable(rule, relName(f)+"#guard", vi.Pos(), g, []string{"isVerified", "skipVerify"}, nil, "isVerified && !skipVerify",
		func(e env) bool { return e.B["isVerified"] && !e.B["skipVerify"] })
}

// vvParts: a, b are Extract #0 / #1 of the same ViewVersion call.
func (k *core) vvCall(v ssa.Value, idx int) *ssa.Call {
	ex, ok := stripConv(v).(*ssa.Extract)
	if !ok || ex.Index != idx {
		return nil
	}
	call, ok := ex.Tuple.(*ssa.Call)
	if !ok || staticCallee(call) != origin(k.viewVersion) {
		return nil
	}
	return call
}

func isZeroConst(v ssa.Value) bool {
	c, ok := stripConv(v).(*ssa.Const)
	return ok && (c.IsNil() || c.Value == nil)
}

func c09EnableResult(c *Ctx, k *core, helper *ssa.Function) {
	w := c.W
	// (1) replies built on the monitor side
	for _, f := range []*ssa.Function{k.monitor, helper} {
		if f == nil {
			continue
		}
		vis := k.verifySites(f)
		for _, i := range allInstrs(f) {
			al, ok := i.(*ssa.Alloc)
			if !ok || litTypeName(al) != ".verifyEnableResp" {
				continue
			}
			// the places the reply is read as a whole (sent): one for a literal; several for a variable filled in steps
			var uses []ssa.Instruction
			for _, r := range *al.Referrers() {
				if ld, ok := r.(*ssa.UnOp); ok && ld.Op == token.MUL {
					uses = append(uses, ld)
				}
			}
			if len(uses) == 0 {
				uses = []ssa.Instruction{nil}
			}
			for _, use := range uses {
				at := al.Block()
				e, v, tok := litField(al, "err"), litField(al, "v"), litField(al, "tok")
				if use != nil {
					at = use.Block()
					zc := func(nm string) ssa.Value {
						x, zero := litFieldAt(al, nm, use)
						if zero {
							fa := fieldTypeOf(al, nm)
							if fa != nil {
								return ssa.NewConst(nil, fa)
							}
						}
						return x
					}
					e, v, tok = zc("err"), zc("v"), zc("tok")
				}
				// values that come out of a folded helper as joined results are taken on their live outcome
				if e != nil {
					e = livePhiValue(e, at)
				}
				if v != nil {
					v = livePhiValue(v, at)
				}
				if tok != nil {
					tok = livePhiValue(tok, at)
				}
				name := relName(f) + "#reply"
				switch {
				case e == nil || isNilConst(e):
					cv, ct := k.vvCall(v, 0), k.vvCall(tok, 1)
					okp := cv != nil && cv == ct
					// and if this function verifies, it verified that very config
					if okp && len(vis) == 1 {
						okp = vis[0].Recv != nil && recvIs(vis[0].Recv, func(x ssa.Value) bool { return k.vvCall(x, 0) == cv })
						// success reply only where Verify returned nil or the config is not verifiable
						pb := k.withSites(&predBuilder{name: k.namer(func(x ssa.Value) string {
							if x == ssa.Value(vis[0].Call) && vis[0].wrap == nil {
								return "verifyErr"
							}
							return ""
						})}, vis)
						g := pb.pathCond(f.Blocks[0], at)
						r := compareTable(g, []string{"isVerified", "isnil(verifyErr)"}, selAtomsOf(g), func(en env) bool { return !en.B["isVerified"] || en.B["isnil(verifyErr)"] })
						if len(r.Unknown) > 0 || r.Mismatch != "" {
							okp = false
						}
					}
					c.check(okp, "enable-result", name+"-success", al.Pos(),
						"success reply carries the config and serial of the one ViewVersion call that was verified", "a success reply does not carry the (config, serial) pair that was verified")
				default:
					c.check(isZeroConst(v) && knownNil(at, e, false), "enable-result", name+"-failure", al.Pos(),
						"failure reply carries the Verify error and no config", "a failure reply carries a config, or its error is not known non-nil")
				}
			}
		}
	}
	// (2) returns of EnableVerification
	f := k.enable
	vis := k.verifySites(f)
	// the reply received from the monitor
	var reply ssa.Value
	for _, i := range allInstrs(f) {
		if sel, ok := i.(*ssa.Select); ok {
			idx := 2
			for _, st := range sel.States {
				if st.Dir == types.RecvOnly {
					if ch, ok := st.Chan.Type().Underlying().(*types.Chan); ok && namedTypeName(ch.Elem()) == ".verifyEnableResp" {
						for _, r := range *sel.Referrers() {
							if ex, ok := r.(*ssa.Extract); ok && ex.Index == idx {
								reply = ex
							}
						}
					}
					idx++
				}
			}
		}
	}
	fromReply := func(v ssa.Value, fld string) bool {
		b, ok := loadOfTypeField(v, ".verifyEnableResp", fld)
		if !ok || reply == nil {
			return false
		}
		if al, ok := b.(*ssa.Alloc); ok {
			st := uniqueStore(al)
			return st != nil && st.Val == reply
		}
		return b == reply
	}
	for _, r := range returnsOf(f) {
		rv := retVals(r)
		if len(rv) != 3 {
			continue
		}
		name := relName(f) + "#return"
		switch {
		case fromReply(rv[2], "err"):
			c.check(fromReply(rv[0], "v") && fromReply(rv[1], "tok"), "enable-result", name+"-reply", r.Pos(),
				"returns exactly (reply.v, reply.tok, reply.err) of the monitor's answer", "the watcher path does not return the config/serial the monitor verified and answered")
		case isNilConst(rv[2]):
			cv, ct := k.vvCall(livePhiValue(rv[0], r.Block()), 0), k.vvCall(livePhiValue(rv[1], r.Block()), 1)
			okp := cv != nil && cv == ct
			if okp && len(vis) == 1 && (vis[0].Call.Block().Dominates(r.Block()) || vis[0].from().Dominates(r.Block())) {
				okp = vis[0].Recv != nil && recvIs(vis[0].Recv, func(x ssa.Value) bool { return k.vvCall(x, 0) == cv })
			}
			c.check(okp, "enable-result", name+"-success", r.Pos(),
				"success return carries the config and serial of one ViewVersion call (the verified one)", "a success return does not carry the verified (config, serial) pair (e.g. nil config)")
		default:
			// an error return: config must be nil, error known non-nil or freshly constructed
			isFresh := false
			if call, ok := stripConv(rv[2]).(*ssa.Call); ok && calleeFullName(call) == "fmt.Errorf" {
				isFresh = true
			}
			c.check(isZeroConst(rv[0]) && (isFresh || knownNil(r.Block(), rv[2], false)), "enable-result", name+"-failure", r.Pos(),
				"failure return carries no config and a non-nil error", "a return with a possibly-nil error carries no config (or a config with an error)")
		}
	}
	_ = w
}

var _ = token.ADD

// c09FastpathGuard: the Verify invoke of EnableVerification (no monitor goroutine to ask) is reached exactly when
// verification was delayed, there is no monitor and the config is verifiable.
func c09FastpathGuard(c *Ctx, k *core, rule string) {
	if vis := k.verifySites(k.enable); len(vis) == 1 {
		vi := vis[0].Call
		pb := k.withSites(&predBuilder{name: k.namer(func(v ssa.Value) string {
			if _, ok := isFieldLoad(v, k.fMonCtl); ok {
				return "monCtl"
			}
			return ""
		})}, vis)
		g := k.siteGuard(pb, vis[0], k.enable.Blocks[0])
		c.checkTable(rule, relName(k.enable)+"#fastpath-guard", vi.Pos(), g,
			[]string{"Params.DelayInitialVerification", "isnil(monCtl)", "isVerified"}, nil, "Delay && monCtl==nil && isVerified",
			func(e env) bool {
				return e.B["Params.DelayInitialVerification"] && e.B["isnil(monCtl)"] && e.B["isVerified"]
			})
	} else {
		c.bad(rule, relName(k.enable)+"#fastpath-guard", k.enable.Pos(), "EnableVerification has %d Verify invokes, want 1 (the no-monitor fast path)", len(vis))
	}

}

// fieldTypeOf: the type of field `name` of the struct allocated by al.
func fieldTypeOf(al *ssa.Alloc, name string) types.Type {
	st, ok := al.Type().(*types.Pointer).Elem().Underlying().(*types.Struct)
	if !ok {
		return nil
	}
	for i := 0; i < st.NumFields(); i++ {
		if vname(st.Field(i)) == name {
			return st.Field(i).Type()
		}
	}
	return nil
}
