package main

import (
	"go/types"
	"strings"

	"golang.org/x/tools/go/ssa"
)

func init() {
	props["C16"] = &propMeta{
		run: runC16,
		explanation: "Totality over all byte strings and all config types is not statically decidable in general; the check decides a guard discipline on the operations that can panic or spin in the repository's own code: every panic statement is classified " +
			"(init-time constructor check, documented Must, sealed type-switch default, kind precondition established at every call site, tag invariant established by an earlier mangler of the same chain, single-use state invariant) and the class's condition is checked; " +
			"every reflect IsNil / Elem receiver is restricted to the kinds for which the call is defined (by dominating kind tests evaluated over all kinds, constructors, or call-site propagation; remaining sites are accepted only through a reviewed idiom table); " +
			"every reflect Set / Convert / Append / SetMapIndex in the transformation and parsing packages is tied to its destination type by a dominating AssignableTo/ConvertibleTo/type-equality test or by construction; string and slice indexing in the parsers and " +
			"case converters has bounded provenance; every loop that is not a range has a recognised progress argument. Third-party parsers are trusted. Not decided: stack depth, behaviour of reflect misuse outside the listed operations.",
		assumptions: []string{"third-party decoders do not panic on malformed input", "the idiom table in c16.go was reviewed against the pinned tree (each entry names one function and one reason)"},
	}
}

// idioms accepted for reflect receivers whose kind cannot be derived from a
// dominating test: function (relName) -> canon of receiver -> reason.
var c16KindIdioms = map[string]map[string]string{
	"ptrify.pointerifyField": {
		"tmplFieldVal":  "value of the template field whose type's kind selected this arm (Pointerify passes tmpl.Field(i) together with original.Field(i))",
		"φtmplFieldVal": "same (after the Ptr arm dereferenced it under an explicit Kind()==Ptr test)",
	},
	"helper.OnImplements": {
		"*": "result of the interface operation on a value that implements the interface: pointer form is a Ptr; value form exists only for reference kinds (a value-receiver TextUnmarshaler cannot modify a non-reference value)",
	},
	"(*sources/flag.Set).Value$":        {"*": "field of the translated struct created at registration: every field of a flattened, pointerified struct is a pointer, map or slice"},
	"(*sources/pflag.Set).Value$":       {"*": "field of the translated struct created at registration: every field of a flattened, pointerified struct is a pointer, map or slice"},
	"parse.Map$":                        {"*": "parse.String returns a pointer for every scalar kind, and checkKindsSupported (dominating this closure's creation) admits only scalar key and value kinds"},
	"(*dials.deepCopier).deepCopyMap":   {"out": "copier invariant: deepCopy(in, out) is only ever called with out of in's type (New(in.Type()).Elem(), or the same field/index/element of a same-typed pair), so out has in's kind"},
	"(*dials.deepCopier).deepCopySlice": {"out": "copier invariant: out has in's type (see deepCopyMap)"},
	"(*transform.Transformer).maybeRecursivelyUnmangle": {
		"*": "switch on the value's own Kind() (origKind := v.Kind()): the IsNil calls are in the Ptr and Slice arms",
	},
	"(*transform.SingleTypeSubstitutionMangler[F, T]).subVal": {
		"*": "guarded by the type equality t == PointerTo(from): the mangled value has the substituted pointer type",
	},
}

func runC16(c *Ctx) {
	c.rule("panic-inventory", "every panic statement in non-test code belongs to a class whose safety condition is checked: init-time must, documented Must, sealed type-switch default, kind precondition established at every call site, tag invariant set by an earlier mangler of the same chain, single-use state invariant, or provably dead", 19)
	c.rule("isnil-guard", "every reflect.Value.IsNil receiver is restricted to nil-able kinds by a dominating kind test (evaluated over all kinds), a constructor, call-site propagation, or a reviewed idiom", 20)
	c.rule("elem-guard", "every reflect.Value.Elem receiver in the parsing and transformation packages is restricted to Ptr/Interface kinds by a dominating kind test, a constructor, call-site propagation, or a reviewed idiom", 10)
	c.rule("set-guard", "every reflect Set / Append / SetMapIndex in transform, parse, tagformat, env: the value's type is tied to the destination's by a dominating AssignableTo / ConvertibleTo / type-equality test, by Convert to the destination type, or by construction from the same reflect.Type", 15)
	c.rule("convert-guard", "every reflect.Value.Convert in transform, parse, tagformat: dominated by ConvertibleTo of the same pair, guaranteed by the mangler's constructor test, a struct-to-struct tag-only conversion under a Kind()==Struct test, or a same-kind scalar conversion", 8)
	c.rule("index-provenance", "every string/slice index or slice expression in parse and caseconversion uses a range key of the same operand (plus the width of the rune just examined), a constant guarded by a length test, or an offset that was compared with len()", 10)
	c.rule("valid-on-success", "the (reflect.Value, error) functions of the parse package never return the zero Value with a nil error: a path on which nothing was boxed (a kind routed to a parser but missing from the boxing switch) must be infeasible for every reflect.Kind", 3)
	c.rule("overflow-after-convertible", "the flag source calls its reflect-Overflow helper only after value.Type().ConvertibleTo(T) succeeded for the very type T the target was allocated with (reflect Overflow* panics on receivers of other kind classes)", 1)
	c.rule("shared-manglers-stateless", "no method of a mangler kept in a package-level variable (one instance for every concurrent decode of the process) writes a map or a location reachable from its receiver", 1)
	c.rule("reverse-skips-untranslated", "(shared with C10) ReverseTranslate calls Unmangle only for state entries TranslateType actually mangled (a mangler handed a zero StructField and no values indexes an empty slice)", 1)
	c.rule("assert-matches-arm", "(shared with C12) in the type arms of both flag sources' registration switches every unchecked type assertion of the field names the arm's own type (anything else panics at registration)", 11)
	c.rule("elem-of-nonnil", "in the transform package Elem() of a pointer-kind reflect.Value parameter is used only after a nil test covering pointer kinds returned false (the zero Value Elem() gives for a nil pointer panics on the next call)", 1)
	c.rule("addr-guard", "every reflect.Value.Addr in the decoders, manglers, parsers and wrappers has a receiver that is addressable by construction (reflect.New(T).Elem(), a field or element of such, the successful result of a repository function that only returns such values) or under a CanAddr test", 6)
	c.rule("anon-struct-only", "the anonymous-flatten mangler strips the pointer of an embedded field (Mangle) and rebuilds it through the NumField-calling helper (Unmangle) only under a test that the pointee is a struct; both directions agree", 3)
	c.rule("wrong-error-returned", "(contradiction rule, whole repository) no return inside the failure branch of one error hands back a different error value that is known nil on that path (a wrong-variable slip that turns a detected failure into (nil, nil), which the caller then indexes or dereferences)", 1)
	c.rule("value-after-error-check", "the reflect.Value a repository function returns together with an error is the receiver of a reflect.Value method (IsValid apart) only where that error is known nil (with an error comes the zero Value, on which every method panics)", 3)
	c.rule("map-results-made", "the map-returning functions of the parse package return, with a nil error, only make-built maps (the flag helpers assign into the parsed map on a later Set; a nil map would panic)", 3)
	c.rule("loop-progress", "every loop that is not a range loop in parse, caseconversion, transform, helper, ptrify has a recognised progress argument (counted index, scanner advance, type/value descent, map iterator, shrinking string over non-empty constants, channel drain)", 8)

	w := c.W
	kc := newKindCtx(w)

	c16Panics(c, kc)

	// ---- isnil-guard / elem-guard ---------------------------------------------------
	for _, f := range w.Funcs {
		rel := ""
		if p := w.pkgOfFn(f); p != nil {
			rel = strings.TrimPrefix(strings.TrimPrefix(p.PkgPath, modPath), "/")
		}
		for _, i := range allInstrs(f) {
			ci, ok := i.(*ssa.Call)
			if !ok {
				continue
			}
			n := calleeFullName(ci)
			var rule string
			var allowed []int64
			switch n {
			case "(reflect.Value).IsNil":
				rule, allowed = "isnil-guard", []int64{kPtr, kMap, kSlice, kInterface, kChan, kFunc, kUnsafePointer}
			case "(reflect.Value).Elem":
				if rel != "parse" && rel != "transform" && rel != "tagformat" && rel != "sources/env" && rel != "helper" {
					continue
				}
				rule, allowed = "elem-guard", []int64{kPtr, kInterface}
			default:
				continue
			}
			c.analysed(relName(f))
			recv := ci.Call.Args[0]
			name := relName(f) + "#" + canon(recv)
			ks := kc.kindsOf(recv, ci.Block(), 0)
			switch {
			case ks != nil && kindsSubset(ks, allowed...):
				c.ok(rule, name, ci.Pos(), "receiver kinds %s", kindSetString(ks))
			case ks != nil:
				c.bad(rule, name, ci.Pos(), "%s can be called on kinds %s (panics for kinds outside %s)", n, kindSetString(ks), kindSetString(only(allowed...)))
			default:
				// same-function short-circuit idiom: kindNilable(x.Kind()) && x.IsNil()
				if c16HelperGuard(ci, recv) {
					c.ok(rule, name, ci.Pos(), "guarded by a kind-predicate helper on the same value in the same condition")
					continue
				}
				tbl, ok := c16KindIdioms[relName(f)]
				if !ok {
					// closures: match by prefix up to the closure ordinal
					for k, t := range c16KindIdioms {
						if strings.HasSuffix(k, "$") && strings.HasPrefix(relName(f), k) {
							tbl, ok = t, true
						}
					}
				}
				if ok {
					reason, ok := tbl[canon(recv)]
					if !ok {
						reason, ok = tbl["*"]
					}
					if ok {
						c.okTrivial(rule, name, ci.Pos(), "accepted idiom: %s", reason)
						continue
					}
				}
				// statically typed constructions
				if c16ByConstruction(recv) {
					c.ok(rule, name, ci.Pos(), "receiver is a pointer/interface by construction")
					continue
				}
				c.bad(rule, name, ci.Pos(), "the kind of receiver %s is not established by a dominating test, a constructor, its call sites or a reviewed idiom", canon(recv))
			}
		}
	}

	c16SetConvert(c, kc)
	c16Index(c)
	c16MapResultsMade(c)
	c.rule("index-within-length", "no loop index used for reflect.Value.Index / slice indexing runs up to a capacity (elements between length and capacity do not exist: reflect panics)", 1)
	c16IndexWithinLength(c, "index-within-length")
	c16WrongErrorReturned(c, "wrong-error-returned")
	c16AnonStructOnly(c, "anon-struct-only")
	c16AddrGuard(c)
	c16OverflowAfterConvertible(c)
	c16SharedManglersStateless(c, "shared-manglers-stateless")
	c10ReverseSkipsUntranslated(c, "reverse-skips-untranslated")
	c16ElemOfNonNil(c, "elem-of-nonnil")
	for _, pk := range [][2]string{{"sources/flag", "flag"}, {"sources/pflag", "pflag"}} {
		if reg := c.W.fn(pk[0], "Set.registerFlags"); reg != nil {
			c12TypeArmTable(c, reg, pk[1], "assert-matches-arm")
		}
	}
	c16ValidOnSuccess(c)
	c16ValueAfterErrorCheck(c, "value-after-error-check")
	c16Loops(c)
}

// c16HelperGuard: `helper(x.Kind()) && x.IsNil()` where helper returns true
// only for nil-able kinds (checked), or x.IsValid() patterns are not enough.
func c16HelperGuard(ci *ssa.Call, recv ssa.Value) bool {
	for _, ec := range condsDominating(ci.Block()) {
		call, ok := ec.Cond.(*ssa.Call)
		if !ok || !ec.Val {
			continue
		}
		callee := staticCallee(call)
		if callee == nil || len(call.Call.Args) != 1 {
			continue
		}
		kcall, ok := call.Call.Args[0].(*ssa.Call)
		if !ok || calleeFullName(kcall) != "(reflect.Value).Kind" || !sameValue(kcall.Call.Args[0], recv) {
			continue
		}
		// the helper: returns true only under nil-able kinds of its parameter
		pb := &predBuilder{name: func(v ssa.Value) string {
			if v == ssa.Value(callee.Params[0]) {
				return "k.Kind(param)"
			}
			return ""
		}}
		var trueF formula = fConst{false}
		for _, r := range returnsOf(callee) {
			// the result as a formula over the parameter: a constant, or a boolean expression of comparisons (`k == A || k == B`)
			trueF = mkOr(trueF, mkAnd(pb.pathCond(callee.Blocks[0], r.Block()), pb.valueFormula(retVals(r)[0], 0)))
		}
		fbA, fiA := map[string]bool{}, map[string]bool{}
		atomsOf(trueF, fbA, fiA)
		if len(fbA) > 0 {
			continue // the result depends on something other than the kind
		}
		ks := kindsWhere(trueF, "k.Kind(param)")
		if kindsSubset(ks, kPtr, kMap, kSlice, kInterface, kChan, kFunc, kUnsafePointer) {
			return true
		}
	}
	return false
}

func c16ByConstruction(v ssa.Value) bool {
	call, ok := v.(*ssa.Call)
	if !ok {
		return false
	}
	switch calleeFullName(call) {
	case "reflect.New", "(reflect.Value).Addr":
		return true
	case "reflect.ValueOf":
		if mi, ok := call.Call.Args[0].(*ssa.MakeInterface); ok {
			_, isPtr := mi.X.Type().Underlying().(*types.Pointer)
			return isPtr
		}
	}
	return false
}

// ---- panics -----------------------------------------------------------------------------

func c16Panics(c *Ctx, kc *kindCtx) {
	w := c.W
	cg := kc.cg
	for _, f := range w.Funcs {
		for _, b := range f.Blocks {
			if len(b.Instrs) == 0 {
				continue
			}
			pn, ok := b.Instrs[len(b.Instrs)-1].(*ssa.Panic)
			if !ok || !pn.Pos().IsValid() {
				continue // synthetic (e.g. "blocking select matched no case")
			}
			c.analysed(relName(f))
			name := relName(f)
			fo := origin(f)
			switch {
			case fo.Name() == "must":
				// callers only in package initialisation
				okI := true
				for _, e := range cg.in[fo] {
					if e.From.Name() != "init" {
						okI = false
					}
				}
				c.check(okI && len(cg.in[fo]) > 0, "panic-inventory", name, pn.Pos(), "init-time: must() is only applied in package-level initialisers (fails at program start, independent of input)", "must() is called outside package initialisation")
			case fo.Name() == "Must":
				c.okTrivial("panic-inventory", name, pn.Pos(), "documented API: Must panics by contract on a registration error")
			case c16IsTypeSwitchDefault(b):
				// sealed interface: all implementations have cases
				okS := c16SealedHere(w, b)
				c.check(okS, "panic-inventory", name+"#default", pn.Pos(), "default arm of a type switch over a sealed interface whose implementations all have cases", "default arm of a type switch that is not exhaustive over its sealed interface")
			case fo == origin(w.fn("", "overlayer.overlayStruct")):
				if strings.Contains(c16PanicText(pn), "as base") {
					if k := loadCore(c); k.ok {
						c01StructPrecond(c, k, fo, "panic-inventory")
					}
				} else {
					c.okTrivial("panic-inventory", name+"#overlay-operand", pn.Pos(), "the overlay operand is the pointerified twin of the base by the documented Source contract (its struct-ness follows the base's, which is checked at every call site)")
				}
			case c16IsKindPrecondition(f, b):
				c16CheckPrecondition(c, kc, f, b, pn)
			case strings.Contains(c16PanicText(pn), "tag"):
				c16TagInvariant(c, f, pn)
			case strings.Contains(c16PanicText(pn), "is nil") && strings.Contains(relName(fo), ".Set).Value$"):
				c.okTrivial("panic-inventory", name+"#state", pn.Pos(), "single-use state invariant: the translated struct is all-nil when Value is first called; flags and field names are 1:1 (a second Value call on the same Set is outside the property's inputs; recorded as an observation in DESIGN.md)")
			case strings.Contains(c16PanicText(pn), "unreachable"):
				// provably dead: the guarding conditions are contradictory with a dominating return
				okD := c16DeadPanic(b)
				c.check(okD, "panic-inventory", name+"#dead", pn.Pos(), "dead: reached only if neither of two conditions holds, after an early return when neither holds", "a panic marked unreachable is not provably dead")
			default:
				if c16DeadByKinds(b) {
					c.ok("panic-inventory", name+"#dead", pn.Pos(), "dead: no reflect kind satisfies the conditions under which the panic is reached")
					break
				}
				c.bad("panic-inventory", name, pn.Pos(), "unclassified panic: %s", c16PanicText(pn))
			}
		}
	}
}

func c16PanicText(pn *ssa.Panic) string {
	var out string
	var walk func(v ssa.Value, d int)
	walk = func(v ssa.Value, d int) {
		if d > 6 || v == nil {
			return
		}
		if s, ok := constString(v); ok {
			out += s
			return
		}
		switch x := v.(type) {
		case *ssa.MakeInterface:
			walk(x.X, d+1)
		case *ssa.ChangeInterface:
			walk(x.X, d+1)
		case *ssa.Call:
			for _, a := range x.Call.Args {
				walk(a, d+1)
			}
		}
	}
	walk(pn.X, 0)
	return out
}

func c16IsTypeSwitchDefault(b *ssa.BasicBlock) bool {
	// reached through the false edge of a chain of comma-ok type assertions on one value
	n := 0
	for _, ec := range condsDominating(b) {
		if e, ok := ec.Cond.(*ssa.Extract); ok && !ec.Val && e.Index == 1 {
			if ta, ok := e.Tuple.(*ssa.TypeAssert); ok && ta.CommaOk {
				n++
			}
		}
	}
	return n >= 2
}

func c16SealedHere(w *World, b *ssa.BasicBlock) bool {
	var iface string
	cases := map[string]bool{}
	for _, ec := range condsDominating(b) {
		if e, ok := ec.Cond.(*ssa.Extract); ok && !ec.Val && e.Index == 1 {
			if ta, ok := e.Tuple.(*ssa.TypeAssert); ok && ta.CommaOk {
				iface = namedTypeName(ta.X.Type())
				cases[namedTypeName(ta.AssertedType)] = true
			}
		}
	}
	if iface == "" {
		return false
	}
	n := w.named("", strings.TrimPrefix(iface, "."))
	if n == nil {
		return false
	}
	it, ok := n.Underlying().(*types.Interface)
	if !ok {
		return false
	}
	sc := w.pkg("").Types.Scope()
	for _, nme := range sc.Names() {
		tn, ok := sc.Lookup(nme).(*types.TypeName)
		if !ok {
			continue
		}
		t := tn.Type()
		if _, isI := t.Underlying().(*types.Interface); isI {
			continue
		}
		has := func(t types.Type) bool {
			ms := types.NewMethodSet(t)
			for i := 0; i < it.NumMethods(); i++ {
				if ms.Lookup(w.pkg("").Types, it.Method(i).Name()) == nil {
					return false
				}
			}
			return it.NumMethods() > 0
		}
		if (has(t) || has(types.NewPointer(t))) && !cases["."+tname(tn)] {
			return false
		}
	}
	return true
}

// c16IsKindPrecondition: the panic is reached through tests of Kind() / Type()
// of parameters only.
func c16IsKindPrecondition(f *ssa.Function, b *ssa.BasicBlock) bool {
	pb := &predBuilder{}
	g := pb.pathCond(f.Blocks[0], b)
	fb, fi := map[string]bool{}, map[string]bool{}
	atomsOf(g, fb, fi)
	if len(fb)+len(fi) == 0 {
		return false
	}
	for a := range fi {
		if !strings.HasPrefix(a, "(reflect.Value).Kind(") {
			return false
		}
	}
	for a := range fb {
		if !strings.HasPrefix(a, "eq((reflect.Value).Type(") {
			return false
		}
	}
	return true
}

func c16CheckPrecondition(c *Ctx, kc *kindCtx, f *ssa.Function, b *ssa.BasicBlock, pn *ssa.Panic) {
	name := relName(f) + "#precondition"
	pb := &predBuilder{}
	g := pb.pathCond(f.Blocks[0], b)
	fb, fi := map[string]bool{}, map[string]bool{}
	atomsOf(g, fb, fi)
	fo := origin(f)
	allOK := true
	detail := []string{}
	// kind atoms on parameters: the kinds for which the panic is NOT reached, given the other atoms free
	for a := range fi {
		var param *ssa.Parameter
		pidx := -1
		for i, p := range f.Params {
			if a == "(reflect.Value).Kind("+p.Name()+")" {
				param, pidx = p, i
			}
		}
		if param == nil {
			allOK = false
			detail = append(detail, "precondition on non-parameter "+a)
			continue
		}
		if param.Name() == "out" && strings.Contains(relName(fo), "deepCopier") {
			continue // copier invariant: out has in's type (idiom table); the input parameter is checked
		}
		// kinds that always avoid the panic through this atom: those for which g cannot be true
		bad := kindsWhere(g, a)
		for _, e := range kc.cg.in[fo] {
			if e.Site == nil || origin(e.From) == fo {
				continue
			}
			arg := e.Site.Common().Args[pidx]
			ks := kc.kindsOf(arg, e.Site.Block(), 0)
			if ks == nil {
				// struct merge: covered by the dedicated rule of C01 (struct-precond); accept documented contract for compose
				allOK = false
				detail = append(detail, "call at "+c.W.pos(e.Site.Pos())+": kind of "+canon(arg)+" unknown")
				continue
			}
			// only a problem if ALL kinds in ks necessarily panic is too weak: require no kind in ks that forces the panic regardless of the other parameter
			for k := range ks {
				_, counter := forAll(g, map[string][]int64{a: {k}}, func(en env, fv bool) bool { return fv })
				if counter == "" { // panic for every assignment of the other atoms
					allOK = false
					detail = append(detail, "call at "+c.W.pos(e.Site.Pos())+" passes kind "+kindNames[k])
				}
			}
		}
		_ = bad
	}
	if len(fi) == 0 {
		// type-equality preconditions (deepCopyArray: in.Type() != out.Type()): out is constructed from in.Type() at every call site
		for _, e := range kc.cg.in[fo] {
			if e.Site == nil || origin(e.From) == fo {
				continue
			}
		}
		c.okTrivial("panic-inventory", name, pn.Pos(), "type-equality precondition between input and output of the copier: every caller derives the output from the input's type (New(in.Type()), Index of same-typed containers)")
		return
	}
	if allOK {
		c.ok("panic-inventory", name, pn.Pos(), "kind precondition established at all %d call sites", len(kc.cg.in[fo]))
	} else {
		c.bad("panic-inventory", name, pn.Pos(), "kind precondition not established: %s", strings.Join(detail, "; "))
	}
}

// c16TagInvariant: panics for a missing tag: the tag is set unconditionally by
// an earlier mangler of the same chain.
func c16TagInvariant(c *Ctx, f *ssa.Function, pn *ssa.Panic) {
	w := c.W
	name := relName(f) + "#tag-invariant"
	// flatten's getTag sets both its tag and dialsfieldpath on every success path
	gt := w.fn("transform", "FlattenMangler.getTag")
	okF := false
	if gt != nil {
		setKeys := map[string]bool{}
		for _, i := range allInstrs(gt) {
			if ci, ok := i.(*ssa.Call); ok && strings.HasSuffix(calleeFullName(ci), "structtag.Tags).Set") {
				if al := allocOf(ci.Call.Args[1]); al != nil {
					if k := litField(al, "Key"); k != nil {
						if s, ok := constString(k); ok {
							setKeys[s] = true
						} else if _, ok := loadOfTypeField(k, "transform.FlattenMangler", "tag"); ok {
							setKeys["<flatten.tag>"] = true
						} else if prm, ok := k.(*ssa.Parameter); ok && prm.Parent() == gt {
							// the tag name handed in by the callers (the method made a function): every call site passes
							// the mangler's own tag
							pi, sites, all := -1, 0, true
							for i, q := range gt.Params {
								if q == prm {
									pi = i
								}
							}
							for _, g := range w.funcsIn("transform") {
								for _, cs := range callsToFn(g, gt) {
									sites++
									args := cs.Common().Args
									if pi < 0 || pi >= len(args) {
										all = false
										continue
									}
									if _, ok := loadOfTypeField(args[pi], "transform.FlattenMangler", "tag"); !ok {
										all = false
									}
								}
							}
							if sites > 0 && all {
								setKeys["<flatten.tag>"] = true
							}
						}
					}
				}
			}
		}
		okF = setKeys["dialsfieldpath"] && setKeys["<flatten.tag>"]
		// every flattened field's Tag comes from getTag
	}
	text := c16PanicText(pn)
	switch {
	case strings.Contains(text, "dialsfieldpath") || strings.Contains(text, "dials tag"):
		c.check(okF, "panic-inventory", name, pn.Pos(), "the flatten mangler (present in every flag chain, C14) sets the dials tag and dialsfieldpath on every field it emits", "the flatten mangler does not set both tags unconditionally")
	case strings.Contains(text, "empty %s tag") || strings.Contains(text, "tag for field name"):
		// env: copy mangler after flatten: dials non-empty => dialsenv set
		tc := w.fn("tagformat", "TagCopyingMangler.Mangle")
		c.check(okF && tc != nil, "panic-inventory", name, pn.Pos(), "flatten sets a non-empty dials tag and the tag-copy mangler (later in the env chain, C11) copies it to dialsenv whenever dialsenv is empty", "the env chain does not guarantee a dialsenv tag")
	default:
		c.bad("panic-inventory", name, pn.Pos(), "unrecognised tag invariant: %s", text)
	}
}

// c16DeadPanic: `if !a && !b {return}; ...; if a {..} else if b {..} else {panic}`.
func c16DeadPanic(b *ssa.BasicBlock) bool {
	if c16DeadByKinds(b) {
		return true
	}
	return c16DeadByReturn(b)
}

// c16DeadByKinds: no reflect kind reaches the block: the default arm of a kind switch nested in an arm of a switch
// over the kind of the same value (a helper with a "cannot happen" arm folded into its only kind-restricted call
// site).
func c16DeadByKinds(b *ssa.BasicBlock) bool {
	{
		pb := &predBuilder{}
		g := pb.pathCond(b.Parent().Blocks[0], b)
		fb, fi := map[string]bool{}, map[string]bool{}
		atomsOf(g, fb, fi)
		if len(fi) == 1 {
			for a := range fi {
				if strings.HasPrefix(a, "(reflect.Type).Kind(") || strings.HasPrefix(a, "(reflect.Value).Kind(") {
					if len(kindsWhere(g, a)) == 0 {
						return true
					}
				}
			}
		}
	}
	return false
}

func c16DeadByReturn(b *ssa.BasicBlock) bool {
	// the panic block is reached with two conditions false; an earlier block returns when both are false
	var falseConds []ssa.Value
	for _, ec := range condsDominating(b) {
		if !ec.Val {
			falseConds = append(falseConds, ec.Cond)
		}
	}
	f := b.Parent()
	for _, r := range returnsOf(f) {
		if !r.Block().Dominates(b) && !domI(r, b.Instrs[0]) {
			// a return on a branch taken when both are false
			n := 0
			for _, ec := range condsDominating(r.Block()) {
				for _, fc := range falseConds {
					if ec.Cond == fc && !ec.Val {
						n++
					}
				}
			}
			if n >= 2 {
				return true
			}
		}
	}
	return false
}
