package main

import (
	"bytes"
	"fmt"
	"go/ast"
	"go/format"
	"go/types"
	"strings"
)

// Signature normalisation.
//
// The rules name the parameters and results of the recorded unexported functions by position. Reordering the
// parameters (or results) of an unexported function, with every call site updated, changes nothing a caller could
// observe; before the rules run such a function - recorded in anchors.json with its parameter and result types and
// names, present in the tree with the same parameters in another order - is written back in the recorded order,
// declaration and call sites (returns and the left-hand sides of the calls' assignments for results), through the
// loader's overlay. Only exact permutations are normalised: same number of parameters, same multiset of types,
// positions identified by (type, name), or by type alone where the type occurs once. Anything else (a use that is
// not a plain call, a spread call f(g()), a variadic parameter that moved) leaves the function as it is.

func permutationOf(curT, curN, recT, recN []string) []int {
	if len(curT) != len(recT) || len(recT) < 2 {
		return nil
	}
	used := make([]bool, len(curT))
	perm := make([]int, len(recT)) // perm[i]: the current position of the recorded position i
	for i := range perm {
		perm[i] = -1
	}
	// by type and name
	for i := range recT {
		for j := range curT {
			if !used[j] && curT[j] == recT[i] && i < len(recN) && j < len(curN) && recN[i] != "" && recN[i] != "_" && curN[j] == recN[i] {
				perm[i], used[j] = j, true
				break
			}
		}
	}
	// by type, where what is left of that type is a single candidate on both sides
	for i := range recT {
		if perm[i] >= 0 {
			continue
		}
		cands, same := []int{}, 0
		for j := range curT {
			if !used[j] && curT[j] == recT[i] {
				cands = append(cands, j)
			}
		}
		for i2 := range recT {
			if perm[i2] < 0 && recT[i2] == recT[i] {
				same++
			}
		}
		if len(cands) != 1 || same != 1 {
			return nil
		}
		perm[i], used[cands[0]] = cands[0], true
	}
	ident := true
	for i, j := range perm {
		if j != i {
			ident = false
		}
	}
	if ident {
		return nil
	}
	return perm
}

func splitFields(fl *ast.FieldList) []*ast.Field {
	var out []*ast.Field
	if fl == nil {
		return nil
	}
	for _, f := range fl.List {
		if len(f.Names) == 0 {
			out = append(out, &ast.Field{Type: f.Type})
			continue
		}
		for _, nm := range f.Names {
			out = append(out, &ast.Field{Names: []*ast.Ident{nm}, Type: f.Type})
		}
	}
	return out
}

func tupleStrings(t *types.Tuple) (ts, ns []string) {
	for i := 0; i < t.Len(); i++ {
		ts = append(ts, typeStr(expandNewNamed(t.At(i).Type(), 0)))
		ns = append(ns, t.At(i).Name())
	}
	return
}

// recordedTypeNames: rel -> the type names of the recorded tree (filled by detectRenames).
var recordedTypeNames = map[string]map[string]bool{}

// expandNewNamed: a small unexported named type introduced for a repeated literal type (`type expandingSet
// map[uintptr]struct{}`) is read as the type it stands for when signatures are compared with the recorded ones.
func expandNewNamed(t types.Type, depth int) types.Type {
	if depth > 4 {
		return t
	}
	switch x := t.(type) {
	case *types.Named:
		o := x.Obj()
		if o.Pkg() == nil || o.Exported() || x.TypeArgs().Len() > 0 || x.NumMethods() > 0 {
			return t
		}
		rel := relOfPkg(o.Pkg())
		rec, known := recordedTypeNames[rel]
		if !known || rec[tname(o)] {
			return t
		}
		if _, isStruct := x.Underlying().(*types.Struct); isStruct {
			return t
		}
		return expandNewNamed(x.Underlying(), depth+1)
	case *types.Pointer:
		return types.NewPointer(expandNewNamed(x.Elem(), depth+1))
	case *types.Slice:
		return types.NewSlice(expandNewNamed(x.Elem(), depth+1))
	case *types.Map:
		return types.NewMap(expandNewNamed(x.Key(), depth+1), expandNewNamed(x.Elem(), depth+1))
	}
	return t
}

// normalizeSignatures returns the rewritten files (nil when nothing is to be normalised).
func (w *World) normalizeSignatures(overlay map[string][]byte, tab *anchorTable) map[string][]byte {
	out := map[string][]byte{}
	for _, p := range w.Pkgs {
		rel := relOfPkg(p.Types)
		rec := tab.Funcs[rel]
		if rec == nil {
			continue
		}
		changed := map[*ast.File]bool{}
		for _, f := range p.Syntax {
			for _, d := range f.Decls {
				fd, ok := d.(*ast.FuncDecl)
				if !ok || fd.Body == nil {
					continue
				}
				fo, ok := p.TypesInfo.Defs[fd.Name].(*types.Func)
				if !ok || fo.Exported() {
					continue
				}
				sig := fo.Type().(*types.Signature)
				key := funcObjName(fo)
				if r := recvNameOf(sig); r != "" {
					key = r + "." + key
				}
				af, known := rec[key]
				if !known {
					if k2, moved := movedFuncObj[fo.Origin()]; moved {
						af, known = rec[k2]
					}
				}
				if !known || af.PT == nil && af.RT == nil {
					continue
				}
				curPT, curPN := tupleStrings(sig.Params())
				curRT, curRN := tupleStrings(sig.Results())
				pperm := permutationOf(curPT, curPN, af.PT, af.PN)
				rperm := permutationOf(curRT, curRN, af.RT, af.RN)
				if sig.Variadic() && pperm != nil && pperm[len(pperm)-1] != len(pperm)-1 {
					pperm = nil
				}
				if pperm == nil && rperm == nil {
					continue
				}
				// every use: the function of a plain call
				type use struct {
					file *ast.File
					call *ast.CallExpr
					stk  []ast.Node
				}
				var uses []use
				okUses := true
				for _, uf := range p.Syntax {
					var stack []ast.Node
					ast.Inspect(uf, func(n ast.Node) bool {
						if n == nil {
							stack = stack[:len(stack)-1]
							return true
						}
						stack = append(stack, n)
						id, isID := n.(*ast.Ident)
						if !isID {
							return true
						}
						uo, isF := p.TypesInfo.Uses[id].(*types.Func)
						if !isF || uo.Origin() != fo.Origin() {
							return true
						}
						// climb: selector / index / paren, then the call whose Fun this is
						i := len(stack) - 2
						var fun ast.Node = id
						for ; i >= 0; i-- {
							switch x := stack[i].(type) {
							case *ast.SelectorExpr:
								if x.Sel != id {
									okUses = false
								}
								fun = x
								continue
							case *ast.IndexExpr:
								if x.X != fun {
									okUses = false
								}
								fun = x
								continue
							case *ast.IndexListExpr:
								if x.X != fun {
									okUses = false
								}
								fun = x
								continue
							case *ast.ParenExpr:
								fun = x
								continue
							}
							break
						}
						if i < 0 {
							okUses = false
							return true
						}
						call, isCall := stack[i].(*ast.CallExpr)
						if !isCall || call.Fun != fun || len(call.Args) != sig.Params().Len() || (call.Ellipsis.IsValid() && !sig.Variadic()) {
							okUses = false
							return true
						}
						uses = append(uses, use{uf, call, append([]ast.Node{}, stack[:i+1]...)})
						return true
					})
				}
				if !okUses {
					continue
				}
				// results: every return of the body and every receiving statement must be rewritable
				type retFix struct{ ret *ast.ReturnStmt }
				var rets []*ast.ReturnStmt
				var lhsFix []*[]ast.Expr
				if rperm != nil {
					n := len(rperm)
					okR := true
					ast.Inspect(fd.Body, func(nd ast.Node) bool {
						switch x := nd.(type) {
						case *ast.FuncLit:
							return false
						case *ast.ReturnStmt:
							switch {
							case len(x.Results) == n:
								rets = append(rets, x)
							case len(x.Results) == 0:
							case len(x.Results) == 1:
								// return f(...) of the function itself (recursion) stays consistent; anything else does not
								c, isCall := ast.Unparen(x.Results[0]).(*ast.CallExpr)
								self := false
								if isCall {
									for _, u := range uses {
										if u.call == c {
											self = true
										}
									}
								}
								if !self {
									okR = false
								}
							default:
								okR = false
							}
						}
						return true
					})
					for _, u := range uses {
						if len(u.stk) < 2 {
							okR = false
							continue
						}
						switch par := u.stk[len(u.stk)-2].(type) {
						case *ast.ExprStmt:
						case *ast.AssignStmt:
							if len(par.Rhs) == 1 && par.Rhs[0] == ast.Expr(u.call) && len(par.Lhs) == n {
								lhsFix = append(lhsFix, &par.Lhs)
							} else {
								okR = false
							}
						case *ast.ValueSpec:
							if len(par.Values) == 1 && par.Values[0] == ast.Expr(u.call) && len(par.Names) == n {
								// names are idents: permute through a temporary expression list
								exprs := make([]ast.Expr, n)
								for i, nm := range par.Names {
									exprs[i] = nm
								}
								okR = false // rare; not supported
								_ = exprs
							} else {
								okR = false
							}
						case *ast.ReturnStmt:
							// return f(...) inside f itself (handled above); elsewhere the tuple is passed on
							inSelf := false
							for _, nd := range u.stk {
								if nd == ast.Node(fd) {
									inSelf = true
								}
							}
							if !inSelf || len(par.Results) != 1 {
								okR = false
							}
						default:
							okR = false
						}
					}
					if !okR {
						rperm = nil
						rets, lhsFix = nil, nil
					}
				}
				if pperm == nil && rperm == nil {
					continue
				}
				if pperm != nil {
					fields := splitFields(fd.Type.Params)
					if len(fields) != len(pperm) {
						continue
					}
					nf := make([]*ast.Field, len(fields))
					for i, j := range pperm {
						nf[i] = fields[j]
					}
					fd.Type.Params.List = nf
					for _, u := range uses {
						na := make([]ast.Expr, len(u.call.Args))
						for i, j := range pperm {
							na[i] = u.call.Args[j]
						}
						u.call.Args = na
						changed[u.file] = true
					}
					changed[f] = true
					foldNotes = append(foldNotes, fmt.Sprintf("signature normalisation: the parameters of %s.%s are read in their recorded order (declaration and %d call site(s) permuted)", rel, key, len(uses)))
				}
				if rperm != nil {
					fields := splitFields(fd.Type.Results)
					if len(fields) == len(rperm) {
						nf := make([]*ast.Field, len(fields))
						for i, j := range rperm {
							nf[i] = fields[j]
						}
						fd.Type.Results.List = nf
						for _, r := range rets {
							nr := make([]ast.Expr, len(r.Results))
							for i, j := range rperm {
								nr[i] = r.Results[j]
							}
							r.Results = nr
						}
						for _, l := range lhsFix {
							nl := make([]ast.Expr, len(*l))
							for i, j := range rperm {
								nl[i] = (*l)[j]
							}
							*l = nl
						}
						for _, u := range uses {
							changed[u.file] = true
						}
						changed[f] = true
						foldNotes = append(foldNotes, fmt.Sprintf("signature normalisation: the results of %s.%s are read in their recorded order", rel, key))
					}
				}
			}
		}
		for f := range changed {
			fname := w.Fset.Position(f.Pos()).Filename
			if strings.HasSuffix(fname, "_test.go") {
				continue
			}
			var buf bytes.Buffer
			if err := format.Node(&buf, w.Fset, f); err != nil {
				continue
			}
			out[fname] = buf.Bytes()
		}
	}
	if len(out) == 0 {
		return nil
	}
	return out
}
