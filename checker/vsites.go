package main

import (
	"go/types"

	"golang.org/x/tools/go/ssa"
)

// Verify sites. A rule that reasons about "the place where Verify is invoked"
// sees either the raw interface invoke (preceded by the comma-ok assertion to
// VerifiedConfig) or a call of a *verify wrapper*: a small side-effect-free
// helper of the root package that performs exactly that assertion and invoke on
// one of its parameters and returns the error (or nil). Wrapper calls are
// analysed through a summary of the helper (when is Verify reached, when is the
// result nil), with the helper's boolean parameters replaced by the caller's
// arguments, so that extracting the verification block into a function does not
// change any verdict.

type verifyWrap struct {
	fn       *ssa.Function
	vi       *ssa.Call       // the Verify invoke inside fn
	ta       *ssa.TypeAssert // its comma-ok assertion
	cfgParam int             // index (in fn.Params) of the parameter that is verified
}

type verifySite struct {
	Call *ssa.Call // in the analysed function: the raw invoke, or the wrapper call; its result is the error
	Recv ssa.Value // the config value that is verified
	ta   *ssa.TypeAssert
	wrap *verifyWrap
}

var verifyWrapCache = map[*ssa.Function]*verifyWrap{}

// verifyWrapOf recognises a verify wrapper.
func (k *core) verifyWrapOf(h *ssa.Function) *verifyWrap {
	if h == nil {
		return nil
	}
	h = origin(h)
	if vw, ok := verifyWrapCache[h]; ok {
		return vw
	}
	verifyWrapCache[h] = nil
	if len(h.Blocks) == 0 || k.w.pkgRelOfFn(h) != "" || h.Parent() != nil {
		return nil
	}
	res := h.Signature.Results()
	if res.Len() != 1 || types.TypeString(res.At(0).Type(), nil) != "error" {
		return nil
	}
	var vi *ssa.Call
	for _, i := range allInstrs(h) {
		switch x := i.(type) {
		case *ssa.Call:
			if _, ok := k.isVerifyInvoke(x); ok {
				if vi != nil {
					return nil
				}
				vi = x
				continue
			}
			return nil // any other call: not a pure wrapper
		case *ssa.Store, *ssa.Send, *ssa.Go, *ssa.Defer, *ssa.MapUpdate, *ssa.Select, *ssa.Panic:
			return nil
		}
	}
	if vi == nil {
		return nil
	}
	ta := k.verifiedAssert(vi.Call.Value)
	if ta == nil || !ta.CommaOk {
		return nil
	}
	p, ok := stripConv(ta.X).(*ssa.Parameter)
	if !ok {
		return nil
	}
	cfgParam := -1
	for pi, hp := range h.Params {
		if hp == p {
			cfgParam = pi
		}
	}
	if cfgParam < 0 {
		return nil
	}
	// results: nil, the Verify error, or a merge of those
	var okVal func(v ssa.Value, d int) bool
	okVal = func(v ssa.Value, d int) bool {
		if d > 4 {
			return false
		}
		if isNilConst(v) || v == ssa.Value(vi) {
			return true
		}
		if ph, ok := v.(*ssa.Phi); ok {
			for _, e := range ph.Edges {
				if !okVal(e, d+1) {
					return false
				}
			}
			return true
		}
		return false
	}
	for _, r := range returnsOf(h) {
		if !okVal(retVals(r)[0], 0) {
			return nil
		}
	}
	vw := &verifyWrap{fn: h, vi: vi, ta: ta, cfgParam: cfgParam}
	verifyWrapCache[h] = vw
	return vw
}

// verifySites lists the Verify sites of f.
func (k *core) verifySites(f *ssa.Function) []verifySite {
	var out []verifySite
	for _, i := range allInstrs(f) {
		call, ok := i.(*ssa.Call)
		if !ok {
			continue
		}
		if _, ok := k.isVerifyInvoke(call); ok {
			s := verifySite{Call: call}
			if ta := k.verifiedAssert(call.Call.Value); ta != nil {
				s.ta = ta
				s.Recv = ta.X
			}
			out = append(out, s)
			continue
		}
		if vw := k.verifyWrapOf(staticCallee(call)); vw != nil && origin(f) != vw.fn {
			args := call.Call.Args
			if vw.cfgParam < len(args) {
				out = append(out, verifySite{Call: call, Recv: args[vw.cfgParam], wrap: vw})
			}
		}
	}
	return out
}

// from is the block from which the site's own guard is taken: the assertion's
// block for a raw invoke, the call's block for a wrapper call.
func (s verifySite) from() *ssa.BasicBlock {
	if s.ta != nil {
		return s.ta.Block()
	}
	return s.Call.Block()
}

// innerNamer names the atoms of a wrapper's body: isVerified (through k.namer),
// verifyErr, and one placeholder per boolean parameter.
func (k *core) innerPB(vw *verifyWrap) *predBuilder {
	return &predBuilder{name: k.namer(func(v ssa.Value) string {
		if v == ssa.Value(vw.vi) {
			return "verifyErr"
		}
		if p, ok := v.(*ssa.Parameter); ok && p.Parent() == vw.fn {
			if b, ok := p.Type().Underlying().(*types.Basic); ok && b.Kind() == types.Bool {
				for pi, hp := range vw.fn.Params {
					if hp == p {
						return "§param" + itoa(pi)
					}
				}
			}
		}
		return ""
	})}
}

// substParams replaces the wrapper's parameter placeholders by the formulas of the caller's arguments.
func (k *core) substParams(pb *predBuilder, vw *verifyWrap, call *ssa.Call, f formula) formula {
	m := map[string]formula{}
	for pi := range vw.fn.Params {
		if pi < len(call.Call.Args) {
			if b, ok := call.Call.Args[pi].Type().Underlying().(*types.Basic); ok && b.Kind() == types.Bool {
				m["§param"+itoa(pi)] = pb.valueFormula(call.Call.Args[pi], 0)
			}
		}
	}
	return substAtoms(f, m)
}

// siteGuard: the condition, from block `from` of the analysed function, under
// which Verify is actually invoked at this site.
func (k *core) siteGuard(pb *predBuilder, s verifySite, from *ssa.BasicBlock) formula {
	g := pb.pathCond(from, s.Call.Block())
	if s.wrap == nil {
		return g
	}
	ipb := k.innerPB(s.wrap)
	reached := ipb.pathCond(s.wrap.fn.Blocks[0], s.wrap.vi.Block())
	return mkAnd(g, k.substParams(pb, s.wrap, s.Call, reached))
}

// resultNil: the formula of "the wrapper call's result is nil" in the caller's terms.
func (k *core) resultNil(pb *predBuilder, s verifySite) formula {
	vw := s.wrap
	ipb := k.innerPB(vw)
	var nilOf func(v ssa.Value, d int) formula
	nilOf = func(v ssa.Value, d int) formula {
		switch {
		case isNilConst(v):
			return fConst{true}
		case v == ssa.Value(vw.vi):
			return fAtom{"isnil(verifyErr)"}
		}
		if ph, ok := v.(*ssa.Phi); ok && d < 5 {
			blk := ph.Block()
			var f formula = fConst{false}
			if id := blk.Idom(); id != nil {
				for ei, e := range ph.Edges {
					f = mkOr(f, mkAnd(ipb.pathCondEdge(id, blk.Preds[ei], blk), nilOf(e, d+1)))
				}
			}
			return f
		}
		return fConst{false}
	}
	var f formula = fConst{false}
	for _, r := range returnsOf(vw.fn) {
		f = mkOr(f, mkAnd(ipb.pathCond(vw.fn.Blocks[0], r.Block()), nilOf(retVals(r)[0], 0)))
	}
	return k.substParams(pb, vw, s.Call, f)
}

// withSites makes pb expand nil-tests of wrapper call results through their summaries.
func (k *core) withSites(pb *predBuilder, sites []verifySite) *predBuilder {
	pb.nilOf = func(v ssa.Value) (formula, bool) {
		for _, s := range sites {
			if s.wrap != nil && v == ssa.Value(s.Call) {
				return k.resultNil(pb, s), true
			}
		}
		return nil, false
	}
	return pb
}

func substAtoms(f formula, m map[string]formula) formula {
	switch x := f.(type) {
	case fAtom:
		if r, ok := m[x.Key]; ok {
			return r
		}
		return x
	case fNot:
		return mkNot(substAtoms(x.X, m))
	case fAnd:
		return mkAnd(substAtoms(x.A, m), substAtoms(x.B, m))
	case fOr:
		return mkOr(substAtoms(x.A, m), substAtoms(x.B, m))
	}
	return f
}

// recvIs: the verified value is exactly a value satisfying pred, up to interface
// conversions and merges (no load through it, no copy of its pointee: Verify
// must see the very pointer that is published, and a dereferenced copy would
// not even implement VerifiedConfig for pointer-receiver Verify methods).
func recvIs(v ssa.Value, pred func(ssa.Value) bool) bool {
	seen := map[ssa.Value]bool{}
	var rec func(v ssa.Value, d int) bool
	rec = func(v ssa.Value, d int) bool {
		if v == nil || d > 8 || seen[v] {
			return false
		}
		seen[v] = true
		if pred(v) {
			return true
		}
		switch x := v.(type) {
		case *ssa.MakeInterface:
			return rec(x.X, d+1)
		case *ssa.ChangeInterface:
			return rec(x.X, d+1)
		case *ssa.ChangeType:
			return rec(x.X, d+1)
		case *ssa.TypeAssert:
			return rec(x.X, d+1)
		case *ssa.Extract:
			if ta, ok := x.Tuple.(*ssa.TypeAssert); ok && x.Index == 0 {
				return rec(ta.X, d+1)
			}
		case *ssa.Phi:
			for _, e := range x.Edges {
				if !rec(e, d+1) {
					return false
				}
			}
			return len(x.Edges) > 0
		}
		return false
	}
	return rec(v, 0)
}
