package main

import (
	"go/types"

	"golang.org/x/tools/go/ssa"
)

// Verify sites. A rule that reasons about "the place where Verify is invoked"
// sees either the raw interface invoke (preceded by the comma-ok assertion to
// VerifiedConfig) or a call of a *verify wrapper*: a small side-effect-free
// helper of the root package that performs exactly that assertion and invoke on
// one of its parameters and returns the error (or nil). Wrapper calls are
// analysed through a summary of the helper (when is Verify reached, when is the
// result nil), with the helper's boolean parameters replaced by the caller's
// arguments, so that extracting the verification block into a function does not
// change any verdict.

type verifyWrap struct {
	fn       *ssa.Function
	vi       *ssa.Call       // the Verify invoke inside fn
	ta       *ssa.TypeAssert // its comma-ok assertion
	cfgParam int             // index (in fn.Params) of the parameter that is verified
}

type verifySite struct {
	Call *ssa.Call // in the analysed function: the raw invoke, or the wrapper call; its result is the error
	Recv ssa.Value // the config value that is verified
	ta   *ssa.TypeAssert
	wrap *verifyWrap
}

var verifyWrapCache = map[*ssa.Function]*verifyWrap{}

// verifyWrapOf recognises a verify wrapper.
func (k *core) verifyWrapOf(h *ssa.Function) *verifyWrap {
	if h == nil {
		return nil
	}
	h = origin(h)
	if vw, ok := verifyWrapCache[h]; ok {
		return vw
	}
	verifyWrapCache[h] = nil
	if len(h.Blocks) == 0 || k.w.pkgRelOfFn(h) != "" || h.Parent() != nil {
		return nil
	}
	res := h.Signature.Results()
	if res.Len() != 1 || types.TypeString(res.At(0).Type(), nil) != "error" {
		return nil
	}
	var vi *ssa.Call
	for _, i := range allInstrs(h) {
		switch x := i.(type) {
		case *ssa.Call:
			if _, ok := k.isVerifyInvoke(x); ok {
				if vi != nil {
					return nil
				}
				vi = x
				continue
			}
			return nil // any other call: not a pure wrapper
		case *ssa.Store, *ssa.Send, *ssa.Go, *ssa.Defer, *ssa.MapUpdate, *ssa.Select, *ssa.Panic:
			return nil
		}
	}
	if vi == nil {
		return nil
	}
	ta := k.verifiedAssert(vi.Call.Value)
	if ta == nil || !ta.CommaOk {
		return nil
	}
	p, ok := stripConv(ta.X).(*ssa.Parameter)
	if !ok {
		return nil
	}
	cfgParam := -1
	for pi, hp := range h.Params {
		if hp == p {
			cfgParam = pi
		}
	}
	if cfgParam < 0 {
		return nil
	}
	// results: nil, the Verify error, or a merge of those
	var okVal func(v ssa.Value, d int) bool
	okVal = func(v ssa.Value, d int) bool {
		if d > 4 {
			return false
		}
		if isNilConst(v) || v == ssa.Value(vi) {
			return true
		}
		if ph, ok := v.(*ssa.Phi); ok {
			for _, e := range ph.Edges {
				if !okVal(e, d+1) {
					return false
				}
			}
			return true
		}
		return false
	}
	for _, r := range returnsOf(h) {
		if !okVal(retVals(r)[0], 0) {
			return nil
		}
	}
	vw := &verifyWrap{fn: h, vi: vi, ta: ta, cfgParam: cfgParam}
	verifyWrapCache[h] = vw
	return vw
}

// verifySites lists the Verify sites of f.
func (k *core) verifySites(f *ssa.Function) []verifySite {
	var out []verifySite
	for _, i := range allInstrs(f) {
		call, ok := i.(*ssa.Call)
		if !ok {
			continue
		}
		if _, ok := k.isVerifyInvoke(call); ok {
			s := verifySite{Call: call}
			if ta := k.verifiedAssert(call.Call.Value); ta != nil {
				s.ta = ta
				s.Recv = ta.X
			}
			out = append(out, s)
			continue
		}
		if vw := k.verifyWrapOf(staticCallee(call)); vw != nil && origin(f) != vw.fn {
			args := call.Call.Args
			if vw.cfgParam < len(args) {
				out = append(out, verifySite{Call: call, Recv: args[vw.cfgParam], wrap: vw})
			}
		}
	}
	return out
}

// from is the block from which the site's own guard is taken: the assertion's
// block for a raw invoke, the call's block for a wrapper call.
func (s verifySite) from() *ssa.BasicBlock {
	if s.ta != nil {
		return s.ta.Block()
	}
	return s.Call.Block()
}

// innerNamer names the atoms of a wrapper's body: isVerified (through k.namer),
// verifyErr, and one placeholder per boolean parameter.
func (k *core) innerPB(vw *verifyWrap) *predBuilder {
	return &predBuilder{name: k.namer(func(v ssa.Value) string {
		if v == ssa.Value(vw.vi) {
			return "verifyErr"
		}
		if p, ok := v.(*ssa.Parameter); ok && p.Parent() == vw.fn {
			if b, ok := p.Type().Underlying().(*types.Basic); ok && b.Kind() == types.Bool {
				for pi, hp := range vw.fn.Params {
					if hp == p {
						return "§param" + itoa(pi)
					}
				}
			}
		}
		return ""
	})}
}

// substParams replaces the wrapper's parameter placeholders by the formulas of the caller's arguments.
func (k *core) substParams(pb *predBuilder, vw *verifyWrap, call *ssa.Call, f formula) formula {
	m := map[string]formula{}
	for pi := range vw.fn.Params {
		if pi < len(call.Call.Args) {
			if b, ok := call.Call.Args[pi].Type().Underlying().(*types.Basic); ok && b.Kind() == types.Bool {
				m["§param"+itoa(pi)] = pb.valueFormula(call.Call.Args[pi], 0)
			}
		}
	}
	return substAtoms(f, m)
}

// siteGuard: the condition, from block `from` of the analysed function, under
// which Verify is actually invoked at this site.
func (k *core) siteGuard(pb *predBuilder, s verifySite, from *ssa.BasicBlock) formula {
	g := pb.pathCond(from, s.Call.Block())
	if s.wrap == nil {
		return g
	}
	ipb := k.innerPB(s.wrap)
	reached := ipb.pathCond(s.wrap.fn.Blocks[0], s.wrap.vi.Block())
	return mkAnd(g, k.substParams(pb, s.wrap, s.Call, reached))
}

// resultNil: the formula of "the wrapper call's result is nil" in the caller's terms.
func (k *core) resultNil(pb *predBuilder, s verifySite) formula {
	vw := s.wrap
	ipb := k.innerPB(vw)
	var nilOf func(v ssa.Value, d int) formula
	nilOf = func(v ssa.Value, d int) formula {
		switch {
		case isNilConst(v):
			return fConst{true}
		case v == ssa.Value(vw.vi):
			return fAtom{"isnil(verifyErr)"}
		}
		if ph, ok := v.(*ssa.Phi); ok && d < 5 {
			blk := ph.Block()
			var f formula = fConst{false}
			if id := blk.Idom(); id != nil {
				for ei, e := range ph.Edges {
					f = mkOr(f, mkAnd(ipb.pathCondEdge(id, blk.Preds[ei], blk), nilOf(e, d+1)))
				}
			}
			return f
		}
		return fConst{false}
	}
	var f formula = fConst{false}
	for _, r := range returnsOf(vw.fn) {
		f = mkOr(f, mkAnd(ipb.pathCond(vw.fn.Blocks[0], r.Block()), nilOf(retVals(r)[0], 0)))
	}
	return k.substParams(pb, vw, s.Call, f)
}

// withSites makes pb expand nil-tests of wrapper call results through their summaries.
func (k *core) withSites(pb *predBuilder, sites []verifySite) *predBuilder {
	pb.nilOf = func(v ssa.Value) (formula, bool) {
		for _, s := range sites {
			if s.wrap != nil && v == ssa.Value(s.Call) {
				return k.resultNil(pb, s), true
			}
		}
		return nil, false
	}
	return pb
}

func substAtoms(f formula, m map[string]formula) formula {
	switch x := f.(type) {
	case fAtom:
		if r, ok := m[x.Key]; ok {
			return r
		}
		return x
	case fNot:
		return mkNot(substAtoms(x.X, m))
	case fAnd:
		return mkAnd(substAtoms(x.A, m), substAtoms(x.B, m))
	case fOr:
		return mkOr(substAtoms(x.A, m), substAtoms(x.B, m))
	}
	return f
}

// recvIs: the verified value is exactly a value satisfying pred, up to interface
// conversions and merges (no load through it, no copy of its pointee: Verify
// must see the very pointer that is published, and a dereferenced copy would
// not even implement VerifiedConfig for pointer-receiver Verify methods).
func recvIs(v ssa.Value, pred func(ssa.Value) bool) bool {
	seen := map[ssa.Value]bool{}
	var rec func(v ssa.Value, d int) bool
	rec = func(v ssa.Value, d int) bool {
		if v == nil || d > 8 || seen[v] {
			return false
		}
		seen[v] = true
		if pred(v) {
			return true
		}
		switch x := v.(type) {
		case *ssa.MakeInterface:
			return rec(x.X, d+1)
		case *ssa.ChangeInterface:
			return rec(x.X, d+1)
		case *ssa.ChangeType:
			return rec(x.X, d+1)
		case *ssa.TypeAssert:
			return rec(x.X, d+1)
		case *ssa.Extract:
			if ta, ok := x.Tuple.(*ssa.TypeAssert); ok && x.Index == 0 {
				return rec(ta.X, d+1)
			}
		case *ssa.Phi:
			for _, e := range x.Edges {
				if !rec(e, d+1) {
					return false
				}
			}
			return len(x.Edges) > 0
		}
		return false
	}
	return rec(v, 0)
}

// ---- reject helpers ---------------------------------------------------------------------------------

// A reject helper is an unexported, non-escaping method of the root package that does, for an error and a value
// update passed in, exactly what the reject branches of the update path must do: submit a watchErrorEvent{err: the
// error parameter, oldConfig: View(), newConfig: the *T parameter (or nil)} on every path, and answer the update's
// reply channel with that error exactly once whenever the channel is non-nil - and nothing else (no store, no
// Events send). A call of such a helper counts as "event submitted" and "reply sent" for the error argument, so
// that folding the two reject branches into one helper does not change a verdict.
type rejectHelper struct {
	fn               *ssa.Function
	errP, newP, updP int
}

var rejectHelperCache = map[*ssa.Function]*rejectHelper{}

func nilEdgeFilter(b *ssa.BasicBlock, succ int) bool {
	if iff, ok := b.Instrs[len(b.Instrs)-1].(*ssa.If); ok {
		if nv, nilWhenTrue, ok := nilCheckOf(iff.Cond); ok && isErrorChan(nv.Type()) {
			nilEdge := 1
			if nilWhenTrue {
				nilEdge = 0
			}
			return succ != nilEdge
		}
	}
	return true
}

func (k *core) rejectHelperOf(h *ssa.Function) *rejectHelper {
	if h == nil {
		return nil
	}
	h = origin(h)
	if rh, ok := rejectHelperCache[h]; ok {
		return rh
	}
	rejectHelperCache[h] = nil
	if len(h.Blocks) == 0 || k.w.pkgRelOfFn(h) != "" || h.Parent() != nil || isAPI(h) || k.cg.escapes[h] {
		return nil
	}
	rh := &rejectHelper{fn: h, errP: -1, newP: -1, updP: -1}
	for pi, p := range h.Params {
		switch {
		case types.TypeString(p.Type(), nil) == "error":
			rh.errP = pi
		case namedTypeName(p.Type()) == ".valueUpdate":
			rh.updP = pi
		}
	}
	if rh.errP < 0 || rh.updP < 0 {
		return nil
	}
	errV := ssa.Value(h.Params[rh.errP])
	// no store of a version, no Events send, no goroutine
	for _, sc := range k.storeCalls {
		if origin(sc.Parent()) == h {
			return nil
		}
	}
	for _, i := range allInstrs(h) {
		if _, ok := i.(*ssa.Go); ok {
			return nil
		}
	}
	for _, op := range chanOps(h) {
		if chanIsField(op.Chan, k.fUpdates) {
			return nil
		}
	}
	// (i) every path to a return submits the event
	isSubmit := func(i ssa.Instruction) bool {
		ci, ok := i.(*ssa.Call)
		if !ok {
			return false
		}
		for _, a := range ci.Call.Args {
			al := allocOf(a)
			if al == nil || litTypeName(al) != ".watchErrorEvent" {
				continue
			}
			if e := litField(al, "err"); e != errV {
				continue
			}
			if oc := litField(al, "oldConfig"); oc == nil || !k.isCurrentConfig(oc, 0) {
				continue
			}
			nc := litField(al, "newConfig")
			if p, ok := nc.(*ssa.Parameter); ok {
				for pi, hp := range h.Params {
					if hp == p {
						rh.newP = pi
					}
				}
				return true
			}
			if nc == nil || isNilConst(nc) {
				return true
			}
		}
		return false
	}
	if hit := reachAvoidFromBlock(h.Blocks[0], isReturn, isSubmit); hit != nil {
		return nil
	}
	// (ii) the reply: sent the error whenever non-nil, never twice
	isReply := func(i ssa.Instruction) bool {
		s, ok := i.(*ssa.Send)
		if !ok || !isErrorChan(s.Chan.Type()) || s.X != errV {
			return false
		}
		_, isFld := loadOfTypeField(s.Chan, ".valueUpdate", "installed")
		return isFld
	}
	if hit := reachAvoidEdges(h.Blocks[0], isReturn, isReply, nilEdgeFilter); hit != nil {
		return nil
	}
	for _, i := range allInstrs(h) {
		if s, ok := i.(*ssa.Send); ok {
			if !isReply(s) {
				return nil // any other send
			}
			if again := reachAvoid(h, s, func(j ssa.Instruction) bool { _, ok := j.(*ssa.Send); return ok }, nil); again != nil {
				return nil
			}
		}
	}
	rejectHelperCache[h] = rh
	return rh
}

// rejectCall: i is a call of a reject helper; returns the helper and the call.
func (k *core) rejectCall(i ssa.Instruction) (*rejectHelper, *ssa.Call) {
	call, ok := i.(*ssa.Call)
	if !ok {
		return nil, nil
	}
	rh := k.rejectHelperOf(staticCallee(call))
	if rh == nil {
		return nil, nil
	}
	return rh, call
}
