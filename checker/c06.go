package main

import (
	"go/token"
	"go/types"

	"golang.org/x/tools/go/ssa"
)

func init() {
	props["C06"] = &propMeta{
		run: runC06,
		explanation: "Serials are only copied, compared and incremented by one, so the never-stale and catch-up clauses reduce to truth tables over all orderings of (registered serial, event serial, last announced serial), " +
			"extracted from the callback loop as reaching-condition formulas; serialization, FIFO consumption, the last-announced bookkeeping, argument provenance of every handler call, order-preserving removal " +
			"and the unregister handshake are dominance / path / who-may facts of the one callback goroutine. Not decided: behaviour once the documented drop-on-overflow has triggered.",
		assumptions: []string{"Go channels are FIFO", "user callbacks return"},
	}
}

// arm describes one case of the type switch over an event.
type arm struct {
	ta    *ssa.TypeAssert
	ev    ssa.Value // the asserted event value
	entry *ssa.BasicBlock
}

// eventArm finds the comma-ok assertion to *typ (typ like ".newConfigEvent") in f.
func eventArm(f *ssa.Function, typ string) *arm {
	for _, i := range allInstrs(f) {
		ta, ok := i.(*ssa.TypeAssert)
		if !ok || !ta.CommaOk || namedTypeName(ta.AssertedType) != typ {
			continue
		}
		a := &arm{ta: ta}
		for _, r := range *ta.Referrers() {
			ex, ok := r.(*ssa.Extract)
			if !ok {
				continue
			}
			if ex.Index == 0 {
				a.ev = ex
			} else {
				for _, rr := range *ex.Referrers() {
					if iff, ok := rr.(*ssa.If); ok {
						a.entry = iff.Block().Succs[0]
					}
				}
			}
		}
		if a.ev != nil && a.entry != nil && len(a.entry.Preds) == 1 {
			return a
		}
	}
	return nil
}

func inArm(a *arm, b *ssa.BasicBlock) bool { return a.entry == b || a.entry.Dominates(b) }

// loadOfField: v is a load of field `name` of a value of named type typ.
func loadOfTypeField(v ssa.Value, typ, name string) (ssa.Value, bool) {
	v = stripConv(v)
	switch x := v.(type) {
	case *ssa.UnOp:
		if x.Op == token.MUL {
			if fa, ok := x.X.(*ssa.FieldAddr); ok && fieldName(fa.X.Type(), fa.Field) == name && namedTypeName(fa.X.Type()) == typ {
				return fa.X, true
			}
		}
	case *ssa.Field:
		if fieldName(x.X.Type(), x.Field) == name && namedTypeName(x.X.Type()) == typ {
			return x.X, true
		}
	}
	return nil, false
}

// phiFed reports whether phi p (transitively through phis) has an incoming
// value satisfying pred.
func phiFed(v ssa.Value, pred func(ssa.Value) bool) bool {
	seen := map[ssa.Value]bool{}
	var rec func(v ssa.Value) bool
	rec = func(v ssa.Value) bool {
		if seen[v] {
			return false
		}
		seen[v] = true
		if pred(v) {
			return true
		}
		if p, ok := v.(*ssa.Phi); ok {
			for _, e := range p.Edges {
				if rec(e) {
					return true
				}
			}
		}
		return false
	}
	p, ok := v.(*ssa.Phi)
	if !ok {
		return false
	}
	for _, e := range p.Edges {
		if rec(e) {
			return true
		}
	}
	return false
}

func runC06(c *Ctx) {
	c.rule("one-consumer", "exactly one `go` statement (in Config, not in a loop) starts the callback loop; the loop starts no goroutine; every call of a handler-typed value lies in the loop function itself", 2)
	c.rule("fifo", "the callback queue is received from only inside the callback loop; config/error events are constructed only in functions reachable exclusively from the monitor goroutine and sent only through the two submit helpers", 3)
	c.rule("cbloop-drains", "the callback goroutine returns only after finding the queue empty (no installed version is skipped on shutdown while callbacks keep up)", 1)
	c.rule("skip-predicate", "a registered handle is called for a new-config event exactly when event.serial > handle.minSerial (truth table over all orderings), and the loop over the handles ends only by exhaustion", 1)
	c.rule("catchup-predicate", "the registration arm calls the handle exactly when the registered cfg is non-nil and the registered serial < the last announced serial, with (registered cfg, last announced version) as arguments", 2)
	c.rule("last-announced", "the last-announced serial/version are assigned the event's serial/newConfig on every path through the new-config arm, and nowhere else", 2)
	c.rule("call-args", "ordinary handler calls receive (event.oldConfig, event.newConfig) in this order; the global OnNewConfig is called exactly when non-nil and not suppressed, before the registered handles", 3)
	c.rule("min-serial-origin", "handle.minSerial is initialised from the CfgSerial passed to RegisterCallback, whose serial field is only produced by ViewVersion from the loaded version", 2)
	c.rule("event-serial", "newConfigEvent.serial/oldConfig come from the load immediately preceding the install (shared with C05)", 1)
	c.rule("atomic-pair", "(shared with C05) the (config, serial) pair a callback is registered with comes from one atomic load: a torn pair makes the callback miss a version or see a wrong predecessor", 2)
	c.rule("every-install-announced", "the monitor submits the new-config event exactly when the storing function returned a non-nil config (no further condition): no installed version is skipped", 1)
	c.rule("unregister-handshake", "the unregister arm rebuilds the handle list in order (append of every element != the handle, no in-place mutation) and closes the done channel afterwards on every path; the unregister function returns true only after receiving from that done channel", 4)

	k := loadCore(c)
	if !k.ok {
		return
	}
	w := c.W
	f := k.cbLoop
	c.analysed(relName(f))
	c.analysed(relName(k.monitor))
	c.analysed(relName(k.register))

	// ---- one-consumer ---------------------------------------------------------
	goSites := 0
	for _, e := range k.cg.in[f] {
		if e.Kind == "go" {
			goSites++
			c.check(origin(e.From) == k.config && !inLoop(e.Site.(ssa.Instruction)), "one-consumer", relName(f)+"#go", e.Site.Pos(),
				"the callback loop is started once, from Config, outside any loop", "the callback loop is started from a loop or outside Config")
		} else if e.Kind == "call" || e.Kind == "defer" {
			c.bad("one-consumer", relName(f)+"#go", e.Site.Pos(), "the callback loop is also called synchronously from %s", relName(e.From))
		}
	}
	if goSites != 1 {
		c.bad("one-consumer", relName(f)+"#go-count", f.Pos(), "%d `go` sites start the callback loop, want exactly 1", goSites)
	}
	spawns := false
	for _, i := range allInstrs(f) {
		if _, ok := i.(*ssa.Go); ok {
			spawns = true
		}
	}
	c.check(!spawns, "one-consumer", relName(f)+"#no-spawn", f.Pos(), "the callback loop starts no goroutine (callbacks run on it, one at a time)", "the callback loop starts goroutines: callbacks may overlap")
	for _, g := range w.Funcs {
		if g == f {
			continue
		}
		if k.isCbHelper(g) != nil {
			continue // a synchronous helper of the loop (one call site): its calls are the loop's
		}
		for _, i := range allInstrs(g) {
			if ci, ok := i.(ssa.CallInstruction); ok && isHandlerCall(ci) && w.pkgOfFn(g) == w.pkg("") {
				c.bad("one-consumer", relName(g)+"#handler-call", ci.Pos(), "a handler is invoked outside the callback loop")
			}
		}
	}

	// ---- fifo -----------------------------------------------------------------
	recvOutside := false
	for _, g := range w.funcsIn("") {
		if g == f {
			continue
		}
		for _, op := range chanOps(g) {
			if !op.Send && isEventChan(op.Chan.Type()) {
				recvOutside = true
				c.bad("fifo", relName(g)+"#recv", op.Instr.Pos(), "the callback queue is received from outside the callback loop")
			}
		}
	}
	if !recvOutside {
		c.ok("fifo", "single-consumer", f.Pos(), "only the callback loop receives from the callback queue")
	}
	monReach := k.cg.reachableFrom(k.monitor, false)
	for _, g := range w.funcsIn("") {
		for _, i := range allInstrs(g) {
			al, ok := i.(*ssa.Alloc)
			if !ok {
				continue
			}
			tn := litTypeName(al)
			if tn != ".newConfigEvent" && tn != ".watchErrorEvent" {
				continue
			}
			roots, others := k.cg.goroutineRootsOf(g)
			_, isMon := roots[k.monitor]
			c.check(monReach[origin(g)] && isMon && len(roots) == 1 && len(others) == 0, "fifo", relName(g)+"#"+tn[1:], al.Pos(),
				"event constructed only on the monitor goroutine", "a config/error event is constructed outside the monitor goroutine")
		}
	}
	senders := map[string]bool{}
	for _, g := range w.funcsIn("") {
		for _, op := range chanOps(g) {
			if op.Send && isEventChan(op.Chan.Type()) {
				senders[relName(g)] = true
			}
		}
	}
	c.check(len(senders) <= 2 && len(senders) >= 1, "fifo", "senders", 0,
		"the queue is sent to only by the submit helpers "+joinKeys(senders), "unexpected number of functions sending on the callback queue: "+joinKeys(senders))

	k.checkCbLoopDrains("cbloop-drains")

	// ---- arms --------------------------------------------------------------------
	newArm := eventArm(f, ".newConfigEvent")
	regArm := eventArm(f, ".userCallbackRegistration")
	unregArm := eventArm(f, ".userCallbackUnregister")
	errArm := eventArm(f, ".watchErrorEvent")
	if !c.need(newArm != nil && regArm != nil && unregArm != nil && errArm != nil, "type-switch arms for the four callback events in the callback loop") {
		return
	}
	isEvSerial := func(v ssa.Value) bool {
		b, ok := loadOfTypeField(v, ".newConfigEvent", "serial")
		return ok && k.cbUp(b) == newArm.ev
	}
	isEvNew := func(v ssa.Value) bool {
		b, ok := loadOfTypeField(v, ".newConfigEvent", "newConfig")
		return ok && k.cbUp(b) == newArm.ev
	}
	isEvOld := func(v ssa.Value) bool {
		b, ok := loadOfTypeField(v, ".newConfigEvent", "oldConfig")
		return ok && k.cbUp(b) == newArm.ev
	}
	isLastSerial := func(v ssa.Value) bool { return phiFed(v, isEvSerial) }
	isLastVersion := func(v ssa.Value) bool { return phiFed(v, isEvNew) }

	// ---- handler calls, classified by arm ------------------------------------------
	type hcall struct {
		ci  *ssa.Call
		arm *ssa.BasicBlock // the block of the loop the call belongs to (its own, or the helper's call site)
	}
	var hcalls []hcall
	for _, i := range allInstrs(f) {
		if ci, ok := i.(*ssa.Call); ok && isHandlerCall(ci) {
			hcalls = append(hcalls, hcall{ci, ci.Block()})
		}
	}
	for _, h := range k.cbHelpers() {
		for _, i := range allInstrs(h.fn) {
			if ci, ok := i.(*ssa.Call); ok && isHandlerCall(ci) {
				hcalls = append(hcalls, hcall{ci, h.site.Block()})
			}
		}
	}
	for _, hc := range hcalls {
		ci := hc.ci
		args := ci.Call.Args
		callee := ci.Call.Value
		switch {
		case inArm(newArm, hc.arm):
			if _, isHandle := loadOfTypeField(callee, ".userCallbackHandle", "cb"); isHandle {
				// skip-predicate: from the block that loads the handle element
				hbase, _ := loadOfTypeField(callee, ".userCallbackHandle", "cb")
				var from *ssa.BasicBlock
				if hi, ok := hbase.(ssa.Instruction); ok {
					from = hi.Block()
				}
				if from == nil || !(from == ci.Block() || from.Dominates(ci.Block())) {
					c.undecided("skip-predicate", relName(f)+"#handle-call", ci.Pos(), "cannot locate the per-handle region")
				} else {
					pb := &predBuilder{name: func(v ssa.Value) string {
						if _, ok := loadOfTypeField(v, ".userCallbackHandle", "minSerial"); ok {
							return "minSerial"
						}
						if isEvSerial(v) {
							return "evSerial"
						}
						return ""
					}}
					g := pb.pathCond(from, ci.Block())
					c.checkTable("skip-predicate", relName(f)+"#handle-call", ci.Pos(), g, nil, []string{"minSerial", "evSerial"},
						"evSerial > minSerial", func(e env) bool { return e.I["evSerial"] > e.I["minSerial"] })
					// ... and every handle is looked at: the loop over the handle list that contains the call ends only by
					// exhaustion (a `break` where the skip belongs drops every handle registered after a skipped one)
					// (the loop is around the call itself, or - where the per-handle step is a helper - around the helper's
					// call site in the event loop)
					innermost := func(fn *ssa.Function, at *ssa.BasicBlock) *ssa.BasicBlock {
						var inner *ssa.BasicBlock
						for _, h := range loopHeaders(fn) {
							if (h == at || inLoopBody(h, at)) && (inner == nil || inLoopBody(inner, h)) {
								if fn == f && !inArm(newArm, h) {
									continue // the event loop itself
								}
								inner = h
							}
						}
						return inner
					}
					cf := ci.Parent()
					var exits []*ssa.BasicBlock
					loops := 0
					if inner := innermost(cf, ci.Block()); inner != nil {
						loops++
						exits = append(exits, earlyLoopExits(cf, inner, false)...)
					}
					if cf != f {
						if inner := innermost(f, hc.arm); inner != nil {
							loops++
							exits = append(exits, earlyLoopExits(f, inner, false)...)
						}
					}
					if loops > 0 {
						c.check(len(exits) == 0, "skip-predicate", relName(f)+"#every-handle", ci.Pos(), "the loop over the registered handles ends only when the list is exhausted",
							"the loop over the registered handles can end early: the handles after the one that ends it are never called for this version (a skipped handle must not stop the delivery to the others)")
					}
				}
				c.check(len(args) == 3 && isEvOld(args[1]) && isEvNew(args[2]), "call-args", relName(f)+"#handle-args", ci.Pos(),
					"handle called with (event.oldConfig, event.newConfig)", "handle not called with (event.oldConfig, event.newConfig)")
			} else if handlerTypeName(callee.Type()) == "NewConfigHandler" {
				// the global OnNewConfig
				pb := &predBuilder{name: func(v ssa.Value) string {
					if _, ok := loadOfTypeField(v, ".Params", "OnNewConfig"); ok {
						return "OnNewConfig"
					}
					if b, ok := loadOfTypeField(v, ".newConfigEvent", "globalCBsSuppressed"); ok && b == newArm.ev {
						return "suppressed"
					}
					return ""
				}}
				g := pb.pathCond(newArm.entry, ci.Block())
				c.checkTable("call-args", relName(f)+"#global-guard", ci.Pos(), g, []string{"isnil(OnNewConfig)", "suppressed"}, nil,
					"OnNewConfig != nil && !suppressed", func(e env) bool { return !e.B["isnil(OnNewConfig)"] && !e.B["suppressed"] })
				okArgs := len(args) == 3 && isEvOld(args[1]) && isEvNew(args[2])
				// before the handles: dominates every handle call in the arm or is not reachable from one
				before := true
				for _, j := range allInstrs(f) {
					cj, ok := j.(*ssa.Call)
					if !ok || !isHandlerCall(cj) || cj == ci || !inArm(newArm, cj.Block()) {
						continue
					}
					if reachAvoid(f, cj, func(x ssa.Instruction) bool { return x == ssa.Instruction(ci) }, func(x ssa.Instruction) bool { return x.Block() == f.Blocks[1] && false }) != nil {
						// ci reachable after a handle call within the same iteration? only via the loop header
						if !ci.Block().Dominates(cj.Block()) && !newArm.entry.Dominates(ci.Block()) {
							before = false
						}
					}
				}
				c.check(okArgs && before, "call-args", relName(f)+"#global-args", ci.Pos(),
					"OnNewConfig called with (event.oldConfig, event.newConfig)", "OnNewConfig not called with (event.oldConfig, event.newConfig)")
			}
		case inArm(regArm, hc.arm):
			// catch-up
			pb := &predBuilder{name: func(v ssa.Value) string {
				if b, ok := loadOfTypeField(v, ".CfgSerial", "cfg"); ok {
					if bb, ok := loadOfTypeField(b, ".userCallbackRegistration", "serial"); ok && bb == regArm.ev {
						return "regCfg"
					}
				}
				if b, ok := loadOfTypeField(v, ".CfgSerial", "s"); ok {
					if bb, ok := loadOfTypeField(b, ".userCallbackRegistration", "serial"); ok && bb == regArm.ev {
						return "regSerial"
					}
				}
				if isLastSerial(v) {
					return "lastSerial"
				}
				return ""
			}}
			g := pb.pathCond(regArm.entry, ci.Block())
			c.checkTable("catchup-predicate", relName(f)+"#catchup-guard", ci.Pos(), g, []string{"isnil(regCfg)"}, []string{"regSerial", "lastSerial"},
				"regCfg != nil && regSerial < lastSerial", func(e env) bool { return !e.B["isnil(regCfg)"] && e.I["regSerial"] < e.I["lastSerial"] })
			okA := false
			if len(args) == 3 {
				if b, ok := loadOfTypeField(args[1], ".CfgSerial", "cfg"); ok {
					if bb, ok := loadOfTypeField(b, ".userCallbackRegistration", "serial"); ok && bb == regArm.ev && isLastVersion(args[2]) {
						okA = true
					}
				}
			}
			hb, isH := loadOfTypeField(callee, ".userCallbackHandle", "cb")
			if isH {
				if bb, ok := loadOfTypeField(hb, ".userCallbackRegistration", "handle"); !ok || bb != regArm.ev {
					isH = false
				}
			}
			c.check(okA && isH, "catchup-predicate", relName(f)+"#catchup-args", ci.Pos(),
				"catch-up calls the registering handle with (registered cfg, last announced version)", "catch-up call does not pass (registered cfg, last announced version) to the registering handle")
		}
	}

	// ---- last-announced -----------------------------------------------------------------
	for _, spec := range []struct {
		what  string
		isSrc func(ssa.Value) bool
	}{{"lastSerial", isEvSerial}, {"lastVersion", isEvNew}} {
		var phi *ssa.Phi
		for _, i := range allInstrs(f) {
			if p, ok := i.(*ssa.Phi); ok && !inArm(newArm, p.Block()) && !inArm(regArm, p.Block()) && !inArm(unregArm, p.Block()) && !inArm(errArm, p.Block()) {
				direct := false
				for _, e := range p.Edges {
					if spec.isSrc(e) {
						direct = true
					}
				}
				if direct {
					phi = p
				}
			}
		}
		name := relName(f) + "#" + spec.what
		if phi == nil {
			c.bad("last-announced", name, f.Pos(), "no loop-carried variable is assigned the event's %s", spec.what)
			continue
		}
		bad := ""
		for ei, e := range phi.Edges {
			p := phi.Block().Preds[ei]
			switch {
			case inArm(newArm, p):
				if !spec.isSrc(e) {
					bad = "a path through the new-config arm leaves " + spec.what + " unchanged or assigns something else"
				}
			case e == ssa.Value(phi):
			default:
				if cst, ok := e.(*ssa.Const); ok && (cst.IsNil() || cst.Value == nil || cst.Value.ExactString() == "0") {
					continue
				}
				bad = spec.what + " is also assigned outside the new-config arm (" + canon(e) + ")"
			}
		}
		// assigned before any handler call in the arm: the load is in the arm entry block or dominates calls
		c.check(bad == "", "last-announced", name, phi.Pos(), spec.what+" := event value on every path through the new-config arm, unchanged elsewhere", bad)
	}

	// ---- min-serial-origin -------------------------------------------------------------------
	rf := k.register
	found := false
	for _, i := range allInstrs(rf) {
		al, ok := i.(*ssa.Alloc)
		if !ok || litTypeName(al) != ".userCallbackHandle" {
			continue
		}
		found = true
		ms := litField(al, "minSerial")
		okm := false
		if ms != nil {
			if b, ok := loadOfTypeField(ms, ".CfgSerial", "s"); ok {
				// base is the (spilled) CfgSerial parameter
				if al2, ok := b.(*ssa.Alloc); ok {
					if st := uniqueStore(al2); st != nil {
						if p, ok := st.Val.(*ssa.Parameter); ok && p.Parent() == rf {
							okm = true
						}
					}
				} else if p, ok := b.(*ssa.Parameter); ok && p.Parent() == rf {
					okm = true
				}
			}
		}
		c.check(okm, "min-serial-origin", relName(rf)+"#minSerial", al.Pos(), "handle.minSerial = the serial of the CfgSerial argument", "handle.minSerial is not the serial of the CfgSerial argument")
	}
	if !found {
		c.bad("min-serial-origin", relName(rf)+"#minSerial", rf.Pos(), "RegisterCallback does not build a userCallbackHandle")
	}
	// ... and the threshold is never touched again: the only writer of userCallbackHandle.minSerial is the
	// construction of the handle in RegisterCallback (the callback goroutine lowering it re-opens the window for a
	// version the registration already knew about)
	if fM := w.field("", "userCallbackHandle", "minSerial"); fM != nil {
		okM, nM := true, 0
		for _, st := range w.storesToField(fM) {
			nM++
			fa, _ := st.Addr.(*ssa.FieldAddr)
			_, fresh := fa.X.(*ssa.Alloc)
			if origin(st.Parent()) != origin(rf) || !fresh {
				okM = false
				c.bad("min-serial-origin", relName(st.Parent())+"#minSerial-write", st.Pos(), "userCallbackHandle.minSerial is assigned outside the construction of the handle in RegisterCallback: a registered callback's threshold can move, and a version it registered with (or already received) be delivered to it")
			}
		}
		if okM {
			c.check(nM >= 1, "min-serial-origin", "minSerial-writers", rf.Pos(), "userCallbackHandle.minSerial is only written where RegisterCallback constructs the handle", "no writer of userCallbackHandle.minSerial found")
		}
	}
	fS := w.field("", "CfgSerial", "s")
	okS, nS := true, 0
	for _, st := range w.storesToField(fS) {
		nS++
		if origin(st.Parent()) != k.viewVersion {
			okS = false
			c.bad("min-serial-origin", relName(st.Parent())+"#CfgSerial.s", st.Pos(), "CfgSerial.s is written outside ViewVersion")
		}
	}
	if okS {
		c.check(nS >= 1, "min-serial-origin", "CfgSerial.s-writers", k.viewVersion.Pos(), "CfgSerial.s is only produced by ViewVersion", "no writer of CfgSerial.s found")
	}

	// ---- event-serial (shared with C05) ---------------------------------------------------------
	c05SerialEventOnly(c, k, "event-serial")

	// ---- unregister-handshake ---------------------------------------------------------------------
	c06Unregister(c, k, unregArm)
	c05Atomic(c, k)
	k.checkEveryInstallAnnounced("every-install-announced")
}

func joinKeys(m map[string]bool) string {
	s := ""
	for _, k := range sortedKeys(m) {
		if s != "" {
			s += ", "
		}
		s += k
	}
	return s
}

// c05SerialEventOnly re-checks the monitor-side event serial rule under another rule name.
func c05SerialEventOnly(c *Ctx, k *core, rule string) {
	f := k.frame().fn
	for _, i := range allInstrs(f) {
		al, ok := i.(*ssa.Alloc)
		if !ok || litTypeName(al) != ".newConfigEvent" {
			continue
		}
		ser := litField(al, "serial")
		old := litField(al, "oldConfig")
		nc := litField(al, "newConfig")
		var src *ssa.Call
		if add, ok := ser.(*ssa.BinOp); ok && add.Op == token.ADD {
			if n, isC := constInt(add.Y); isC && n == 1 {
				src = k.serialSource(add.X)
			} else if n, isC := constInt(add.X); isC && n == 1 {
				src = k.serialSource(add.Y)
			}
		}
		upd, _ := nc.(*ssa.Call)
		okOld := false
		if ex, ok := old.(*ssa.Extract); ok && src != nil && ex.Tuple == ssa.Value(src) && ex.Index == 0 {
			okOld = true
		}
		c.check(src != nil && upd != nil && domI(src, upd) && okOld, rule, relName(f)+"#event", al.Pos(),
			"event serial = serial loaded before the install + 1; oldConfig is the config of that load", "event serial/oldConfig are not taken from the load preceding the install")
	}
}

func c06Unregister(c *Ctx, k *core, a *arm) {
	f := k.cbLoop
	name := relName(f) + "#unregister-arm"
	// the loop-carried handle list: a phi at the loop header of slice-of-handle type
	isHandleSlice := func(t types.Type) bool {
		s, ok := t.Underlying().(*types.Slice)
		return ok && namedTypeName(s.Elem()) == ".userCallbackHandle"
	}
	var list *ssa.Phi
	for _, i := range allInstrs(f) {
		if p, ok := i.(*ssa.Phi); ok && isHandleSlice(p.Type()) && !inArm(a, p.Block()) {
			if list == nil || p.Block().Dominates(list.Block()) {
				list = p
			}
		}
	}
	if list == nil {
		c.undecided("unregister-handshake", name, f.Pos(), "cannot find the loop-carried handle list")
		return
	}
	// no in-place mutation of the list anywhere in the loop
	inPlace := false
	for _, i := range allInstrs(f) {
		if st, ok := i.(*ssa.Store); ok {
			if ia, ok := st.Addr.(*ssa.IndexAddr); ok && isHandleSlice(ia.X.Type()) {
				if _, isAlloc := ia.X.(*ssa.Alloc); !isAlloc {
					inPlace = true
					c.bad("unregister-handshake", name+"-no-inplace", st.Pos(), "the handle list is modified in place (element order / identity of the running list can change)")
				}
			}
		}
	}
	if !inPlace {
		c.ok("unregister-handshake", name+"-no-inplace", a.entry.Instrs[0].Pos(), "the handle list is never modified in place")
	}
	// the list value leaving the arm: built by append(removed, elem) guarded by elem != e.handle, iterating the old list forward
	for ei, e := range list.Edges {
		p := list.Block().Preds[ei]
		if !inArm(a, p) {
			continue
		}
		okBuild := c06OrderedFilter(e, list, a)
		c.check(okBuild, "unregister-handshake", name+"-rebuild", e.Pos(),
			"new list = elements of the old list, in order, except the unregistered handle", "the list installed by the unregister arm is not an in-order filter of the old list by handle identity")
	}
	// close(done) on every path through the arm, after the rebuild loop
	isClose := func(i ssa.Instruction) bool {
		ci, ok := i.(*ssa.Call)
		if !ok || calleeFullName(ci) != "builtin.close" {
			return false
		}
		b, ok := loadOfTypeField(ci.Call.Args[0], ".userCallbackUnregister", "done")
		return ok && b == a.ev
	}
	leaves := func(i ssa.Instruction) bool { return !inArm(a, i.Block()) || isReturn(i) }
	if hit := reachAvoidFromBlock(a.entry, leaves, isClose); hit != nil {
		c.bad("unregister-handshake", name+"-close", hit.Pos(), "the arm can be left without closing the done channel")
	} else {
		// the close must come after the last append (the rebuild is complete)
		okAfter := true
		for _, i := range allInstrs(f) {
			if isClose(i) {
				if hit := reachAvoid(f, i, func(j ssa.Instruction) bool {
					cj, ok := j.(*ssa.Call)
					return ok && inArm(a, j.Block()) && calleeFullName(cj) == "builtin.append"
				}, func(j ssa.Instruction) bool { return !inArm(a, j.Block()) }); hit != nil {
					okAfter = false
				}
			}
		}
		c.check(okAfter, "unregister-handshake", name+"-close", a.entry.Instrs[0].Pos(),
			"done is closed on every path through the arm, after the list has been rebuilt", "done is closed before the list rebuild is finished")
	}

	// the API side: return true only after receiving from the done channel
	uf := c.W.fn("", "userCallbackUnregisterToken.unregister")
	if uf == nil {
		// the unregistering side under another shape (a closure returned by RegisterCallback, a plain function): the
		// one function of the package that builds the unregister event
		var cands []*ssa.Function
		for _, g := range c.W.funcsIn("") {
			for _, i := range allInstrs(g) {
				if al, ok := i.(*ssa.Alloc); ok && litTypeName(al) == ".userCallbackUnregister" {
					cands = append(cands, g)
					break
				}
			}
		}
		if len(cands) == 1 {
			uf = cands[0]
		}
	}
	if !c.need(uf != nil, "dials.userCallbackUnregisterToken.unregister") {
		return
	}
	c.analysed(relName(uf))
	var doneCh ssa.Value
	for _, i := range allInstrs(uf) {
		if al, ok := i.(*ssa.Alloc); ok && litTypeName(al) == ".userCallbackUnregister" {
			doneCh = stripConv(litField(al, "done"))
		}
	}
	okT, nT := true, 0
	for _, r := range returnsOf(uf) {
		rv := retVals(r)
		cst, ok := rv[0].(*ssa.Const)
		if ok && cst.Value != nil && cst.Value.ExactString() == "false" {
			continue
		}
		nT++
		// must be dominated by select index == k where state k receives from doneCh
		dom := false
		for _, ec := range condsDominating(r.Block()) {
			if !ec.Val {
				continue
			}
			if b, ok := ec.Cond.(*ssa.BinOp); ok && b.Op == token.EQL {
				if ex, ok := b.X.(*ssa.Extract); ok && ex.Index == 0 {
					if sel, ok := ex.Tuple.(*ssa.Select); ok {
						if idx, ok := constInt(b.Y); ok && int(idx) < len(sel.States) {
							st := sel.States[idx]
							if st.Dir == types.RecvOnly && doneCh != nil && stripConv(st.Chan) == doneCh {
								dom = true
							}
						}
					}
				}
			}
		}
		if !dom {
			okT = false
			c.bad("unregister-handshake", relName(uf)+"#return-true", r.Pos(), "unregister can report success without having received the callback goroutine's acknowledgement")
		}
	}
	if okT {
		c.check(nT >= 1 && doneCh != nil, "unregister-handshake", relName(uf)+"#return-true", uf.Pos(),
			"every non-false return is dominated by the receive from the done channel placed in the unregister event", "no acknowledged success return found")
	}
}

// c06OrderedFilter: v is the loop-carried `removed` list built as
// make(..) ; for i := range old { if handle == old[i] {continue}; removed = append(removed, old[i]) }.
func c06OrderedFilter(v ssa.Value, old *ssa.Phi, a *arm) bool {
	isH := func(y ssa.Value) bool {
		bb, ok := loadOfTypeField(y, ".userCallbackUnregister", "handle")
		return ok && bb == a.ev
	}
	// the filter may live in a helper: withoutHandle(oldList, e.handle) whose result is the in-order filter of
	// its first parameter by identity with its second
	if call, ok := v.(*ssa.Call); ok {
		if h := staticCallee(call); h != nil && len(h.Blocks) > 0 && len(h.Params) == 2 && len(call.Call.Args) == 2 {
			if call.Call.Args[0] != ssa.Value(old) || !isH(call.Call.Args[1]) {
				return false
			}
			rets := returnsOf(h)
			if len(rets) != 1 || len(retVals(rets[0])) != 1 {
				return false
			}
			hp := ssa.Value(h.Params[1])
			return c06OrderedFilterG(retVals(rets[0])[0], h.Params[0], func(y ssa.Value) bool { return y == hp })
		}
	}
	return c06OrderedFilterG(v, old, isH)
}

// c06OrderedFilterG: v is a list built as make(..); for i := range old { if handle == old[i] { continue }; v = append(v, old[i]) }.
func c06OrderedFilterG(v ssa.Value, old ssa.Value, isH func(ssa.Value) bool) bool {
	ph, ok := v.(*ssa.Phi)
	if !ok {
		return false
	}
	okInit, okApp := false, false
	// the join after `if keep { list = append(list, x) }` is a phi of (list, append(list, x)): flattened
	var edges []ssa.Value
	seenPhi := map[*ssa.Phi]bool{ph: true}
	var flat func(es []ssa.Value)
	flat = func(es []ssa.Value) {
		for _, e := range es {
			if x, isPhi := e.(*ssa.Phi); isPhi && !seenPhi[x] {
				seenPhi[x] = true
				flat(x.Edges)
				continue
			}
			edges = append(edges, e)
		}
	}
	flat(ph.Edges)
	for _, e := range edges {
		switch x := e.(type) {
		case *ssa.MakeSlice:
			okInit = true
		case *ssa.Slice: // make lowered to new array + slice
			okInit = true
		case *ssa.Phi:
			if !seenPhi[x] {
				return false
			}
		case *ssa.Call:
			if calleeFullName(x) != "builtin.append" || x.Call.Args[0] != ssa.Value(ph) {
				return false
			}
			// appended element: slice of a 1-element array holding old[i]
			elem := appendedSingle(x.Call.Args[1])
			ld, ok := elem.(*ssa.UnOp)
			if !ok || ld.Op != token.MUL {
				return false
			}
			ia, ok := ld.X.(*ssa.IndexAddr)
			if !ok || ia.X != old {
				return false
			}
			// index: forward range induction (phi + 1)
			if !isForwardRangeIndex(ia.Index) {
				return false
			}
			// guard: handle != elem
			guard := false
			for _, ec := range condsDominating(x.Block()) {
				b, ok := ec.Cond.(*ssa.BinOp)
				if !ok {
					continue
				}
				isE := func(y ssa.Value) bool { return y == elem || sameValue(y, elem) }
				if (isH(b.X) && isE(b.Y)) || (isH(b.Y) && isE(b.X)) {
					if (b.Op == token.EQL && !ec.Val) || (b.Op == token.NEQ && ec.Val) {
						guard = true
					}
				}
			}
			if !guard {
				return false
			}
			okApp = true
		default:
			return false
		}
	}
	return okInit && okApp
}

// appendedSingle returns x for append(s, x) lowered as append(s, (new [1]T{x})[:]...).
func appendedSingle(v ssa.Value) ssa.Value {
	sl, ok := v.(*ssa.Slice)
	if !ok {
		return nil
	}
	al, ok := sl.X.(*ssa.Alloc)
	if !ok {
		return nil
	}
	var out ssa.Value
	n := 0
	for _, r := range *al.Referrers() {
		if ia, ok := r.(*ssa.IndexAddr); ok {
			for _, rr := range *ia.Referrers() {
				if st, ok := rr.(*ssa.Store); ok && st.Addr == ia {
					out = st.Val
					n++
				}
			}
		}
	}
	if n != 1 {
		return nil
	}
	return out
}
