package main

import (
	"bytes"
	"encoding/json"
	"fmt"
	"go/ast"
	"go/format"
	"go/parser"
	"go/token"
	"go/types"
	"os"
	"sort"
	"strings"

	xinline "dialsverif/xinline/inline"

	"golang.org/x/tools/go/ast/astutil"
	"golang.org/x/tools/go/packages"
)

// Helper folding.
//
// "Extract a block into a helper" is the most common refactoring, and the rules describe the code with the block
// in place. Before the rules run, every call of a *new* unexported helper - a function of a repository package
// that is not in the recorded anchor table (anchors.json), is not a renamed recorded function, is only ever
// called statically from its own package and is not recursive - is inlined at its call sites with the
// (vendored, BSD-licensed) inliner of golang.org/x/tools (xinline/), through the loader's overlay. The rules then
// see the code as it was before the extraction; a defect inside a helper is inlined along with it. Nothing is
// folded on a tree without new helpers (the unchanged tree: no cost). Obligation sites then refer to the folded
// text; the evidence names the folded helpers.

var foldNotes []string

func init() { xinline.AllowSameNamedTypeParams = true }

type foldState struct {
	failed map[string]bool // "file:calleeName:ordinal" that could not be inlined
	rounds int
	pruned bool
	// noDefer: nothing else is left to fold, so new functions that were held back because their signature is that of
	// a missing recorded function (a possible rename) and that the rename matcher still has not identified are
	// folded like any other new helper
	noDefer bool
}

// foldNewHelpers performs rounds of inlining on w and returns the overlay additions of this round (nil when
// nothing is left to fold).
func (w *World) foldRound(overlay map[string][]byte, st *foldState) map[string][]byte {
	var tab anchorTable
	if json.Unmarshal(anchorsJSON, &tab) != nil || tab.Funcs == nil {
		return nil
	}
	if norm := w.normalizeSignatures(overlay, &tab); norm != nil {
		return norm
	}
	out := map[string][]byte{}
	// comparisons written constant-first are mirrored (yoda.go)
	for _, p := range w.Pkgs {
		if tab.Funcs[relOfPkg(p.Types)] == nil {
			continue
		}
		for _, f := range p.Syntax {
			fname := w.Fset.Position(f.Pos()).Filename
			if strings.HasSuffix(fname, "_test.go") {
				continue
			}
			if b, n := mirrorConstantFirst(w.Fset, p.TypesInfo, f); n > 0 {
				out[fname] = b
				foldNotes = append(foldNotes, fmt.Sprintf("comparisons: %d comparison(s) in %s with the constant on the left are read with it on the right", n, strings.TrimPrefix(fname, w.Repo+"/")))
			}
		}
	}
	if len(out) > 0 {
		return out
	}
	// locals grouped in a struct and only used field by field are split into one variable per field (sroa.go)
	for _, p := range w.Pkgs {
		if tab.Funcs[relOfPkg(p.Types)] == nil {
			continue
		}
		for _, f := range p.Syntax {
			fname := w.Fset.Position(f.Pos()).Filename
			if strings.HasSuffix(fname, "_test.go") {
				continue
			}
			if b, n := elimPointerAliases(w.Fset, p.TypesInfo, f); n > 0 {
				out[fname] = b
				continue
			}
			if b, n := sroaLocals(w.Fset, p.TypesInfo, f); n > 0 {
				out[fname] = b
				foldNotes = append(foldNotes, fmt.Sprintf("struct locals: %d local(s) of struct type in %s that are only used field by field are read as one variable per field", n, strings.TrimPrefix(fname, w.Repo+"/")))
			}
		}
	}
	if len(out) > 0 {
		return out
	}
	// lookups in new package-level tables of functions are read as the switch they stand for (detable.go)
	for _, p := range w.Pkgs {
		rel := relOfPkg(p.Types)
		if tab.Funcs[rel] == nil {
			continue
		}
		for name, b := range w.detable(p, tab.Types[rel], tab.Funcs[rel]) {
			out[name] = b
		}
	}
	if len(out) > 0 {
		return out
	}
	// calls of new generic helpers with concrete type arguments go to specialised copies (monomorph.go)
	for _, p := range w.Pkgs {
		rec := tab.Funcs[relOfPkg(p.Types)]
		if rec == nil {
			continue
		}
		for name, b := range w.monomorphize(p, rec, overlay) {
			out[name] = b
		}
	}
	if len(out) > 0 {
		return out
	}
	// a struct parameter that is only used field by field is passed as one parameter per field (sroa.go)
	for _, p := range w.Pkgs {
		if tab.Funcs[relOfPkg(p.Types)] == nil {
			continue
		}
		var files []*ast.File
		for _, f := range p.Syntax {
			if !strings.HasSuffix(w.Fset.Position(f.Pos()).Filename, "_test.go") {
				files = append(files, f)
			}
		}
		for f := range promoteStructParams(w.Fset, p.Types, p.TypesInfo, files, tab.Funcs[relOfPkg(p.Types)]) {
			var buf bytes.Buffer
			if err := format.Node(&buf, w.Fset, f); err == nil {
				out[w.Fset.Position(f.Pos()).Filename] = buf.Bytes()
			}
		}
		if len(out) > 0 {
			foldNotes = append(foldNotes, fmt.Sprintf("struct parameters: a by-value struct parameter of an unexported function of %s that is only used field by field is read as one parameter per field", relOfPkg(p.Types)))
			return out
		}
	}
	// method values of new unexported types (`filler.insert` handed to a function: a closure rewritten as a method of a
	// small struct) are first written as the closure they stand for - func(args) { return filler.insert(args) } - so that
	// the method has plain calls only and is folded like any other new helper in the next round
	for _, p := range w.Pkgs {
		rel := relOfPkg(p.Types)
		if tab.Funcs[rel] == nil {
			continue
		}
		for _, f := range p.Syntax {
			fname := w.Fset.Position(f.Pos()).Filename
			if strings.HasSuffix(fname, "_test.go") {
				continue
			}
			src, ok := overlay[fname]
			if !ok {
				src, _ = os.ReadFile(fname)
			}
			if b, n := etaExpandMethodValues(w.Fset, p.TypesInfo, f, src, tab.Types[rel], tab.Funcs[rel]); n > 0 {
				out[fname] = b
				foldNotes = append(foldNotes, fmt.Sprintf("helper folding: %d method value(s) of a new unexported type in %s written as the closure they stand for", n, strings.TrimPrefix(fname, w.Repo+"/")))
			}
		}
	}
	if len(out) > 0 {
		return out
	}
	for _, p := range w.Pkgs {
		rel := relOfPkg(p.Types)
		rec := tab.Funcs[rel]
		if rec == nil {
			continue // a package the table does not know: leave it alone
		}
		// declarations of this package
		decls := map[*types.Func]*ast.FuncDecl{}
		declFile := map[*types.Func]*ast.File{}
		for _, f := range p.Syntax {
			for _, d := range f.Decls {
				fd, ok := d.(*ast.FuncDecl)
				if !ok || fd.Body == nil {
					continue
				}
				if fo, ok := p.TypesInfo.Defs[fd.Name].(*types.Func); ok {
					decls[fo] = fd
					declFile[fo] = f
				}
			}
		}
		// recorded functions that are absent from this tree (renamed, perhaps, in a way the fingerprint does not yet
		// recognise because the renamed function calls new helpers): a new function with such a signature is not folded
		// away - once its own helpers are folded the next load may identify it
		present := map[string]bool{}
		for fo := range decls {
			key := funcObjName(fo)
			if r := recvNameOf(fo.Type().(*types.Signature)); r != "" {
				key = r + "." + key
			}
			present[key] = true
		}
		missingSig := map[string]bool{}
		for key, af := range rec {
			if !present[key] {
				recv := ""
				if i := strings.LastIndex(key, "."); i >= 0 {
					recv = key[:i]
				}
				missingSig[recv+"|"+af.Sig] = true
			}
		}
		// candidates: new, unexported, not a rename
		cand := map[*types.Func]bool{}
		for fo := range decls {
			if fo.Exported() || fo.Name() == "init" || fo.Name() == "main" || fo.Name() == "_" {
				continue
			}
			if _, renamed := oldFuncName[fo.Origin()]; renamed {
				continue
			}
			if _, moved := movedFuncObj[fo.Origin()]; moved {
				continue
			}
			sig := fo.Type().(*types.Signature)
			key := fo.Name()
			if r := recvNameOf(sig); r != "" {
				key = r + "." + key
			}
			if _, known := rec[key]; known {
				continue
			}
			if missingSig[recvNameOf(sig)+"|"+sigFingerprint(sig)] && !st.noDefer {
				continue
			}
			cand[fo] = true
		}
		if len(cand) == 0 {
			continue
		}
		// every use of a candidate must be the callee of a plain call statement/expression in this package
		type site struct {
			file   *ast.File
			call   *ast.CallExpr
			callee *types.Func
			encl   *ast.FuncDecl
		}
		var sites []site
		for _, f := range p.Syntax {
			var stack []ast.Node
			ast.Inspect(f, func(n ast.Node) bool {
				if n == nil {
					stack = stack[:len(stack)-1]
					return true
				}
				stack = append(stack, n)
				id, ok := n.(*ast.Ident)
				if !ok {
					return true
				}
				fo, ok := p.TypesInfo.Uses[id].(*types.Func)
				if !ok || !cand[fo.Origin()] {
					return true
				}
				fo = fo.Origin()
				// find the call this identifier is the function of
				var call *ast.CallExpr
				var encl *ast.FuncDecl
				bad := false
				for i := len(stack) - 2; i >= 0; i-- {
					switch x := stack[i].(type) {
					case *ast.SelectorExpr, *ast.IndexExpr, *ast.IndexListExpr, *ast.ParenExpr:
						continue
					case *ast.CallExpr:
						if call == nil {
							fun := ast.Unparen(x.Fun)
							if ie, ok := fun.(*ast.IndexExpr); ok {
								fun = ie.X
							}
							if ile, ok := fun.(*ast.IndexListExpr); ok {
								fun = ile.X
							}
							if se, ok := fun.(*ast.SelectorExpr); ok && se.Sel == id {
								call = x
							} else if fid, ok := fun.(*ast.Ident); ok && fid == id {
								call = x
							} else {
								bad = true // passed as an argument
							}
						}
					case *ast.GoStmt, *ast.DeferStmt:
						if call != nil && (stack[i].(interface{ Pos() token.Pos }) != nil) {
							if gs, ok := x.(*ast.GoStmt); ok && gs.Call == call {
								bad = true
							}
							if ds, ok := x.(*ast.DeferStmt); ok && ds.Call == call {
								bad = true
							}
						}
					case *ast.FuncDecl:
						encl = x
					}
					if call == nil && !bad {
						// a use that is not a call (method value, assignment): not foldable
						if _, isCall := stack[i].(*ast.CallExpr); !isCall {
							bad = true
						}
					}
					if encl != nil {
						break
					}
				}
				if bad || call == nil || encl == nil {
					delete(cand, fo)
					return true
				}
				sites = append(sites, site{f, call, fo, encl})
				return true
			})
		}
		// recursion: a candidate that calls itself
		for _, s := range sites {
			if fd := decls[s.callee]; fd != nil && s.encl == fd {
				delete(cand, s.callee)
			}
		}
		sort.Slice(sites, func(i, j int) bool { return sites[i].call.Pos() < sites[j].call.Pos() })
		done := map[*ast.File]bool{}
		ord := map[string]int{}
		for _, s := range sites {
			if !cand[s.callee] {
				continue
			}
			fname := w.Fset.Position(s.file.Pos()).Filename
			ord[fname+":"+s.callee.Name()]++
			key := fmt.Sprintf("%s:%s:%d", fname, s.callee.Name(), ord[fname+":"+s.callee.Name()])
			if done[s.file] || st.failed[key] {
				continue
			}
			if !sameTypeParams(p.TypesInfo, s.call, s.callee, decls[s.callee], s.encl) {
				st.failed[key] = true
				foldDebug("%s: type parameters differ", key)
				continue
			}
			content := func(name string) []byte {
				if b, ok := overlay[name]; ok {
					return b
				}
				b, _ := os.ReadFile(name)
				return b
			}
			calleeFile := w.Fset.Position(declFile[s.callee].Pos()).Filename
			callee, err := xinline.AnalyzeCallee(func(string, ...any) {}, w.Fset, p.Types, p.TypesInfo, decls[s.callee], content(calleeFile))
			if err != nil {
				st.failed[key] = true
				foldDebug("%s: callee: %v", key, err)
				continue
			}
			res, err := func() (r *xinline.Result, err error) {
				defer func() {
					if x := recover(); x != nil {
						err = fmt.Errorf("inliner panic: %v", x)
					}
				}()
				return xinline.Inline(&xinline.Caller{Fset: w.Fset, Types: p.Types, Info: p.TypesInfo, File: s.file, Call: s.call, Content: content(fname)}, callee, &xinline.Options{Logf: func(string, ...any) {}})
			}()
			if err != nil {
				st.failed[key] = true
				foldDebug("%s: inline: %v", key, err)
				continue
			}
			res.Content = restoreDroppedImports(w.Fset, p.TypesInfo, s.file, res.Content)
			out[fname] = res.Content
			if b, k := unliteralize(fname, res.Content); true {
				out[fname] = b
				if k > 0 {
					foldNotes = append(foldNotes, fmt.Sprintf("helper folding: %d function literal(s) of the inliner in %s turned into straight-line code (results in fresh variables, returns as labelled breaks)", k, strings.TrimPrefix(fname, w.Repo+"/")))
				}
			}
			done[s.file] = true
			how := "inlined"
			if res.Literalized {
				how = "inlined as a function literal"
			}
			foldNotes = append(foldNotes, fmt.Sprintf("helper folding: call of %s.%s in %s %s", rel, s.callee.Name(), strings.TrimPrefix(fname, w.Repo+"/"), how))
		}
	}
	// local closures that are only ever called (`flush := func() error {...}` ... `flush()`): the calls become
	// immediately-invoked copies of the literal, which the unfolding below turns into straight-line code
	for _, p := range w.Pkgs {
		if tab.Funcs[relOfPkg(p.Types)] == nil {
			continue
		}
		for _, f := range p.Syntax {
			fname := w.Fset.Position(f.Pos()).Filename
			if _, changed := out[fname]; changed || strings.HasSuffix(fname, "_test.go") {
				continue
			}
			src, ok := overlay[fname]
			if !ok {
				src, _ = os.ReadFile(fname)
			}
			if b, name := foldLocalClosure(w.Fset, p.Types, p.TypesInfo, f, src); b != nil {
				b2, _ := unliteralize(fname, b)
				out[fname] = b2
				foldNotes = append(foldNotes, fmt.Sprintf("helper folding: the calls of the local closure %s in %s are replaced by its body", name, strings.TrimPrefix(fname, w.Repo+"/")))
			}
		}
	}
	if len(out) == 0 && !st.noDefer {
		st.noDefer = true
		return w.foldRound(overlay, st)
	}
	if len(out) == 0 {
		// nothing left to inline: drop the declarations of helpers that are no longer called, so that the rules do
		// not analyse the leftovers as functions of their own
		if !st.pruned {
			st.pruned = true
			if rm := w.pruneFoldedHelpers(overlay, &tab); len(rm) > 0 {
				return rm
			}
		}
		return nil
	}
	return out
}

// pruneFoldedHelpers removes new unexported functions without any remaining use.
func (w *World) pruneFoldedHelpers(overlay map[string][]byte, tab *anchorTable) map[string][]byte {
	out := map[string][]byte{}
	for _, p := range w.Pkgs {
		rel := relOfPkg(p.Types)
		rec := tab.Funcs[rel]
		if rec == nil {
			continue
		}
		used := map[types.Object]bool{}
		for _, o := range p.TypesInfo.Uses {
			if fo, ok := o.(*types.Func); ok {
				used[fo.Origin()] = true
			}
		}
		for _, f := range p.Syntax {
			fname := w.Fset.Position(f.Pos()).Filename
			var drop []*ast.FuncDecl
			for _, d := range f.Decls {
				fd, ok := d.(*ast.FuncDecl)
				if !ok || fd.Body == nil {
					continue
				}
				fo, ok := p.TypesInfo.Defs[fd.Name].(*types.Func)
				if !ok || fo.Exported() || used[fo] || fo.Name() == "init" || fo.Name() == "main" || fo.Name() == "_" {
					continue
				}
				if _, renamed := oldFuncName[fo.Origin()]; renamed {
					continue
				}
				if _, moved := movedFuncObj[fo.Origin()]; moved {
					continue
				}
				key := fo.Name()
				if r := recvNameOf(fo.Type().(*types.Signature)); r != "" {
					key = r + "." + key
				}
				if _, known := rec[key]; known {
					continue
				}
				// only helpers this pass folded (a new unused function that was never called is left alone)
				folded := false
				for _, n := range foldNotes {
					if strings.Contains(n, "call of "+rel+"."+fo.Name()+" ") {
						folded = true
					}
				}
				if folded {
					drop = append(drop, fd)
				}
			}
			if len(drop) == 0 {
				continue
			}
			src, ok := overlay[fname]
			if !ok {
				src, _ = os.ReadFile(fname)
			}
			fs := token.NewFileSet()
			af, err := parser.ParseFile(fs, fname, src, parser.ParseComments)
			if err != nil {
				continue
			}
			names := map[string]bool{}
			for _, fd := range drop {
				names[funcDeclKey(fd)] = true
			}
			var kept []ast.Decl
			for _, d := range af.Decls {
				if fd, ok := d.(*ast.FuncDecl); ok && names[funcDeclKey(fd)] {
					// drop its doc comment from the comment list as well
					if fd.Doc != nil {
						var cs []*ast.CommentGroup
						for _, cg := range af.Comments {
							if cg != fd.Doc {
								cs = append(cs, cg)
							}
						}
						af.Comments = cs
					}
					// and the comments inside the body
					var cs []*ast.CommentGroup
					for _, cg := range af.Comments {
						if cg.Pos() < fd.Pos() || cg.End() > fd.End() {
							cs = append(cs, cg)
						}
					}
					af.Comments = cs
					continue
				}
				kept = append(kept, d)
			}
			af.Decls = kept
			for _, imp := range af.Imports {
				path := strings.Trim(imp.Path.Value, "\"")
				if imp.Name != nil && (imp.Name.Name == "_" || imp.Name.Name == ".") {
					continue
				}
				// (astutil.UsesImport guesses an unnamed import's package name from the last path element: wrong for
				// gopkg.in/yaml.v2, whose package is yaml - the name is taken from the type-checked imports instead)
				used := astutil.UsesImport(af, path)
				if !used && imp.Name == nil {
					for _, ip := range p.Types.Imports() {
						if ip.Path() == path {
							nm := ip.Name()
							ast.Inspect(af, func(n ast.Node) bool {
								if se, ok := n.(*ast.SelectorExpr); ok {
									if id, ok := se.X.(*ast.Ident); ok && id.Name == nm {
										used = true
									}
								}
								return !used
							})
						}
					}
				}
				if !used {
					if imp.Name != nil {
						astutil.DeleteNamedImport(fs, af, imp.Name.Name, path)
					} else {
						astutil.DeleteImport(fs, af, path)
					}
				}
			}
			var buf bytes.Buffer
			if err := format.Node(&buf, fs, af); err != nil {
				continue
			}
			out[fname] = buf.Bytes()
			for _, fd := range drop {
				foldNotes = append(foldNotes, fmt.Sprintf("helper folding: the declaration of %s.%s (no remaining call) is left out", rel, fd.Name.Name))
			}
		}
	}
	return out
}

func funcDeclKey(fd *ast.FuncDecl) string {
	k := fd.Name.Name
	if fd.Recv != nil && len(fd.Recv.List) > 0 {
		t := fd.Recv.List[0].Type
		if s, ok := t.(*ast.StarExpr); ok {
			t = s.X
		}
		switch x := t.(type) {
		case *ast.Ident:
			k = x.Name + "." + k
		case *ast.IndexExpr:
			if id, ok := x.X.(*ast.Ident); ok {
				k = id.Name + "." + k
			}
		case *ast.IndexListExpr:
			if id, ok := x.X.(*ast.Ident); ok {
				k = id.Name + "." + k
			}
		}
	}
	return k
}

// sameTypeParams: inlining a generic callee without substitution is sound when each of its type parameters denotes,
// at this call, the caller's type parameter of the same name.
func sameTypeParams(info *types.Info, call *ast.CallExpr, callee *types.Func, decl *ast.FuncDecl, encl *ast.FuncDecl) bool {
	sig := callee.Type().(*types.Signature)
	if sig.RecvTypeParams().Len() == 0 && sig.TypeParams().Len() == 0 {
		return true
	}
	// names of the caller's type parameters (receiver and function)
	callerTP := map[string]bool{}
	if fo, ok := info.Defs[encl.Name].(*types.Func); ok {
		cs := fo.Type().(*types.Signature)
		for i := 0; i < cs.RecvTypeParams().Len(); i++ {
			callerTP[cs.RecvTypeParams().At(i).Obj().Name()] = true
		}
		for i := 0; i < cs.TypeParams().Len(); i++ {
			callerTP[cs.TypeParams().At(i).Obj().Name()] = true
		}
	}
	// method of a generic type: the receiver expression's type arguments must be the caller's parameters of the same names
	if n := sig.RecvTypeParams().Len(); n > 0 {
		se, ok := ast.Unparen(call.Fun).(*ast.SelectorExpr)
		if !ok {
			return false
		}
		t := info.TypeOf(se.X)
		if p, ok := t.(*types.Pointer); ok {
			t = p.Elem()
		}
		named, ok := t.(*types.Named)
		if !ok || named.TypeArgs().Len() != n {
			return false
		}
		for i := 0; i < n; i++ {
			tp, ok := named.TypeArgs().At(i).(*types.TypeParam)
			if !ok || tp.Obj().Name() != sig.RecvTypeParams().At(i).Obj().Name() || !callerTP[tp.Obj().Name()] {
				return false
			}
		}
	}
	// generic function: instantiated with the caller's parameters of the same names
	if n := sig.TypeParams().Len(); n > 0 {
		var id *ast.Ident
		fun := ast.Unparen(call.Fun)
		if ie, ok := fun.(*ast.IndexExpr); ok {
			fun = ie.X
		}
		if ile, ok := fun.(*ast.IndexListExpr); ok {
			fun = ile.X
		}
		switch x := fun.(type) {
		case *ast.Ident:
			id = x
		case *ast.SelectorExpr:
			id = x.Sel
		}
		if id == nil {
			return false
		}
		inst, ok := info.Instances[id]
		if !ok || inst.TypeArgs.Len() != n {
			return false
		}
		for i := 0; i < n; i++ {
			tp, ok := inst.TypeArgs.At(i).(*types.TypeParam)
			if !ok || tp.Obj().Name() != sig.TypeParams().At(i).Obj().Name() || !callerTP[tp.Obj().Name()] {
				return false
			}
		}
	}
	return true
}

func foldAssumptions() []string {
	seen := map[string]bool{}
	var out []string
	for _, n := range foldNotes {
		if !seen[n] {
			seen[n] = true
			out = append(out, n)
		}
	}
	sort.Strings(out)
	return out
}

var _ = packages.NeedName

func foldDebug(format string, args ...any) {
	if os.Getenv("VERIF_FOLD_DEBUG") != "" {
		fmt.Fprintf(os.Stderr, "fold: "+format+"\n", args...)
	}
}

// foldLocalClosure rewrites one local closure of the file: a variable defined once as a function literal
// (`name := func(...) ... {...}`) every use of which is a plain call. Each call gets a copy of the literal in place
// of the variable and the definition is removed. The variables the literal captures must denote the same objects
// at every call (no shadowing in between).
func foldLocalClosure(fset *token.FileSet, pkg *types.Package, info *types.Info, f *ast.File, src []byte) ([]byte, string) {
	off := func(p token.Pos) int { return fset.Position(p).Offset }
	if len(src) != fset.File(f.Pos()).Size() {
		return nil, ""
	}
	type cand struct {
		as  ast.Stmt
		lit *ast.FuncLit
		obj types.Object
	}
	var cands []cand
	ast.Inspect(f, func(n ast.Node) bool {
		var list []ast.Stmt
		switch x := n.(type) {
		case *ast.BlockStmt:
			list = x.List
		case *ast.CaseClause:
			list = x.Body
		case *ast.CommClause:
			list = x.Body
		default:
			return true
		}
		for _, st := range list {
			var id *ast.Ident
			var lit *ast.FuncLit
			switch x := st.(type) {
			case *ast.AssignStmt:
				if x.Tok != token.DEFINE || len(x.Lhs) != 1 || len(x.Rhs) != 1 {
					continue
				}
				id, _ = x.Lhs[0].(*ast.Ident)
				lit, _ = x.Rhs[0].(*ast.FuncLit)
			case *ast.DeclStmt:
				// `var f func(T) bool = func(...) {...}`: what the inliner writes for a function-valued parameter
				gd, ok := x.Decl.(*ast.GenDecl)
				if !ok || gd.Tok != token.VAR || len(gd.Specs) != 1 {
					continue
				}
				vs := gd.Specs[0].(*ast.ValueSpec)
				if len(vs.Names) != 1 || len(vs.Values) != 1 {
					continue
				}
				id = vs.Names[0]
				lit, _ = vs.Values[0].(*ast.FuncLit)
			default:
				continue
			}
			if id == nil || lit == nil || id.Name == "_" || info.Defs[id] == nil || litParamCount(lit) < 0 {
				continue
			}
			cands = append(cands, cand{st, lit, info.Defs[id]})
		}
		return true
	})
	for _, c := range cands {
		var calls []*ast.CallExpr
		ok := true
		var stack []ast.Node
		ast.Inspect(f, func(n ast.Node) bool {
			if n == nil {
				stack = stack[:len(stack)-1]
				return true
			}
			stack = append(stack, n)
			id, isID := n.(*ast.Ident)
			if !isID || info.Uses[id] != c.obj {
				return true
			}
			if id.Pos() >= c.lit.Pos() && id.End() <= c.lit.End() {
				ok = false // recursive
				return true
			}
			if len(stack) < 2 {
				ok = false
				return true
			}
			call, isCall := stack[len(stack)-2].(*ast.CallExpr)
			if !isCall || call.Fun != ast.Expr(id) || call.Ellipsis.IsValid() || len(call.Args) != litParamCount(c.lit) {
				ok = false
				return true
			}
			if len(stack) >= 3 {
				switch stack[len(stack)-3].(type) {
				case *ast.GoStmt, *ast.DeferStmt:
					ok = false
				}
			}
			calls = append(calls, call)
			return true
		})
		if !ok || len(calls) == 0 {
			continue
		}
		// captured variables must not be shadowed at a call
		ast.Inspect(c.lit, func(n ast.Node) bool {
			id, isID := n.(*ast.Ident)
			if !isID {
				return true
			}
			o := info.Uses[id]
			if o == nil || o.Pkg() == nil || o.Parent() == nil || o.Parent() == pkg.Scope() || o.Parent() == types.Universe {
				return true
			}
			if o.Pos() >= c.lit.Pos() && o.Pos() <= c.lit.End() {
				return true // the literal's own variable
			}
			if _, isVar := o.(*types.Var); !isVar {
				return true
			}
			for _, call := range calls {
				inner := pkg.Scope().Innermost(call.Pos())
				if inner == nil {
					ok = false
					continue
				}
				if _, found := inner.LookupParent(id.Name, call.Pos()); found != o {
					ok = false
				}
			}
			return true
		})
		if !ok {
			continue
		}
		litText := string(src[off(c.lit.Pos()):off(c.lit.End())])
		type edit struct {
			from, to int
			text     string
		}
		edits := []edit{{off(c.as.Pos()), off(c.as.End()), ""}}
		for _, call := range calls {
			edits = append(edits, edit{off(call.Fun.Pos()), off(call.Fun.End()), litText})
		}
		sort.Slice(edits, func(i, j int) bool { return edits[i].from > edits[j].from })
		out := append([]byte{}, src...)
		for _, e := range edits {
			out = append(out[:e.from], append([]byte(e.text), out[e.to:]...)...)
		}
		return out, c.obj.Name()
	}
	return nil, ""
}

// etaExpandMethodValues rewrites `x.m` (a method value, x an identifier, m a new unexported method of a new
// unexported named type of this package) into `func(p0 T0, ...) R { return x.m(p0, ...) }`.
func etaExpandMethodValues(fset *token.FileSet, info *types.Info, f *ast.File, src []byte, recTypes map[string]anchorType, recFuncs map[string]anchorFunc) ([]byte, int) {
	if len(src) != fset.File(f.Pos()).Size() {
		return nil, 0
	}
	off := func(p token.Pos) int { return fset.Position(p).Offset }
	type edit struct {
		from, to int
		text     string
	}
	var edits []edit
	var stack []ast.Node
	ast.Inspect(f, func(n ast.Node) bool {
		if n == nil {
			stack = stack[:len(stack)-1]
			return true
		}
		stack = append(stack, n)
		se, ok := n.(*ast.SelectorExpr)
		if !ok {
			return true
		}
		sel := info.Selections[se]
		if sel == nil || sel.Kind() != types.MethodVal {
			return true
		}
		if len(stack) >= 2 {
			if call, isCall := stack[len(stack)-2].(*ast.CallExpr); isCall && call.Fun == ast.Expr(se) {
				return true // a plain call
			}
		}
		if _, isID := se.X.(*ast.Ident); !isID {
			return true
		}
		m, ok := sel.Obj().(*types.Func)
		if !ok || m.Exported() || m.Pkg() == nil {
			return true
		}
		sig := m.Type().(*types.Signature)
		recv := sig.Recv().Type()
		if pt, isPtr := recv.(*types.Pointer); isPtr {
			recv = pt.Elem()
		}
		named, ok := recv.(*types.Named)
		if !ok || named.TypeParams().Len() > 0 {
			return true
		}
		// a new unexported method - of a new type, or added to a recorded one (`s.Flags.Visit(s.setField)` for
		// what used to be a literal) - but never a recorded method
		if _, known := recFuncs[tname(named.Obj())+"."+m.Name()]; known {
			return true
		}
		if _, renamed := oldFuncName[m.Origin()]; renamed {
			return true
		}
		if _, moved := movedFuncObj[m.Origin()]; moved {
			return true
		}
		qual := func(p *types.Package) string {
			if p == m.Pkg() {
				return ""
			}
			return p.Name()
		}
		var params, args []string
		for i := 0; i < sig.Params().Len(); i++ {
			pn := fmt.Sprintf("dvArg%d", i)
			t := types.TypeString(sig.Params().At(i).Type(), qual)
			if sig.Variadic() && i == sig.Params().Len()-1 {
				t = "..." + strings.TrimPrefix(t, "[]")
				args = append(args, pn+"...")
			} else {
				args = append(args, pn)
			}
			params = append(params, pn+" "+t)
		}
		var results []string
		for i := 0; i < sig.Results().Len(); i++ {
			results = append(results, types.TypeString(sig.Results().At(i).Type(), qual))
		}
		res := ""
		ret := ""
		if len(results) > 0 {
			res = " (" + strings.Join(results, ", ") + ")"
			ret = "return "
		}
		text := "func(" + strings.Join(params, ", ") + ")" + res + " { " + ret + string(src[off(se.Pos()):off(se.End())]) + "(" + strings.Join(args, ", ") + ") }"
		edits = append(edits, edit{off(se.Pos()), off(se.End()), text})
		return true
	})
	if len(edits) == 0 {
		return nil, 0
	}
	sort.Slice(edits, func(i, j int) bool { return edits[i].from > edits[j].from })
	out := append([]byte{}, src...)
	for _, e := range edits {
		out = append(out[:e.from], append([]byte(e.text), out[e.to:]...)...)
	}
	return out, len(edits)
}

// restoreDroppedImports: the inliner tidies the import block of the file it rewrote with goimports' heuristics, which
// guess a package's name from its import path; for `gopkg.in/yaml.v2` imported into a package that is itself called
// yaml the import was dropped although `yaml.Unmarshal` is still there. An import of the original file whose package
// name is still used as a qualifier in the result is put back.
func restoreDroppedImports(fset *token.FileSet, info *types.Info, orig *ast.File, content []byte) []byte {
	nf, err := parser.ParseFile(token.NewFileSet(), "x.go", content, parser.ParseComments)
	if err != nil {
		return content
	}
	have := map[string]bool{}
	for _, is := range nf.Imports {
		have[is.Path.Value] = true
	}
	qualifiers := map[string]bool{}
	ast.Inspect(nf, func(n ast.Node) bool {
		if se, ok := n.(*ast.SelectorExpr); ok {
			if id, ok := se.X.(*ast.Ident); ok {
				qualifiers[id.Name] = true
			}
		}
		return true
	})
	changed := false
	for _, is := range orig.Imports {
		if have[is.Path.Value] {
			continue
		}
		name := ""
		if is.Name != nil {
			name = is.Name.Name
		} else if pn, ok := info.Implicits[is].(*types.PkgName); ok {
			name = pn.Name()
		}
		if name == "" || name == "_" || name == "." || !qualifiers[name] {
			continue
		}
		path := strings.Trim(is.Path.Value, "\"")
		fs2 := token.NewFileSet()
		nf2, err := parser.ParseFile(fs2, "x.go", content, parser.ParseComments)
		if err != nil {
			return content
		}
		if is.Name != nil {
			astutil.AddNamedImport(fs2, nf2, is.Name.Name, path)
		} else {
			astutil.AddImport(fs2, nf2, path)
		}
		var buf bytes.Buffer
		if format.Node(&buf, fs2, nf2) != nil {
			return content
		}
		content = buf.Bytes()
		changed = true
	}
	_ = changed
	return content
}
