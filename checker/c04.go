package main

import (
	"go/token"
	"go/types"
	"strings"

	"golang.org/x/tools/go/ssa"
)

func init() {
	props["C04"] = &propMeta{
		run: runC04,
		explanation: "Decides, on all paths of the current source, the ordering/dataflow facts that make 'only verified configs become visible' true: " +
			"who may write the published version (call graph), that every publication is dominated by a successful verification decision of the same compose result " +
			"(dominance + reaching-condition truth table), that reject branches publish nothing, report the tested error with the current and rejected configs and answer a blocking reporter (path rules), " +
			"and that callbacks only receive event fields. Not decided: what user Verify methods do; timing of the documented drop-on-overflow.",
		assumptions: []string{
			"sync/atomic.Pointer/Value Store/Load have their documented semantics",
			"user code does not reach into unexported fields",
		},
	}
}

// successReturn: a return whose last result (of type error) is the nil constant.
func isNilConst(v ssa.Value) bool {
	c, ok := stripConv(v).(*ssa.Const)
	return ok && c.IsNil()
}

func runC04(c *Ctx) {
	c.rule("sole-writer", "every Store/Swap/CompareAndSwap on Dials.value is in Config before any `go`, or in a function reachable only from the single monitor goroutine root (no exported or escaping function reaches it synchronously)", 2)
	c.rule("initial-verify", "in Config the Verify invoke is reached exactly when ok && !SkipInitialVerification && !DelayInitialVerification (truth table); its non-nil result leads only to a (nil, error) return; the decision dominates every `go` and every success return", 3)
	c.rule("store-after-verify", "in each monitor-side storing function the store is reached exactly when compose succeeded and (the config is not a VerifiedConfig || skipVerify || Verify returned nil) (truth table), and the stored cfg, the Verify receiver, the Events value and the function result all derive from the same compose result", 5)
	c.rule("publish-after-store", "the updatesChan send, the nil answer on the reply channel and the new-config event are dominated by the store", 3)
	c.rule("reject-reports", "on each reject branch every path to the return submits a watchErrorEvent{err: tested error, oldConfig: View(), newConfig: derived from the compose result} and, when the reply channel is non-nil, sends the same error on it; no store is reachable", 6)
	c.rule("events-refreshed-on-enable", "when the delayed verification is switched on, a config parked in the one-slot Events channel (sent while verification was off) is taken out and only the verified config is put back", 1)
	c.rule("params-read-only", "the verification / callback fields of Params are never assigned inside the library", 1)
	c.rule("blocking-report-forwarded", "every WatchArgs wrapper in the repository forwards BlockingReportNewValue to the wrapped BlockingReportNewValue and returns its result (a wrapper that forwards to the non-blocking report returns before installation and swallows the rejection)", 1)
	c.rule("blocking-returns-error", "BlockingReportNewValue returns nil only after receiving nil from the reply channel and otherwise returns an error wrapping what it received", 2)
	c.rule("skip-flag", "the flag that lets a re-stack skip Verify is initialised from DelayInitialVerification alone and otherwise only assigned the negated result of the enable helper, which is called only while the flag is still set (so SkipInitialVerification, a repeated enable request or any other state can never switch off verification of later updates)", 3)
	c.rule("cbloop-drains", "the callback goroutine returns only after finding the callback queue empty, so a queued error event for a rejected update is delivered unless the queue overflowed", 1)
	c.rule("callbacks-see-published", "arguments of every handler call derive only from fields of the event being processed (or the callback goroutine's record of the last announced version)", 4)

	k := loadCore(c)
	if !k.ok {
		return
	}
	w := c.W
	c.analysed(relName(k.config))
	c.analysed(relName(k.monitor))
	c.analysed(relName(k.cbLoop))

	// ---- sole-writer ------------------------------------------------------
	for _, sc := range k.storeCalls {
		f := origin(sc.Parent())
		name := relName(f)
		if f == k.config {
			// must precede every go statement and be on the straight-line path
			bad := false
			for _, i := range allInstrs(f) {
				if g, ok := i.(*ssa.Go); ok && !domI(sc.(ssa.Instruction), g) {
					c.bad("sole-writer", name, sc.Pos(), "store to Dials.value in Config does not precede the `go` at %s", w.pos(g.Pos()))
					bad = true
				}
			}
			if inLoop(sc.(ssa.Instruction)) {
				c.bad("sole-writer", name, sc.Pos(), "initial store is inside a loop")
				bad = true
			}
			if !bad {
				c.ok("sole-writer", name, sc.Pos(), "initial store precedes both goroutine starts")
			}
			continue
		}
		roots, others := k.cg.goroutineRootsOf(f)
		switch {
		case len(others) > 0:
			c.bad("sole-writer", name, sc.Pos(), "store to Dials.value reachable synchronously from API/escaping function %s", relName(others[0]))
		case len(roots) != 1:
			c.bad("sole-writer", name, sc.Pos(), "store reachable from %d goroutine roots, want exactly the monitor", len(roots))
		default:
			for r, sites := range roots {
				if len(sites) != 1 || origin(sites[0].From) != k.config || inLoop(sites[0].Site.(ssa.Instruction)) {
					c.bad("sole-writer", name, sc.Pos(), "monitor root %s is started from %d sites (want 1, in Config, not in a loop)", relName(r), len(sites))
				} else {
					c.ok("sole-writer", name, sc.Pos(), "only reachable from goroutine root %s started once at %s", relName(r), w.pos(sites[0].Site.Pos()))
				}
			}
		}
	}

	// ---- initial-verify ---------------------------------------------------
	c04InitialVerify(c, k)

	// ---- store-after-verify / publish-after-store / reject-reports --------
	for _, f := range k.storeFns {
		c.analysed(relName(f))
		c04StoreFn(c, k, f)
	}

	// the caller side: newConfigEvent built only when the store function
	// returned non-nil, after the call
	c04EventAfterStore(c, k)

	// ---- blocking-returns-error -------------------------------------------
	c04Blocking(c, k)

	k.checkSkipFlag("skip-flag")
	k.checkEnableHelperOnlyWhileSkipping("skip-flag")
	k.checkParamsReadOnly("params-read-only")
	k.checkEventsRefreshedOnEnable("events-refreshed-on-enable")
	k.checkBlockingForwarders("blocking-report-forwarded")
	k.checkCbLoopDrains("cbloop-drains")
	c.rule("reply-capacity", "(shared with C07) a blocking report carries a reply channel made for that one report (never one kept in longer-lived state and shared between reports: a verdict left behind by an abandoned report would be taken for the next one's)", 1)
	c07ReplyCapacity(c)
	c.rule("enable-fastpath", "(shared with C09) EnableVerification answers without asking the monitor only when verification was never delayed, and verifies in place exactly when there is no monitor goroutine: with the delay in force the monitor is always told to start verifying", 1)
	c09FastpathGuard(c, k, "enable-fastpath")

	// ---- callbacks-see-published -------------------------------------------
	c04HandlerArgs(c, k)
}

// paramsFieldNamer names loads of Params fields and comma-ok results.
func (k *core) namer(extra func(v ssa.Value) string) atomNamer {
	return func(v ssa.Value) string {
		if extra != nil {
			if s := extra(v); s != "" {
				return s
			}
		}
		// load of a Params field (p.X or d.params.X)
		switch x := v.(type) {
		case *ssa.UnOp:
			if x.Op == token.MUL {
				if fa, ok := x.X.(*ssa.FieldAddr); ok {
					if namedTypeName(fa.X.Type()) == ".Params" || namedTypeName(fa.X.Type()) == "Params" {
						return "Params." + fieldName(fa.X.Type(), fa.Field)
					}
				}
			}
		case *ssa.Field:
			if n := namedTypeName(x.X.Type()); n == ".Params" || n == "Params" {
				return "Params." + fieldName(x.X.Type(), x.Field)
			}
		case *ssa.Extract:
			if ta, ok := x.Tuple.(*ssa.TypeAssert); ok && ta.CommaOk && x.Index == 1 && types.Identical(ta.AssertedType, k.verified) {
				return "isVerified"
			}
		}
		return ""
	}
}

func c04InitialVerify(c *Ctx, k *core) {
	f := k.config
	name := relName(f)
	vss := k.verifySites(f)
	if len(vss) != 1 {
		c.bad("initial-verify", name, f.Pos(), "Config contains %d Verify invokes, want exactly 1", len(vss))
		return
	}
	vs := vss[0]
	vi := vs.Call
	if vs.Recv == nil || !vs.from().Dominates(vi.Block()) && vs.from() != vi.Block() {
		c.undecided("initial-verify", name, vi.Pos(), "receiver of Verify is not the result of a comma-ok assertion to VerifiedConfig")
		return
	}
	pb := k.withSites(&predBuilder{name: k.namer(nil)}, vss)
	g := k.siteGuard(pb, vs, c04GuardFrom(pb, vs))
	c.checkTable("initial-verify", name+"#guard", vi.Pos(), g,
		[]string{"isVerified", "Params.SkipInitialVerification", "Params.DelayInitialVerification"}, nil,
		"isVerified && !Skip && !Delay",
		func(e env) bool {
			return e.B["isVerified"] && !e.B["Params.SkipInitialVerification"] && !e.B["Params.DelayInitialVerification"]
		})
	// receiver is the compose result
	cc := callsToFn(f, k.compose)
	if len(cc) != 1 {
		c.bad("initial-verify", name+"#receiver", vi.Pos(), "Config has %d compose calls, want 1", len(cc))
	} else {
		composeCall := cc[0].(*ssa.Call)
		isRes := func(v ssa.Value) bool {
			e, ok := v.(*ssa.Extract)
			return ok && e.Tuple == composeCall && e.Index == 0
		}
		c.check(recvIs(vs.Recv, isRes), "initial-verify", name+"#receiver", vi.Pos(),
			"Verify is invoked on the compose result", "Verify receiver does not derive from the compose result")
	}
	// the failing branch: from `if verr != nil` true edge no go / success return
	var failIf *ssa.If
	// (the result may be tested behind the join of a folded "verify if it can be verified" helper, whose other edges
	// carry nil: that join is non-nil exactly when Verify's result is)
	for _, tested := range []ssa.Value{ssa.Value(vi), errCarrier(vi)} {
		if tested.Referrers() == nil {
			continue
		}
		for _, r := range *tested.Referrers() {
			if b, ok := r.(*ssa.BinOp); ok {
				if nv, nilWhenTrue, ok := nilCheckOf(b); ok && nv == tested {
					for _, rr := range *b.Referrers() {
						if iff, ok := rr.(*ssa.If); ok {
							failIf = iff
							_ = nilWhenTrue
						}
					}
				}
			}
		}
	}
	if failIf == nil {
		c.bad("initial-verify", name+"#failure", vi.Pos(), "the result of Verify is not tested against nil")
	} else {
		_, nilWhenTrue, _ := nilCheckOf(failIf.Cond)
		failSucc := failIf.Block().Succs[0]
		if nilWhenTrue {
			failSucc = failIf.Block().Succs[1]
		}
		isBadTarget := func(i ssa.Instruction) bool {
			if _, ok := i.(*ssa.Go); ok {
				return true
			}
			if r, ok := i.(*ssa.Return); ok {
				rv := retVals(r)
				// success return: error result nil, or non-nil *Dials
				return len(rv) == 2 && (isNilConst(rv[1]) || !isNilConst(rv[0]))
			}
			return false
		}
		if hit := reachAvoidFromBlock(failSucc, isBadTarget, nil); hit != nil {
			c.bad("initial-verify", name+"#failure", hit.Pos(), "after a failed initial Verify a goroutine start or a success return is reachable (%s)", c.W.pos(hit.Pos()))
		} else {
			// the error returned must derive from the Verify error
			okErr := true
			for _, r := range returnsOf(f) {
				if failSucc.Dominates(r.Block()) || failSucc == r.Block() {
					isV := func(v ssa.Value) bool { return v == ssa.Value(vi) }
					if !errDerivesNonNil(retVals(r)[1], r.Block(), isV) {
						okErr = false
					}
				}
			}
			c.check(okErr, "initial-verify", name+"#failure", vi.Pos(),
				"failed initial Verify leads only to return (nil, err wrapping the Verify error)", "the error returned after a failed Verify does not derive from the Verify error")
		}
	}
	// the decision dominates every go and every success return
	decision := c04GuardFrom(pb, vs)
	allDom := true
	for _, i := range allInstrs(f) {
		switch x := i.(type) {
		case *ssa.Go:
			if !decision.Dominates(x.Block()) {
				allDom = false
				c.bad("initial-verify", name+"#dominates", x.Pos(), "goroutine start not dominated by the verification decision")
			}
		case *ssa.Return:
			if x.Block() != f.Recover && len(x.Results) == 2 && !isNilConst(retVals(x)[0]) && !decision.Dominates(x.Block()) {
				allDom = false
				c.bad("initial-verify", name+"#dominates", x.Pos(), "success return not dominated by the verification decision")
			}
		}
	}
	if allDom {
		c.ok("initial-verify", name+"#dominates", vi.Pos(), "verification decision dominates all goroutine starts and success returns")
	}
}

// errDerives: v (an error value) derives from src, possibly through
// fmt.Errorf(..., src) / MakeInterface / wrapper struct literals.
func errDerives(v ssa.Value, src func(ssa.Value) bool) bool {
	return errDerivesOpt(v, src, nil)
}

// errDerivesNonNil: v, used at block `at`, derives from src; a phi on the way that is known non-nil at `at` (the
// joined error result of a folded helper, tested before the use) cannot hold the nil constants it joins in.
func errDerivesNonNil(v ssa.Value, at *ssa.BasicBlock, src func(ssa.Value) bool) bool {
	return errDerivesOpt(v, src, at)
}

func errDerivesOpt(v ssa.Value, src func(ssa.Value) bool, at *ssa.BasicBlock) bool {
	seen := map[ssa.Value]bool{}
	var rec func(v ssa.Value) bool
	rec = func(v ssa.Value) bool {
		if v == nil || seen[v] {
			return false
		}
		seen[v] = true
		if src(v) {
			return true
		}
		switch x := v.(type) {
		case *ssa.MakeInterface:
			return rec(x.X)
		case *ssa.ChangeInterface:
			return rec(x.X)
		case *ssa.ChangeType:
			return rec(x.X)
		case *ssa.Phi:
			n := 0
			for _, e := range x.Edges {
				if at != nil && isNilConst(e) && knownNil(at, x, false) {
					continue
				}
				n++
				if !rec(e) {
					return false
				}
			}
			return n > 0
		case *ssa.Call:
			if calleeFullName(x) == "fmt.Errorf" {
				// variadic args are packed into a slice alloc: look at stores into it
				for _, a := range x.Call.Args {
					if sl, ok := a.(*ssa.Slice); ok {
						if al, ok := sl.X.(*ssa.Alloc); ok {
							for _, r := range *al.Referrers() {
								if ia, ok := r.(*ssa.IndexAddr); ok {
									for _, rr := range *ia.Referrers() {
										if s, ok := rr.(*ssa.Store); ok && rec(s.Val) {
											return true
										}
									}
								}
							}
						}
					}
				}
			}
			return false
		case *ssa.Alloc:
			// &wrappedErr{err: x}
			for _, r := range *x.Referrers() {
				if fa, ok := r.(*ssa.FieldAddr); ok {
					for _, rr := range *fa.Referrers() {
						if s, ok := rr.(*ssa.Store); ok && s.Addr == fa && rec(s.Val) {
							return true
						}
					}
				}
			}
			return false
		case *ssa.UnOp:
			if x.Op == token.MUL {
				if a, ok := x.X.(*ssa.Alloc); ok {
					n, okc := 0, 0
					for _, r := range *a.Referrers() {
						if s, ok := r.(*ssa.Store); ok && s.Addr == a {
							n++
							if rec(s.Val) {
								okc++
							}
						}
					}
					return n > 0 && n == okc
				}
			}
		case *ssa.Extract:
			return rec(x.Tuple)
		}
		return false
	}
	return rec(v)
}

func c04StoreFn(c *Ctx, k *core, f *ssa.Function) {
	w := c.W
	name := relName(f)
	var stores []ssa.CallInstruction
	for _, sc := range k.storeCalls {
		if origin(sc.Parent()) == f {
			stores = append(stores, sc)
		}
	}
	cc := callsToFn(f, k.compose)
	if len(cc) != 1 {
		c.bad("store-after-verify", name, f.Pos(), "%d compose calls in the storing function, want exactly 1", len(cc))
		return
	}
	composeCall, _ := cc[0].(*ssa.Call)
	if composeCall == nil {
		c.undecided("store-after-verify", name, f.Pos(), "compose is not called as a plain call")
		return
	}
	var composeErr, composeRes ssa.Value
	for _, r := range *composeCall.Referrers() {
		if e, ok := r.(*ssa.Extract); ok {
			if e.Index == 0 {
				composeRes = e
			} else {
				composeErr = e
			}
		}
	}
	if composeErr == nil || composeRes == nil {
		c.bad("store-after-verify", name, composeCall.Pos(), "compose's value or error result is discarded")
		return
	}
	isRes := func(v ssa.Value) bool { return v == composeRes }
	vss := k.verifySites(f)
	if len(vss) != 1 {
		c.bad("store-after-verify", name, f.Pos(), "%d Verify invokes in the storing function, want exactly 1", len(vss))
		return
	}
	vs := vss[0]
	vi := vs.Call
	if vs.Recv == nil {
		c.undecided("store-after-verify", name, vi.Pos(), "Verify receiver is not a comma-ok assertion to VerifiedConfig")
		return
	}
	c.check(recvIs(vs.Recv, isRes), "store-after-verify", name+"#receiver", vi.Pos(),
		"Verify is invoked on the compose result of this re-stack", "Verify receiver does not derive from this re-stack's compose result")

	// the skipVerify flag: a bool parameter
	pb := k.withSites(&predBuilder{name: k.namer(func(v ssa.Value) string {
		if p, ok := v.(*ssa.Parameter); ok && p.Parent() == f {
			if b, ok := p.Type().Underlying().(*types.Basic); ok && b.Kind() == types.Bool {
				return "skipVerify"
			}
		}
		if v == composeErr {
			return "composeErr"
		}
		if v == ssa.Value(vi) && vs.wrap == nil {
			return "verifyErr"
		}
		return ""
	})}, vss)
	entry := f.Blocks[0]
	for n, sc := range stores {
		si := sc.(ssa.Instruction)
		id := name + "#store"
		_ = n
		// reaching condition of the store from the compose call's block
		g := pb.pathCond(composeCall.Block(), si.Block())
		c.checkTable("store-after-verify", id, sc.Pos(), g,
			[]string{"isnil(composeErr)", "isVerified", "skipVerify", "isnil(verifyErr)"}, nil,
			"composeErr==nil && (!isVerified || skipVerify || verifyErr==nil)",
			func(e env) bool {
				return e.B["isnil(composeErr)"] && (!e.B["isVerified"] || e.B["skipVerify"] || e.B["isnil(verifyErr)"])
			})
		c.check(composeCall.Block() == entry || composeCall.Block().Dominates(si.Block()), "store-after-verify", id+"-dominated", sc.Pos(),
			"compose dominates the store", "store not dominated by the compose call")
		// the Verify invoke itself is reached iff isVerified && !skipVerify (given compose ok)
		gv := k.siteGuard(pb, vs, composeCall.Block())
		c.checkTable("store-after-verify", name+"#verify-guard", vi.Pos(), gv,
			[]string{"isnil(composeErr)", "isVerified", "skipVerify"}, nil,
			"composeErr==nil && isVerified && !skipVerify",
			func(e env) bool { return e.B["isnil(composeErr)"] && e.B["isVerified"] && !e.B["skipVerify"] })

		// what is stored
		args := callArgs(sc)
		var stored ssa.Value
		if len(args) >= 2 {
			stored = litField(stripConv(args[len(args)-1]), "cfg")
		}
		if stored == nil {
			c.undecided("store-after-verify", id+"-value", sc.Pos(), "stored value is not a fresh versionedConfig literal with a cfg field")
		} else {
			c.check(derivesAll(stored, isRes, nil), "store-after-verify", id+"-value", sc.Pos(),
				"stored cfg derives from this re-stack's compose result (the value that was verified)", "stored cfg does not derive from the verified compose result")
		}

		// publish-after-store: updatesChan sends and reply nil-sends
		for _, op := range k.eventsSendsIn(f) {
			{
				okd := domI(si, op.Instr) && !op.Blocking
				c.check(okd, "publish-after-store", name+"#events-send", op.Instr.Pos(),
					"Events send is non-blocking and dominated by the store", "Events send is blocking or not dominated by the store")
				c.check(derivesAll(op.Val, isRes, nil), "store-after-verify", name+"#events-value", op.Instr.Pos(),
					"value sent on Events derives from the verified compose result", "value sent on Events does not derive from the verified compose result")
			}
		}
		// function results on the success path
		for _, r := range returnsOf(f) {
			if rv := retVals(r); len(rv) == 1 && !isNilConst(rv[0]) {
				okd := domI(si, r) && derivesAll(rv[0], isRes, nil)
				c.check(okd, "publish-after-store", name+"#result", r.Pos(),
					"non-nil result is returned only after the store and is the verified compose result", "non-nil result not dominated by the store or not the compose result")
			}
		}
	}
	// reply channel: sends on a chan<- error field of the update
	replySends := []chanOp{}
	for _, op := range chanOps(f) {
		if op.Send && isErrorChan(op.Chan.Type()) {
			replySends = append(replySends, op)
		}
	}
	for _, op := range replySends {
		if isNilConst(op.Val) {
			okd := false
			for _, sc := range stores {
				if domI(sc.(ssa.Instruction), op.Instr) {
					okd = true
				}
			}
			c.check(okd, "publish-after-store", name+"#reply-nil", op.Instr.Pos(),
				"the nil (success) answer is dominated by the store", "a nil answer on the reply channel is not dominated by the store")
		}
	}

	// reject branches
	type reject struct {
		what string
		errV ssa.Value
	}
	for _, rj := range []reject{{"compose-error", composeErr}, {"verify-error", errCarrier(vi)}} {
		// the If testing errV against nil
		var iff *ssa.If
		for _, r := range *rj.errV.Referrers() {
			if b, ok := r.(*ssa.BinOp); ok {
				if nv, _, ok := nilCheckOf(b); ok && nv == rj.errV {
					for _, rr := range *b.Referrers() {
						if x, ok := rr.(*ssa.If); ok {
							iff = x
						}
					}
				}
			}
		}
		id := name + "#" + rj.what
		if iff == nil {
			c.bad("reject-reports", id, rj.errV.Pos(), "the %s is never tested against nil", rj.what)
			continue
		}
		_, nilWhenTrue, _ := nilCheckOf(iff.Cond)
		rb := iff.Block().Succs[0]
		if nilWhenTrue {
			rb = iff.Block().Succs[1]
		}
		// no store reachable
		isStore := func(i ssa.Instruction) bool {
			for _, sc := range stores {
				if sc.(ssa.Instruction) == i {
					return true
				}
			}
			if op, ok := i.(*ssa.Select); ok {
				for _, st := range op.States {
					if st.Dir == types.SendOnly && chanIsField(st.Chan, k.fUpdates) {
						return true
					}
				}
			}
			return false
		}
		if hit := reachAvoidFromBlock(rb, isStore, nil); hit != nil {
			c.bad("reject-reports", id+"-nostore", hit.Pos(), "a store/Events send is reachable on the reject branch")
		} else {
			c.ok("reject-reports", id+"-nostore", iff.Pos(), "no store or Events send reachable on the reject branch")
		}
		// every path to return passes a submit of a proper watchErrorEvent
		isSubmit := func(i ssa.Instruction) bool {
			ci, ok := i.(*ssa.Call)
			if !ok {
				return false
			}
			if rh, call := k.rejectCall(i); rh != nil {
				// a summarised reject helper: submits {err: its error argument, View(), its *T argument}
				if call.Call.Args[rh.errP] == rj.errV {
					if rh.newP < 0 {
						return true
					}
					nv := call.Call.Args[rh.newP]
					return isNilConst(nv) || derivesAll(nv, isRes, nil)
				}
				return false
			}
			for _, a := range ci.Call.Args {
				al := allocOf(a)
				if al == nil || litTypeName(al) != ".watchErrorEvent" {
					continue
				}
				if e := litField(al, "err"); e == nil || e != rj.errV {
					continue
				}
				oc := litField(al, "oldConfig")
				if oc == nil || !k.isCurrentConfig(oc, 0) {
					continue
				}
				nc := litField(al, "newConfig")
				if nc != nil && !isNilConst(nc) && !derivesAll(nc, isRes, nil) {
					continue // something other than the rejected value (or nothing) is shown as the new config
				}
				return true
			}
			return false
		}
		if hit := reachAvoidFromBlock(rb, isReturn, isSubmit); hit != nil {
			c.bad("reject-reports", id+"-event", hit.Pos(), "a return is reachable on the reject branch without submitting watchErrorEvent{err: the tested error, oldConfig: View(), newConfig: from the compose result}")
		} else {
			c.ok("reject-reports", id+"-event", iff.Pos(), "every path to the return submits the error event with (tested error, View(), rejected value)")
		}
		// reply: every path to return on which installed != nil sends errV
		isReply := func(i ssa.Instruction) bool {
			if rh, call := k.rejectCall(i); rh != nil {
				return call.Call.Args[rh.errP] == rj.errV
			}
			s, ok := i.(*ssa.Send)
			return ok && isErrorChan(s.Chan.Type()) && s.X == rj.errV
		}
		hit := reachAvoidEdges(rb, isReturn, isReply, func(b *ssa.BasicBlock, succ int) bool {
			// do not follow the edge on which the reply channel is known nil
			if iff2, ok := b.Instrs[len(b.Instrs)-1].(*ssa.If); ok {
				if nv, nilWhenTrue, ok := nilCheckOf(iff2.Cond); ok && isErrorChan(nv.Type()) {
					nilEdge := 1
					if nilWhenTrue {
						nilEdge = 0
					}
					return succ != nilEdge
				}
			}
			return true
		})
		if hit != nil {
			c.bad("reject-reports", id+"-reply", hit.Pos(), "a return is reachable with a non-nil reply channel that was not sent the tested error")
		} else {
			c.ok("reject-reports", id+"-reply", iff.Pos(), "whenever the reply channel is non-nil it is sent the tested error before the return")
		}
		_ = w
	}
}

func isCallToFn(v ssa.Value, fn *ssa.Function) bool {
	c, ok := v.(*ssa.Call)
	return ok && fn != nil && staticCallee(c) == origin(fn)
}

func isErrorChan(t types.Type) bool {
	ch, ok := t.Underlying().(*types.Chan)
	if !ok {
		return false
	}
	n, ok := ch.Elem().(*types.Named)
	return ok && n.Obj().Pkg() == nil && n.Obj().Name() == "error"
}

// reachAvoidEdges is reachAvoidFromBlock with an edge filter.
func reachAvoidEdges(b *ssa.BasicBlock, target, avoid func(ssa.Instruction) bool, edgeOK func(b *ssa.BasicBlock, succ int) bool) ssa.Instruction {
	seen := map[*ssa.BasicBlock]bool{b: true}
	work := []*ssa.BasicBlock{b}
	for len(work) > 0 {
		x := work[len(work)-1]
		work = work[:len(work)-1]
		blocked := false
		for _, in := range x.Instrs {
			if avoid != nil && avoid(in) {
				blocked = true
				break
			}
			if target(in) {
				return in
			}
		}
		if blocked {
			continue
		}
		for si, s := range x.Succs {
			if edgeOK != nil && !edgeOK(x, si) {
				continue
			}
			if !seen[s] {
				seen[s] = true
				work = append(work, s)
			}
		}
	}
	return nil
}

// c04EventAfterStore: in the caller of the storing function, the
// newConfigEvent is built only on the branch where its result is non-nil.
func c04EventAfterStore(c *Ctx, k *core) {
	found := 0
	for _, f := range c.W.funcsIn("") {
		for _, i := range allInstrs(f) {
			al, ok := i.(*ssa.Alloc)
			if !ok || litTypeName(al) != ".newConfigEvent" {
				continue
			}
			found++
			name := relName(f) + "#newConfigEvent"
			nc := litField(al, "newConfig")
			var call *ssa.Call
			if nc != nil {
				for _, sf := range k.storeFns {
					if isCallToFn(nc, sf) {
						call = nc.(*ssa.Call)
					}
				}
			}
			if call == nil {
				c.bad("publish-after-store", name, al.Pos(), "newConfigEvent.newConfig is not the result of the storing function")
				continue
			}
			okd := domI(call, al) && knownNil(al.Block(), call, false)
			c.check(okd, "publish-after-store", name, al.Pos(),
				"new-config event is built after the store call, only when it returned the installed config", "new-config event not guarded by a non-nil result of the storing function")
		}
	}
	if found == 0 {
		c.bad("publish-after-store", "newConfigEvent", 0, "no newConfigEvent literal found")
	}
}

func c04Blocking(c *Ctx, k *core) {
	f := c.W.fn("", "watchArgs.BlockingReportNewValue")
	if !c.need(f != nil, "dials.watchArgs.BlockingReportNewValue") {
		return
	}
	c.analysed(relName(f))
	name := relName(f)
	// the received value: a select state receiving from an error channel
	var recv ssa.Value
	for _, i := range allInstrs(f) {
		switch x := i.(type) {
		case *ssa.Select:
			idx := 2
			for _, st := range x.States {
				if st.Dir == types.RecvOnly {
					if isErrorChan(st.Chan.Type()) {
						for _, r := range *x.Referrers() {
							if e, ok := r.(*ssa.Extract); ok && e.Index == idx {
								recv = e
							}
						}
					}
					idx++
				}
			}
		case *ssa.UnOp:
			if x.Op == token.ARROW && isErrorChan(x.X.Type()) {
				recv = x
			}
		}
	}
	if recv == nil {
		c.bad("blocking-returns-error", name, f.Pos(), "no receive from the reply channel")
		return
	}
	okNil, okErr := true, false
	for _, r := range returnsOf(f) {
		rv := retVals(r)
		if isNilConst(rv[0]) {
			if !knownNil(r.Block(), recv, true) {
				okNil = false
				c.bad("blocking-returns-error", name+"#nil-return", r.Pos(), "returns nil without having received nil from the reply channel")
			}
		} else if knownNil(r.Block(), recv, false) {
			if errDerives(rv[0], func(v ssa.Value) bool { return v == recv }) {
				okErr = true
			} else {
				c.bad("blocking-returns-error", name+"#err-return", r.Pos(), "the error returned after a non-nil answer does not wrap the received error")
			}
		}
	}
	if okNil {
		c.ok("blocking-returns-error", name+"#nil-return", f.Pos(), "every nil return is dominated by receiving nil from the reply channel")
	}
	c.check(okErr, "blocking-returns-error", name+"#err-return", f.Pos(),
		"a non-nil answer is returned wrapped", "no return propagates a non-nil answer from the reply channel")
}

func c04HandlerArgs(c *Ctx, k *core) {
	f := k.cbLoop
	n := 0
	for _, i := range allInstrs(f) {
		ci, ok := i.(ssa.CallInstruction)
		if !ok || !isHandlerCall(ci) {
			continue
		}
		n++
		bad := ""
		for ai, a := range ci.Common().Args {
			if ai == 0 {
				continue // ctx
			}
			if !c04FromEvent(a) {
				bad = canon(a)
			}
		}
		name := relName(f) + "#handler-call"
		if bad != "" {
			c.bad("callbacks-see-published", name, ci.Pos(), "handler argument %s is not a field of the processed event (or the recorded last version)", bad)
		} else {
			c.ok("callbacks-see-published", name, ci.Pos(), "all config/error arguments are event fields")
		}
	}
	// handler calls outside the callback loop
	for _, g := range c.W.funcsIn("") {
		if g == f {
			continue
		}
		if h := k.isCbHelper(g); h != nil {
			// a synchronous helper of the loop: its handler arguments are fields of a parameter that stands for the processed event
			for _, i := range allInstrs(g) {
				ci, ok := i.(ssa.CallInstruction)
				if !ok || !isHandlerCall(ci) {
					continue
				}
				n++
				bad := ""
				for ai, a := range ci.Common().Args {
					if ai == 0 {
						continue
					}
					okA := false
					if ld, isLd := a.(*ssa.UnOp); isLd && ld.Op == token.MUL {
						if fa, isFA := ld.X.(*ssa.FieldAddr); isFA {
							if p, isP := fa.X.(*ssa.Parameter); isP && c04FromEvent(k.cbUp(p)) {
								okA = true
							}
						}
					}
					if !okA {
						bad = canon(a)
					}
				}
				c.check(bad == "", "callbacks-see-published", relName(g)+"#handler-call", ci.Pos(), "all config/error arguments are fields of the event the loop handed to this helper", "handler argument "+bad+" is not a field of the processed event")
			}
			continue
		}
		for _, i := range allInstrs(g) {
			if ci, ok := i.(ssa.CallInstruction); ok && isHandlerCall(ci) {
				c.bad("callbacks-see-published", relName(g)+"#handler-call", ci.Pos(), "handler invoked outside the callback loop")
			}
		}
	}
}

// c04FromEvent: v is a load of a field of a value obtained by type-asserting
// the received event, or a phi/local that is only assigned such loads or nil.
func c04FromEvent(v ssa.Value) bool {
	seen := map[ssa.Value]bool{}
	var rec func(v ssa.Value) bool
	rec = func(v ssa.Value) bool {
		if seen[v] {
			return true
		}
		seen[v] = true
		switch x := v.(type) {
		case *ssa.Const:
			return x.IsNil() || x.Value == nil
		case *ssa.Phi:
			for _, e := range x.Edges {
				if !rec(e) {
					return false
				}
			}
			return true
		case *ssa.UnOp:
			if x.Op == token.MUL {
				if fa, ok := x.X.(*ssa.FieldAddr); ok {
					return rec(fa.X)
				}
			}
			return false
		case *ssa.Field:
			return rec(x.X)
		case *ssa.TypeAssert:
			return true // the event being switched on
		case *ssa.Extract:
			_, ok := x.Tuple.(*ssa.TypeAssert)
			return ok
		case *ssa.ChangeType:
			return rec(x.X)
		}
		return false
	}
	return rec(v)
}

// c04GuardFrom: the block from which a Verify site's guard table is taken. For a raw invoke it is the
// block of the comma-ok assertion; for a wrapper call (the assertion is inside the wrapper) the walk
// goes up the dominator tree of the call while the controlling conditions consist only of atoms the
// rule's namer knows (flags and Params fields), so that a guard written at the call site is included.
func c04GuardFrom(pb *predBuilder, vs verifySite) *ssa.BasicBlock {
	// the site's own block, extended upwards over enclosing tests of the known flags only (`if !skipVerify { if vf, ok := ...`)
	b := vs.from()
	for {
		id := b.Idom()
		if id == nil || len(b.Preds) != 1 || b.Preds[0] != id {
			return b
		}
		iff, ok := id.Instrs[len(id.Instrs)-1].(*ssa.If)
		if !ok {
			return b
		}
		f := pb.valueFormula(iff.Cond, 0)
		fb, fi := map[string]bool{}, map[string]bool{}
		atomsOf(f, fb, fi)
		known := len(fi) == 0
		for a := range fb {
			if !(strings.HasPrefix(a, "Params.") || a == "skipVerify" || a == "isVerified" || strings.HasPrefix(a, "isnil(monCtl")) {
				known = false
			}
		}
		if !known {
			return b
		}
		b = id
	}
}
