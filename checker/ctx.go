package main

import (
	"encoding/json"
	"fmt"
	"go/token"
	"os"
	"path/filepath"
	"sort"
	"strings"
	"time"
)

type Verdict string

const (
	OK        Verdict = "discharged"
	Violated  Verdict = "VIOLATED"
	Undecided Verdict = "UNDECIDED"
)

// Obligation is one instance of one rule: a construct of /repo and the verdict
// of the rule on it. IDs are rule + construct (function, ordinal), never lines.
type Obligation struct {
	ID      string  `json:"id"`
	Rule    string  `json:"rule"`
	Variant string  `json:"variant,omitempty"`
	Site    string  `json:"site"`
	Verdict Verdict `json:"verdict"`
	Detail  string  `json:"detail,omitempty"`
	// Nontrivial: the decision needed a path, flow, table or sibling argument
	Nontrivial bool `json:"nontrivial"`
	// Rows: number of predicate rows / sub-evaluations behind this obligation
	Rows int `json:"rows,omitempty"`
}

type Ctx struct {
	Prop    string
	Tier    string
	W       *World
	Obs     []*Obligation
	rules   map[string]string // rule id -> text
	ruleMin map[string]int
	ruleCnt map[string]int
	funcs   map[string]bool
	ordinal map[string]int
}

func newCtx(prop, tier string, w *World) *Ctx {
	return &Ctx{Prop: prop, Tier: tier, W: w, rules: map[string]string{}, ruleMin: map[string]int{},
		ruleCnt: map[string]int{}, funcs: map[string]bool{}, ordinal: map[string]int{}}
}

// rule declares a rule with its text and the minimum number of instances it
// must find (vacuity guard).
func (c *Ctx) rule(id, text string, min int) {
	c.rules[id] = text
	c.ruleMin[id] = min
}

func (c *Ctx) add(rule, construct string, pos token.Pos, v Verdict, nontrivial bool, rows int, format string, args ...interface{}) *Obligation {
	if _, ok := c.rules[rule]; !ok {
		panic("undeclared rule " + rule)
	}
	id := c.Prop + "/" + rule + "@" + construct
	// disambiguate repeated constructs by ordinal (stable under line shifts)
	c.ordinal[id]++
	if n := c.ordinal[id]; n > 1 {
		id = fmt.Sprintf("%s#%d", id, n)
	}
	o := &Obligation{ID: id, Rule: rule, Variant: c.W.Variant, Site: c.W.pos(pos), Verdict: v,
		Detail: fmt.Sprintf(format, args...), Nontrivial: nontrivial, Rows: rows}
	c.Obs = append(c.Obs, o)
	c.ruleCnt[rule]++
	return o
}

func (c *Ctx) ok(rule, construct string, pos token.Pos, format string, args ...interface{}) {
	c.add(rule, construct, pos, OK, true, 0, format, args...)
}
func (c *Ctx) okRows(rule, construct string, pos token.Pos, rows int, format string, args ...interface{}) {
	c.add(rule, construct, pos, OK, true, rows, format, args...)
}
func (c *Ctx) okTrivial(rule, construct string, pos token.Pos, format string, args ...interface{}) {
	c.add(rule, construct, pos, OK, false, 0, format, args...)
}
func (c *Ctx) bad(rule, construct string, pos token.Pos, format string, args ...interface{}) {
	c.add(rule, construct, pos, Violated, true, 0, format, args...)
}
func (c *Ctx) undecided(rule, construct string, pos token.Pos, format string, args ...interface{}) {
	c.add(rule, construct, pos, Undecided, true, 0, format, args...)
}

// check records ok when cond holds and a violation otherwise.
func (c *Ctx) check(cond bool, rule, construct string, pos token.Pos, okMsg, badMsg string) bool {
	if cond {
		c.ok(rule, construct, pos, "%s", okMsg)
	} else {
		c.bad(rule, construct, pos, "%s", badMsg)
	}
	return cond
}

func (c *Ctx) analysed(fnName string) { c.funcs[fnName] = true }

// ---- known findings -------------------------------------------------------

type Finding struct {
	Property   string `json:"property"`
	Obligation string `json:"obligation"`
	Status     string `json:"status"` // "finding" | "fixed"
	Commit     string `json:"commit,omitempty"`
	What       string `json:"what"`
}

func loadFindings(path string) ([]Finding, error) {
	b, err := os.ReadFile(path)
	if err != nil {
		if os.IsNotExist(err) {
			return nil, nil
		}
		return nil, err
	}
	var f struct {
		Findings []Finding `json:"findings"`
	}
	if err := json.Unmarshal(b, &f); err != nil {
		return nil, err
	}
	return f.Findings, nil
}

// ---- evidence -------------------------------------------------------------

type runResult struct {
	prop       string
	tier       string
	seed       int
	obs        []*Obligation
	rules      map[string]string
	variants   []string
	packages   int
	functions  int
	funcsNamed []string
	mutants    map[string]interface{}
	extra      map[string]interface{}
	start      time.Time
	violations []string
	known      []string
}

func writeEvidence(dir string, r *runResult, explanation string, trusted []string, assumptions []string) (string, error) {
	obl := len(r.obs)
	dis := 0
	nontriv := map[string]bool{}
	evals := 0
	samples := []interface{}{}
	for _, o := range r.obs {
		if o.Verdict == OK {
			dis++
		}
		if o.Nontrivial {
			nontriv[o.ID+"|"+o.Variant] = true
		}
		evals++
		evals += o.Rows
		samples = append(samples, o)
	}
	ruleList := []string{}
	for id, t := range r.rules {
		ruleList = append(ruleList, id+": "+t)
	}
	sort.Strings(ruleList)
	cov := map[string]interface{}{
		"explanation":         explanation,
		"obligations":         obl,
		"discharged":          dis,
		"evaluations":         evals,
		"distinct_nontrivial": len(nontriv),
		"rule": "one obligation per (rule, construct of /repo's current source, build variant); evaluations additionally count every truth-table row / sibling row evaluated; " +
			"non-trivial = decided by a dominance, path, dataflow, predicate-table, call-graph or sibling-agreement argument (not a mere presence test); distinct by obligation id + variant",
		"samples":            samples,
		"rules_applied":      ruleList,
		"build_variants":     r.variants,
		"packages":           r.packages,
		"functions_analysed": r.functions,
		"functions_named":    r.funcsNamed,
		"checker_cmd":        strings.Join(os.Args, " "),
		"trusted_base":       trusted,
		"exhaustive":         false,
		"known_findings":     r.known,
	}
	if r.mutants != nil {
		cov["mutants"] = r.mutants
	}
	for k, v := range r.extra {
		cov[k] = v
	}
	ev := map[string]interface{}{
		"property_id": r.prop,
		"tier":        r.tier,
		"seed":        r.seed,
		"level":       "other",
		"coverage":    cov,
		"assumptions": append(append(append([]string{}, assumptions...), renameAssumptions()...), foldAssumptions()...),
		"wall_s":      time.Since(r.start).Seconds(),
		"violations":  len(r.violations),
	}
	if err := os.MkdirAll(dir, 0o755); err != nil {
		return "", err
	}
	path := filepath.Join(dir, r.prop+".json")
	b, err := json.MarshalIndent(ev, "", " ")
	if err != nil {
		return "", err
	}
	return path, os.WriteFile(path, b, 0o644)
}
