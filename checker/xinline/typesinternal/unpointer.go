// Package typesinternal holds the one helper of golang.org/x/tools/internal/typesinternal the inliner needs.
package typesinternal

import "go/types"

// Unpointer returns T for *T, otherwise t.
func Unpointer(t types.Type) types.Type {
	if ptr, ok := types.Unalias(t).(*types.Pointer); ok {
		return ptr.Elem()
	}
	return t
}
