// Copyright 2021 The Go Authors. All rights reserved.
// Use of this source code is governed by a BSD-style
// license that can be found in the LICENSE file.

package typeparams

import (
	"errors"
	"fmt"
	"go/types"
	"os"
	"strings"
)

//go:generate go run copytermlist.go

const debug = false

var ErrEmptyTypeSet = errors.New("empty type set")

// StructuralTerms returns a slice of terms representing the normalized
// structural type restrictions of a type parameter, if any.
//
// Structural type restrictions of a type parameter are created via
// non-interface types embedded in its constraint interface (directly, or via a
// chain of interface embeddings). For example, in the declaration
//
//	type T[P interface{~int; m()}] int
//
// the structural restriction of the type parameter P is ~int.
//
// With interface embedding and unions, the specification of structural type
// restrictions may be arbitrarily complex. For example, consider the
// following:
//
//	type A interface{ ~string|~[]byte }
//
//	type B interface{ int|string }
//
//	type C interface { ~string|~int }
//
//	type T[P interface{ A|B; C }] int
//
// In this example, the structural type restriction of P is ~string|int: A|B
// expands to ~string|~[]byte|int|string, which reduces to ~string|~[]byte|int,
// which when intersected with C (~string|~int) yields ~string|int.
//
// StructuralTerms computes these expansions and reductions, producing a
// "normalized" form of the embeddings. A structural restriction is normalized
// if it is a single union containing no interface terms, and is minimal in the
// sense that removing any term changes the set of types satisfying the
// constraint. It is left as a proof for the reader that, modulo sorting, there
// is exactly one such normalized form.
//
// Because the minimal representation always takes this form, StructuralTerms
// returns a slice of tilde terms corresponding to the terms of the union in
// the normalized structural restriction. An error is returned if the
// constraint interface is invalid, exceeds complexity bounds, or has an empty
// type set. In the latter case, StructuralTerms returns ErrEmptyTypeSet.
//
// StructuralTerms makes no guarantees about the order of terms, except that it
// is deterministic.
func StructuralTerms(tparam *types.TypeParam) ([]*types.Term, error) {
	constraint := tparam.Constraint()
	if constraint == nil {
		return nil, fmt.Errorf("%s has nil constraint", tparam)
	}
	iface, _ := constraint.Underlying().(*types.Interface)
	if iface == nil {
		return nil, fmt.Errorf("constraint is %T, not *types.Interface", constraint.Underlying())
	}
	return InterfaceTermSet(iface)
}

// InterfaceTermSet computes the normalized terms for a constraint interface,
// returning an error if the term set cannot be computed or is empty. In the
// latter case, the error will be ErrEmptyTypeSet.
//
// See the documentation of StructuralTerms for more information on
// normalization.
func InterfaceTermSet(iface *types.Interface) ([]*types.Term, error) {
	return computeTermSet(iface)
}

// UnionTermSet computes the normalized terms for a union, returning an error
// if the term set cannot be computed or is empty. In the latter case, the
// error will be ErrEmptyTypeSet.
//
// See the documentation of StructuralTerms for more information on
// normalization.
func UnionTermSet(union *types.Union) ([]*types.Term, error) {
	return computeTermSet(union)
}

func computeTermSet(typ types.Type) ([]*types.Term, error) {
	tset, err := computeTermSetInternal(typ, make(map[types.Type]*termSet), 0)
	if err != nil {
		return nil, err
	}
	if tset.terms.isEmpty() {
		return nil, ErrEmptyTypeSet
	}
	if tset.terms.isAll() {
		return nil, nil
	}
	var terms []*types.Term
	for _, term := range tset.terms {
		terms = append(terms, types.NewTerm(term.tilde, term.typ))
	}
	return terms, nil
}

// A termSet holds the normalized set of terms for a given type.
//
// The name termSet is intentionally distinct from 'type set': a type set is
// all types that implement a type (and includes method restrictions), whereas
// a term set just represents the structural restrictions on a type.
type termSet struct {
	complete bool
	terms    termlist
}

func indentf(depth int, format string, args ...interface{}) {
	fmt.Fprintf(os.Stderr, strings.Repeat(".", depth)+format+"\n", args...)
}

func computeTermSetInternal(t types.Type, seen map[types.Type]*termSet, depth int) (res *termSet, err error) {
	if t == nil {
		panic("nil type")
	}

	if debug {
		indentf(depth, "%s", t.String())
		defer func() {
			if err != nil {
				indentf(depth, "=> %s", err)
			} else {
				indentf(depth, "=> %s", res.terms.String())
			}
		}()
	}

	const maxTermCount = 100
	if tset, ok := seen[t]; ok {
		if !tset.complete {
			return nil, fmt.Errorf("cycle detected in the declaration of %s", t)
		}
		return tset, nil
	}

	// Mark the current type as seen to avoid infinite recursion.
	tset := new(termSet)
	defer func() {
		tset.complete = true
	}()
	seen[t] = tset

	switch u := t.Underlying().(type) {
	case *types.Interface:
		// The term set of an interface is the intersection of the term sets of its
		// embedded types.
		tset.terms = allTermlist
		for i := 0; i < u.NumEmbeddeds(); i++ {
			embedded := u.EmbeddedType(i)
			if _, ok := embedded.Underlying().(*types.TypeParam); ok {
				return nil, fmt.Errorf("invalid embedded type %T", embedded)
			}
			tset2, err := computeTermSetInternal(embedded, seen, depth+1)
			if err != nil {
				return nil, err
			}
			tset.terms = tset.terms.intersect(tset2.terms)
		}
	case *types.Union:
		// The term set of a union is the union of term sets of its terms.
		tset.terms = nil
		for i := 0; i < u.Len(); i++ {
			t := u.Term(i)
			var terms termlist
			switch t.Type().Underlying().(type) {
			case *types.Interface:
				tset2, err := computeTermSetInternal(t.Type(), seen, depth+1)
				if err != nil {
					return nil, err
				}
				terms = tset2.terms
			case *types.TypeParam, *types.Union:
				// A stand-alone type parameter or union is not permitted as union
				// term.
				return nil, fmt.Errorf("invalid union term %T", t)
			default:
				if t.Type() == types.Typ[types.Invalid] {
					continue
				}
				terms = termlist{{t.Tilde(), t.Type()}}
			}
			tset.terms = tset.terms.union(terms)
			if len(tset.terms) > maxTermCount {
				return nil, fmt.Errorf("exceeded max term count %d", maxTermCount)
			}
		}
	case *types.TypeParam:
		panic("unreachable")
	default:
		// For all other types, the term set is just a single non-tilde term
		// holding the type itself.
		if u != types.Typ[types.Invalid] {
			tset.terms = termlist{{false, t}}
		}
	}
	return tset, nil
}

// under is a facade for the go/types internal function of the same name. It is
// used by typeterm.go.
func under(t types.Type) types.Type {
	return t.Underlying()
}
