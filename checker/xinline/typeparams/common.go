// Copyright 2021 The Go Authors. All rights reserved.
// Use of this source code is governed by a BSD-style
// license that can be found in the LICENSE file.

// Package typeparams contains common utilities for writing tools that
// interact with generic Go code, as introduced with Go 1.18. It
// supplements the standard library APIs. Notably, the StructuralTerms
// API computes a minimal representation of the structural
// restrictions on a type parameter.
//
// An external version of these APIs is available in the
// golang.org/x/exp/typeparams module.
package typeparams

import (
	"go/ast"
	"go/token"
	"go/types"
)

// UnpackIndexExpr extracts data from AST nodes that represent index
// expressions.
//
// For an ast.IndexExpr, the resulting indices slice will contain exactly one
// index expression. For an ast.IndexListExpr (go1.18+), it may have a variable
// number of index expressions.
//
// For nodes that don't represent index expressions, the first return value of
// UnpackIndexExpr will be nil.
func UnpackIndexExpr(n ast.Node) (x ast.Expr, lbrack token.Pos, indices []ast.Expr, rbrack token.Pos) {
	switch e := n.(type) {
	case *ast.IndexExpr:
		return e.X, e.Lbrack, []ast.Expr{e.Index}, e.Rbrack
	case *ast.IndexListExpr:
		return e.X, e.Lbrack, e.Indices, e.Rbrack
	}
	return nil, token.NoPos, nil, token.NoPos
}

// PackIndexExpr returns an *ast.IndexExpr or *ast.IndexListExpr, depending on
// the cardinality of indices. Calling PackIndexExpr with len(indices) == 0
// will panic.
func PackIndexExpr(x ast.Expr, lbrack token.Pos, indices []ast.Expr, rbrack token.Pos) ast.Expr {
	switch len(indices) {
	case 0:
		panic("empty indices")
	case 1:
		return &ast.IndexExpr{
			X:      x,
			Lbrack: lbrack,
			Index:  indices[0],
			Rbrack: rbrack,
		}
	default:
		return &ast.IndexListExpr{
			X:       x,
			Lbrack:  lbrack,
			Indices: indices,
			Rbrack:  rbrack,
		}
	}
}

// IsTypeParam reports whether t is a type parameter (or an alias of one).
func IsTypeParam(t types.Type) bool {
	_, ok := types.Unalias(t).(*types.TypeParam)
	return ok
}
