// Copyright 2024 The Go Authors. All rights reserved.
// Use of this source code is governed by a BSD-style
// license that can be found in the LICENSE file.

package typeparams

import (
	"go/types"

	"dialsverif/xinline/aliases"
)

// Free is a memoization of the set of free type parameters within a
// type. It makes a sequence of calls to [Free.Has] for overlapping
// types more efficient. The zero value is ready for use.
//
// NOTE: Adapted from go/types/infer.go. If it is later exported, factor.
type Free struct {
	seen map[types.Type]bool
}

// Has reports whether the specified type has a free type parameter.
func (w *Free) Has(typ types.Type) (res bool) {
	// detect cycles
	if x, ok := w.seen[typ]; ok {
		return x
	}
	if w.seen == nil {
		w.seen = make(map[types.Type]bool)
	}
	w.seen[typ] = false
	defer func() {
		w.seen[typ] = res
	}()

	switch t := typ.(type) {
	case nil, *types.Basic: // TODO(gri) should nil be handled here?
		break

	case *types.Alias:
		if aliases.TypeParams(t).Len() > aliases.TypeArgs(t).Len() {
			return true // This is an uninstantiated Alias.
		}
		// The expansion of an alias can have free type parameters,
		// whether or not the alias itself has type parameters:
		//
		//   func _[K comparable]() {
		//     type Set      = map[K]bool // free(Set)      = {K}
		//     type MapTo[V] = map[K]V    // free(Map[foo]) = {V}
		//   }
		//
		// So, we must Unalias.
		return w.Has(types.Unalias(t))

	case *types.Array:
		return w.Has(t.Elem())

	case *types.Slice:
		return w.Has(t.Elem())

	case *types.Struct:
		for i, n := 0, t.NumFields(); i < n; i++ {
			if w.Has(t.Field(i).Type()) {
				return true
			}
		}

	case *types.Pointer:
		return w.Has(t.Elem())

	case *types.Tuple:
		n := t.Len()
		for i := 0; i < n; i++ {
			if w.Has(t.At(i).Type()) {
				return true
			}
		}

	case *types.Signature:
		// t.tparams may not be nil if we are looking at a signature
		// of a generic function type (or an interface method) that is
		// part of the type we're testing. We don't care about these type
		// parameters.
		// Similarly, the receiver of a method may declare (rather than
		// use) type parameters, we don't care about those either.
		// Thus, we only need to look at the input and result parameters.
		return w.Has(t.Params()) || w.Has(t.Results())

	case *types.Interface:
		for i, n := 0, t.NumMethods(); i < n; i++ {
			if w.Has(t.Method(i).Type()) {
				return true
			}
		}
		terms, err := InterfaceTermSet(t)
		if err != nil {
			return false // ill typed
		}
		for _, term := range terms {
			if w.Has(term.Type()) {
				return true
			}
		}

	case *types.Map:
		return w.Has(t.Key()) || w.Has(t.Elem())

	case *types.Chan:
		return w.Has(t.Elem())

	case *types.Named:
		args := t.TypeArgs()
		if params := t.TypeParams(); params.Len() > args.Len() {
			return true // this is an uninstantiated named type.
		}
		for i, n := 0, args.Len(); i < n; i++ {
			if w.Has(args.At(i)) {
				return true
			}
		}
		return w.Has(t.Underlying()) // recurse for types local to parameterized functions

	case *types.TypeParam:
		return true

	default:
		panic(t) // unreachable
	}

	return false
}
