// Copyright 2022 The Go Authors. All rights reserved.
// Use of this source code is governed by a BSD-style
// license that can be found in the LICENSE file.

package typeparams

import (
	"fmt"
	"go/types"
)

// CoreType returns the core type of T or nil if T does not have a core type.
//
// See https://go.dev/ref/spec#Core_types for the definition of a core type.
func CoreType(T types.Type) types.Type {
	U := T.Underlying()
	if _, ok := U.(*types.Interface); !ok {
		return U // for non-interface types,
	}

	terms, err := NormalTerms(U)
	if len(terms) == 0 || err != nil {
		// len(terms) -> empty type set of interface.
		// err != nil => U is invalid, exceeds complexity bounds, or has an empty type set.
		return nil // no core type.
	}

	U = terms[0].Type().Underlying()
	var identical int // i in [0,identical) => Identical(U, terms[i].Type().Underlying())
	for identical = 1; identical < len(terms); identical++ {
		if !types.Identical(U, terms[identical].Type().Underlying()) {
			break
		}
	}

	if identical == len(terms) {
		// https://go.dev/ref/spec#Core_types
		// "There is a single type U which is the underlying type of all types in the type set of T"
		return U
	}
	ch, ok := U.(*types.Chan)
	if !ok {
		return nil // no core type as identical < len(terms) and U is not a channel.
	}
	// https://go.dev/ref/spec#Core_types
	// "the type chan E if T contains only bidirectional channels, or the type chan<- E or
	// <-chan E depending on the direction of the directional channels present."
	for chans := identical; chans < len(terms); chans++ {
		curr, ok := terms[chans].Type().Underlying().(*types.Chan)
		if !ok {
			return nil
		}
		if !types.Identical(ch.Elem(), curr.Elem()) {
			return nil // channel elements are not identical.
		}
		if ch.Dir() == types.SendRecv {
			// ch is bidirectional. We can safely always use curr's direction.
			ch = curr
		} else if curr.Dir() != types.SendRecv && ch.Dir() != curr.Dir() {
			// ch and curr are not bidirectional and not the same direction.
			return nil
		}
	}
	return ch
}

// NormalTerms returns a slice of terms representing the normalized structural
// type restrictions of a type, if any.
//
// For all types other than *types.TypeParam, *types.Interface, and
// *types.Union, this is just a single term with Tilde() == false and
// Type() == typ. For *types.TypeParam, *types.Interface, and *types.Union, see
// below.
//
// Structural type restrictions of a type parameter are created via
// non-interface types embedded in its constraint interface (directly, or via a
// chain of interface embeddings). For example, in the declaration type
// T[P interface{~int; m()}] int the structural restriction of the type
// parameter P is ~int.
//
// With interface embedding and unions, the specification of structural type
// restrictions may be arbitrarily complex. For example, consider the
// following:
//
//	type A interface{ ~string|~[]byte }
//
//	type B interface{ int|string }
//
//	type C interface { ~string|~int }
//
//	type T[P interface{ A|B; C }] int
//
// In this example, the structural type restriction of P is ~string|int: A|B
// expands to ~string|~[]byte|int|string, which reduces to ~string|~[]byte|int,
// which when intersected with C (~string|~int) yields ~string|int.
//
// NormalTerms computes these expansions and reductions, producing a
// "normalized" form of the embeddings. A structural restriction is normalized
// if it is a single union containing no interface terms, and is minimal in the
// sense that removing any term changes the set of types satisfying the
// constraint. It is left as a proof for the reader that, modulo sorting, there
// is exactly one such normalized form.
//
// Because the minimal representation always takes this form, NormalTerms
// returns a slice of tilde terms corresponding to the terms of the union in
// the normalized structural restriction. An error is returned if the type is
// invalid, exceeds complexity bounds, or has an empty type set. In the latter
// case, NormalTerms returns ErrEmptyTypeSet.
//
// NormalTerms makes no guarantees about the order of terms, except that it
// is deterministic.
func NormalTerms(typ types.Type) ([]*types.Term, error) {
	switch typ := typ.Underlying().(type) {
	case *types.TypeParam:
		return StructuralTerms(typ)
	case *types.Union:
		return UnionTermSet(typ)
	case *types.Interface:
		return InterfaceTermSet(typ)
	default:
		return []*types.Term{types.NewTerm(false, typ)}, nil
	}
}

// Deref returns the type of the variable pointed to by t,
// if t's core type is a pointer; otherwise it returns t.
//
// Do not assume that Deref(T)==T implies T is not a pointer:
// consider "type T *T", for example.
//
// TODO(adonovan): ideally this would live in typesinternal, but that
// creates an import cycle. Move there when we melt this package down.
func Deref(t types.Type) types.Type {
	if ptr, ok := CoreType(t).(*types.Pointer); ok {
		return ptr.Elem()
	}
	return t
}

// MustDeref returns the type of the variable pointed to by t.
// It panics if t's core type is not a pointer.
//
// TODO(adonovan): ideally this would live in typesinternal, but that
// creates an import cycle. Move there when we melt this package down.
func MustDeref(t types.Type) types.Type {
	if ptr, ok := CoreType(t).(*types.Pointer); ok {
		return ptr.Elem()
	}
	panic(fmt.Sprintf("%v is not a pointer", t))
}
