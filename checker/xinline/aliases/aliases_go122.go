// Copyright 2024 The Go Authors. All rights reserved.
// Use of this source code is governed by a BSD-style
// license that can be found in the LICENSE file.

package aliases

import (
	"go/ast"
	"go/parser"
	"go/token"
	"go/types"
)

// Rhs returns the type on the right-hand side of the alias declaration.
func Rhs(alias *types.Alias) types.Type {
	if alias, ok := any(alias).(interface{ Rhs() types.Type }); ok {
		return alias.Rhs() // go1.23+
	}

	// go1.22's Alias didn't have the Rhs method,
	// so Unalias is the best we can do.
	return types.Unalias(alias)
}

// TypeParams returns the type parameter list of the alias.
func TypeParams(alias *types.Alias) *types.TypeParamList {
	if alias, ok := any(alias).(interface{ TypeParams() *types.TypeParamList }); ok {
		return alias.TypeParams() // go1.23+
	}
	return nil
}

// SetTypeParams sets the type parameters of the alias type.
func SetTypeParams(alias *types.Alias, tparams []*types.TypeParam) {
	if alias, ok := any(alias).(interface {
		SetTypeParams(tparams []*types.TypeParam)
	}); ok {
		alias.SetTypeParams(tparams) // go1.23+
	} else if len(tparams) > 0 {
		panic("cannot set type parameters of an Alias type in go1.22")
	}
}

// TypeArgs returns the type arguments used to instantiate the Alias type.
func TypeArgs(alias *types.Alias) *types.TypeList {
	if alias, ok := any(alias).(interface{ TypeArgs() *types.TypeList }); ok {
		return alias.TypeArgs() // go1.23+
	}
	return nil // empty (go1.22)
}

// Origin returns the generic Alias type of which alias is an instance.
// If alias is not an instance of a generic alias, Origin returns alias.
func Origin(alias *types.Alias) *types.Alias {
	if alias, ok := any(alias).(interface{ Origin() *types.Alias }); ok {
		return alias.Origin() // go1.23+
	}
	return alias // not an instance of a generic alias (go1.22)
}

// Enabled reports whether [NewAlias] should create [types.Alias] types.
//
// This function is expensive! Call it sparingly.
func Enabled() bool {
	// The only reliable way to compute the answer is to invoke go/types.
	// We don't parse the GODEBUG environment variable, because
	// (a) it's tricky to do so in a manner that is consistent
	//     with the godebug package; in particular, a simple
	//     substring check is not good enough. The value is a
	//     rightmost-wins list of options. But more importantly:
	// (b) it is impossible to detect changes to the effective
	//     setting caused by os.Setenv("GODEBUG"), as happens in
	//     many tests. Therefore any attempt to cache the result
	//     is just incorrect.
	fset := token.NewFileSet()
	f, _ := parser.ParseFile(fset, "a.go", "package p; type A = int", parser.SkipObjectResolution)
	pkg, _ := new(types.Config).Check("p", fset, []*ast.File{f}, nil)
	_, enabled := pkg.Scope().Lookup("A").Type().(*types.Alias)
	return enabled
}
