// Copyright 2024 The Go Authors. All rights reserved.
// Use of this source code is governed by a BSD-style
// license that can be found in the LICENSE file.

package aliases

import (
	"go/token"
	"go/types"
)

// Package aliases defines backward compatible shims
// for the types.Alias type representation added in 1.22.
// This defines placeholders for x/tools until 1.26.

// NewAlias creates a new TypeName in Package pkg that
// is an alias for the type rhs.
//
// The enabled parameter determines whether the resulting [TypeName]'s
// type is an [types.Alias]. Its value must be the result of a call to
// [Enabled], which computes the effective value of
// GODEBUG=gotypesalias=... by invoking the type checker. The Enabled
// function is expensive and should be called once per task (e.g.
// package import), not once per call to NewAlias.
//
// Precondition: enabled || len(tparams)==0.
// If materialized aliases are disabled, there must not be any type parameters.
func NewAlias(enabled bool, pos token.Pos, pkg *types.Package, name string, rhs types.Type, tparams []*types.TypeParam) *types.TypeName {
	if enabled {
		tname := types.NewTypeName(pos, pkg, name, nil)
		SetTypeParams(types.NewAlias(tname, rhs), tparams)
		return tname
	}
	if len(tparams) > 0 {
		panic("cannot create an alias with type parameters when gotypesalias is not enabled")
	}
	return types.NewTypeName(pos, pkg, name, rhs)
}
