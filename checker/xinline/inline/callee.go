// Copyright 2023 The Go Authors. All rights reserved.
// Use of this source code is governed by a BSD-style
// license that can be found in the LICENSE file.

package inline

// This file defines the analysis of the callee function.

import (
	"bytes"
	"encoding/gob"
	"fmt"
	"go/ast"
	"go/parser"
	"go/token"
	"go/types"
	"strings"

	"golang.org/x/tools/go/types/typeutil"
	"dialsverif/xinline/typeparams"
	"dialsverif/xinline/typesinternal"
)

// AllowSameNamedTypeParams lifts the rejection of generic callees (see AnalyzeCallee).
var AllowSameNamedTypeParams = false

// A Callee holds information about an inlinable function. Gob-serializable.
type Callee struct {
	impl gobCallee
}

func (callee *Callee) String() string { return callee.impl.Name }

type gobCallee struct {
	Content []byte // file content, compacted to a single func decl

	// results of type analysis (does not reach go/types data structures)
	PkgPath          string                 // package path of declaring package
	Name             string                 // user-friendly name for error messages
	Unexported       []string               // names of free objects that are unexported
	FreeRefs         []freeRef              // locations of references to free objects
	FreeObjs         []object               // descriptions of free objects
	ValidForCallStmt bool                   // function body is "return expr" where expr is f() or <-ch
	NumResults       int                    // number of results (according to type, not ast.FieldList)
	Params           []*paramInfo           // information about parameters (incl. receiver)
	Results          []*paramInfo           // information about result variables
	Effects          []int                  // order in which parameters are evaluated (see calleefx)
	HasDefer         bool                   // uses defer
	HasBareReturn    bool                   // uses bare return in non-void function
	Returns          [][]returnOperandFlags // metadata about result expressions for each return
	Labels           []string               // names of all control labels
	Falcon           falconResult           // falcon constraint system
}

// returnOperandFlags records metadata about a single result expression in a return
// statement.
type returnOperandFlags int

const (
	nonTrivialResult returnOperandFlags = 1 << iota // return operand has non-trivial conversion to result type
	untypedNilResult                                // return operand is nil literal
)

// A freeRef records a reference to a free object. Gob-serializable.
// (This means free relative to the FuncDecl as a whole, i.e. excluding parameters.)
type freeRef struct {
	Offset int // byte offset of the reference relative to the FuncDecl
	Object int // index into Callee.freeObjs
}

// An object abstracts a free types.Object referenced by the callee. Gob-serializable.
type object struct {
	Name    string // Object.Name()
	Kind    string // one of {var,func,const,type,pkgname,nil,builtin}
	PkgPath string // path of object's package (or imported package if kind="pkgname")
	PkgName string // name of object's package (or imported package if kind="pkgname")
	// TODO(rfindley): should we also track LocalPkgName here? Do we want to
	// preserve the local package name?
	ValidPos bool      // Object.Pos().IsValid()
	Shadow   shadowMap // shadowing info for the object's refs
}

// AnalyzeCallee analyzes a function that is a candidate for inlining
// and returns a Callee that describes it. The Callee object, which is
// serializable, can be passed to one or more subsequent calls to
// Inline, each with a different Caller.
//
// This design allows separate analysis of callers and callees in the
// golang.org/x/tools/go/analysis framework: the inlining information
// about a callee can be recorded as a "fact".
//
// The content should be the actual input to the compiler, not the
// apparent source file according to any //line directives that
// may be present within it.
func AnalyzeCallee(logf func(string, ...any), fset *token.FileSet, pkg *types.Package, info *types.Info, decl *ast.FuncDecl, content []byte) (*Callee, error) {
	checkInfoFields(info)

	// The client is expected to have determined that the callee
	// is a function with a declaration (not a built-in or var).
	fn := info.Defs[decl.Name].(*types.Func)
	sig := fn.Type().(*types.Signature)

	logf("analyzeCallee %v @ %v", fn, fset.PositionFor(decl.Pos(), false))

	// Create user-friendly name ("pkg.Func" or "(pkg.T).Method")
	var name string
	if sig.Recv() == nil {
		name = fmt.Sprintf("%s.%s", fn.Pkg().Name(), fn.Name())
	} else {
		name = fmt.Sprintf("(%s).%s", types.TypeString(sig.Recv().Type(), (*types.Package).Name), fn.Name())
	}

	if decl.Body == nil {
		return nil, fmt.Errorf("cannot inline function %s as it has no body", name)
	}

	// TODO(adonovan): support inlining of instantiated generic
	// functions by replacing each occurrence of a type parameter
	// T by its instantiating type argument (e.g. int). We'll need
	// to wrap the instantiating type in parens when it's not an
	// ident or qualified ident to prevent "if x == struct{}"
	// parsing ambiguity, or "T(x)" where T = "*int" or "func()"
	// from misparsing.
	// (dialsverif) The caller of this vendored copy only inlines a generic callee into a caller in which every
	// type parameter of the callee denotes the caller's type parameter of the same name (a method of the same
	// generic type, or an instantiation with the caller's own parameters), so no substitution is needed.
	if funcHasTypeParams(decl) && !AllowSameNamedTypeParams {
		return nil, fmt.Errorf("cannot inline generic function %s: type parameters are not yet supported", name)
	}

	// Record the location of all free references in the FuncDecl.
	// (Parameters are not free by this definition.)
	var (
		fieldObjs    = fieldObjs(sig)
		freeObjIndex = make(map[types.Object]int)
		freeObjs     []object
		freeRefs     []freeRef // free refs that may need renaming
		unexported   []string  // free refs to unexported objects, for later error checks
	)
	var f func(n ast.Node) bool
	visit := func(n ast.Node) { ast.Inspect(n, f) }
	var stack []ast.Node
	stack = append(stack, decl.Type) // for scope of function itself
	f = func(n ast.Node) bool {
		if n != nil {
			stack = append(stack, n) // push
		} else {
			stack = stack[:len(stack)-1] // pop
		}
		switch n := n.(type) {
		case *ast.SelectorExpr:
			// Check selections of free fields/methods.
			if sel, ok := info.Selections[n]; ok &&
				!within(sel.Obj().Pos(), decl) &&
				!n.Sel.IsExported() {
				sym := fmt.Sprintf("(%s).%s", info.TypeOf(n.X), n.Sel.Name)
				unexported = append(unexported, sym)
			}

			// Don't recur into SelectorExpr.Sel.
			visit(n.X)
			return false

		case *ast.CompositeLit:
			// Check for struct literals that refer to unexported fields,
			// whether keyed or unkeyed. (Logic assumes well-typedness.)
			litType := typeparams.Deref(info.TypeOf(n))
			if s, ok := typeparams.CoreType(litType).(*types.Struct); ok {
				if n.Type != nil {
					visit(n.Type)
				}
				for i, elt := range n.Elts {
					var field *types.Var
					var value ast.Expr
					if kv, ok := elt.(*ast.KeyValueExpr); ok {
						field = info.Uses[kv.Key.(*ast.Ident)].(*types.Var)
						value = kv.Value
					} else {
						field = s.Field(i)
						value = elt
					}
					if !within(field.Pos(), decl) && !field.Exported() {
						sym := fmt.Sprintf("(%s).%s", litType, field.Name())
						unexported = append(unexported, sym)
					}

					// Don't recur into KeyValueExpr.Key.
					visit(value)
				}
				return false
			}

		case *ast.Ident:
			if obj, ok := info.Uses[n]; ok {
				// Methods and fields are handled by SelectorExpr and CompositeLit.
				if isField(obj) || isMethod(obj) {
					panic(obj)
				}
				// Inv: id is a lexical reference.

				// A reference to an unexported package-level declaration
				// cannot be inlined into another package.
				if !n.IsExported() &&
					obj.Pkg() != nil && obj.Parent() == obj.Pkg().Scope() {
					unexported = append(unexported, n.Name)
				}

				// Record free reference (incl. self-reference).
				if obj == fn || !within(obj.Pos(), decl) {
					objidx, ok := freeObjIndex[obj]
					if !ok {
						objidx = len(freeObjIndex)
						var pkgPath, pkgName string
						if pn, ok := obj.(*types.PkgName); ok {
							pkgPath = pn.Imported().Path()
							pkgName = pn.Imported().Name()
						} else if obj.Pkg() != nil {
							pkgPath = obj.Pkg().Path()
							pkgName = obj.Pkg().Name()
						}
						freeObjs = append(freeObjs, object{
							Name:     obj.Name(),
							Kind:     objectKind(obj),
							PkgName:  pkgName,
							PkgPath:  pkgPath,
							ValidPos: obj.Pos().IsValid(),
						})
						freeObjIndex[obj] = objidx
					}

					freeObjs[objidx].Shadow = freeObjs[objidx].Shadow.add(info, fieldObjs, obj.Name(), stack)

					freeRefs = append(freeRefs, freeRef{
						Offset: int(n.Pos() - decl.Pos()),
						Object: objidx,
					})
				}
			}
		}
		return true
	}
	visit(decl)

	// Analyze callee body for "return expr" form,
	// where expr is f() or <-ch. These forms are
	// safe to inline as a standalone statement.
	validForCallStmt := false
	if len(decl.Body.List) != 1 {
		// not just a return statement
	} else if ret, ok := decl.Body.List[0].(*ast.ReturnStmt); ok && len(ret.Results) == 1 {
		validForCallStmt = func() bool {
			switch expr := ast.Unparen(ret.Results[0]).(type) {
			case *ast.CallExpr: // f(x)
				callee := typeutil.Callee(info, expr)
				if callee == nil {
					return false // conversion T(x)
				}

				// The only non-void built-in functions that may be
				// called as a statement are copy and recover
				// (though arguably a call to recover should never
				// be inlined as that changes its behavior).
				if builtin, ok := callee.(*types.Builtin); ok {
					return builtin.Name() == "copy" ||
						builtin.Name() == "recover"
				}

				return true // ordinary call f()

			case *ast.UnaryExpr: // <-x
				return expr.Op == token.ARROW // channel receive <-ch
			}

			// No other expressions are valid statements.
			return false
		}()
	}

	// Record information about control flow in the callee
	// (but not any nested functions).
	var (
		hasDefer      = false
		hasBareReturn = false
		returnInfo    [][]returnOperandFlags
		labels        []string
	)
	ast.Inspect(decl.Body, func(n ast.Node) bool {
		switch n := n.(type) {
		case *ast.FuncLit:
			return false // prune traversal
		case *ast.DeferStmt:
			hasDefer = true
		case *ast.LabeledStmt:
			labels = append(labels, n.Label.Name)
		case *ast.ReturnStmt:

			// Are implicit assignment conversions
			// to result variables all trivial?
			var resultInfo []returnOperandFlags
			if len(n.Results) > 0 {
				argInfo := func(i int) (ast.Expr, types.Type) {
					expr := n.Results[i]
					return expr, info.TypeOf(expr)
				}
				if len(n.Results) == 1 && sig.Results().Len() > 1 {
					// Spread return: return f() where f.Results > 1.
					tuple := info.TypeOf(n.Results[0]).(*types.Tuple)
					argInfo = func(i int) (ast.Expr, types.Type) {
						return nil, tuple.At(i).Type()
					}
				}
				for i := 0; i < sig.Results().Len(); i++ {
					expr, typ := argInfo(i)
					var flags returnOperandFlags
					if typ == types.Typ[types.UntypedNil] { // untyped nil is preserved by go/types
						flags |= untypedNilResult
					}
					if !trivialConversion(info.Types[expr].Value, typ, sig.Results().At(i).Type()) {
						flags |= nonTrivialResult
					}
					resultInfo = append(resultInfo, flags)
				}
			} else if sig.Results().Len() > 0 {
				hasBareReturn = true
			}
			returnInfo = append(returnInfo, resultInfo)
		}
		return true
	})

	// Reject attempts to inline cgo-generated functions.
	for _, obj := range freeObjs {
		// There are others (iconst fconst sconst fpvar macro)
		// but this is probably sufficient.
		if strings.HasPrefix(obj.Name, "_Cfunc_") ||
			strings.HasPrefix(obj.Name, "_Ctype_") ||
			strings.HasPrefix(obj.Name, "_Cvar_") {
			return nil, fmt.Errorf("cannot inline cgo-generated functions")
		}
	}

	// Compact content to just the FuncDecl.
	//
	// As a space optimization, we don't retain the complete
	// callee file content; all we need is "package _; func f() { ... }".
	// This reduces the size of analysis facts.
	//
	// Offsets in the callee information are "relocatable"
	// since they are all relative to the FuncDecl.

	content = append([]byte("package _\n"),
		content[offsetOf(fset, decl.Pos()):offsetOf(fset, decl.End())]...)
	// Sanity check: re-parse the compacted content.
	if _, _, err := parseCompact(content); err != nil {
		return nil, err
	}

	params, results, effects, falcon := analyzeParams(logf, fset, info, decl)
	return &Callee{gobCallee{
		Content:          content,
		PkgPath:          pkg.Path(),
		Name:             name,
		Unexported:       unexported,
		FreeObjs:         freeObjs,
		FreeRefs:         freeRefs,
		ValidForCallStmt: validForCallStmt,
		NumResults:       sig.Results().Len(),
		Params:           params,
		Results:          results,
		Effects:          effects,
		HasDefer:         hasDefer,
		HasBareReturn:    hasBareReturn,
		Returns:          returnInfo,
		Labels:           labels,
		Falcon:           falcon,
	}}, nil
}

// parseCompact parses a Go source file of the form "package _\n func f() { ... }"
// and returns the sole function declaration.
func parseCompact(content []byte) (*token.FileSet, *ast.FuncDecl, error) {
	fset := token.NewFileSet()
	const mode = parser.ParseComments | parser.SkipObjectResolution | parser.AllErrors
	f, err := parser.ParseFile(fset, "callee.go", content, mode)
	if err != nil {
		return nil, nil, fmt.Errorf("internal error: cannot compact file: %v", err)
	}
	return fset, f.Decls[0].(*ast.FuncDecl), nil
}

// A paramInfo records information about a callee receiver, parameter, or result variable.
type paramInfo struct {
	Name        string    // parameter name (may be blank, or even "")
	Index       int       // index within signature
	IsResult    bool      // false for receiver or parameter, true for result variable
	IsInterface bool      // parameter has a (non-type parameter) interface type
	Assigned    bool      // parameter appears on left side of an assignment statement
	Escapes     bool      // parameter has its address taken
	Refs        []refInfo // information about references to parameter within body
	Shadow      shadowMap // shadowing info for the above refs; see [shadowMap]
	FalconType  string    // name of this parameter's type (if basic) in the falcon system
}

type refInfo struct {
	Offset           int  // FuncDecl-relative byte offset of parameter ref within body
	Assignable       bool // ref appears in context of assignment to known type
	IfaceAssignment  bool // ref is being assigned to an interface
	AffectsInference bool // ref type may affect type inference
	// IsSelectionOperand indicates whether the parameter reference is the
	// operand of a selection (param.f). If so, and param's argument is itself
	// a receiver parameter (a common case), we don't need to desugar (&v or *ptr)
	// the selection: if param.Method is a valid selection, then so is param.fieldOrMethod.
	IsSelectionOperand bool
}

// analyzeParams computes information about parameters of function fn,
// including a simple "address taken" escape analysis.
//
// It returns two new arrays, one of the receiver and parameters, and
// the other of the result variables of function fn.
//
// The input must be well-typed.
func analyzeParams(logf func(string, ...any), fset *token.FileSet, info *types.Info, decl *ast.FuncDecl) (params, results []*paramInfo, effects []int, _ falconResult) {
	fnobj, ok := info.Defs[decl.Name]
	if !ok {
		panic(fmt.Sprintf("%s: no func object for %q",
			fset.PositionFor(decl.Name.Pos(), false), decl.Name)) // ill-typed?
	}
	sig := fnobj.Type().(*types.Signature)

	paramInfos := make(map[*types.Var]*paramInfo)
	{
		newParamInfo := func(param *types.Var, isResult bool) *paramInfo {
			info := &paramInfo{
				Name:        param.Name(),
				IsResult:    isResult,
				Index:       len(paramInfos),
				IsInterface: isNonTypeParamInterface(param.Type()),
			}
			paramInfos[param] = info
			return info
		}
		if sig.Recv() != nil {
			params = append(params, newParamInfo(sig.Recv(), false))
		}
		for i := 0; i < sig.Params().Len(); i++ {
			params = append(params, newParamInfo(sig.Params().At(i), false))
		}
		for i := 0; i < sig.Results().Len(); i++ {
			results = append(results, newParamInfo(sig.Results().At(i), true))
		}
	}

	// Search function body for operations &x, x.f(), and x = y
	// where x is a parameter, and record it.
	escape(info, decl, func(v *types.Var, escapes bool) {
		if info := paramInfos[v]; info != nil {
			if escapes {
				info.Escapes = true
			} else {
				info.Assigned = true
			}
		}
	})

	// Record locations of all references to parameters.
	// And record the set of intervening definitions for each parameter.
	//
	// TODO(adonovan): combine this traversal with the one that computes
	// FreeRefs. The tricky part is that calleefx needs this one first.
	fieldObjs := fieldObjs(sig)
	var stack []ast.Node
	stack = append(stack, decl.Type) // for scope of function itself
	ast.Inspect(decl.Body, func(n ast.Node) bool {
		if n != nil {
			stack = append(stack, n) // push
		} else {
			stack = stack[:len(stack)-1] // pop
		}

		if id, ok := n.(*ast.Ident); ok {
			if v, ok := info.Uses[id].(*types.Var); ok {
				if pinfo, ok := paramInfos[v]; ok {
					// Record ref information, and any intervening (shadowing) names.
					//
					// If the parameter v has an interface type, and the reference id
					// appears in a context where assignability rules apply, there may be
					// an implicit interface-to-interface widening. In that case it is
					// not necessary to insert an explicit conversion from the argument
					// to the parameter's type.
					//
					// Contrapositively, if param is not an interface type, then the
					// assignment may lose type information, for example in the case that
					// the substituted expression is an untyped constant or unnamed type.
					assignable, ifaceAssign, affectsInference := analyzeAssignment(info, stack)
					ref := refInfo{
						Offset:             int(n.Pos() - decl.Pos()),
						Assignable:         assignable,
						IfaceAssignment:    ifaceAssign,
						AffectsInference:   affectsInference,
						IsSelectionOperand: isSelectionOperand(stack),
					}
					pinfo.Refs = append(pinfo.Refs, ref)
					pinfo.Shadow = pinfo.Shadow.add(info, fieldObjs, pinfo.Name, stack)
				}
			}
		}
		return true
	})

	// Compute subset and order of parameters that are strictly evaluated.
	// (Depends on Refs computed above.)
	effects = calleefx(info, decl.Body, paramInfos)
	logf("effects list = %v", effects)

	falcon := falcon(logf, fset, paramInfos, info, decl)

	return params, results, effects, falcon
}

// -- callee helpers --

// analyzeAssignment looks at the the given stack, and analyzes certain
// attributes of the innermost expression.
//
// In all cases we 'fail closed' when we cannot detect (or for simplicity
// choose not to detect) the condition in question, meaning we err on the side
// of the more restrictive rule. This is noted for each result below.
//
//   - assignable reports whether the expression is used in a position where
//     assignability rules apply, such as in an actual assignment, as call
//     argument, or in a send to a channel. Defaults to 'false'. If assignable
//     is false, the other two results are irrelevant.
//   - ifaceAssign reports whether that assignment is to an interface type.
//     This is important as we want to preserve the concrete type in that
//     assignment. Defaults to 'true'. Notably, if the assigned type is a type
//     parameter, we assume that it could have interface type.
//   - affectsInference is (somewhat vaguely) defined as whether or not the
//     type of the operand may affect the type of the surrounding syntax,
//     through type inference. It is infeasible to completely reverse engineer
//     type inference, so we over approximate: if the expression is an argument
//     to a call to a generic function (but not method!) that uses type
//     parameters, assume that unification of that argument may affect the
//     inferred types.
func analyzeAssignment(info *types.Info, stack []ast.Node) (assignable, ifaceAssign, affectsInference bool) {
	remaining, parent, expr := exprContext(stack)
	if parent == nil {
		return false, false, false
	}

	// TODO(golang/go#70638): simplify when types.Info records implicit conversions.

	// Types do not need to match for assignment to a variable.
	if assign, ok := parent.(*ast.AssignStmt); ok {
		for i, v := range assign.Rhs {
			if v == expr {
				if i >= len(assign.Lhs) {
					return false, false, false // ill typed
				}
				// Check to see if the assignment is to an interface type.
				if i < len(assign.Lhs) {
					// TODO: We could handle spread calls here, but in current usage expr
					// is an ident.
					if id, _ := assign.Lhs[i].(*ast.Ident); id != nil && info.Defs[id] != nil {
						// Types must match for a defining identifier in a short variable
						// declaration.
						return false, false, false
					}
					// In all other cases, types should be known.
					typ := info.TypeOf(assign.Lhs[i])
					return true, typ == nil || types.IsInterface(typ), false
				}
				// Default:
				return assign.Tok == token.ASSIGN, true, false
			}
		}
	}

	// Types do not need to match for an initializer with known type.
	if spec, ok := parent.(*ast.ValueSpec); ok && spec.Type != nil {
		for _, v := range spec.Values {
			if v == expr {
				typ := info.TypeOf(spec.Type)
				return true, typ == nil || types.IsInterface(typ), false
			}
		}
	}

	// Types do not need to match for index expresions.
	if ix, ok := parent.(*ast.IndexExpr); ok {
		if ix.Index == expr {
			typ := info.TypeOf(ix.X)
			if typ == nil {
				return true, true, false
			}
			m, _ := typeparams.CoreType(typ).(*types.Map)
			return true, m == nil || types.IsInterface(m.Key()), false
		}
	}

	// Types do not need to match for composite literal keys, values, or
	// fields.
	if kv, ok := parent.(*ast.KeyValueExpr); ok {
		var under types.Type
		if len(remaining) > 0 {
			if complit, ok := remaining[len(remaining)-1].(*ast.CompositeLit); ok {
				if typ := info.TypeOf(complit); typ != nil {
					// Unpointer to allow for pointers to slices or arrays, which are
					// permitted as the types of nested composite literals without a type
					// name.
					under = typesinternal.Unpointer(typeparams.CoreType(typ))
				}
			}
		}
		if kv.Key == expr { // M{expr: ...}: assign to map key
			m, _ := under.(*types.Map)
			return true, m == nil || types.IsInterface(m.Key()), false
		}
		if kv.Value == expr {
			switch under := under.(type) {
			case interface{ Elem() types.Type }: // T{...: expr}: assign to map/array/slice element
				return true, types.IsInterface(under.Elem()), false
			case *types.Struct: // Struct{k: expr}
				if id, _ := kv.Key.(*ast.Ident); id != nil {
					for fi := 0; fi < under.NumFields(); fi++ {
						field := under.Field(fi)
						if info.Uses[id] == field {
							return true, types.IsInterface(field.Type()), false
						}
					}
				}
			default:
				return true, true, false
			}
		}
	}
	if lit, ok := parent.(*ast.CompositeLit); ok {
		for i, v := range lit.Elts {
			if v == expr {
				typ := info.TypeOf(lit)
				if typ == nil {
					return true, true, false
				}
				// As in the KeyValueExpr case above, unpointer to handle pointers to
				// array/slice literals.
				under := typesinternal.Unpointer(typeparams.CoreType(typ))
				switch under := under.(type) {
				case interface{ Elem() types.Type }: // T{expr}: assign to map/array/slice element
					return true, types.IsInterface(under.Elem()), false
				case *types.Struct: // Struct{expr}: assign to unkeyed struct field
					if i < under.NumFields() {
						return true, types.IsInterface(under.Field(i).Type()), false
					}
				}
				return true, true, false
			}
		}
	}

	// Types do not need to match for values sent to a channel.
	if send, ok := parent.(*ast.SendStmt); ok {
		if send.Value == expr {
			typ := info.TypeOf(send.Chan)
			if typ == nil {
				return true, true, false
			}
			ch, _ := typeparams.CoreType(typ).(*types.Chan)
			return true, ch == nil || types.IsInterface(ch.Elem()), false
		}
	}

	// Types do not need to match for an argument to a call, unless the
	// corresponding parameter has type parameters, as in that case the
	// argument type may affect inference.
	if call, ok := parent.(*ast.CallExpr); ok {
		if _, ok := isConversion(info, call); ok {
			return false, false, false // redundant conversions are handled at the call site
		}
		// Ordinary call. Could be a call of a func, builtin, or function value.
		for i, arg := range call.Args {
			if arg == expr {
				typ := info.TypeOf(call.Fun)
				if typ == nil {
					return true, true, false
				}
				sig, _ := typeparams.CoreType(typ).(*types.Signature)
				if sig != nil {
					// Find the relevant parameter type, accounting for variadics.
					paramType := paramTypeAtIndex(sig, call, i)
					ifaceAssign := paramType == nil || types.IsInterface(paramType)
					affectsInference := false
					if fn := typeutil.StaticCallee(info, call); fn != nil {
						if sig2 := fn.Type().(*types.Signature); sig2.Recv() == nil {
							originParamType := paramTypeAtIndex(sig2, call, i)
							affectsInference = originParamType == nil || new(typeparams.Free).Has(originParamType)
						}
					}
					return true, ifaceAssign, affectsInference
				}
			}
		}
	}

	return false, false, false
}

// paramTypeAtIndex returns the effective parameter type at the given argument
// index in call, if valid.
func paramTypeAtIndex(sig *types.Signature, call *ast.CallExpr, index int) types.Type {
	if plen := sig.Params().Len(); sig.Variadic() && index >= plen-1 && !call.Ellipsis.IsValid() {
		if s, ok := sig.Params().At(plen - 1).Type().(*types.Slice); ok {
			return s.Elem()
		}
	} else if index < plen {
		return sig.Params().At(index).Type()
	}
	return nil // ill typed
}

// exprContext returns the innermost parent->child expression nodes for the
// given outer-to-inner stack, after stripping parentheses, along with the
// remaining stack up to the parent node.
//
// If no such context exists, returns (nil, nil).
func exprContext(stack []ast.Node) (remaining []ast.Node, parent ast.Node, expr ast.Expr) {
	expr, _ = stack[len(stack)-1].(ast.Expr)
	if expr == nil {
		return nil, nil, nil
	}
	i := len(stack) - 2
	for ; i >= 0; i-- {
		if pexpr, ok := stack[i].(*ast.ParenExpr); ok {
			expr = pexpr
		} else {
			parent = stack[i]
			break
		}
	}
	if parent == nil {
		return nil, nil, nil
	}
	// inv: i is the index of parent in the stack.
	return stack[:i], parent, expr
}

// isSelectionOperand reports whether the innermost node of stack is operand
// (x) of a selection x.f.
func isSelectionOperand(stack []ast.Node) bool {
	_, parent, expr := exprContext(stack)
	if parent == nil {
		return false
	}
	sel, ok := parent.(*ast.SelectorExpr)
	return ok && sel.X == expr
}

// A shadowMap records information about shadowing at any of the parameter's
// references within the callee decl.
//
// For each name shadowed at a reference to the parameter within the callee
// body, shadow map records the 1-based index of the callee decl parameter
// causing the shadowing, or -1, if the shadowing is not due to a callee decl.
// A value of zero (or missing) indicates no shadowing. By convention,
// self-shadowing is excluded from the map.
//
// For example, in the following callee
//
//	func f(a, b int) int {
//		c := 2 + b
//		return a + c
//	}
//
// the shadow map of a is {b: 2, c: -1}, because b is shadowed by the 2nd
// parameter. The shadow map of b is {a: 1}, because c is not shadowed at the
// use of b.
type shadowMap map[string]int

// add returns the [shadowMap] augmented by the set of names
// locally shadowed at the location of the reference in the callee
// (identified by the stack). The name of the reference itself is
// excluded.
//
// These shadowed names may not be used in a replacement expression
// for the reference.
func (s shadowMap) add(info *types.Info, paramIndexes map[types.Object]int, exclude string, stack []ast.Node) shadowMap {
	for _, n := range stack {
		if scope := scopeFor(info, n); scope != nil {
			for _, name := range scope.Names() {
				if name != exclude {
					if s == nil {
						s = make(shadowMap)
					}
					obj := scope.Lookup(name)
					if idx, ok := paramIndexes[obj]; ok {
						s[name] = idx + 1
					} else {
						s[name] = -1
					}
				}
			}
		}
	}
	return s
}

// fieldObjs returns a map of each types.Object defined by the given signature
// to its index in the parameter list. Parameters with missing or blank name
// are skipped.
func fieldObjs(sig *types.Signature) map[types.Object]int {
	m := make(map[types.Object]int)
	for i := range sig.Params().Len() {
		if p := sig.Params().At(i); p.Name() != "" && p.Name() != "_" {
			m[p] = i
		}
	}
	return m
}

func isField(obj types.Object) bool {
	if v, ok := obj.(*types.Var); ok && v.IsField() {
		return true
	}
	return false
}

func isMethod(obj types.Object) bool {
	if f, ok := obj.(*types.Func); ok && f.Type().(*types.Signature).Recv() != nil {
		return true
	}
	return false
}

// -- serialization --

var (
	_ gob.GobEncoder = (*Callee)(nil)
	_ gob.GobDecoder = (*Callee)(nil)
)

func (callee *Callee) GobEncode() ([]byte, error) {
	var out bytes.Buffer
	if err := gob.NewEncoder(&out).Encode(callee.impl); err != nil {
		return nil, err
	}
	return out.Bytes(), nil
}

func (callee *Callee) GobDecode(data []byte) error {
	return gob.NewDecoder(bytes.NewReader(data)).Decode(&callee.impl)
}
