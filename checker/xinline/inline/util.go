// Copyright 2023 The Go Authors. All rights reserved.
// Use of this source code is governed by a BSD-style
// license that can be found in the LICENSE file.

package inline

// This file defines various common helpers.

import (
	"go/ast"
	"go/constant"
	"go/token"
	"go/types"
	"reflect"
	"strings"

	"dialsverif/xinline/typeparams"
)

func is[T any](x any) bool {
	_, ok := x.(T)
	return ok
}

// TODO(adonovan): use go1.21's slices.Index.
func index[T comparable](slice []T, x T) int {
	for i, elem := range slice {
		if elem == x {
			return i
		}
	}
	return -1
}

func btoi(b bool) int {
	if b {
		return 1
	} else {
		return 0
	}
}

func offsetOf(fset *token.FileSet, pos token.Pos) int {
	return fset.PositionFor(pos, false).Offset
}

// objectKind returns an object's kind (e.g. var, func, const, typename).
func objectKind(obj types.Object) string {
	return strings.TrimPrefix(strings.ToLower(reflect.TypeOf(obj).String()), "*types.")
}

// within reports whether pos is within the half-open interval [n.Pos, n.End).
func within(pos token.Pos, n ast.Node) bool {
	return n.Pos() <= pos && pos < n.End()
}

// trivialConversion reports whether it is safe to omit the implicit
// value-to-variable conversion that occurs in argument passing or
// result return. The only case currently allowed is converting from
// untyped constant to its default type (e.g. 0 to int).
//
// The reason for this check is that converting from A to B to C may
// yield a different result than converting A directly to C: consider
// 0 to int32 to any.
//
// trivialConversion under-approximates trivial conversions, as unfortunately
// go/types does not record the type of an expression *before* it is implicitly
// converted, and therefore it cannot distinguish typed constant
// expressions from untyped constant expressions. For example, in the
// expression `c + 2`, where c is a uint32 constant, trivialConversion does not
// detect that the default type of this expression is actually uint32, not untyped
// int.
//
// We could, of course, do better here by reverse engineering some of go/types'
// constant handling. That may or may not be worthwhile.
//
// Example: in func f() int32 { return 0 },
// the type recorded for 0 is int32, not untyped int;
// although it is Identical to the result var,
// the conversion is non-trivial.
func trivialConversion(fromValue constant.Value, from, to types.Type) bool {
	if fromValue != nil {
		var defaultType types.Type
		switch fromValue.Kind() {
		case constant.Bool:
			defaultType = types.Typ[types.Bool]
		case constant.String:
			defaultType = types.Typ[types.String]
		case constant.Int:
			defaultType = types.Typ[types.Int]
		case constant.Float:
			defaultType = types.Typ[types.Float64]
		case constant.Complex:
			defaultType = types.Typ[types.Complex128]
		default:
			return false
		}
		return types.Identical(defaultType, to)
	}
	return types.Identical(from, to)
}

func checkInfoFields(info *types.Info) {
	assert(info.Defs != nil, "types.Info.Defs is nil")
	assert(info.Implicits != nil, "types.Info.Implicits is nil")
	assert(info.Scopes != nil, "types.Info.Scopes is nil")
	assert(info.Selections != nil, "types.Info.Selections is nil")
	assert(info.Types != nil, "types.Info.Types is nil")
	assert(info.Uses != nil, "types.Info.Uses is nil")
}

func funcHasTypeParams(decl *ast.FuncDecl) bool {
	// generic function?
	if decl.Type.TypeParams != nil {
		return true
	}
	// method on generic type?
	if decl.Recv != nil {
		t := decl.Recv.List[0].Type
		if u, ok := t.(*ast.StarExpr); ok {
			t = u.X
		}
		return is[*ast.IndexExpr](t) || is[*ast.IndexListExpr](t)
	}
	return false
}

// intersects reports whether the maps' key sets intersect.
func intersects[K comparable, T1, T2 any](x map[K]T1, y map[K]T2) bool {
	if len(x) > len(y) {
		return intersects(y, x)
	}
	for k := range x {
		if _, ok := y[k]; ok {
			return true
		}
	}
	return false
}

// convert returns syntax for the conversion T(x).
func convert(T, x ast.Expr) *ast.CallExpr {
	// The formatter generally adds parens as needed,
	// but before go1.22 it had a bug (#63362) for
	// channel types that requires this workaround.
	if ch, ok := T.(*ast.ChanType); ok && ch.Dir == ast.RECV {
		T = &ast.ParenExpr{X: T}
	}
	return &ast.CallExpr{
		Fun:  T,
		Args: []ast.Expr{x},
	}
}

// isPointer reports whether t's core type is a pointer.
func isPointer(t types.Type) bool {
	return is[*types.Pointer](typeparams.CoreType(t))
}

// indirectSelection is like seln.Indirect() without bug #8353.
func indirectSelection(seln *types.Selection) bool {
	// Work around bug #8353 in Selection.Indirect when Kind=MethodVal.
	if seln.Kind() == types.MethodVal {
		tArg, indirect := effectiveReceiver(seln)
		if indirect {
			return true
		}

		tParam := seln.Obj().Type().Underlying().(*types.Signature).Recv().Type()
		return isPointer(tArg) && !isPointer(tParam) // implicit *
	}

	return seln.Indirect()
}

// effectiveReceiver returns the effective type of the method
// receiver after all implicit field selections (but not implicit * or
// & operations) have been applied.
//
// The boolean indicates whether any implicit field selection was indirect.
func effectiveReceiver(seln *types.Selection) (types.Type, bool) {
	assert(seln.Kind() == types.MethodVal, "not MethodVal")
	t := seln.Recv()
	indices := seln.Index()
	indirect := false
	for _, index := range indices[:len(indices)-1] {
		if isPointer(t) {
			indirect = true
			t = typeparams.MustDeref(t)
		}
		t = typeparams.CoreType(t).(*types.Struct).Field(index).Type()
	}
	return t, indirect
}
