// Copyright 2023 The Go Authors. All rights reserved.
// Use of this source code is governed by a BSD-style
// license that can be found in the LICENSE file.

/*
Package inline implements inlining of Go function calls.

The client provides information about the caller and callee,
including the source text, syntax tree, and type information, and
the inliner returns the modified source file for the caller, or an
error if the inlining operation is invalid (for example because the
function body refers to names that are inaccessible to the caller).

Although this interface demands more information from the client
than might seem necessary, it enables smoother integration with
existing batch and interactive tools that have their own ways of
managing the processes of reading, parsing, and type-checking
packages. In particular, this package does not assume that the
caller and callee belong to the same token.FileSet or
types.Importer realms.

There are many aspects to a function call. It is the only construct
that can simultaneously bind multiple variables of different
explicit types, with implicit assignment conversions. (Neither var
nor := declarations can do that.) It defines the scope of control
labels, of return statements, and of defer statements. Arguments
and results of function calls may be tuples even though tuples are
not first-class values in Go, and a tuple-valued call expression
may be "spread" across the argument list of a call or the operands
of a return statement. All these unique features mean that in the
general case, not everything that can be expressed by a function
call can be expressed without one.

So, in general, inlining consists of modifying a function or method
call expression f(a1, ..., an) so that the name of the function f
is replaced ("literalized") by a literal copy of the function
declaration, with free identifiers suitably modified to use the
locally appropriate identifiers or perhaps constant argument
values.

Inlining must not change the semantics of the call. Semantics
preservation is crucial for clients such as codebase maintenance
tools that automatically inline all calls to designated functions
on a large scale. Such tools must not introduce subtle behavior
changes. (Fully inlining a call is dynamically observable using
reflection over the call stack, but this exception to the rule is
explicitly allowed.)

In many cases it is possible to entirely replace ("reduce") the
call by a copy of the function's body in which parameters have been
replaced by arguments. The inliner supports a number of reduction
strategies, and we expect this set to grow. Nonetheless, sound
reduction is surprisingly tricky.

The inliner is in some ways like an optimizing compiler. A compiler
is considered correct if it doesn't change the meaning of the
program in translation from source language to target language. An
optimizing compiler exploits the particulars of the input to
generate better code, where "better" usually means more efficient.
When a case is found in which it emits suboptimal code, the
compiler is improved to recognize more cases, or more rules, and
more exceptions to rules; this process has no end. Inlining is
similar except that "better" code means tidier code. The baseline
translation (literalization) is correct, but there are endless
rules--and exceptions to rules--by which the output can be
improved.

The following section lists some of the challenges, and ways in
which they can be addressed.

  - All effects of the call argument expressions must be preserved,
    both in their number (they must not be eliminated or repeated),
    and in their order (both with respect to other arguments, and any
    effects in the callee function).

    This must be the case even if the corresponding parameters are
    never referenced, are referenced multiple times, referenced in
    a different order from the arguments, or referenced within a
    nested function that may be executed an arbitrary number of
    times.

    Currently, parameter replacement is not applied to arguments
    with effects, but with further analysis of the sequence of
    strict effects within the callee we could relax this constraint.

  - When not all parameters can be substituted by their arguments
    (e.g. due to possible effects), if the call appears in a
    statement context, the inliner may introduce a var declaration
    that declares the parameter variables (with the correct types)
    and assigns them to their corresponding argument values.
    The rest of the function body may then follow.
    For example, the call

    f(1, 2)

    to the function

    func f(x, y int32) { stmts }

    may be reduced to

    { var x, y int32 = 1, 2; stmts }.

    There are many reasons why this is not always possible. For
    example, true parameters are statically resolved in the same
    scope, and are dynamically assigned their arguments in
    parallel; but each spec in a var declaration is statically
    resolved in sequence and dynamically executed in sequence, so
    earlier parameters may shadow references in later ones.

  - Even an argument expression as simple as ptr.x may not be
    referentially transparent, because another argument may have the
    effect of changing the value of ptr.

    This constraint could be relaxed by some kind of alias or
    escape analysis that proves that ptr cannot be mutated during
    the call.

  - Although constants are referentially transparent, as a matter of
    style we do not wish to duplicate literals that are referenced
    multiple times in the body because this undoes proper factoring.
    Also, string literals may be arbitrarily large.

  - If the function body consists of statements other than just
    "return expr", in some contexts it may be syntactically
    impossible to reduce the call. Consider:

    if x := f(); cond { ... }

    Go has no equivalent to Lisp's progn or Rust's blocks,
    nor ML's let expressions (let param = arg in body);
    its closest equivalent is func(param){body}(arg).
    Reduction strategies must therefore consider the syntactic
    context of the call.

    In such situations we could work harder to extract a statement
    context for the call, by transforming it to:

    { x := f(); if cond { ... } }

  - Similarly, without the equivalent of Rust-style blocks and
    first-class tuples, there is no general way to reduce a call
    to a function such as

    func(params)(args)(results) { stmts; return expr }

    to an expression such as

    { var params = args; stmts; expr }

    or even a statement such as

    results = { var params = args; stmts; expr }

    Consequently the declaration and scope of the result variables,
    and the assignment and control-flow implications of the return
    statement, must be dealt with by cases.

  - A standalone call statement that calls a function whose body is
    "return expr" cannot be simply replaced by the body expression
    if it is not itself a call or channel receive expression; it is
    necessary to explicitly discard the result using "_ = expr".

    Similarly, if the body is a call expression, only calls to some
    built-in functions with no result (such as copy or panic) are
    permitted as statements, whereas others (such as append) return
    a result that must be used, even if just by discarding.

  - If a parameter or result variable is updated by an assignment
    within the function body, it cannot always be safely replaced
    by a variable in the caller. For example, given

    func f(a int) int { a++; return a }

    The call y = f(x) cannot be replaced by { x++; y = x } because
    this would change the value of the caller's variable x.
    Only if the caller is finished with x is this safe.

    A similar argument applies to parameter or result variables
    that escape: by eliminating a variable, inlining would change
    the identity of the variable that escapes.

  - If the function body uses 'defer' and the inlined call is not a
    tail-call, inlining may delay the deferred effects.

  - Because the scope of a control label is the entire function, a
    call cannot be reduced if the caller and callee have intersecting
    sets of control labels. (It is possible to α-rename any
    conflicting ones, but our colleagues building C++ refactoring
    tools report that, when tools must choose new identifiers, they
    generally do a poor job.)

  - Given

    func f() uint8 { return 0 }

    var x any = f()

    reducing the call to var x any = 0 is unsound because it
    discards the implicit conversion to uint8. We may need to make
    each argument-to-parameter conversion explicit if the types
    differ. Assignments to variadic parameters may need to
    explicitly construct a slice.

    An analogous problem applies to the implicit assignments in
    return statements:

    func g() any { return f() }

    Replacing the call f() with 0 would silently lose a
    conversion to uint8 and change the behavior of the program.

  - When inlining a call f(1, x, g()) where those parameters are
    unreferenced, we should be able to avoid evaluating 1 and x
    since they are pure and thus have no effect. But x may be the
    last reference to a local variable in the caller, so removing
    it would cause a compilation error. Parameter substitution must
    avoid making the caller's local variables unreferenced (or must
    be prepared to eliminate the declaration too---this is where an
    iterative framework for simplification would really help).

  - An expression such as s[i] may be valid if s and i are
    variables but invalid if either or both of them are constants.
    For example, a negative constant index s[-1] is always out of
    bounds, and even a non-negative constant index may be out of
    bounds depending on the particular string constant (e.g.
    "abc"[4]).

    So, if a parameter participates in any expression that is
    subject to additional compile-time checks when its operands are
    constant, it may be unsafe to substitute that parameter by a
    constant argument value (#62664).

More complex callee functions are inlinable with more elaborate and
invasive changes to the statements surrounding the call expression.

TODO(adonovan): future work:

  - Handle more of the above special cases by careful analysis,
    thoughtful factoring of the large design space, and thorough
    test coverage.

  - Compute precisely (not conservatively) when parameter
    substitution would remove the last reference to a caller local
    variable, and blank out the local instead of retreating from
    the substitution.

  - Afford the client more control such as a limit on the total
    increase in line count, or a refusal to inline using the
    general approach (replacing name by function literal). This
    could be achieved by returning metadata alongside the result
    and having the client conditionally discard the change.

  - Support inlining of generic functions, replacing type parameters
    by their instantiations.

  - Support inlining of calls to function literals ("closures").
    But note that the existing algorithm makes widespread assumptions
    that the callee is a package-level function or method.

  - Eliminate explicit conversions of "untyped" literals inserted
    conservatively when they are redundant. For example, the
    conversion int32(1) is redundant when this value is used only as a
    slice index; but it may be crucial if it is used in x := int32(1)
    as it changes the type of x, which may have further implications.
    The conversions may also be important to the falcon analysis.

  - Allow non-'go' build systems such as Bazel/Blaze a chance to
    decide whether an import is accessible using logic other than
    "/internal/" path segments. This could be achieved by returning
    the list of added import paths instead of a text diff.

  - Inlining a function from another module may change the
    effective version of the Go language spec that governs it. We
    should probably make the client responsible for rejecting
    attempts to inline from newer callees to older callers, since
    there's no way for this package to access module versions.

  - Use an alternative implementation of the import-organizing
    operation that doesn't require operating on a complete file
    (and reformatting). Then return the results in a higher-level
    form as a set of import additions and deletions plus a single
    diff that encloses the call expression. This interface could
    perhaps be implemented atop imports.Process by post-processing
    its result to obtain the abstract import changes and discarding
    its formatted output.
*/
package inline
