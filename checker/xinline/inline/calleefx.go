// Copyright 2023 The Go Authors. All rights reserved.
// Use of this source code is governed by a BSD-style
// license that can be found in the LICENSE file.

package inline

// This file defines the analysis of callee effects.

import (
	"go/ast"
	"go/token"
	"go/types"
)

const (
	rinf = -1 //  R∞: arbitrary read from memory
	winf = -2 //  W∞: arbitrary write to memory (or unknown control)
)

// calleefx returns a list of parameter indices indicating the order
// in which parameters are first referenced during evaluation of the
// callee, relative both to each other and to other effects of the
// callee (if any), such as arbitrary reads (rinf) and arbitrary
// effects (winf), including unknown control flow. Each parameter
// that is referenced appears once in the list.
//
// For example, the effects list of this function:
//
//	func f(x, y, z int) int {
//	    return y + x + g() + z
//	}
//
// is [1 0 -2 2], indicating reads of y and x, followed by the unknown
// effects of the g() call. and finally the read of parameter z. This
// information is used during inlining to ascertain when it is safe
// for parameter references to be replaced by their corresponding
// argument expressions. Such substitutions are permitted only when
// they do not cause "write" operations (those with effects) to
// commute with "read" operations (those that have no effect but are
// not pure). Impure operations may be reordered with other impure
// operations, and pure operations may be reordered arbitrarily.
//
// The analysis ignores the effects of runtime panics, on the
// assumption that well-behaved programs shouldn't encounter them.
func calleefx(info *types.Info, body *ast.BlockStmt, paramInfos map[*types.Var]*paramInfo) []int {
	// This traversal analyzes the callee's statements (in syntax
	// form, though one could do better with SSA) to compute the
	// sequence of events of the following kinds:
	//
	// 1  read of a parameter variable.
	// 2. reads from other memory.
	// 3. writes to memory

	var effects []int // indices of parameters, or rinf/winf (-ve)
	seen := make(map[int]bool)
	effect := func(i int) {
		if !seen[i] {
			seen[i] = true
			effects = append(effects, i)
		}
	}

	// unknown is called for statements of unknown effects (or control).
	unknown := func() {
		effect(winf)

		// Ensure that all remaining parameters are "seen"
		// after we go into the unknown (unless they are
		// unreferenced by the function body). This lets us
		// not bother implementing the complete traversal into
		// control structures.
		//
		// TODO(adonovan): add them in a deterministic order.
		// (This is not a bug but determinism is good.)
		for _, pinfo := range paramInfos {
			if !pinfo.IsResult && len(pinfo.Refs) > 0 {
				effect(pinfo.Index)
			}
		}
	}

	var visitExpr func(n ast.Expr)
	var visitStmt func(n ast.Stmt) bool
	visitExpr = func(n ast.Expr) {
		switch n := n.(type) {
		case *ast.Ident:
			if v, ok := info.Uses[n].(*types.Var); ok && !v.IsField() {
				// Use of global?
				if v.Parent() == v.Pkg().Scope() {
					effect(rinf) // read global var
				}

				// Use of parameter?
				if pinfo, ok := paramInfos[v]; ok && !pinfo.IsResult {
					effect(pinfo.Index) // read parameter var
				}

				// Use of local variables is ok.
			}

		case *ast.BasicLit:
			// no effect

		case *ast.FuncLit:
			// A func literal has no read or write effect
			// until called, and (most) function calls are
			// considered to have arbitrary effects.
			// So, no effect.

		case *ast.CompositeLit:
			for _, elt := range n.Elts {
				visitExpr(elt) // note: visits KeyValueExpr
			}

		case *ast.ParenExpr:
			visitExpr(n.X)

		case *ast.SelectorExpr:
			if seln, ok := info.Selections[n]; ok {
				visitExpr(n.X)

				// See types.SelectionKind for background.
				switch seln.Kind() {
				case types.MethodExpr:
					// A method expression T.f acts like a
					// reference to a func decl,
					// so it doesn't read x until called.

				case types.MethodVal, types.FieldVal:
					// A field or method value selection x.f
					// reads x if the selection indirects a pointer.

					if indirectSelection(seln) {
						effect(rinf)
					}
				}
			} else {
				// qualified identifier: treat like unqualified
				visitExpr(n.Sel)
			}

		case *ast.IndexExpr:
			if tv := info.Types[n.Index]; tv.IsType() {
				// no effect (G[T] instantiation)
			} else {
				visitExpr(n.X)
				visitExpr(n.Index)
				switch tv.Type.Underlying().(type) {
				case *types.Slice, *types.Pointer: // []T, *[n]T (not string, [n]T)
					effect(rinf) // indirect read of slice/array element
				}
			}

		case *ast.IndexListExpr:
			// no effect (M[K,V] instantiation)

		case *ast.SliceExpr:
			visitExpr(n.X)
			visitExpr(n.Low)
			visitExpr(n.High)
			visitExpr(n.Max)

		case *ast.TypeAssertExpr:
			visitExpr(n.X)

		case *ast.CallExpr:
			if info.Types[n.Fun].IsType() {
				// conversion T(x)
				visitExpr(n.Args[0])
			} else {
				// call f(args)
				visitExpr(n.Fun)
				for i, arg := range n.Args {
					if i == 0 && info.Types[arg].IsType() {
						continue // new(T), make(T, n)
					}
					visitExpr(arg)
				}

				// The pure built-ins have no effects beyond
				// those of their operands (not even memory reads).
				// All other calls have unknown effects.
				if !callsPureBuiltin(info, n) {
					unknown() // arbitrary effects
				}
			}

		case *ast.StarExpr:
			visitExpr(n.X)
			effect(rinf) // *ptr load or store depends on state of heap

		case *ast.UnaryExpr: // + - ! ^ & ~ <-
			visitExpr(n.X)
			if n.Op == token.ARROW {
				unknown() // effect: channel receive
			}

		case *ast.BinaryExpr:
			visitExpr(n.X)
			visitExpr(n.Y)

		case *ast.KeyValueExpr:
			visitExpr(n.Key) // may be a struct field
			visitExpr(n.Value)

		case *ast.BadExpr:
			// no effect

		case nil:
			// optional subtree

		default:
			// type syntax: unreachable given traversal
			panic(n)
		}
	}

	// visitStmt's result indicates the continuation:
	// false for return, true for the next statement.
	//
	// We could treat return as an unknown, but this way
	// yields definite effects for simple sequences like
	// {S1; S2; return}, so unreferenced parameters are
	// not spuriously added to the effects list, and thus
	// not spuriously disqualified from elimination.
	visitStmt = func(n ast.Stmt) bool {
		switch n := n.(type) {
		case *ast.DeclStmt:
			decl := n.Decl.(*ast.GenDecl)
			for _, spec := range decl.Specs {
				switch spec := spec.(type) {
				case *ast.ValueSpec:
					for _, v := range spec.Values {
						visitExpr(v)
					}

				case *ast.TypeSpec:
					// no effect
				}
			}

		case *ast.LabeledStmt:
			return visitStmt(n.Stmt)

		case *ast.ExprStmt:
			visitExpr(n.X)

		case *ast.SendStmt:
			visitExpr(n.Chan)
			visitExpr(n.Value)
			unknown() // effect: channel send

		case *ast.IncDecStmt:
			visitExpr(n.X)
			unknown() // effect: variable increment

		case *ast.AssignStmt:
			for _, lhs := range n.Lhs {
				visitExpr(lhs)
			}
			for _, rhs := range n.Rhs {
				visitExpr(rhs)
			}
			for _, lhs := range n.Lhs {
				id, _ := lhs.(*ast.Ident)
				if id != nil && id.Name == "_" {
					continue // blank assign has no effect
				}
				if n.Tok == token.DEFINE && id != nil && info.Defs[id] != nil {
					continue // new var declared by := has no effect
				}
				unknown() // assignment to existing var
				break
			}

		case *ast.GoStmt:
			visitExpr(n.Call.Fun)
			for _, arg := range n.Call.Args {
				visitExpr(arg)
			}
			unknown() // effect: create goroutine

		case *ast.DeferStmt:
			visitExpr(n.Call.Fun)
			for _, arg := range n.Call.Args {
				visitExpr(arg)
			}
			unknown() // effect: push defer

		case *ast.ReturnStmt:
			for _, res := range n.Results {
				visitExpr(res)
			}
			return false

		case *ast.BlockStmt:
			for _, stmt := range n.List {
				if !visitStmt(stmt) {
					return false
				}
			}

		case *ast.BranchStmt:
			unknown() // control flow

		case *ast.IfStmt:
			visitStmt(n.Init)
			visitExpr(n.Cond)
			unknown() // control flow

		case *ast.SwitchStmt:
			visitStmt(n.Init)
			visitExpr(n.Tag)
			unknown() // control flow

		case *ast.TypeSwitchStmt:
			visitStmt(n.Init)
			visitStmt(n.Assign)
			unknown() // control flow

		case *ast.SelectStmt:
			unknown() // control flow

		case *ast.ForStmt:
			visitStmt(n.Init)
			visitExpr(n.Cond)
			unknown() // control flow

		case *ast.RangeStmt:
			visitExpr(n.X)
			unknown() // control flow

		case *ast.EmptyStmt, *ast.BadStmt:
			// no effect

		case nil:
			// optional subtree

		default:
			panic(n)
		}
		return true
	}
	visitStmt(body)

	return effects
}
