// Copyright 2023 The Go Authors. All rights reserved.
// Use of this source code is governed by a BSD-style
// license that can be found in the LICENSE file.

package inline

// This file defines the callee side of the "fallible constant" analysis.

import (
	"fmt"
	"go/ast"
	"go/constant"
	"go/format"
	"go/token"
	"go/types"
	"strconv"
	"strings"

	"golang.org/x/tools/go/types/typeutil"
	"dialsverif/xinline/typeparams"
)

// falconResult is the result of the analysis of the callee.
type falconResult struct {
	Types       []falconType // types for falcon constraint environment
	Constraints []string     // constraints (Go expressions) on values of fallible constants
}

// A falconType specifies the name and underlying type of a synthetic
// defined type for use in falcon constraints.
//
// Unique types from callee code are bijectively mapped onto falcon
// types so that constraints are independent of callee type
// information but preserve type equivalence classes.
//
// Fresh names are deliberately obscure to avoid shadowing even if a
// callee parameter has a nanme like "int" or "any".
type falconType struct {
	Name string
	Kind types.BasicKind // string/number/bool
}

// falcon identifies "fallible constant" expressions, which are
// expressions that may fail to compile if one or more of their
// operands is changed from non-constant to constant.
//
// Consider:
//
//	func sub(s string, i, j int) string { return s[i:j] }
//
// If parameters are replaced by constants, the compiler is
// required to perform these additional checks:
//
//   - if i is constant, 0 <= i.
//   - if s and i are constant, i <= len(s).
//   - ditto for j.
//   - if i and j are constant, i <= j.
//
// s[i:j] is thus a "fallible constant" expression dependent on {s, i,
// j}. Each falcon creates a set of conditional constraints across one
// or more parameter variables.
//
//   - When inlining a call such as sub("abc", -1, 2), the parameter i
//     cannot be eliminated by substitution as its argument value is
//     negative.
//
//   - When inlining sub("", 2, 1), all three parameters cannot be
//     simultaneously eliminated by substitution without violating i
//     <= len(s) and j <= len(s), but the parameters i and j could be
//     safely eliminated without s.
//
// Parameters that cannot be eliminated must remain non-constant,
// either in the form of a binding declaration:
//
//	{ var i int = -1; return "abc"[i:2] }
//
// or a parameter of a literalization:
//
//	func (i int) string { return "abc"[i:2] }(-1)
//
// These example expressions are obviously doomed to fail at run
// time, but in realistic cases such expressions are dominated by
// appropriate conditions that make them reachable only when safe:
//
//	if 0 <= i && i <= j && j <= len(s) { _ = s[i:j] }
//
// (In principle a more sophisticated inliner could entirely eliminate
// such unreachable blocks based on the condition being always-false
// for the given parameter substitution, but this is tricky to do safely
// because the type-checker considers only a single configuration.
// Consider: if runtime.GOOS == "linux" { ... }.)
//
// We believe this is an exhaustive list of "fallible constant" operations:
//
//   - switch z { case x: case y } 	// duplicate case values
//   - s[i], s[i:j], s[i:j:k]		// index out of bounds (0 <= i <= j <= k <= len(s))
//   - T{x: 0}				// index out of bounds, duplicate index
//   - x/y, x%y, x/=y, x%=y		// integer division by zero; minint/-1 overflow
//   - x+y, x-y, x*y			// arithmetic overflow
//   - x<<y				// shift out of range
//   - -x				// negation of minint
//   - T(x)				// value out of range
//
// The fundamental reason for this elaborate algorithm is that the
// "separate analysis" of callee and caller, as required when running
// in an environment such as unitchecker, means that there is no way
// for us to simply invoke the type checker on the combination of
// caller and callee code, as by the time we analyze the caller, we no
// longer have access to type information for the callee (and, in
// particular, any of its direct dependencies that are not direct
// dependencies of the caller). So, in effect, we are forced to map
// the problem in a neutral (callee-type-independent) constraint
// system that can be verified later.
func falcon(logf func(string, ...any), fset *token.FileSet, params map[*types.Var]*paramInfo, info *types.Info, decl *ast.FuncDecl) falconResult {

	st := &falconState{
		logf:   logf,
		fset:   fset,
		params: params,
		info:   info,
		decl:   decl,
	}

	// type mapping
	st.int = st.typename(types.Typ[types.Int])
	st.any = "interface{}" // don't use "any" as it may be shadowed
	for obj, info := range st.params {
		if isBasic(obj.Type(), types.IsConstType) {
			info.FalconType = st.typename(obj.Type())
		}
	}

	st.stmt(st.decl.Body)

	return st.result
}

type falconState struct {
	// inputs
	logf   func(string, ...any)
	fset   *token.FileSet
	params map[*types.Var]*paramInfo
	info   *types.Info
	decl   *ast.FuncDecl

	// working state
	int       string
	any       string
	typenames typeutil.Map

	result falconResult
}

// typename returns the name in the falcon constraint system
// of a given string/number/bool type t. Falcon types are
// specified directly in go/types data structures rather than
// by name, avoiding potential shadowing conflicts with
// confusing parameter names such as "int".
//
// Also, each distinct type (as determined by types.Identical)
// is mapped to a fresh type in the falcon system so that we
// can map the types in the callee code into a neutral form
// that does not depend on imports, allowing us to detect
// potential conflicts such as
//
//	map[any]{T1(1): 0, T2(1): 0}
//
// where T1=T2.
func (st *falconState) typename(t types.Type) string {
	name, ok := st.typenames.At(t).(string)
	if !ok {
		basic := t.Underlying().(*types.Basic)

		// That dot ۰ is an Arabic zero numeral U+06F0.
		// It is very unlikely to appear in a real program.
		// TODO(adonovan): use a non-heuristic solution.
		name = fmt.Sprintf("%s۰%d", basic, st.typenames.Len())
		st.typenames.Set(t, name)
		st.logf("falcon: emit type %s %s // %q", name, basic, t)
		st.result.Types = append(st.result.Types, falconType{
			Name: name,
			Kind: basic.Kind(),
		})
	}
	return name
}

// -- constraint emission --

// emit emits a Go expression that must have a legal type.
// In effect, we let the go/types constant folding algorithm
// do most of the heavy lifting (though it may be hard to
// believe from the complexity of this algorithm!).
func (st *falconState) emit(constraint ast.Expr) {
	var out strings.Builder
	if err := format.Node(&out, st.fset, constraint); err != nil {
		panic(err) // can't happen
	}
	syntax := out.String()
	st.logf("falcon: emit constraint %s", syntax)
	st.result.Constraints = append(st.result.Constraints, syntax)
}

// emitNonNegative emits an []T{}[index] constraint,
// which ensures index is non-negative if constant.
func (st *falconState) emitNonNegative(index ast.Expr) {
	st.emit(&ast.IndexExpr{
		X: &ast.CompositeLit{
			Type: &ast.ArrayType{
				Elt: makeIdent(st.int),
			},
		},
		Index: index,
	})
}

// emitMonotonic emits an []T{}[i:j] constraint,
// which ensures i <= j if both are constant.
func (st *falconState) emitMonotonic(i, j ast.Expr) {
	st.emit(&ast.SliceExpr{
		X: &ast.CompositeLit{
			Type: &ast.ArrayType{
				Elt: makeIdent(st.int),
			},
		},
		Low:  i,
		High: j,
	})
}

// emitUnique emits a T{elem1: 0, ... elemN: 0} constraint,
// which ensures that all constant elems are unique.
// T may be a map, slice, or array depending
// on the desired check semantics.
func (st *falconState) emitUnique(typ ast.Expr, elems []ast.Expr) {
	if len(elems) > 1 {
		var elts []ast.Expr
		for _, elem := range elems {
			elts = append(elts, &ast.KeyValueExpr{
				Key:   elem,
				Value: makeIntLit(0),
			})
		}
		st.emit(&ast.CompositeLit{
			Type: typ,
			Elts: elts,
		})
	}
}

// -- traversal --

// The traversal functions scan the callee body for expressions that
// are not constant but would become constant if the parameter vars
// were redeclared as constants, and emits for each one a constraint
// (a Go expression) with the property that it will not type-check
// (using types.CheckExpr) if the particular argument values are
// unsuitable.
//
// These constraints are checked by Inline with the actual
// constant argument values. Violations cause it to reject
// parameters as candidates for substitution.

func (st *falconState) stmt(s ast.Stmt) {
	ast.Inspect(s, func(n ast.Node) bool {
		switch n := n.(type) {
		case ast.Expr:
			_ = st.expr(n)
			return false // skip usual traversal

		case *ast.AssignStmt:
			switch n.Tok {
			case token.QUO_ASSIGN, token.REM_ASSIGN:
				// x /= y
				// Possible "integer division by zero"
				// Emit constraint: 1/y.
				_ = st.expr(n.Lhs[0])
				kY := st.expr(n.Rhs[0])
				if kY, ok := kY.(ast.Expr); ok {
					op := token.QUO
					if n.Tok == token.REM_ASSIGN {
						op = token.REM
					}
					st.emit(&ast.BinaryExpr{
						Op: op,
						X:  makeIntLit(1),
						Y:  kY,
					})
				}
				return false // skip usual traversal
			}

		case *ast.SwitchStmt:
			if n.Init != nil {
				st.stmt(n.Init)
			}
			tBool := types.Type(types.Typ[types.Bool])
			tagType := tBool // default: true
			if n.Tag != nil {
				st.expr(n.Tag)
				tagType = st.info.TypeOf(n.Tag)
			}

			// Possible "duplicate case value".
			// Emit constraint map[T]int{v1: 0, ..., vN:0}
			// to ensure all maybe-constant case values are unique
			// (unless switch tag is boolean, which is relaxed).
			var unique []ast.Expr
			for _, clause := range n.Body.List {
				clause := clause.(*ast.CaseClause)
				for _, caseval := range clause.List {
					if k := st.expr(caseval); k != nil {
						unique = append(unique, st.toExpr(k))
					}
				}
				for _, stmt := range clause.Body {
					st.stmt(stmt)
				}
			}
			if unique != nil && !types.Identical(tagType.Underlying(), tBool) {
				tname := st.any
				if !types.IsInterface(tagType) {
					tname = st.typename(tagType)
				}
				t := &ast.MapType{
					Key:   makeIdent(tname),
					Value: makeIdent(st.int),
				}
				st.emitUnique(t, unique)
			}
		}
		return true
	})
}

// fieldTypes visits the .Type of each field in the list.
func (st *falconState) fieldTypes(fields *ast.FieldList) {
	if fields != nil {
		for _, field := range fields.List {
			_ = st.expr(field.Type)
		}
	}
}

// expr visits the expression (or type) and returns a
// non-nil result if the expression is constant or would
// become constant if all suitable function parameters were
// redeclared as constants.
//
// If the expression is constant, st.expr returns its type
// and value (types.TypeAndValue). If the expression would
// become constant, st.expr returns an ast.Expr tree whose
// leaves are literals and parameter references, and whose
// interior nodes are operations that may become constant,
// such as -x, x+y, f(x), and T(x). We call these would-be
// constant expressions "fallible constants", since they may
// fail to type-check for some values of x, i, and j. (We
// refer to the non-nil cases collectively as "maybe
// constant", and the nil case as "definitely non-constant".)
//
// As a side effect, st.expr emits constraints for each
// fallible constant expression; this is its main purpose.
//
// Consequently, st.expr must visit the entire subtree so
// that all necessary constraints are emitted. It may not
// short-circuit the traversal when it encounters a constant
// subexpression as constants may contain arbitrary other
// syntax that may impose constraints. Consider (as always)
// this contrived but legal example of a type parameter (!)
// that contains statement syntax:
//
//	func f[T [unsafe.Sizeof(func() { stmts })]int]()
//
// There is no need to emit constraints for (e.g.) s[i] when s
// and i are already constants, because we know the expression
// is sound, but it is sometimes easier to emit these
// redundant constraints than to avoid them.
func (st *falconState) expr(e ast.Expr) (res any) { // = types.TypeAndValue | ast.Expr
	tv := st.info.Types[e]
	if tv.Value != nil {
		// A constant value overrides any other result.
		defer func() { res = tv }()
	}

	switch e := e.(type) {
	case *ast.Ident:
		if v, ok := st.info.Uses[e].(*types.Var); ok {
			if _, ok := st.params[v]; ok && isBasic(v.Type(), types.IsConstType) {
				return e // reference to constable parameter
			}
		}
		// (References to *types.Const are handled by the defer.)

	case *ast.BasicLit:
		// constant

	case *ast.ParenExpr:
		return st.expr(e.X)

	case *ast.FuncLit:
		_ = st.expr(e.Type)
		st.stmt(e.Body)
		// definitely non-constant

	case *ast.CompositeLit:
		// T{k: v, ...}, where T ∈ {array,*array,slice,map},
		// imposes a constraint that all constant k are
		// distinct and, for arrays [n]T, within range 0-n.
		//
		// Types matter, not just values. For example,
		// an interface-keyed map may contain keys
		// that are numerically equal so long as they
		// are of distinct types. For example:
		//
		//   type myint int
		//   map[any]bool{1: true, 1:        true} // error: duplicate key
		//   map[any]bool{1: true, int16(1): true} // ok
		//   map[any]bool{1: true, myint(1): true} // ok
		//
		// This can be asserted by emitting a
		// constraint of the form T{k1: 0, ..., kN: 0}.
		if e.Type != nil {
			_ = st.expr(e.Type)
		}
		t := types.Unalias(typeparams.Deref(tv.Type))
		var uniques []ast.Expr
		for _, elt := range e.Elts {
			if kv, ok := elt.(*ast.KeyValueExpr); ok {
				if !is[*types.Struct](t) {
					if k := st.expr(kv.Key); k != nil {
						uniques = append(uniques, st.toExpr(k))
					}
				}
				_ = st.expr(kv.Value)
			} else {
				_ = st.expr(elt)
			}
		}
		if uniques != nil {
			// Inv: not a struct.

			// The type T in constraint T{...} depends on the CompLit:
			// - for a basic-keyed map, use map[K]int;
			// - for an interface-keyed map, use map[any]int;
			// - for a slice, use []int;
			// - for an array or *array, use [n]int.
			// The last two entail progressively stronger index checks.
			var ct ast.Expr // type syntax for constraint
			switch t := typeparams.CoreType(t).(type) {
			case *types.Map:
				if types.IsInterface(t.Key()) {
					ct = &ast.MapType{
						Key:   makeIdent(st.any),
						Value: makeIdent(st.int),
					}
				} else {
					ct = &ast.MapType{
						Key:   makeIdent(st.typename(t.Key())),
						Value: makeIdent(st.int),
					}
				}
			case *types.Array: // or *array
				ct = &ast.ArrayType{
					Len: makeIntLit(t.Len()),
					Elt: makeIdent(st.int),
				}
			default:
				panic(fmt.Sprintf("%T: %v", t, t))
			}
			st.emitUnique(ct, uniques)
		}
		// definitely non-constant

	case *ast.SelectorExpr:
		_ = st.expr(e.X)
		_ = st.expr(e.Sel)
		// The defer is sufficient to handle
		// qualified identifiers (pkg.Const).
		// All other cases are definitely non-constant.

	case *ast.IndexExpr:
		if tv.IsType() {
			// type C[T]
			_ = st.expr(e.X)
			_ = st.expr(e.Index)
		} else {
			// term x[i]
			//
			// Constraints (if x is slice/string/array/*array, not map):
			// - i >= 0
			//     if i is a fallible constant
			// - i < len(x)
			//     if x is array/*array and
			//     i is a fallible constant;
			//  or if s is a string and both i,
			//     s are maybe-constants,
			//     but not both are constants.
			kX := st.expr(e.X)
			kI := st.expr(e.Index)
			if kI != nil && !is[*types.Map](st.info.TypeOf(e.X).Underlying()) {
				if kI, ok := kI.(ast.Expr); ok {
					st.emitNonNegative(kI)
				}
				// Emit constraint to check indices against known length.
				// TODO(adonovan): factor with SliceExpr logic.
				var x ast.Expr
				if kX != nil {
					// string
					x = st.toExpr(kX)
				} else if arr, ok := typeparams.CoreType(typeparams.Deref(st.info.TypeOf(e.X))).(*types.Array); ok {
					// array, *array
					x = &ast.CompositeLit{
						Type: &ast.ArrayType{
							Len: makeIntLit(arr.Len()),
							Elt: makeIdent(st.int),
						},
					}
				}
				if x != nil {
					st.emit(&ast.IndexExpr{
						X:     x,
						Index: st.toExpr(kI),
					})
				}
			}
		}
		// definitely non-constant

	case *ast.SliceExpr:
		// x[low:high:max]
		//
		// Emit non-negative constraints for each index,
		// plus low <= high <= max <= len(x)
		// for each pair that are maybe-constant
		// but not definitely constant.

		kX := st.expr(e.X)
		var kLow, kHigh, kMax any
		if e.Low != nil {
			kLow = st.expr(e.Low)
			if kLow != nil {
				if kLow, ok := kLow.(ast.Expr); ok {
					st.emitNonNegative(kLow)
				}
			}
		}
		if e.High != nil {
			kHigh = st.expr(e.High)
			if kHigh != nil {
				if kHigh, ok := kHigh.(ast.Expr); ok {
					st.emitNonNegative(kHigh)
				}
				if kLow != nil {
					st.emitMonotonic(st.toExpr(kLow), st.toExpr(kHigh))
				}
			}
		}
		if e.Max != nil {
			kMax = st.expr(e.Max)
			if kMax != nil {
				if kMax, ok := kMax.(ast.Expr); ok {
					st.emitNonNegative(kMax)
				}
				if kHigh != nil {
					st.emitMonotonic(st.toExpr(kHigh), st.toExpr(kMax))
				}
			}
		}

		// Emit constraint to check indices against known length.
		var x ast.Expr
		if kX != nil {
			// string
			x = st.toExpr(kX)
		} else if arr, ok := typeparams.CoreType(typeparams.Deref(st.info.TypeOf(e.X))).(*types.Array); ok {
			// array, *array
			x = &ast.CompositeLit{
				Type: &ast.ArrayType{
					Len: makeIntLit(arr.Len()),
					Elt: makeIdent(st.int),
				},
			}
		}
		if x != nil {
			// Avoid slice[::max] if kHigh is nonconstant (nil).
			high, max := st.toExpr(kHigh), st.toExpr(kMax)
			if high == nil {
				high = max // => slice[:max:max]
			}
			st.emit(&ast.SliceExpr{
				X:    x,
				Low:  st.toExpr(kLow),
				High: high,
				Max:  max,
			})
		}
		// definitely non-constant

	case *ast.TypeAssertExpr:
		_ = st.expr(e.X)
		if e.Type != nil {
			_ = st.expr(e.Type)
		}

	case *ast.CallExpr:
		_ = st.expr(e.Fun)
		if tv, ok := st.info.Types[e.Fun]; ok && tv.IsType() {
			// conversion T(x)
			//
			// Possible "value out of range".
			kX := st.expr(e.Args[0])
			if kX != nil && isBasic(tv.Type, types.IsConstType) {
				conv := convert(makeIdent(st.typename(tv.Type)), st.toExpr(kX))
				if is[ast.Expr](kX) {
					st.emit(conv)
				}
				return conv
			}
			return nil // definitely non-constant
		}

		// call f(x)

		all := true // all args are possibly-constant
		kArgs := make([]ast.Expr, len(e.Args))
		for i, arg := range e.Args {
			if kArg := st.expr(arg); kArg != nil {
				kArgs[i] = st.toExpr(kArg)
			} else {
				all = false
			}
		}

		// Calls to built-ins with fallibly constant arguments
		// may become constant. All other calls are either
		// constant or non-constant
		if id, ok := e.Fun.(*ast.Ident); ok && all && tv.Value == nil {
			if builtin, ok := st.info.Uses[id].(*types.Builtin); ok {
				switch builtin.Name() {
				case "len", "imag", "real", "complex", "min", "max":
					return &ast.CallExpr{
						Fun:      id,
						Args:     kArgs,
						Ellipsis: e.Ellipsis,
					}
				}
			}
		}

	case *ast.StarExpr: // *T, *ptr
		_ = st.expr(e.X)

	case *ast.UnaryExpr:
		// + - ! ^ & <- ~
		//
		// Possible "negation of minint".
		// Emit constraint: -x
		kX := st.expr(e.X)
		if kX != nil && !is[types.TypeAndValue](kX) {
			if e.Op == token.SUB {
				st.emit(&ast.UnaryExpr{
					Op: e.Op,
					X:  st.toExpr(kX),
				})
			}

			return &ast.UnaryExpr{
				Op: e.Op,
				X:  st.toExpr(kX),
			}
		}

	case *ast.BinaryExpr:
		kX := st.expr(e.X)
		kY := st.expr(e.Y)
		switch e.Op {
		case token.QUO, token.REM:
			// x/y, x%y
			//
			// Possible "integer division by zero" or
			// "minint / -1" overflow.
			// Emit constraint: x/y or 1/y
			if kY != nil {
				if kX == nil {
					kX = makeIntLit(1)
				}
				st.emit(&ast.BinaryExpr{
					Op: e.Op,
					X:  st.toExpr(kX),
					Y:  st.toExpr(kY),
				})
			}

		case token.ADD, token.SUB, token.MUL:
			// x+y, x-y, x*y
			//
			// Possible "arithmetic overflow".
			// Emit constraint: x+y
			if kX != nil && kY != nil {
				st.emit(&ast.BinaryExpr{
					Op: e.Op,
					X:  st.toExpr(kX),
					Y:  st.toExpr(kY),
				})
			}

		case token.SHL, token.SHR:
			// x << y, x >> y
			//
			// Possible "constant shift too large".
			// Either operand may be too large individually,
			// and they may be too large together.
			// Emit constraint:
			//    x << y (if both maybe-constant)
			//    x << 0 (if y is non-constant)
			//    1 << y (if x is non-constant)
			if kX != nil || kY != nil {
				x := st.toExpr(kX)
				if x == nil {
					x = makeIntLit(1)
				}
				y := st.toExpr(kY)
				if y == nil {
					y = makeIntLit(0)
				}
				st.emit(&ast.BinaryExpr{
					Op: e.Op,
					X:  x,
					Y:  y,
				})
			}

		case token.LSS, token.GTR, token.EQL, token.NEQ, token.LEQ, token.GEQ:
			// < > == != <= <=
			//
			// A "x cmp y" expression with constant operands x, y is
			// itself constant, but I can't see how a constant bool
			// could be fallible: the compiler doesn't reject duplicate
			// boolean cases in a switch, presumably because boolean
			// switches are less like n-way branches and more like
			// sequential if-else chains with possibly overlapping
			// conditions; and there is (sadly) no way to convert a
			// boolean constant to an int constant.
		}
		if kX != nil && kY != nil {
			return &ast.BinaryExpr{
				Op: e.Op,
				X:  st.toExpr(kX),
				Y:  st.toExpr(kY),
			}
		}

	// types
	//
	// We need to visit types (and even type parameters)
	// in order to reach all the places where things could go wrong:
	//
	// 	const (
	// 		s = ""
	// 		i = 0
	// 	)
	// 	type C[T [unsafe.Sizeof(func() { _ = s[i] })]int] bool

	case *ast.IndexListExpr:
		_ = st.expr(e.X)
		for _, expr := range e.Indices {
			_ = st.expr(expr)
		}

	case *ast.Ellipsis:
		if e.Elt != nil {
			_ = st.expr(e.Elt)
		}

	case *ast.ArrayType:
		if e.Len != nil {
			_ = st.expr(e.Len)
		}
		_ = st.expr(e.Elt)

	case *ast.StructType:
		st.fieldTypes(e.Fields)

	case *ast.FuncType:
		st.fieldTypes(e.TypeParams)
		st.fieldTypes(e.Params)
		st.fieldTypes(e.Results)

	case *ast.InterfaceType:
		st.fieldTypes(e.Methods)

	case *ast.MapType:
		_ = st.expr(e.Key)
		_ = st.expr(e.Value)

	case *ast.ChanType:
		_ = st.expr(e.Value)
	}
	return
}

// toExpr converts the result of visitExpr to a falcon expression.
// (We don't do this in visitExpr as we first need to discriminate
// constants from maybe-constants.)
func (st *falconState) toExpr(x any) ast.Expr {
	switch x := x.(type) {
	case nil:
		return nil

	case types.TypeAndValue:
		lit := makeLiteral(x.Value)
		if !isBasic(x.Type, types.IsUntyped) {
			// convert to "typed" type
			lit = &ast.CallExpr{
				Fun:  makeIdent(st.typename(x.Type)),
				Args: []ast.Expr{lit},
			}
		}
		return lit

	case ast.Expr:
		return x

	default:
		panic(x)
	}
}

func makeLiteral(v constant.Value) ast.Expr {
	switch v.Kind() {
	case constant.Bool:
		// Rather than refer to the true or false built-ins,
		// which could be shadowed by poorly chosen parameter
		// names, we use 0 == 0 for true and 0 != 0 for false.
		op := token.EQL
		if !constant.BoolVal(v) {
			op = token.NEQ
		}
		return &ast.BinaryExpr{
			Op: op,
			X:  makeIntLit(0),
			Y:  makeIntLit(0),
		}

	case constant.String:
		return &ast.BasicLit{
			Kind:  token.STRING,
			Value: v.ExactString(),
		}

	case constant.Int:
		return &ast.BasicLit{
			Kind:  token.INT,
			Value: v.ExactString(),
		}

	case constant.Float:
		return &ast.BasicLit{
			Kind:  token.FLOAT,
			Value: v.ExactString(),
		}

	case constant.Complex:
		// The components could be float or int.
		y := makeLiteral(constant.Imag(v))
		y.(*ast.BasicLit).Value += "i" // ugh
		if re := constant.Real(v); !consteq(re, kZeroInt) {
			// complex: x + yi
			y = &ast.BinaryExpr{
				Op: token.ADD,
				X:  makeLiteral(re),
				Y:  y,
			}
		}
		return y

	default:
		panic(v.Kind())
	}
}

func makeIntLit(x int64) *ast.BasicLit {
	return &ast.BasicLit{
		Kind:  token.INT,
		Value: strconv.FormatInt(x, 10),
	}
}

func isBasic(t types.Type, info types.BasicInfo) bool {
	basic, ok := t.Underlying().(*types.Basic)
	return ok && basic.Info()&info != 0
}
