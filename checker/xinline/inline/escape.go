// Copyright 2023 The Go Authors. All rights reserved.
// Use of this source code is governed by a BSD-style
// license that can be found in the LICENSE file.

package inline

import (
	"fmt"
	"go/ast"
	"go/token"
	"go/types"
)

// escape implements a simple "address-taken" escape analysis. It
// calls f for each local variable that appears on the left side of an
// assignment (escapes=false) or has its address taken (escapes=true).
// The initialization of a variable by its declaration does not count
// as an assignment.
func escape(info *types.Info, root ast.Node, f func(v *types.Var, escapes bool)) {

	// lvalue is called for each address-taken expression or LHS of assignment.
	// Supported forms are: x, (x), x[i], x.f, *x, T{}.
	var lvalue func(e ast.Expr, escapes bool)
	lvalue = func(e ast.Expr, escapes bool) {
		switch e := e.(type) {
		case *ast.Ident:
			if v, ok := info.Uses[e].(*types.Var); ok {
				if !isPkgLevel(v) {
					f(v, escapes)
				}
			}
		case *ast.ParenExpr:
			lvalue(e.X, escapes)
		case *ast.IndexExpr:
			// TODO(adonovan): support generics without assuming e.X has a core type.
			// Consider:
			//
			// func Index[T interface{ [3]int | []int }](t T, i int) *int {
			//     return &t[i]
			// }
			//
			// We must traverse the normal terms and check
			// whether any of them is an array.
			//
			// We assume TypeOf returns non-nil.
			if _, ok := info.TypeOf(e.X).Underlying().(*types.Array); ok {
				lvalue(e.X, escapes) // &a[i] on array
			}
		case *ast.SelectorExpr:
			// We assume TypeOf returns non-nil.
			if _, ok := info.TypeOf(e.X).Underlying().(*types.Struct); ok {
				lvalue(e.X, escapes) // &s.f on struct
			}
		case *ast.StarExpr:
			// *ptr indirects an existing pointer
		case *ast.CompositeLit:
			// &T{...} creates a new variable
		default:
			panic(fmt.Sprintf("&x on %T", e)) // unreachable in well-typed code
		}
	}

	// Search function body for operations &x, x.f(), x++, and x = y
	// where x is a parameter. Each of these treats x as an address.
	ast.Inspect(root, func(n ast.Node) bool {
		switch n := n.(type) {
		case *ast.UnaryExpr:
			if n.Op == token.AND {
				lvalue(n.X, true) // &x
			}

		case *ast.CallExpr:
			// implicit &x in method call x.f(),
			// where x has type T and method is (*T).f
			if sel, ok := n.Fun.(*ast.SelectorExpr); ok {
				if seln, ok := info.Selections[sel]; ok &&
					seln.Kind() == types.MethodVal &&
					isPointer(seln.Obj().Type().Underlying().(*types.Signature).Recv().Type()) {
					tArg, indirect := effectiveReceiver(seln)
					if !indirect && !isPointer(tArg) {
						lvalue(sel.X, true) // &x.f
					}
				}
			}

		case *ast.AssignStmt:
			for _, lhs := range n.Lhs {
				if id, ok := lhs.(*ast.Ident); ok &&
					info.Defs[id] != nil &&
					n.Tok == token.DEFINE {
					// declaration: doesn't count
				} else {
					lvalue(lhs, false)
				}
			}

		case *ast.IncDecStmt:
			lvalue(n.X, false)
		}
		return true
	})
}
