// Copyright 2023 The Go Authors. All rights reserved.
// Use of this source code is governed by a BSD-style
// license that can be found in the LICENSE file.

package astutil

import (
	"go/ast"
	"reflect"
)

// CloneNode returns a deep copy of a Node.
// It omits pointers to ast.{Scope,Object} variables.
func CloneNode[T ast.Node](n T) T {
	return cloneNode(n).(T)
}

func cloneNode(n ast.Node) ast.Node {
	var clone func(x reflect.Value) reflect.Value
	set := func(dst, src reflect.Value) {
		src = clone(src)
		if src.IsValid() {
			dst.Set(src)
		}
	}
	clone = func(x reflect.Value) reflect.Value {
		switch x.Kind() {
		case reflect.Ptr:
			if x.IsNil() {
				return x
			}
			// Skip fields of types potentially involved in cycles.
			switch x.Interface().(type) {
			case *ast.Object, *ast.Scope:
				return reflect.Zero(x.Type())
			}
			y := reflect.New(x.Type().Elem())
			set(y.Elem(), x.Elem())
			return y

		case reflect.Struct:
			y := reflect.New(x.Type()).Elem()
			for i := 0; i < x.Type().NumField(); i++ {
				set(y.Field(i), x.Field(i))
			}
			return y

		case reflect.Slice:
			if x.IsNil() {
				return x
			}
			y := reflect.MakeSlice(x.Type(), x.Len(), x.Cap())
			for i := 0; i < x.Len(); i++ {
				set(y.Index(i), x.Index(i))
			}
			return y

		case reflect.Interface:
			y := reflect.New(x.Type()).Elem()
			set(y, x.Elem())
			return y

		case reflect.Array, reflect.Chan, reflect.Func, reflect.Map, reflect.UnsafePointer:
			panic(x) // unreachable in AST

		default:
			return x // bool, string, number
		}
	}
	return clone(reflect.ValueOf(n)).Interface().(ast.Node)
}
