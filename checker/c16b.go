package main

import (
	"go/token"
	"go/types"
	"sort"
	"strings"

	"golang.org/x/tools/go/ssa"
)

// idioms accepted for Set/Convert sites that are typed by construction rather
// than by a dominating test: function -> reason.
var c16TypeIdioms = map[string]string{
	"(transform.AnonymousFlattenMangler).unmangleStruct|set":          "promoted fields are matched by name against the embedded struct's own fields; Mangle emitted exactly those fields with their types and later manglers return values of the field type they were given",
	"(*transform.SingleTypeSubstitutionMangler[F, T]).subVal|set":     "structural recursion over the type: every return of subVal(t, v) is built from t (Convert(from) under t==from, Zero(t), New/MakeSlice/MakeMapWithSize(t)) so element values have the element type of the container made from t; the constructor rejects T not convertible to F",
	"(*transform.SingleTypeSubstitutionMangler[F, T]).subVal|convert": "structural recursion over the type: every return of subVal(t, v) is built from t (Convert(from) under t==from, Zero(t), New/MakeSlice/MakeMapWithSize(t)) so element values have the element type of the container made from t; the constructor rejects T not convertible to F",
	"(*sources/env.Source).Value|set":                                 "the chain ends with the string-casting mangler (C11/chain), so every field of the translated struct is *string and the value set is reflect.ValueOf(&string)",
	"transform.populateStruct#self":                                   "val is setVal.Elem() of the same reflect.New: assigning a struct to itself",
	"transform.populateStruct#parent":                                 "setVal = reflect.New(vt) with vt the pointee type of the pointerified (single-pointer) struct field originalVal",
	"(*transform.Transformer).maybeRecursivelyUnmangle#index":         "dominated by AssignableTo(unmangled.Type(), out.field.Type.Elem()) and the container was made from out.field.Type",
	"(*tagformat.TagCopyingMangler).Unmangle|convert":                 "struct-to-struct conversion under Kind()==Struct: the mangled type differs from sf.Type only in struct tags (Go allows conversion ignoring tags)",
	"(*tagformat.TagReformattingMangler).Unmangle|convert":            "struct-to-struct conversion under Kind()==Struct: the mangled type differs from sf.Type only in struct tags",
	"(*sources/pflag.Set).Value$|convert":                             "pflag registers one flag type per kind (C12/kind-table): the stored flag value is a pointer to the predeclared type of the field's own scalar kind, and conversion between types of one scalar kind is always defined",
	"parse.Map$1|convert":                                             "parse.String returns a pointer to the predeclared type of the same scalar kind as the requested key/value type (checkKindsSupported admits scalars only); conversion between same-kind scalar types is always defined, and m = MakeMap(mapType) with keyType/valType = mapType.Key()/Elem()",
}

func c16SetConvert(c *Ctx, kc *kindCtx) {
	w := c.W
	pkgs := map[string]bool{"transform": true, "parse": true, "tagformat": true, "sources/env": true}
	typeOf := func(v ssa.Value) (string, bool) { // canon of the reflect.Type expression a reflect.Value was built from
		call, ok := v.(*ssa.Call)
		if !ok {
			return "", false
		}
		switch calleeFullName(call) {
		case "reflect.New":
			return "ptr(" + canon(call.Call.Args[0]) + ")", true
		case "reflect.Zero", "reflect.MakeSlice", "reflect.MakeMap", "reflect.MakeMapWithSize":
			return canon(call.Call.Args[0]), true
		case "(reflect.Value).Convert":
			return canon(call.Call.Args[1]), true
		case "(reflect.Value).Elem":
			if t, ok := func() (string, bool) {
				inner, ok := call.Call.Args[0].(*ssa.Call)
				if ok && calleeFullName(inner) == "reflect.New" {
					return canon(inner.Call.Args[0]), true
				}
				return "", false
			}(); ok {
				return t, true
			}
		}
		return "", false
	}
	domTest := func(at ssa.Instruction, method string, x ssa.Value) bool {
		for _, ec := range condsDominating(at.Block()) {
			call, ok := ec.Cond.(*ssa.Call)
			if !ok || !ec.Val || calleeFullName(call) != "(reflect.Type)."+method {
				continue
			}
			// receiver is Type(x)
			if tc, ok := call.Call.Value.(*ssa.Call); ok && calleeFullName(tc) == "(reflect.Value).Type" && sameValue(tc.Call.Args[0], x) {
				return true
			}
		}
		return false
	}
	typeEqTest := func(at ssa.Instruction) bool {
		for _, ec := range condsDominating(at.Block()) {
			b, ok := ec.Cond.(*ssa.BinOp)
			if !ok {
				continue
			}
			if _, isT := b.X.Type().Underlying().(*types.Interface); isT && types.TypeString(b.X.Type(), nil) == "reflect.Type" {
				if (b.Op == token.EQL && ec.Val) || (b.Op == token.NEQ && !ec.Val) {
					return true
				}
			}
		}
		return false
	}
	for _, f := range w.Funcs {
		p := w.pkgOfFn(f)
		if p == nil {
			continue
		}
		rel := strings.TrimPrefix(strings.TrimPrefix(p.PkgPath, modPath), "/")
		if !pkgs[rel] {
			// the flag sources' visit callbacks (registration-time conversions are covered by C12/kind-table)
			if !((rel == "sources/flag" || rel == "sources/pflag") && strings.Contains(relName(f), ".Set).Value$")) {
				continue
			}
		}
		for _, i := range allInstrs(f) {
			ci, ok := i.(*ssa.Call)
			if !ok {
				continue
			}
			n := calleeFullName(ci)
			name := relName(f)
			if strings.Contains(name, ".Set).Value$") && n != "(reflect.Value).Convert" {
				continue
			}
			switch n {
			case "(reflect.Value).Set":
				c.analysed(name)
				dst, x := ci.Call.Args[0], ci.Call.Args[1]
				tx, okx := typeOf(x)
				td, okd := typeOf(dst)
				switch {
				case domTest(ci, "AssignableTo", x):
					c.ok("set-guard", name+"#set", ci.Pos(), "dominated by x.Type().AssignableTo(...)")
				case okx && okd && tx == td:
					c.ok("set-guard", name+"#set", ci.Pos(), "value and destination are built from the same reflect.Type expression %s", tx)
				case func() bool {
					cv, ok := x.(*ssa.Call)
					if !ok || calleeFullName(cv) != "(reflect.Value).Convert" {
						return false
					}
					tc, ok := cv.Call.Args[1].(*ssa.Call)
					return ok && calleeFullName(tc) == "(reflect.Value).Type" && sameValue(tc.Call.Args[0], dst)
				}():
					c.ok("set-guard", name+"#set", ci.Pos(), "value is Convert(dst.Type())")
				case x == dst || (okx && okd && strings.HasPrefix(td, tx)):
					c.ok("set-guard", name+"#set", ci.Pos(), "same construction")
				default:
					reason := c16SetIdiom(name, dst, x)
					if reason != "" {
						c.okTrivial("set-guard", name+"#set", ci.Pos(), "accepted idiom: %s", reason)
					} else {
						c.bad("set-guard", name+"#set", ci.Pos(), "reflect Set of %s into %s without an assignability test, a Convert to the destination type or a common constructor type", canon(x), canon(dst))
					}
				}
			case "reflect.Append", "(reflect.Value).SetMapIndex", "(reflect.Value).MapIndex":
				c.analysed(name)
				okAll := true
				vals := ci.Call.Args[1:]
				if n == "reflect.Append" {
					els, ok := sliceElems(ci.Call.Args[1], 0)
					vals = nil
					if ok {
						for _, e := range els {
							vals = append(vals, e.V)
						}
					}
				}
				for _, v := range vals {
					if cv, ok := v.(*ssa.Call); ok && calleeFullName(cv) == "(reflect.Value).Convert" {
						continue
					}
					if g, ok := v.(*ssa.UnOp); ok {
						if _, isG := g.X.(*ssa.Global); isG {
							continue // package-level constant value (struct{}{})
						}
					}
					// a local that was assigned a Convert result (newKey := x.Convert(keyType))
					if derivesAll(v, func(x ssa.Value) bool {
						cc, ok := x.(*ssa.Call)
						return ok && calleeFullName(cc) == "(reflect.Value).Convert"
					}, nil) {
						continue
					}
					okAll = false
				}
				if okAll && len(vals) > 0 {
					c.ok("set-guard", name+"#"+n[strings.LastIndex(n, ".")+1:], ci.Pos(), "every inserted value is Convert(...)ed to the container's element/key type (or a package constant)")
				} else if typeEqTest(ci) {
					c.ok("set-guard", name+"#"+n[strings.LastIndex(n, ".")+1:], ci.Pos(), "dominated by a reflect.Type equality test of element and key types")
				} else if r, ok := c16TypeIdioms[name+"|set"]; ok {
					c.okTrivial("set-guard", name+"#"+n[strings.LastIndex(n, ".")+1:], ci.Pos(), "accepted idiom: %s", r)
				} else {
					c.bad("set-guard", name+"#"+n[strings.LastIndex(n, ".")+1:], ci.Pos(), "values inserted into a reflect container without conversion to / a test against its element type")
				}
			case "(reflect.Value).Convert":
				c.analysed(name)
				x := ci.Call.Args[0]
				switch {
				case domTest(ci, "ConvertibleTo", x):
					c.ok("convert-guard", name+"#convert", ci.Pos(), "dominated by x.Type().ConvertibleTo(...)")
				default:
					r, ok := c16TypeIdioms[name+"|convert"]
					if !ok && strings.HasPrefix(name, "(*sources/pflag.Set).Value$") {
						r, ok = c16TypeIdioms["(*sources/pflag.Set).Value$|convert"], true
					}
					if ok {
						// the struct idiom needs its Kind()==Struct test
						if strings.Contains(r, "Kind()==Struct") {
							ks := kc.kindsOf(x, ci.Block(), 0)
							if !kindsSubset(ks, kStruct) {
								c.bad("convert-guard", name+"#convert", ci.Pos(), "tag-only struct conversion not under a Kind()==Struct test")
								continue
							}
						}
						c.okTrivial("convert-guard", name+"#convert", ci.Pos(), "accepted idiom: %s", r)
					} else {
						c.bad("convert-guard", name+"#convert", ci.Pos(), "reflect Convert of %s without a dominating ConvertibleTo test", canon(x))
					}
				}
			}
		}
	}
	// the substitution mangler's constructor rejects non-convertible pairs
	ctor := w.fn("transform", "NewSingleTypeSubstitutionMangler")
	if c.need(ctor != nil, "transform.NewSingleTypeSubstitutionMangler") {
		okC := false
		for _, r := range returnsOf(ctor) {
			rv := retVals(r)
			if isNilConst(rv[0]) && !isNilConst(rv[1]) {
				for _, ec := range condsDominating(r.Block()) {
					if call, ok := ec.Cond.(*ssa.Call); ok && !ec.Val && calleeFullName(call) == "(reflect.Type).ConvertibleTo" {
						okC = true
					}
				}
			}
		}
		c.check(okC, "convert-guard", relName(ctor), ctor.Pos(), "the constructor returns an error unless to.ConvertibleTo(from)", "the substitution mangler's constructor does not reject non-convertible type pairs")
	}
}

func c16SetIdiom(name string, dst, x ssa.Value) string {
	if name == "transform.populateStruct" {
		// setVal.Elem().Set(val) with val == setVal.Elem()
		if dc, ok := dst.(*ssa.Call); ok && calleeFullName(dc) == "(reflect.Value).Elem" {
			if xc, ok := x.(*ssa.Call); ok && calleeFullName(xc) == "(reflect.Value).Elem" && xc.Call.Args[0] == dc.Call.Args[0] {
				return c16TypeIdioms["transform.populateStruct#self"]
			}
		}
		if xc, ok := x.(*ssa.Call); ok && calleeFullName(xc) == "reflect.New" {
			if _, isP := dst.(*ssa.Parameter); isP {
				return c16TypeIdioms["transform.populateStruct#parent"]
			}
		}
		return ""
	}
	if name == "(*transform.Transformer).maybeRecursivelyUnmangle" {
		return ""
	}
	return c16TypeIdioms[name+"|set"]
}

// ---- index provenance ---------------------------------------------------------------------

type boundCtx struct {
	w  *World
	cg *callGraph
}

// isRangeKeyOf: v is the key of a range loop over s (string iteration or slice
// index loop bounded by len(s)).
func isRangeKeyOf(v, s ssa.Value) bool {
	switch x := v.(type) {
	case *ssa.Extract:
		// range over string: t = next iter; extract #1 is the key (ok, key, value)
		if nx, ok := x.Tuple.(*ssa.Next); ok && nx.IsString && x.Index == 1 {
			if rg, ok := nx.Iter.(*ssa.Range); ok {
				return sameValue(rg.X, s)
			}
		}
	case *ssa.BinOp:
		if isForwardRangeIndex(x) {
			for _, r := range *x.Referrers() {
				if b, ok := r.(*ssa.BinOp); ok && b.Op == token.LSS && b.X == ssa.Value(x) {
					if call, ok := b.Y.(*ssa.Call); ok && calleeFullName(call) == "builtin.len" && sameValue(call.Call.Args[0], s) {
						return true
					}
				}
			}
		}
	case *ssa.Phi:
		if isForwardRangeIndex(x) {
			for _, r := range *x.Referrers() {
				if b, ok := r.(*ssa.BinOp); ok && b.Op == token.LSS && b.X == ssa.Value(x) {
					if call, ok := b.Y.(*ssa.Call); ok && calleeFullName(call) == "builtin.len" && sameValue(call.Call.Args[0], s) {
						return true
					}
					// i < NumField etc. are not string bounds
				}
			}
		}
	}
	return false
}

// leLen proves 0 <= v <= len(s) (strict: v < len(s)) at instruction `at`.
func (bc *boundCtx) leLen(v, s ssa.Value, strict bool, at ssa.Instruction, depth int, seen map[ssa.Value]bool) bool {
	if depth > 6 || v == nil {
		return false
	}
	if seen[v] {
		return true
	}
	seen[v] = true
	defer delete(seen, v)
	if n, ok := constInt(v); ok {
		if n == 0 && !strict {
			return true
		}
		// constant guarded by a length test
		if n >= 0 {
			for _, ec := range condsDominating(at.Block()) {
				if b, ok := ec.Cond.(*ssa.BinOp); ok {
					if call, ok := b.X.(*ssa.Call); ok && calleeFullName(call) == "builtin.len" && sameValue(call.Call.Args[0], s) {
						if m, ok := constInt(b.Y); ok {
							switch {
							case b.Op == token.EQL && !ec.Val && m == 0 && (n == 0 || (n == 1 && !strict)): // len != 0
								return true
							case b.Op == token.NEQ && ec.Val && m == 0 && (n == 0 || (n == 1 && !strict)): // len != 0, spelled so
								return true
							case b.Op == token.GTR && ec.Val && (m >= n || (!strict && m+1 >= n)): // len > m, i.e. len >= m+1
								return true
							case b.Op == token.LEQ && !ec.Val && (m >= n || (!strict && m+1 >= n)): // !(len <= m)
								return true
							case b.Op == token.GEQ && ec.Val && (m > n || (!strict && m >= n)): // len >= m
								return true
							case b.Op == token.LSS && !ec.Val && (m > n || (!strict && m >= n)): // !(len < m)
								return true
							case b.Op == token.EQL && ec.Val && (m > n || (!strict && m >= n)):
								return true
							}
						}
					}
				}
			}
		}
		return false
	}
	if isRangeKeyOf(v, s) {
		return true // 0 <= key < len(s)
	}
	if isSortLessIndex(v, s) {
		return true // sort.Slice(x, less) calls less with 0 <= i, j < len(x)
	}
	// s = make([]T, len(s2)) and v is a range key of s2
	if mk, ok := s.(*ssa.MakeSlice); ok {
		if call, ok := mk.Len.(*ssa.Call); ok && calleeFullName(call) == "builtin.len" && isRangeKeyOf(v, call.Call.Args[0]) {
			return true
		}
	}
	// dominating comparison with len(s)
	for _, ec := range condsDominating(at.Block()) {
		b, ok := ec.Cond.(*ssa.BinOp)
		if !ok {
			continue
		}
		isLen := func(y ssa.Value) bool {
			call, ok := y.(*ssa.Call)
			return ok && calleeFullName(call) == "builtin.len" && sameValue(call.Call.Args[0], s)
		}
		if sameValue(b.X, v) && isLen(b.Y) {
			switch {
			case b.Op == token.LSS && ec.Val, b.Op == token.GEQ && !ec.Val:
				return true
			case (b.Op == token.LEQ && ec.Val || b.Op == token.GTR && !ec.Val) && !strict:
				return true
			}
		}
		if isLen(b.X) && sameValue(b.Y, v) {
			switch {
			case b.Op == token.GTR && ec.Val, b.Op == token.LEQ && !ec.Val:
				return true
			case (b.Op == token.GEQ && ec.Val || b.Op == token.LSS && !ec.Val) && !strict:
				return true
			}
		}
	}
	switch x := v.(type) {
	case *ssa.BinOp:
		if x.Op == token.ADD && !strict {
			// key + 1, key + width-of-rune-at-key
			if isRangeKeyOf(x.X, s) {
				if n, ok := constInt(x.Y); ok && n == 1 {
					return true
				}
				if call, ok := x.Y.(*ssa.Call); ok && calleeFullName(call) == "unicode/utf8.RuneLen" {
					// under the test that the rune at key equals that rune
					for _, ec := range condsDominating(x.Block()) {
						if b, ok := ec.Cond.(*ssa.BinOp); ok && b.Op == token.EQL && ec.Val && (sameValue(b.Y, call.Call.Args[0]) || sameValue(b.X, call.Call.Args[0])) {
							return true
						}
					}
				}
				// key + width returned by DecodeRuneInString(s[key:]) is handled through comparisons
			}
		}
	case *ssa.Phi:
		for _, e := range x.Edges {
			if !bc.leLen(e, s, strict, at, depth+1, seen) {
				return false
			}
		}
		return len(x.Edges) > 0
	case *ssa.Call:
		// len(x) where x is a prefix of s (strings.HasPrefix(s, x) dominates, or x comes from a prefix collector applied to s)
		if calleeFullName(x) == "builtin.len" && !strict && isPrefixOf(x.Call.Args[0], s, at) {
			return true
		}
		// len(t) under len(s) >= len(t)
		if calleeFullName(x) == "builtin.len" && !strict {
			for _, ec := range condsDominating(at.Block()) {
				if b, ok := ec.Cond.(*ssa.BinOp); ok && b.Op == token.GEQ && ec.Val {
					if l, ok := b.X.(*ssa.Call); ok && calleeFullName(l) == "builtin.len" && sameValue(l.Call.Args[0], s) && sameValue(b.Y, v) {
						return true
					}
				}
			}
		}
	case *ssa.Parameter:
		// every static call site passes (s', v') with the same property
		f := x.Parent()
		sp, okS := s.(*ssa.Parameter)
		if f == nil || !okS || sp.Parent() != f || isAPI(f) {
			return false
		}
		vi, si := -1, -1
		for i, p := range f.Params {
			if p == x {
				vi = i
			}
			if p == sp {
				si = i
			}
		}
		n := 0
		for _, e := range bc.cg.in[origin(f)] {
			if e.Site == nil {
				continue
			}
			n++
			args := e.Site.Common().Args
			if !bc.leLen(args[vi], args[si], strict, e.Site.(ssa.Instruction), depth+1, map[ssa.Value]bool{}) {
				return false
			}
		}
		return n > 0
	}
	return false
}

func c16Index(c *Ctx) {
	w := c.W
	bc := &boundCtx{w: w, cg: w.callGraph()}
	for _, rel := range []string{"parse", "tagformat/caseconversion"} {
		for _, f := range w.funcsIn(rel) {
			for _, i := range allInstrs(f) {
				name := relName(f)
				switch x := i.(type) {
				case *ssa.Slice:
					if x.Low == nil && x.High == nil {
						continue
					}
					if _, isArr := x.X.Type().Underlying().(*types.Pointer); isArr {
						continue // slicing a local array (varargs)
					}
					c.analysed(name)
					okI := true
					if x.High != nil && !bc.leLen(x.High, x.X, false, x, 0, map[ssa.Value]bool{}) {
						okI = false
					}
					if x.Low != nil && !bc.leLen(x.Low, x.X, false, x, 0, map[ssa.Value]bool{}) {
						okI = false
					}
					if x.Low != nil && x.High != nil && okI {
						// low <= high: a dominating low < high test, or low is 0
						le := false
						if n, ok := constInt(x.Low); ok && n == 0 {
							le = true
						}
						for _, ec := range condsDominating(x.Block()) {
							b, ok := ec.Cond.(*ssa.BinOp)
							if !ok {
								continue
							}
							switch {
							case ec.Val && (b.Op == token.LSS || b.Op == token.LEQ) && sameValue(b.X, x.Low) && sameValue(b.Y, x.High):
								le = true
							case ec.Val && (b.Op == token.GTR || b.Op == token.GEQ) && sameValue(b.X, x.High) && sameValue(b.Y, x.Low):
								le = true // high > low
							case !ec.Val && (b.Op == token.GTR || b.Op == token.GEQ) && b.Op == token.GTR && sameValue(b.X, x.Low) && sameValue(b.Y, x.High):
								le = true // !(low > high)
							case !ec.Val && b.Op == token.LSS && sameValue(b.X, x.High) && sameValue(b.Y, x.Low):
								le = true // !(high < low)
							}
						}
						okI = le
					}
					lo, hi := "", ""
					if x.Low != nil {
						lo = canon(x.Low)
					}
					if x.High != nil {
						hi = canon(x.High)
					}
					c.check(okI, "index-provenance", name+"#slice", x.Pos(), "slice bounds ["+lo+":"+hi+"] are range keys / compared with len / constants under a length test", "slice expression ["+lo+":"+hi+"] of "+canon(x.X)+" has bounds of unproven provenance (possible out-of-range panic)")
				case *ssa.IndexAddr:
					if _, isArr := x.X.Type().Underlying().(*types.Pointer); isArr {
						continue
					}
					c.analysed(name)
					c.check(bc.leLen(x.Index, x.X, true, x, 0, map[ssa.Value]bool{}), "index-provenance", name+"#index", x.Pos(), "index "+canon(x.Index)+" is a range key / compared with len", "index "+canon(x.Index)+" of "+canon(x.X)+" is not provably in range")
				case *ssa.Index:
					c.analysed(name)
					c.check(bc.leLen(x.Index, x.X, true, x, 0, map[ssa.Value]bool{}), "index-provenance", name+"#index", x.Pos(), "index "+canon(x.Index)+" is a range key / compared with len", "index "+canon(x.Index)+" of "+canon(x.X)+" is not provably in range")
				}
			}
		}
	}
}

// ---- loops ---------------------------------------------------------------------------------

func c16Loops(c *Ctx) {
	w := c.W
	for _, rel := range []string{"parse", "tagformat/caseconversion", "transform", "helper", "ptrify"} {
		for _, f := range w.funcsIn(rel) {
			for _, h := range f.Blocks {
				var back []*ssa.BasicBlock
				for _, p := range h.Preds {
					if h.Dominates(p) {
						back = append(back, p)
					}
				}
				if len(back) == 0 {
					continue
				}
				if strings.HasPrefix(h.Comment, "rangeindex") || strings.HasPrefix(h.Comment, "rangeiter") || strings.HasPrefix(h.Comment, "rangeint") {
					continue // range loops terminate by construction
				}
				c.analysed(relName(f))
				why := c16LoopProgress(w, f, h)
				pos := token.NoPos
				for _, i := range h.Instrs {
					if i.Pos().IsValid() {
						pos = i.Pos()
						break
					}
				}
				if !pos.IsValid() {
					for _, p := range back {
						for _, i := range p.Instrs {
							if i.Pos().IsValid() {
								pos = i.Pos()
							}
						}
					}
				}
				c.check(why != "", "loop-progress", relName(f)+"#loop", pos, why, "a non-range loop without a recognised progress argument (counted index, scanner advance, Elem descent, map iterator, shrinking string, channel drain)")
			}
		}
	}
}

func inLoopBody(h, b *ssa.BasicBlock) bool {
	// b is in the natural loop of header h: h dominates b and b reaches h
	if !(h == b || h.Dominates(b)) {
		return false
	}
	seen := map[*ssa.BasicBlock]bool{}
	work := []*ssa.BasicBlock{b}
	for len(work) > 0 {
		x := work[len(work)-1]
		work = work[:len(work)-1]
		if x == h {
			return true
		}
		if seen[x] {
			continue
		}
		seen[x] = true
		for _, s := range x.Succs {
			if h.Dominates(s) || s == h {
				work = append(work, s)
			}
		}
	}
	return false
}

func c16LoopProgress(w *World, f *ssa.Function, h *ssa.BasicBlock) string {
	// phis of the header
	for _, i := range h.Instrs {
		p, ok := i.(*ssa.Phi)
		if !ok {
			break
		}
		for ei, e := range p.Edges {
			if !h.Dominates(h.Preds[ei]) {
				continue
			}
			// A. counted
			if b, ok := e.(*ssa.BinOp); ok && (b.Op == token.ADD || b.Op == token.SUB) && b.X == ssa.Value(p) {
				if n, ok := constInt(b.Y); ok && n > 0 {
					// the loop condition compares the counter
					for _, r := range *p.Referrers() {
						if cmp, ok := r.(*ssa.BinOp); ok && (cmp.Op == token.LSS || cmp.Op == token.GEQ || cmp.Op == token.GTR || cmp.Op == token.LEQ) {
							return "counted loop: " + canon(p) + " changes by " + b.Op.String() + itoa(int(n)) + " every iteration and is compared in the loop condition"
						}
					}
				}
			}
			if call, ok := e.(*ssa.Call); ok {
				switch calleeFullName(call) {
				case "(*text/scanner.Scanner).Scan":
					// at the end of the text Scan keeps answering EOF without consuming anything: the EOF token must
					// take every path out of the loop
					if !scannerLoopExitsOnEOF(f, h, p) {
						return ""
					}
					return "scanner loop: every iteration consumes a token with Scanner.Scan, and the EOF token leaves the loop on every path"
				case "(reflect.Type).Elem", "(reflect.Value).Elem":
					if callArgs(call)[0] == ssa.Value(p) {
						return "descent loop: " + canon(p) + " is replaced by its Elem() every iteration (types and values are finite)"
					}
				}
			}
			// kind variable re-read from a descending type: k = t.Kind() where t is a descent phi in the same header
			if call, ok := e.(*ssa.Call); ok && strings.HasSuffix(calleeFullName(call), ".Kind") {
				if t, ok := callArgs(call)[0].(*ssa.Call); ok && (calleeFullName(t) == "(reflect.Type).Elem" || calleeFullName(t) == "(reflect.Value).Elem") {
					return "descent loop: the kind is re-read from t.Elem() every iteration"
				}
			}
		}
	}
	// B. map iterator / select drain / shrinking string in the body
	for _, b := range f.Blocks {
		if !inLoopBody(h, b) {
			continue
		}
		for _, i := range b.Instrs {
			ci, ok := i.(*ssa.Call)
			if !ok {
				continue
			}
			switch calleeFullName(ci) {
			case "(*reflect.MapIter).Next":
				return "map iterator loop: MapIter.Next advances over a finite map"
			case "reflect.Select":
				return "channel drain: each iteration receives one buffered element with a default case and exits when none is left (the channel has no other sender by contract)"
			}
		}
	}
	// C. shrinking string over non-empty constants (extractInitialisms)
	for _, i := range h.Instrs {
		p, ok := i.(*ssa.Phi)
		if !ok {
			break
		}
		if b, ok := p.Type().Underlying().(*types.Basic); !ok || b.Kind() != types.String {
			continue
		}
		if w2 := c16ShrinkingString(w, f, h, p); w2 != "" {
			return w2
		}
	}
	return ""
}

// c16ShrinkingString: the string phi s only changes to s[len(x):] with x an
// element of a package-level slice of non-empty string constants, and the loop
// exits when no element matched in a pass.
func c16ShrinkingString(w *World, f *ssa.Function, h *ssa.BasicBlock, p *ssa.Phi) string {
	var table *ssa.Global
	okShape := false
	seen := map[ssa.Value]bool{}
	var walk func(v ssa.Value) bool
	walk = func(v ssa.Value) bool {
		if v == ssa.Value(p) || seen[v] {
			return true
		}
		seen[v] = true
		switch x := v.(type) {
		case *ssa.Phi:
			for _, e := range x.Edges {
				if !walk(e) {
					return false
				}
			}
			return true
		case *ssa.Slice:
			// s[len(elem):]
			if x.High != nil || x.Low == nil {
				return false
			}
			call, ok := x.Low.(*ssa.Call)
			if !ok || calleeFullName(call) != "builtin.len" {
				return false
			}
			// elem: element of a package-level table, directly or through a prefix collector
			po := prefixOriginOf(call.Call.Args[0])
			if po == nil {
				return false
			}
			table = po.Table
			okShape = true
			return walk(x.X)
		}
		return false
	}
	for ei, e := range p.Edges {
		if h.Dominates(h.Preds[ei]) && !walk(e) {
			return ""
		}
	}
	if !okShape || table == nil {
		return ""
	}
	// all elements of the table are non-empty constants
	consts := w.tableConstants(table)
	n := len(consts)
	for _, s := range consts {
		if s == "" {
			return ""
		}
	}
	if n == 0 {
		return ""
	}
	// exit when a pass finds nothing: the loop has an exit edge guarded by a boolean that is set only where the string shrinks
	return "shrinking string: " + canon(p) + " only changes to s[len(x):] with x one of the " + itoa(n) + " non-empty constants of " + table.Name() + "; a pass that matches nothing leaves the loop"
}

// isSortLessIndex: v is a parameter of a comparator closure whose only use is
// as the less argument of sort.Slice / sort.SliceStable applied to the very
// slice variable that s loads (the closure's captured variable).
func isSortLessIndex(v, s ssa.Value) bool {
	p, ok := v.(*ssa.Parameter)
	if !ok || p.Parent() == nil || p.Parent().Parent() == nil {
		return false
	}
	less := p.Parent()
	ld, ok := s.(*ssa.UnOp)
	if !ok || ld.Op != token.MUL {
		return false
	}
	fv, ok := ld.X.(*ssa.FreeVar)
	if !ok {
		return false
	}
	fvi := -1
	for i, x := range less.FreeVars {
		if x == fv {
			fvi = i
		}
	}
	if fvi < 0 || storesThroughFreeVars(less) {
		return false
	}
	n := 0
	for _, i := range allInstrs(less.Parent()) {
		mc, ok := i.(*ssa.MakeClosure)
		if !ok || mc.Fn != ssa.Value(less) {
			continue
		}
		for _, r := range *mc.Referrers() {
			call, ok := r.(*ssa.Call)
			if !ok {
				return false
			}
			name := calleeFullName(call)
			if (name != "sort.Slice" && name != "sort.SliceStable") || call.Call.Args[1] != ssa.Value(mc) {
				return false
			}
			mi, ok := call.Call.Args[0].(*ssa.MakeInterface)
			if !ok {
				return false
			}
			sl, ok := mi.X.(*ssa.UnOp)
			if !ok || sl.Op != token.MUL || sl.X != mc.Bindings[fvi] {
				return false
			}
			// the slice variable is not reassigned between its load and the sort call
			if sl.Block() != call.Block() {
				return false
			}
			n++
		}
	}
	return n > 0
}

// c16MapResultsMade: the parse functions that hand a map to the flag helpers
// (which then assign into it on the next Set) return, with a nil error, only
// maps created with make / reflect.MakeMap*: a nil map would make the next
// assignment panic ("assignment to entry in nil map").
func c16MapResultsMade(c *Ctx) {
	w := c.W
	n := 0
	for _, f := range w.funcsIn("parse") {
		if f.Parent() != nil || f.Signature.Results().Len() != 2 || len(f.Blocks) == 0 {
			continue
		}
		rt := f.Signature.Results().At(0).Type()
		_, isMap := rt.Underlying().(*types.Map)
		isRV := types.TypeString(rt, nil) == "reflect.Value" && strings.Contains(strings.ToLower(f.Name()), "map")
		if !isMap && !isRV {
			continue
		}
		n++
		c.analysed(relName(f))
		okAll := true
		var badPos token.Pos
		for _, r := range returnsOf(f) {
			rv := retVals(r)
			if !isNilConst(rv[1]) {
				continue
			}
			made := derivesAll(resolveLocalField(rv[0]), func(x ssa.Value) bool {
				switch y := x.(type) {
				case *ssa.MakeMap:
					return true
				case *ssa.Call:
					return strings.HasPrefix(calleeFullName(y), "reflect.MakeMap")
				}
				return false
			}, nil)
			if !made {
				okAll = false
				badPos = r.Pos()
			}
		}
		if !badPos.IsValid() {
			badPos = f.Pos()
		}
		c.check(okAll, "map-results-made", relName(f), badPos, "every successful return is a make-built map", "a successful return hands back a map that is not make-built (nil for some input): the flag helpers assign into the parsed map on the next Set and would panic with 'assignment to entry in nil map'")
	}
	if n == 0 {
		c.bad("map-results-made", "parse", 0, "no map-returning parse function found")
	}
}

// c16ValidOnSuccess: a parse function returning (reflect.Value, error) never
// returns the zero reflect.Value together with a nil error: callers call
// Type()/Elem()/Interface() on the result, which panics on the zero Value. A
// zero Value flowing into a successful return (a switch arm that boxes nothing)
// is accepted only if its path is infeasible for every reflect.Kind.
func c16ValidOnSuccess(c *Ctx) {
	w := c.W
	n := 0
	for _, f := range w.funcsIn("parse") {
		if f.Parent() != nil || len(f.Blocks) == 0 || f.Signature.Results().Len() != 2 || types.TypeString(f.Signature.Results().At(0).Type(), nil) != "reflect.Value" {
			continue
		}
		n++
		c.analysed(relName(f))
		isZeroVal := func(v ssa.Value) bool {
			cst, ok := v.(*ssa.Const)
			return ok && cst.Value == nil && types.TypeString(cst.Type(), nil) == "reflect.Value"
		}
		pb := &predBuilder{}
		bad := ""
		var badPos token.Pos
		checkEdge := func(p, b *ssa.BasicBlock, pos token.Pos) {
			var g formula
			if b == nil {
				g = pb.pathCond(f.Blocks[0], p)
			} else {
				g = pb.pathCondEdge(f.Blocks[0], p, b)
			}
			fb, fi := map[string]bool{}, map[string]bool{}
			atomsOf(g, fb, fi)
			doms := map[string][]int64{}
			for a := range fi {
				if strings.Contains(a, ".Kind(") {
					doms[a] = allKinds
					// an unexported function only sees the kinds its call sites let through
					for _, prm := range f.Params {
						if a == "(reflect.Type).Kind("+prm.Name()+")" && !isAPI(f) {
							if ks := callSiteTypeKinds(w, f, prm); ks != nil {
								doms[a] = ks
							}
						}
					}
				}
			}
			_, counter := forAll(g, doms, func(e env, fv bool) bool { return !fv })
			if counter != "" {
				bad = counter
				badPos = pos
			}
		}
		for _, r := range returnsOf(f) {
			rv := retVals(r)
			if !isNilConst(rv[1]) {
				continue
			}
			if isZeroVal(rv[0]) {
				checkEdge(r.Block(), nil, r.Pos())
				continue
			}
			seen := map[*ssa.Phi]bool{}
			var walk func(ph *ssa.Phi)
			walk = func(ph *ssa.Phi) {
				if seen[ph] {
					return
				}
				seen[ph] = true
				for ei, e := range ph.Edges {
					if isZeroVal(e) {
						checkEdge(ph.Block().Preds[ei], ph.Block(), r.Pos())
					} else if inner, ok := e.(*ssa.Phi); ok {
						walk(inner)
					}
				}
			}
			if ph, ok := rv[0].(*ssa.Phi); ok {
				walk(ph)
			}
		}
		if !badPos.IsValid() {
			badPos = f.Pos()
		}
		c.check(bad == "", "valid-on-success", relName(f), badPos, "no zero reflect.Value can be returned with a nil error (for every reflect.Kind)", "the zero reflect.Value is returned together with a nil error (callers call Type/Elem/Interface on it and panic): "+bad)
	}
	if n == 0 {
		c.bad("valid-on-success", "parse", 0, "no (reflect.Value, error) function found in parse")
	}
}

// callSiteTypeKinds: for an unexported function f and its reflect.Type
// parameter prm, the union over all static call sites of the kinds under whose
// constant `switch arg.Kind()` arm the call sits. nil when some call site is
// not under such a switch (or f has no static callers / escapes).
func callSiteTypeKinds(w *World, f *ssa.Function, prm *ssa.Parameter) []int64 {
	cg := w.callGraph()
	if cg.escapes[origin(f)] {
		return nil
	}
	pi := -1
	for i, p := range f.Params {
		if p == prm {
			pi = i
		}
	}
	union := map[int64]bool{}
	n := 0
	for _, e := range cg.in[origin(f)] {
		if e.Site == nil {
			continue
		}
		n++
		arg := e.Site.Common().Args[pi]
		subj, ks := kindsAtSwitch(e.Site.(ssa.Instruction).Block())
		if subj == nil {
			return nil
		}
		kc, ok := subj.(*ssa.Call)
		if !ok || !strings.HasSuffix(calleeFullName(kc), ".Kind") {
			return nil
		}
		var recv ssa.Value
		if kc.Call.IsInvoke() {
			recv = kc.Call.Value
		} else if len(kc.Call.Args) > 0 {
			recv = kc.Call.Args[0]
		}
		if recv != arg {
			return nil
		}
		for k := range ks {
			union[k] = true
		}
	}
	if n == 0 {
		return nil
	}
	var out []int64
	for _, k := range allKinds {
		if union[k] {
			out = append(out, k)
		}
	}
	return out
}

// c16OverflowAfterConvertible: reflect's OverflowInt/Uint/Float/Complex panic
// on a receiver of another kind class. The standard-library flag source calls
// its overflow helper with a target built as reflect.New(T).Elem(); that call
// must be dominated by a successful `value.Type().ConvertibleTo(T)` test for
// the same T (a non-numeric T such as a pointer type is rejected there with an
// error before the helper looks at it).
func c16OverflowAfterConvertible(c *Ctx) {
	w := c.W
	wo := w.fn("sources/flag", "willOverflow")
	if !c.need(wo != nil, "sources/flag.willOverflow") {
		return
	}
	n := 0
	for _, f := range w.funcsIn("sources/flag") {
		for _, ci := range callsToFn(f, wo) {
			call := ci.(*ssa.Call)
			n++
			c.analysed(relName(f))
			target := call.Call.Args[1]
			// target = Elem(New(T))
			var tExpr ssa.Value
			if el, ok := target.(*ssa.Call); ok && calleeFullName(el) == "(reflect.Value).Elem" {
				if nw, ok := el.Call.Args[0].(*ssa.Call); ok && calleeFullName(nw) == "reflect.New" {
					tExpr = nw.Call.Args[0]
				}
			}
			okG := false
			if tExpr != nil {
				for _, ec := range condsDominating(call.Block()) {
					cc, ok := ec.Cond.(*ssa.Call)
					if !ok || !ec.Val || !strings.HasSuffix(calleeFullName(cc), ".ConvertibleTo") {
						continue
					}
					args := callArgs(cc)
					if len(args) == 2 && canon(args[1]) == canon(tExpr) {
						// receiver: Type() of the value handed to the helper
						if ty, ok := args[0].(*ssa.Call); ok && calleeFullName(ty) == "(reflect.Value).Type" && sameValue(ty.Call.Args[0], call.Call.Args[0]) {
							okG = true
						}
					}
				}
			}
			c.check(okG, "overflow-after-convertible", relName(f)+"#willOverflow", call.Pos(), "the overflow helper is only reached after value.Type().ConvertibleTo(T) held for the target's type T", "the overflow helper is called before (or without) the convertibility test for the target type: for a non-numeric target such as a pointer-to-pointer field reflect's Overflow* panics instead of the source returning 'not convertible'")
		}
	}
	if n == 0 {
		c.bad("overflow-after-convertible", "flag", wo.Pos(), "willOverflow is never called")
	}
}

// ---- addr-guard -----------------------------------------------------------------------------

// addressable reports whether reflect.Value v is addressable by construction:
// Elem() of reflect.New / of a pointer-kind value produced by reflect.New,
// Field/Index of an addressable value, a phi of such, the result of a
// repository function all of whose successful returns are addressable, or a
// value under a dominating CanAddr() test.
func (w *World) addressable(v ssa.Value, at ssa.Instruction, depth int, seen map[ssa.Value]bool) bool {
	if depth > 6 || v == nil || seen[v] {
		return false
	}
	seen[v] = true
	defer delete(seen, v)
	if at != nil {
		for _, ec := range condsDominating(at.Block()) {
			if cc, ok := ec.Cond.(*ssa.Call); ok && ec.Val && calleeFullName(cc) == "(reflect.Value).CanAddr" && sameValue(cc.Call.Args[0], v) {
				return true
			}
		}
	}
	switch x := v.(type) {
	case *ssa.Call:
		switch calleeFullName(x) {
		case "(reflect.Value).Elem":
			if n, ok := x.Call.Args[0].(*ssa.Call); ok && calleeFullName(n) == "reflect.New" {
				return true
			}
			// Elem of a local that only ever holds reflect.New results
			return derivesAll(x.Call.Args[0], func(y ssa.Value) bool {
				c, ok := y.(*ssa.Call)
				return ok && calleeFullName(c) == "reflect.New"
			}, nil)
		case "(reflect.Value).Field", "(reflect.Value).FieldByName":
			return w.addressable(x.Call.Args[0], at, depth+1, seen)
		case "(reflect.Value).Index":
			return true // elements of slices are addressable; of arrays when the array is (not distinguished here)
		}
		if callee := staticCallee(x); callee != nil && w.inRepo(callee) && callee.Signature.Results().Len() == 1 {
			return w.returnsAddressable(callee, 0, depth+1, seen)
		}
	case *ssa.Extract:
		if call, ok := x.Tuple.(*ssa.Call); ok {
			if callee := staticCallee(call); callee != nil && w.inRepo(callee) {
				return w.returnsAddressable(callee, x.Index, depth+1, seen)
			}
		}
	case *ssa.Phi:
		n := 0
		for ei, e := range x.Edges {
			// the join of a folded (Value, error) helper: the zero Value arrives on the edges where the error joined
			// beside it is non-nil by construction, and Addr is called where that error is known to be nil
			if at != nil && phiEdgeRuledOutByNilSibling(x, ei, at.Block()) {
				continue
			}
			n++
			if !w.addressable(e, nil, depth+1, seen) {
				return false
			}
		}
		return n > 0
	}
	return false
}

// phiEdgeRuledOutByNilSibling: a phi of the same block as ph (the error joined beside a value) is known to be nil at
// block b, and on edge ei that phi is non-nil by construction: edge ei was not the one taken.
func phiEdgeRuledOutByNilSibling(ph *ssa.Phi, ei int, b *ssa.BasicBlock) bool {
	for _, i := range ph.Block().Instrs {
		sib, ok := i.(*ssa.Phi)
		if !ok {
			break
		}
		if sib == ph || ei >= len(sib.Edges) {
			continue
		}
		if nonNilByConstruction(sib.Edges[ei]) && knownNil(b, sib, true) {
			return true
		}
	}
	return false
}

func (w *World) returnsAddressable(f *ssa.Function, idx int, depth int, seen map[ssa.Value]bool) bool {
	if len(f.Blocks) == 0 {
		return false
	}
	n := 0
	for _, r := range returnsOf(f) {
		rv := retVals(r)
		if idx >= len(rv) {
			return false
		}
		// error returns hand back the zero Value, which callers do not touch
		if last := rv[len(rv)-1]; len(rv) > 1 && types.TypeString(last.Type(), nil) == "error" && !isNilConst(last) {
			continue
		}
		if len(rv) > 1 {
			if le, ok := rv[len(rv)-1].Type().Underlying().(*types.Pointer); ok && !isNilConst(rv[len(rv)-1]) && strings.Contains(le.String(), "Error") {
				continue
			}
		}
		n++
		if !w.addressable(rv[idx], r, depth, seen) {
			return false
		}
	}
	return n > 0
}

// c16AddrGuard: reflect.Value.Addr panics on a value that is not addressable.
func c16AddrGuard(c *Ctx) {
	w := c.W
	n := 0
	for _, f := range w.Funcs {
		rel := w.pkgRelOfFn(f)
		if rel != "transform" && rel != "parse" && rel != "tagformat" && rel != "sources/env" && !strings.HasPrefix(rel, "decoders/") && rel != "sourcewrap" && rel != "helper" {
			continue
		}
		for _, i := range allInstrs(f) {
			call, ok := i.(*ssa.Call)
			if !ok || calleeFullName(call) != "(reflect.Value).Addr" {
				continue
			}
			n++
			c.analysed(relName(f))
			recv := call.Call.Args[0]
			c.check(w.addressable(recv, call, 0, map[ssa.Value]bool{}), "addr-guard", relName(f)+"#"+canon(recv), call.Pos(), "the receiver of Addr is addressable by construction (reflect.New(..).Elem(), a field/element of such, a CanAddr test)",
				"reflect.Value.Addr is called on "+canon(recv)+", which can be a converted, make-built or zero value (not addressable): reflect panics")
		}
	}
	if n == 0 {
		c.bad("addr-guard", "repo", 0, "no reflect.Value.Addr call found")
	}
}

// c16AnonStructOnly: the anonymous-flatten mangler promotes the members of an
// embedded field only when it is a struct or a pointer to a struct, and its two
// directions agree: Mangle strips a pointer (recursing on the pointee) and
// Unmangle rebuilds through unmangleStruct (which calls NumField on the type)
// only under a test that the pointee's kind is Struct.
func c16AnonStructOnly(c *Ctx, rule string) {
	w := c.W
	mg := w.fn("transform", "AnonymousFlattenMangler.Mangle")
	um := w.fn("transform", "AnonymousFlattenMangler.Unmangle")
	us := w.fn("transform", "AnonymousFlattenMangler.unmangleStruct")
	if !c.need(mg != nil && um != nil && us != nil, "transform.AnonymousFlattenMangler.Mangle/Unmangle/unmangleStruct") {
		return
	}
	// a dominating fact "Kind(Elem(Type)) == Struct" or a switch arm "Kind(Type) == Struct"
	structFact := func(b *ssa.BasicBlock) (ptrElemStruct, isStruct bool) {
		for _, ec := range condsDominating(b) {
			bo, ok := ec.Cond.(*ssa.BinOp)
			if !ok {
				continue
			}
			k, isC := constInt(bo.Y)
			kc, isCall := bo.X.(*ssa.Call)
			if !isC || !isCall || !strings.HasSuffix(calleeFullName(kc), ".Kind") || k != kStruct {
				continue
			}
			eq := bo.Op == token.EQL && ec.Val || bo.Op == token.NEQ && !ec.Val
			if !eq {
				continue
			}
			var recv ssa.Value
			if kc.Call.IsInvoke() {
				recv = kc.Call.Value
			} else if len(kc.Call.Args) > 0 {
				recv = kc.Call.Args[0]
			}
			if el, ok := recv.(*ssa.Call); ok && strings.HasSuffix(calleeFullName(el), ".Elem") {
				ptrElemStruct = true
			} else {
				isStruct = true
			}
		}
		return
	}
	// Mangle: the self-recursion with the pointer stripped
	n := 0
	for _, ci := range callsToFn(mg, mg) {
		n++
		pe, _ := structFact(ci.(*ssa.Call).Block())
		c.check(pe, rule, relName(mg)+"#strip-pointer", ci.Pos(), "the pointer is stripped only where the pointee is a struct", "Mangle strips the pointer of an embedded field whatever it points to: an embedded pointer to a named scalar or slice is emitted with the wrong type and Unmangle calls NumField on a non-struct type (panic)")
	}
	if n == 0 {
		c.bad(rule, relName(mg), mg.Pos(), "Mangle does not recurse on the pointee of embedded pointers")
	}
	m := 0
	for _, ci := range callsToFn(um, us) {
		m++
		call := ci.(*ssa.Call)
		pe, st := structFact(call.Block())
		c.check(pe || st, rule, relName(um)+"#rebuild#"+itoa(m), call.Pos(), "unmangleStruct is called only for a struct / a pointer whose pointee is a struct", "Unmangle rebuilds an embedded pointer through unmangleStruct without a test that the pointee is a struct (NumField panics on other kinds)")
	}
	if m == 0 {
		c.bad(rule, relName(um), um.Pos(), "Unmangle never calls unmangleStruct")
	}
}

// c16WrongErrorReturned: a contradiction check over the whole repository. A
// return that sits in the failure branch of one error (`if errA != nil { ... }`)
// but hands back another error value that is known to be nil on that very path
// reports success for a detected failure (with a nil / zero value that the
// caller then uses). The accepted idiom is returning the tested error, a
// wrapped form of it, or a freshly built error.
func c16WrongErrorReturned(c *Ctx, rule string) {
	w := c.W
	n, bad := 0, 0
	for _, f := range w.Funcs {
		if len(f.Blocks) == 0 {
			continue
		}
		for _, r := range returnsOf(f) {
			rv := retVals(r)
			if len(rv) == 0 {
				continue
			}
			e := rv[len(rv)-1]
			if types.TypeString(e.Type(), nil) != "error" {
				continue
			}
			if _, isConst := e.(*ssa.Const); isConst {
				continue
			}
			// is the return inside the failure branch of some error value?
			var tested ssa.Value
			for _, ec := range condsDominating(r.Block()) {
				x, nilWhenTrue, ok := nilCheckOf(ec.Cond)
				if !ok || types.TypeString(x.Type(), nil) != "error" {
					continue
				}
				if nilWhenTrue != ec.Val { // known non-nil here
					// only the innermost failure branch matters: the one whose If block immediately controls r
					if tested == nil {
						tested = x
					}
				}
			}
			if tested == nil {
				continue
			}
			n++
			if sameValue(e, tested) {
				continue
			}
			if knownNil(r.Block(), e, true) {
				bad++
				c.bad(rule, relName(f)+"#return", r.Pos(), "inside the failure branch of %s the function returns %s, which is known to be nil on this path: the failure is reported as success (the caller goes on with a nil/zero result)", canon(tested), canon(e))
			}
		}
	}
	if bad == 0 {
		c.okRows(rule, "repo", 0, n, "none of the %d returns inside an error's failure branch hands back a different error that is known nil there", n)
	}
}

// c16SharedManglersStateless: a mangler kept in a package-level variable is used by every Decode call of the
// process (decoders run concurrently: one per watched file, plus re-decodes), so none of its methods may write
// state reachable from the receiver (a memo map filled from Mangle/Unmangle is an unsynchronised map write: the
// runtime kills the process with "concurrent map writes").
func c16SharedManglersStateless(c *Ctx, rule string) {
	w := c.W
	mi := w.named("transform", "Mangler")
	if !c.need(mi != nil, "transform.Mangler") {
		return
	}
	iface, _ := mi.Underlying().(*types.Interface)
	if !c.need(iface != nil, "transform.Mangler interface") {
		return
	}
	fromRecv := reachableFromRecv
	_ = func(f *ssa.Function, v ssa.Value) bool {
		if len(f.Params) == 0 {
			return false
		}
		recv := ssa.Value(f.Params[0])
		seen := map[ssa.Value]bool{}
		var walk func(v ssa.Value) bool
		walk = func(v ssa.Value) bool {
			if v == recv {
				return true
			}
			if seen[v] {
				return false
			}
			seen[v] = true
			switch x := v.(type) {
			case *ssa.FieldAddr:
				return walk(x.X)
			case *ssa.Field:
				return walk(x.X)
			case *ssa.IndexAddr:
				return walk(x.X)
			case *ssa.Index:
				return walk(x.X)
			case *ssa.Lookup:
				return walk(x.X)
			case *ssa.UnOp:
				return x.Op == token.MUL && walk(x.X)
			case *ssa.Slice:
				return walk(x.X)
			case *ssa.Phi:
				for _, e := range x.Edges {
					if walk(e) {
						return true
					}
				}
			}
			return false
		}
		return walk(v)
	}
	n := 0
	seenT := map[*types.Named]bool{}
	for _, p := range w.Pkgs {
		sp := w.SSA[p.PkgPath]
		names := make([]string, 0, len(sp.Members))
		for nm := range sp.Members {
			names = append(names, nm)
		}
		sort.Strings(names)
		for _, nm := range names {
			g, ok := sp.Members[nm].(*ssa.Global)
			if !ok {
				continue
			}
			t := g.Type().(*types.Pointer).Elem()
			if !types.Implements(t, iface) {
				continue
			}
			base := t
			if pt, ok := base.(*types.Pointer); ok {
				base = pt.Elem()
			}
			named, ok := base.(*types.Named)
			if !ok {
				continue
			}
			named = named.Origin()
			n++
			gname := p.PkgPath[len(modPath):] + "." + nm
			bad := false
			for k := 0; k < named.NumMethods(); k++ {
				f := w.Prog.FuncValue(named.Method(k))
				if f == nil || f.Blocks == nil {
					continue
				}
				if !seenT[named] {
					c.analysed(relName(f))
				}
				// writes made while a mutex of the receiver is held are synchronised
				locked := func(at ssa.Instruction) bool {
					for _, j := range allInstrs(f) {
						lc, ok := j.(*ssa.Call)
						if !ok || len(lc.Call.Args) == 0 {
							continue
						}
						if nm := calleeFullName(lc); nm != "(*sync.Mutex).Lock" && nm != "(*sync.RWMutex).Lock" {
							continue
						}
						if fromRecv(f, lc.Call.Args[0]) && domI(lc, at) {
							return true
						}
					}
					return false
				}
				for _, i := range allInstrs(f) {
					if locked(i) {
						continue
					}
					switch x := i.(type) {
					case *ssa.MapUpdate:
						if fromRecv(f, x.Map) {
							bad = true
							c.bad(rule, gname+"#"+f.Name(), x.Pos(), "%s writes a map reachable from its receiver, and one instance is shared by every decode of the process through the package-level variable %s: concurrent decodes die with 'concurrent map writes'", relName(f), nm)
						}
					case *ssa.Store:
						if _, isAlloc := x.Addr.(*ssa.Alloc); !isAlloc && fromRecv(f, x.Addr) {
							bad = true
							c.bad(rule, gname+"#"+f.Name(), x.Pos(), "%s stores into state reachable from its receiver, and one instance is shared by every decode of the process through the package-level variable %s (data race between concurrent decodes)", relName(f), nm)
						}
					}
				}
			}
			seenT[named] = true
			if !bad {
				c.ok(rule, gname, g.Pos(), "no method of "+named.Obj().Name()+" writes state reachable from its receiver (the instance is shared process-wide)")
			}
		}
	}
	if n == 0 {
		c.okTrivial(rule, "repo", token.NoPos, "no mangler is kept in a package-level variable")
	}
}

// c16ElemOfNonNil: Elem() of a nil pointer is the zero reflect.Value, and every method but IsValid panics on it.
// In the transform package, wherever a function takes Elem() of one of its reflect.Value *parameters* and goes on
// to use the result, a dominating test must have established that the parameter is not nil: x.IsNil() false, or
// a false result of a nil-ness helper that covers pointer kinds (D25 made subVal recurse through pointers; a
// nil guard narrowed to maps and slices lets an unset *[]time.Duration through).
func c16ElemOfNonNil(c *Ctx, rule string) {
	w := c.W
	helperCoversPtr := func(h *ssa.Function) bool {
		h = origin(h)
		if len(h.Blocks) == 0 || len(h.Params) != 1 {
			return false
		}
		for _, i := range allInstrs(h) {
			ci, ok := i.(*ssa.Call)
			if !ok || calleeFullName(ci) != "(reflect.Value).IsNil" || ci.Call.Args[0] != ssa.Value(h.Params[0]) {
				continue
			}
			if _, ks := kindsAtSwitch(ci.Block()); ks != nil && ks[kPtr] {
				// and its result is what the helper returns
				for _, r := range returnsOf(h) {
					if retVals(r)[0] == ssa.Value(ci) {
						return true
					}
				}
			}
		}
		return false
	}
	n := 0
	for _, f := range w.funcsIn("transform") {
		for _, i := range allInstrs(f) {
			el, ok := i.(*ssa.Call)
			if !ok || calleeFullName(el) != "(reflect.Value).Elem" {
				continue
			}
			x := el.Call.Args[0]
			if p, ok := x.(*ssa.Parameter); !ok || p.Parent() != f {
				continue
			}
			// only pointer arms: the site is in the Ptr arm of a kind switch (Interface payloads are handled elsewhere)
			_, ks := kindsAtSwitch(el.Block())
			if ks == nil || !ks[kPtr] || len(ks) != 1 {
				continue
			}
			used := false
			for _, r := range *el.Referrers() {
				if cc, ok := r.(*ssa.Call); ok && calleeFullName(cc) == "(reflect.Value).IsValid" {
					continue
				}
				used = true
			}
			if !used {
				continue
			}
			n++
			// for every path to this Elem() on which x is of pointer kind, x was tested not nil: the path condition is
			// evaluated over all kinds with "x is nil" as one atom (x.IsNil(), or a helper that covers pointer kinds)
			pbn := &predBuilder{name: func(v ssa.Value) string {
				cc, ok := v.(*ssa.Call)
				if !ok || len(cc.Call.Args) == 0 || cc.Call.Args[0] != x {
					return ""
				}
				switch calleeFullName(cc) {
				case "(reflect.Value).IsNil":
					return "isnil"
				case "(reflect.Value).Kind":
					return "kind"
				}
				if h := staticCallee(cc); h != nil && helperCoversPtr(h) {
					return "isnil"
				}
				return ""
			}}
			g := pbn.pathCond(f.Blocks[0], el.Block())
			fbn, fin := map[string]bool{}, map[string]bool{}
			atomsOf(g, fbn, fin)
			_, counter := forAll(g, map[string][]int64{"kind": allKinds}, func(e env, fv bool) bool {
				if !fv || (fin["kind"] && e.I["kind"] != kPtr) {
					return true
				}
				return fbn["isnil"] && !e.B["isnil"]
			})
			nonNil := counter == ""
			c.check(nonNil, rule, relName(f)+"#"+canon(x), el.Pos(), "Elem() of the pointer-kind parameter is taken only after a nil test that covers pointers returned false",
				"Elem() of the pointer-kind parameter "+canon(x)+" is used without a dominating nil test that covers pointer kinds: for an unset (nil) pointer the result is the zero reflect.Value and the next method call on it panics")
		}
	}
	if n == 0 {
		c.okTrivial(rule, "transform", token.NoPos, "no function of the transform package dereferences a pointer-kind parameter")
	}
}

// reachableFromRecv: v addresses (or is loaded from) state reachable from the receiver of method f.
func reachableFromRecv(f *ssa.Function, v ssa.Value) bool {
	if len(f.Params) == 0 || f.Signature.Recv() == nil {
		return false
	}
	return reachableFromRoots(map[ssa.Value]bool{ssa.Value(f.Params[0]): true}, v)
}

// writeReachableIn: the first write (map update, store outside a local) in f, or in what f calls with such state as
// an argument or captured variable, to something reachable from roots.
func writeReachableIn(f *ssa.Function, roots map[ssa.Value]bool, depth int) ssa.Instruction {
	if depth > 3 || f == nil || len(f.Blocks) == 0 {
		return nil
	}
	for _, i := range allInstrs(f) {
		switch x := i.(type) {
		case *ssa.MapUpdate:
			if reachableFromRoots(roots, x.Map) {
				return x
			}
		case *ssa.Store:
			if _, isAlloc := x.Addr.(*ssa.Alloc); !isAlloc && reachableFromRoots(roots, x.Addr) {
				return x
			}
		case ssa.CallInstruction:
			cc := x.Common()
			if cc.IsInvoke() {
				continue
			}
			var callee *ssa.Function
			sub := map[ssa.Value]bool{}
			if mc, ok := cc.Value.(*ssa.MakeClosure); ok {
				callee, _ = mc.Fn.(*ssa.Function)
				if callee != nil {
					for bi, b := range mc.Bindings {
						if bi < len(callee.FreeVars) && reachableFromRoots(roots, b) {
							sub[callee.FreeVars[bi]] = true
						}
					}
				}
			} else {
				callee = cc.StaticCallee()
			}
			if callee == nil || len(callee.Blocks) == 0 || callee == f {
				continue
			}
			if p := callee.Pkg; p == nil || p.Pkg == nil || !strings.HasPrefix(p.Pkg.Path(), modPath) {
				if callee.Parent() == nil {
					continue
				}
			}
			for ai, a := range cc.Args {
				if ai < len(callee.Params) && reachableFromRoots(roots, a) {
					sub[callee.Params[ai]] = true
				}
			}
			if len(sub) == 0 {
				continue
			}
			if w := writeReachableIn(callee, sub, depth+1); w != nil {
				return w
			}
		}
	}
	return nil
}

func reachableFromRoots(roots map[ssa.Value]bool, v ssa.Value) bool {
	seen := map[ssa.Value]bool{}
	var walk func(v ssa.Value) bool
	walk = func(v ssa.Value) bool {
		if roots[v] {
			return true
		}
		if al, ok := v.(*ssa.Alloc); ok && !seen[v] {
			// a local that holds (a pointer to) such state: `c := a.cache`, the cell of a captured receiver
			seen[v] = true
			for _, r := range *al.Referrers() {
				if st, ok := r.(*ssa.Store); ok && st.Addr == ssa.Value(al) && walk(st.Val) {
					return true
				}
			}
			return false
		}
		if seen[v] {
			return false
		}
		seen[v] = true
		switch x := v.(type) {
		case *ssa.FieldAddr:
			return walk(x.X)
		case *ssa.Field:
			return walk(x.X)
		case *ssa.IndexAddr:
			return walk(x.X)
		case *ssa.Index:
			return walk(x.X)
		case *ssa.Lookup:
			return walk(x.X)
		case *ssa.UnOp:
			return x.Op == token.MUL && walk(x.X)
		case *ssa.Slice:
			return walk(x.X)
		case *ssa.Phi:
			for _, e := range x.Edges {
				if walk(e) {
					return true
				}
			}
		}
		return false
	}
	return walk(v)
}

// c10ManglersKeepNoState: Mangle / Unmangle / ShouldRecurse of every mangler of the repository write nothing that is
// reachable from their receiver. A mangler is applied to every field of a type, to the same struct type wherever it
// occurs again, and again on every reload: what one call leaves behind in the mangler is seen by the next (a memoised,
// mutable parse result; a counter; a "seen" set).
func c10ManglersKeepNoState(c *Ctx, rule string) {
	n := 0
	for _, im := range manglerImpls(c) {
		for _, f := range []*ssa.Function{im.mangle, im.unmangle, im.recurse} {
			if f == nil || f.Blocks == nil {
				continue
			}
			n++
			bad := false
			if wr := writeReachableIn(f, map[ssa.Value]bool{ssa.Value(f.Params[0]): true}, 0); wr != nil && wr.Parent() != f {
				bad = true
				c.bad(rule, relName(f)+"#callee-write", wr.Pos(), "%s hands state reachable from its receiver to %s, which writes it: what this call records is seen by every later call on the same mangler (the next field of the same type, the next reload)", relName(f), relName(wr.Parent()))
			}
			for _, i := range allInstrs(f) {
				switch x := i.(type) {
				case *ssa.MapUpdate:
					if reachableFromRecv(f, x.Map) {
						bad = true
						c.bad(rule, relName(f)+"#map", x.Pos(), "%s writes a map reachable from its receiver: what this call records is seen by every later call on the same mangler (the next field of the same type, the next reload)", relName(f))
					}
				case *ssa.Store:
					if _, isAlloc := x.Addr.(*ssa.Alloc); !isAlloc && reachableFromRecv(f, x.Addr) {
						bad = true
						c.bad(rule, relName(f)+"#store", x.Pos(), "%s stores into state reachable from its receiver: what this call leaves behind is seen by every later call on the same mangler", relName(f))
					}
				}
			}
			if !bad {
				c.ok(rule, relName(f), f.Pos(), "writes nothing reachable from its receiver")
			}
		}
	}
	if n == 0 {
		c.bad(rule, "manglers", 0, "no mangler implementation found")
	}
}

// c16ValueAfterErrorCheck: the reflect.Value a repository function returns together with an error is used as the
// receiver of a reflect.Value method (IsValid apart) only where that error is known to be nil. The (Value, error)
// functions of the repository return the zero Value with their errors; any method on it panics.
func c16ValueAfterErrorCheck(c *Ctx, rule string) {
	w := c.W
	n := 0
	for _, f := range w.Funcs {
		if !w.inRepo(f) {
			continue
		}
		for _, i := range allInstrs(f) {
			call, ok := i.(*ssa.Call)
			if !ok {
				continue
			}
			callee := staticCallee(call)
			if callee == nil || !w.inRepo(callee) {
				continue
			}
			res := callee.Signature.Results()
			if res.Len() != 2 || res.At(0).Type().String() != "reflect.Value" || !isErrorType(res.At(1).Type()) {
				continue
			}
			var v0, e1 ssa.Value
			for _, r := range *call.Referrers() {
				if ex, ok := r.(*ssa.Extract); ok {
					if ex.Index == 0 {
						v0 = ex
					} else {
						e1 = ex
					}
				}
			}
			if v0 == nil {
				continue
			}
			for _, r := range *v0.Referrers() {
				use, ok := r.(*ssa.Call)
				if !ok || len(use.Call.Args) == 0 || use.Call.Args[0] != v0 {
					continue
				}
				nm := calleeFullName(use)
				if !strings.HasPrefix(nm, "(reflect.Value).") || nm == "(reflect.Value).IsValid" {
					continue
				}
				n++
				okU := e1 != nil && knownNil(use.Block(), e1, true)
				c.check(okU, rule, relName(f)+"#"+strings.TrimPrefix(nm, "(reflect.Value).")+"-of-"+fnName(callee), use.Pos(), "the value result of "+relName(callee)+" is used only where its error is known nil",
					"the reflect.Value returned by "+relName(callee)+" is used ("+nm+") where the error returned with it has not been found nil: on failure it is the zero Value and the call panics (an input that merely fails to parse crashes the process)")
			}
		}
	}
	if n == 0 {
		c.bad(rule, "repository", 0, "no use of a (reflect.Value, error) result found")
	}
}

// scannerLoopExitsOnEOF: tok (the loop-carried result of Scanner.Scan) is compared with scanner.EOF inside the loop,
// and from the "is EOF" side of that comparison the loop header cannot be reached again.
func scannerLoopExitsOnEOF(f *ssa.Function, h *ssa.BasicBlock, tok *ssa.Phi) bool {
	found := false
	for _, b := range f.Blocks {
		if b != h && !inLoopBody(h, b) {
			continue
		}
		iff, ok := b.Instrs[len(b.Instrs)-1].(*ssa.If)
		if !ok {
			continue
		}
		cmp, ok := iff.Cond.(*ssa.BinOp)
		if !ok || (cmp.Op != token.EQL && cmp.Op != token.NEQ) {
			continue
		}
		var other ssa.Value
		switch {
		case stripConv(cmp.X) == ssa.Value(tok):
			other = cmp.Y
		case stripConv(cmp.Y) == ssa.Value(tok):
			other = cmp.X
		default:
			continue
		}
		if n, ok := constInt(other); !ok || n != -1 {
			continue
		}
		found = true
		eof := b.Succs[0]
		if cmp.Op == token.NEQ {
			eof = b.Succs[1]
		}
		seen := map[*ssa.BasicBlock]bool{}
		var reach func(x *ssa.BasicBlock) bool
		reach = func(x *ssa.BasicBlock) bool {
			if x == h {
				return true
			}
			if seen[x] {
				return false
			}
			seen[x] = true
			succs := x.Succs
			// on this walk the token is EOF: a further comparison of it with a constant has one possible outcome
			if iff2, ok := x.Instrs[len(x.Instrs)-1].(*ssa.If); ok && len(x.Succs) == 2 {
				if c2, ok := iff2.Cond.(*ssa.BinOp); ok && (c2.Op == token.EQL || c2.Op == token.NEQ) {
					var o2 ssa.Value
					switch {
					case stripConv(c2.X) == ssa.Value(tok):
						o2 = c2.Y
					case stripConv(c2.Y) == ssa.Value(tok):
						o2 = c2.X
					}
					if o2 != nil {
						if n2, isC := constInt(o2); isC {
							holds := (n2 == -1) == (c2.Op == token.EQL)
							if holds {
								succs = x.Succs[:1]
							} else {
								succs = x.Succs[1:]
							}
						}
					}
				}
			}
			for _, sc := range succs {
				if reach(sc) {
					return true
				}
			}
			return false
		}
		if reach(eof) {
			return false
		}
	}
	return found
}
