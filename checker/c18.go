package main

import (
	"go/token"
	"strings"

	"golang.org/x/tools/go/ssa"
)

func init() {
	props["C18"] = &propMeta{
		run: runC18,
		explanation: "All clauses are about which calls happen in which order with which arguments in the one function every ez entry point funnels into; they are decided by call-graph, argument-resolution, dominance and def-use rules: " +
			"a single caller of dials.Params.Config in ez; the source list is (Blank, env.Source, flag source) in this order over the caller's defaults; the dials.Params literal delays verification and suppresses global callbacks (constants) and forwards both callbacks; " +
			"ConfigPath is evaluated on the View of that first stack; the file source enters only through blank.SetSource of that Blank; every success return is dominated by a tested EnableVerification which on the file path follows a successful SetSource, " +
			"and one Events value is drained after it; file watching and Blank.Done follow WatchConfigFile; the extension table. Relies on C04/C07/C09/C14 for what those calls guarantee. Not decided: values.",
		assumptions: []string{"C04, C07, C09 hold for dials itself", "the flag package's CommandLine set is parsed by the process"},
	}
}

func runC18(c *Ctx) {
	c.rule("funnel", "exactly one function of the ez package calls dials.Params.Config, and every exported entry point that stacks a config reaches it", 2)
	c.rule("layer-order", "the sources handed to Config are, in order, the Blank (file slot), the environment source, the flag source (params.FlagSource or the command-line set built from the caller's config), over the caller's config as defaults", 2)
	c.rule("params", "the dials.Params literal sets DelayInitialVerification and CallGlobalCallbacksAfterVerificationEnabled to the constant true and forwards OnNewConfig / OnWatchedError from the ez params", 4)
	c.rule("verify-once-on-full", "every success return is dominated by an EnableVerification call whose error was tested; on the file path that call is dominated by a successful blank.SetSource(file source) and no EnableVerification precedes SetSource; errors of SetSource/EnableVerification are returned", 4)
	c.rule("path-from-view", "ConfigPath is invoked on the View() of the Dials returned by that Config call (defaults + environment + flags)", 1)
	c.rule("drain", "on the file path exactly one value is received from Events() after the successful enable and before the return (the file-less intermediate version is not exposed)", 1)
	c.rule("watch-forwarding", "the file source is built by fileSource(path, decoder, params.WatchConfigFile) which picks the watching source exactly when asked; blank.Done is deferred exactly when file watching is off; SetSource is called on the Blank that was handed to Config", 4)
	c.rule("format-table", "DecoderFromExtensionWithParams maps .yaml/.yml, .json, .toml, .cue (case-insensitively) to their decoders and anything else to nil; a nil decoder is an error", 5)
	c.rule("no-early-verify", "dials.Config itself does not invoke Verify while DelayInitialVerification is set (so the file-less first stack that ez builds is never verified); shared with C04/C09", 1)
	c.rule("visited-flags-written", "flags are the highest layer: the flag sources' visit callback never drops a flag that was given on the command line (shared with C12)", 2)
	c.rule("defaults-pristine", "(shared with C01/C05) every re-stack starts from a deep copy of the defaults made inside compose: after a watched file change the previous file version's values cannot pose as defaults (defaults < file)", 2)
	c.rule("event-old-is-predecessor", "(shared with C05/C06) the old config of every new-config event is the config loaded immediately before the install (never a remembered earlier one such as the file-less intermediate)", 1)
	c.rule("flag-name-recorded", "(shared with C12) in both flag packages every flag name computed for a field is recorded in the name->field table on every path of that loop iteration, in particular before the 'flag already registered by the application' skip, so a given flag is never ignored by Value", 2)
	c13Rules(c, "(shared with C13) ")
	c.rule("params-reach-decoder", "an ez entry point that takes Params never selects the file decoder through the params-less extension table DecoderFromExtension (which cannot honour decoder options such as FlattenAnonymousFields)", 1)
	c.rule("set-as-list", "the set-to-slice mangler is appended to the file decoder's chain exactly when DisableAutoSetToSlice is false", 1)

	w := c.W
	cfgFn := w.fn("", "Params.Config")
	if !c.need(cfgFn != nil, "dials.Params.Config") {
		return
	}
	var main *ssa.Function
	var cfgCall *ssa.Call
	n := 0
	for _, f := range w.funcsIn("ez") {
		for _, ci := range callsToFn(f, cfgFn) {
			n++
			main = f
			cfgCall, _ = ci.(*ssa.Call)
		}
	}
	if n != 1 || cfgCall == nil {
		c.bad("funnel", "ez", 0, "%d calls of dials.Params.Config in the ez package, want exactly 1", n)
		return
	}
	c.analysed(relName(main))
	c.ok("funnel", "ez#single-config-call", cfgCall.Pos(), "only %s calls dials.Params.Config", relName(main))
	cg := w.callGraph()
	reach := 0
	var names []string
	for _, f := range w.funcsIn("ez") {
		if isAPI(f) && f != main && cg.reachableFrom(f, false)[main] {
			reach++
			names = append(names, f.Name())
		}
	}
	c.check(reach >= 5, "funnel", "ez#entry-points", main.Pos(), "entry points funnelling into it: "+strings.Join(names, ","), "fewer than 5 exported entry points reach the funnel")

	// ---- layer-order ------------------------------------------------------------
	args := cfgCall.Call.Args // recv params, ctx, t, sources...
	srcs, ok := sliceElems(args[len(args)-1], 0)
	var blank ssa.Value
	if !ok || len(srcs) != 3 {
		c.bad("layer-order", relName(main)+"#sources", cfgCall.Pos(), "cannot resolve exactly three sources handed to Config")
	} else {
		t0 := namedTypeName(stripConv(srcs[0].V).Type())
		t1 := namedTypeName(stripConv(srcs[1].V).Type())
		blank = stripConv(srcs[0].V)
		flagOK := derivesAllLive(srcs[2].V, cfgCall.Block(), func(x ssa.Value) bool {
			if _, ok := loadOfTypeField(x, "ez.Params", "FlagSource"); ok {
				return true
			}
			if e, ok := x.(*ssa.Extract); ok {
				if call, ok := e.Tuple.(*ssa.Call); ok && calleeFullName(call) == modPath+"/sources/flag.NewCmdLineSet" {
					// built from the caller's config
					_, isP := stripConv(call.Call.Args[1]).(*ssa.Parameter)
					return isP
				}
			}
			return false
		}, nil)
		c.check(t0 == "sourcewrap.Blank" && t1 == "sources/env.Source" && flagOK, "layer-order", relName(main)+"#sources", cfgCall.Pos(),
			"sources = [*sourcewrap.Blank, *env.Source, flag source]: file < environment < flags", "the source list is ["+t0+", "+t1+", ...]: not Blank, env, flags in this order")
	}
	_, defIsParam := stripConv(args[len(args)-2]).(*ssa.Parameter)
	c.check(defIsParam, "layer-order", relName(main)+"#defaults", cfgCall.Pos(), "the caller's config is the defaults argument", "the defaults argument of Config is not the caller's config")

	// ---- params ---------------------------------------------------------------------
	recv := args[0]
	var lit *ssa.Alloc
	if ld, ok := recv.(*ssa.UnOp); ok && ld.Op == token.MUL {
		lit, _ = ld.X.(*ssa.Alloc)
	}
	if lit == nil {
		c.bad("params", relName(main)+"#literal", cfgCall.Pos(), "the dials.Params receiver is not a literal built in this function")
	} else {
		for _, fld := range []string{"DelayInitialVerification", "CallGlobalCallbacksAfterVerificationEnabled"} {
			v := litField(lit, fld)
			okT := false
			if cst, ok := v.(*ssa.Const); ok && cst.Value != nil && cst.Value.ExactString() == "true" {
				okT = true
			}
			c.check(okT, "params", relName(main)+"#"+fld, lit.Pos(), fld+" is the constant true", fld+" is not the constant true: the file-less intermediate config may be verified or announced to the global callbacks")
		}
		for _, fld := range []string{"OnNewConfig", "OnWatchedError"} {
			v := litField(lit, fld)
			_, okF := loadOfTypeField(v, "ez.Params", fld)
			c.check(v != nil && okF, "params", relName(main)+"#"+fld, lit.Pos(), fld+" forwarded from the ez params", fld+" is not forwarded from the ez params")
		}
	}

	// ---- the Dials value ----------------------------------------------------------------
	var dV ssa.Value
	for _, r := range *cfgCall.Referrers() {
		if e, ok := r.(*ssa.Extract); ok && e.Index == 0 {
			dV = e
		}
	}
	var enables []*ssa.Call
	var setSrc, cfgPath, fileSrc *ssa.Call
	var doneDefer *ssa.Defer
	for _, i := range allInstrs(main) {
		switch x := i.(type) {
		case *ssa.Call:
			switch calleeFullName(x) {
			case "(*" + modPath + ".Dials[T]).EnableVerification":
				enables = append(enables, x)
			case "(*" + modPath + "/sourcewrap.Blank).SetSource":
				setSrc = x
			}
			if x.Call.IsInvoke() && x.Call.Method.Name() == "ConfigPath" {
				cfgPath = x
			}
			if callee := staticCallee(x); callee != nil && fnName(callee) == "fileSource" {
				fileSrc = x
			}
		case *ssa.Defer:
			if calleeFullName(x) == "(*"+modPath+"/sourcewrap.Blank).Done" {
				doneDefer = x
			}
		}
	}
	if !c.need(dV != nil && len(enables) >= 1 && setSrc != nil && cfgPath != nil && fileSrc != nil, "the EnableVerification / SetSource / ConfigPath / fileSource calls of the ez funnel") {
		return
	}
	// ---- path-from-view ---------------------------------------------------------------------
	okPV := derivesAll(cfgPath.Call.Value, func(x ssa.Value) bool {
		call, ok := x.(*ssa.Call)
		return ok && calleeFullName(call) == "(*"+modPath+".Dials[T]).View" && call.Call.Args[0] == dV
	}, nil)
	c.check(okPV && domI(cfgCall, cfgPath), "path-from-view", relName(main), cfgPath.Pos(), "ConfigPath() is called on d.View() of the first stack", "ConfigPath is not evaluated on the View of the Config result")

	// ---- verify-once-on-full ---------------------------------------------------------------------
	errOf := func(call *ssa.Call, idx int) ssa.Value {
		if idx < 0 {
			return call
		}
		for _, r := range *call.Referrers() {
			if e, ok := r.(*ssa.Extract); ok && e.Index == idx {
				return e
			}
		}
		return nil
	}
	okAll := true
	for _, r := range returnsOf(main) {
		rv := retVals(r)
		if !isNilConst(rv[1]) || isNilConst(rv[0]) {
			continue
		}
		dom := false
		for _, en := range enables {
			e := errOf(en, 2)
			if e != nil && domI(en, r) && knownNilVia(r.Block(), e, true) && en.Call.Args[0] == dV {
				dom = true
			}
		}
		if !dom || rv[0] != dV {
			okAll = false
			c.bad("verify-once-on-full", relName(main)+"#success-return", r.Pos(), "a success return is not dominated by a successful EnableVerification on the returned Dials")
		}
	}
	if okAll {
		c.ok("verify-once-on-full", relName(main)+"#success-return", main.Pos(), "every success return follows a tested EnableVerification of the returned Dials")
	}
	// each enable is either on the no-file path (path flag false) or after a successful SetSource
	var pathSet ssa.Value
	for _, r := range *cfgPath.Referrers() {
		if e, ok := r.(*ssa.Extract); ok && e.Index == 1 {
			pathSet = e
		}
	}
	for _, en := range enables {
		onNoFile := false
		for _, ec := range condsDominating(en.Block()) {
			if ec.Cond == pathSet && !ec.Val {
				onNoFile = true
			}
		}
		afterSet := domI(setSrc, en) && knownNil(en.Block(), setSrc, true)
		c.check(onNoFile != afterSet && (onNoFile || afterSet), "verify-once-on-full", relName(main)+"#enable-site", en.Pos(),
			"EnableVerification runs either when no file is configured, or after blank.SetSource(file) succeeded", "EnableVerification can run on the file-less intermediate although a file is configured")
		// its error is returned
		e := errOf(en, 2)
		okE := false
		for _, r := range returnsOf(main) {
			rv := retVals(r)
			if e != nil && knownNilVia(r.Block(), e, false) && isNilConst(rv[0]) && errDerivesNonNil(rv[1], r.Block(), func(v ssa.Value) bool { return v == e }) {
				okE = true
			}
		}
		c.check(okE, "verify-once-on-full", relName(main)+"#enable-error", en.Pos(), "a verification failure is returned as the entry point's error", "a verification failure is not returned")
	}
	okSE := false
	for _, r := range returnsOf(main) {
		rv := retVals(r)
		if knownNil(r.Block(), setSrc, false) && isNilConst(rv[0]) && errDerives(rv[1], func(v ssa.Value) bool { return v == ssa.Value(setSrc) }) {
			okSE = true
		}
	}
	c.check(okSE, "verify-once-on-full", relName(main)+"#setsource-error", setSrc.Pos(), "a SetSource failure is returned", "a SetSource failure is not returned")

	// ---- drain ---------------------------------------------------------------------------------------
	nRecv := 0
	for _, i := range allInstrs(main) {
		u, ok := i.(*ssa.UnOp)
		if !ok || u.Op != token.ARROW {
			continue
		}
		if call, ok := u.X.(*ssa.Call); ok && calleeFullName(call) == "(*"+modPath+".Dials[T]).Events" && call.Call.Args[0] == dV {
			nRecv++
			afterEnable := false
			for _, en := range enables {
				if domI(en, u) && domI(setSrc, en) {
					afterEnable = true
				}
			}
			c.check(afterEnable && !inLoop(u), "drain", relName(main), u.Pos(), "one Events value is drained after the successful enable on the file path", "the Events drain is not placed after the enable on the file path")
		}
	}
	if nRecv != 1 {
		c.bad("drain", relName(main)+"#count", main.Pos(), "%d receives from Events(), want exactly 1", nRecv)
	}

	// ---- watch-forwarding --------------------------------------------------------------------------------
	_, wArg := loadOfTypeField(fileSrc.Call.Args[2], "ez.Params", "WatchConfigFile")
	c.check(wArg, "watch-forwarding", relName(main)+"#filesource-arg", fileSrc.Pos(), "fileSource(..., params.WatchConfigFile)", "fileSource is not told params.WatchConfigFile")
	okSS := blank != nil && setSrc.Call.Args[0] == blank
	var fsV ssa.Value
	for _, r := range *fileSrc.Referrers() {
		if e, ok := r.(*ssa.Extract); ok && e.Index == 0 {
			fsV = e
		}
	}
	c.check(okSS && setSrc.Call.Args[2] == fsV, "watch-forwarding", relName(main)+"#setsource", setSrc.Pos(), "blank.SetSource(ctx, fileSource result) on the Blank that was handed to Config", "SetSource is not called with the file source on the Blank given to Config")
	if doneDefer == nil {
		c.bad("watch-forwarding", relName(main)+"#done", main.Pos(), "blank.Done is never deferred: without file watching the monitor goroutine is leaked")
	} else {
		okD := false
		for _, ec := range condsDominating(doneDefer.Block()) {
			if _, ok := loadOfTypeField(ec.Cond, "ez.Params", "WatchConfigFile"); ok && !ec.Val {
				okD = true
			}
		}
		c.check(okD && doneDefer.Call.Args[0] == blank, "watch-forwarding", relName(main)+"#done", doneDefer.Pos(), "blank.Done deferred exactly when file watching is off", "blank.Done is not deferred under !WatchConfigFile on the Config Blank")
	}
	if fsF := staticCallee(fileSrc); fsF != nil {
		c.analysed(relName(fsF))
		var wsCall, nsCall *ssa.Call
		for _, i := range allInstrs(fsF) {
			if ci, ok := i.(*ssa.Call); ok {
				switch calleeFullName(ci) {
				case modPath + "/sources/file.NewWatchingSource":
					wsCall = ci
				case modPath + "/sources/file.NewSource":
					nsCall = ci
				}
			}
		}
		okW := false
		if wsCall != nil && nsCall != nil {
			wp := fsF.Params[2]
			for _, ec := range condsDominating(wsCall.Block()) {
				if ec.Cond == ssa.Value(wp) && ec.Val {
					okW = true
				}
			}
			for _, ec := range condsDominating(nsCall.Block()) {
				if ec.Cond == ssa.Value(wp) && ec.Val {
					okW = false
				}
			}
			// whatever form the selection takes (`switch watch { case false: ... }`, `if !watch`): as truth tables over the flag
			if !okW {
				pb := &predBuilder{name: func(v ssa.Value) string {
					if v == ssa.Value(wp) {
						return "watch"
					}
					return ""
				}}
				rw := compareTable(pb.pathCond(fsF.Blocks[0], wsCall.Block()), []string{"watch"}, nil, func(e env) bool { return e.B["watch"] })
				rn := compareTable(pb.pathCond(fsF.Blocks[0], nsCall.Block()), []string{"watch"}, nil, func(e env) bool { return !e.B["watch"] })
				okW = len(rw.Unknown) == 0 && rw.Mismatch == "" && len(rn.Unknown) == 0 && rn.Mismatch == ""
			}
		}
		c.check(okW, "watch-forwarding", relName(fsF), fsF.Pos(), "watching source exactly when watch is true", "fileSource does not pick the watching source exactly under its watch flag")
	}

	// ---- set-as-list -----------------------------------------------------------------------------------------
	okSet := false
	// (the list may be built by a helper of the ez package that main calls)
	setFns := []*ssa.Function{main}
	for _, i := range allInstrs(main) {
		if ci, ok := i.(*ssa.Call); ok {
			if h := staticCallee(ci); h != nil && len(h.Blocks) > 0 && c.W.pkgRelOfFn(h) == "ez" && h != main {
				setFns = append(setFns, h)
			}
		}
	}
	var setInstrs []ssa.Instruction
	for _, sf := range setFns {
		setInstrs = append(setInstrs, allInstrs(sf)...)
	}
	for _, i := range setInstrs {
		ci, ok := i.(*ssa.Call)
		if !ok || calleeFullName(ci) != "builtin.append" {
			continue
		}
		els, ok := sliceElems(ci.Call.Args[1], 0)
		if !ok || len(els) != 1 || namedTypeName(stripConv(els[0].V).Type()) != "transform.SetSliceMangler" {
			continue
		}
		for _, ec := range condsDominating(ci.Block()) {
			if _, ok := loadOfTypeField(ec.Cond, "ez.Params", "DisableAutoSetToSlice"); ok && !ec.Val {
				okSet = true
			}
		}
	}
	c.check(okSet, "set-as-list", relName(main), main.Pos(), "SetSliceMangler appended exactly when !DisableAutoSetToSlice", "the set-to-slice mangler is not appended under !DisableAutoSetToSlice")

	if k := loadCore(c); k.ok {
		c04InitialVerifyGuardOnly(c, k, "no-early-verify")
		c05ComposeFresh(c, k, "defaults-pristine")
		c05SerialEventOnly(c, k, "event-old-is-predecessor")
	}
	c12VisitClosures(c)
	c12NameRecorded(c, "flag-name-recorded")
	c.rule("file-manglers-per-call", "the mangler list wrapped around the config file's decoder is built by the call that uses it (no package-level base slice whose spare capacity later calls write into)", 1)
	c18FileManglersPerCall(c, "file-manglers-per-call")
	// the file layer of ez: its decoder's chain starts with the alias mangler (a file key written under the alias in
	// the file's casing is honoured, C14), and a watched file's later changes are noticed under the path the config
	// resolves to now (C17)
	c.rule("alias-first", "(shared with C14) in the ez file decoder's chain the alias mangler is the first, unconditional element: the alias copy is made before the file's field-name re-casing, so an alias written in the file's casing sets its leaf", 1)
	for _, cs := range aliasChains(c) {
		if cs.name != "ez" {
			continue
		}
		idx := -1
		for i, e := range cs.chain {
			if e.Type == "transform.AliasMangler" {
				idx = i
			}
		}
		c.check(idx == 0 && !cs.chain[0].Conditional, "alias-first", cs.name, cs.pos, "chain: "+chainString(cs.chain), "alias mangler is not the first unconditional element: "+chainString(cs.chain))
	}
	c.rule("filter-current-path", "(shared with C17) the file-event filter of the watching file source compares an event's name with the config path as last re-resolved by the loop: later changes of a watched config file are re-stacked after its symlink moved", 1)
	if loop := c.W.fn("sources/file", "WatchingSource.watchLoop"); c.need(loop != nil, "sources/file.WatchingSource.watchLoop") {
		c17FilterCurrentPath(c, loop, "filter-current-path")
	}
	c13Body(c)
	c18ParamsReachDecoder(c)

	// ---- format-table -------------------------------------------------------------------------------------------
	c18FormatTable(c)
	// nil decoder is an error
	okNilDec := false
	for _, r := range returnsOf(main) {
		rv := retVals(r)
		if isNilConst(rv[0]) && !isNilConst(rv[1]) {
			for _, ec := range condsDominating(r.Block()) {
				if nv, nilWhenTrue, ok := nilCheckOf(ec.Cond); ok && nilWhenTrue == ec.Val && namedTypeName(nv.Type()) == ".Decoder" {
					okNilDec = true
				}
			}
		}
	}
	c.check(okNilDec, "format-table", relName(main)+"#nil-decoder", main.Pos(), "a nil decoder (unknown extension) is an error", "a nil decoder is not turned into an error")
}

func c18FormatTable(c *Ctx) {
	w := c.W
	f := w.fn("ez", "DecoderFromExtensionWithParams")
	if !c.need(f != nil, "ez.DecoderFromExtensionWithParams") {
		return
	}
	c.analysed(relName(f))
	want := map[string]string{".yaml": "decoders/yaml.Decoder", ".yml": "decoders/yaml.Decoder", ".json": "decoders/json.Decoder", ".toml": "decoders/toml.Decoder", ".cue": "decoders/cue.Decoder"}
	pb := &predBuilder{}
	type ret struct {
		typ string
		g   formula
		r   *ssa.Return
	}
	var rets []ret
	for _, r := range returnsOf(f) {
		rv := retVals(r)[0]
		typ := "nil"
		if !isNilConst(rv) {
			typ = namedTypeName(stripConv(rv).Type())
		}
		rets = append(rets, ret{typ, pb.pathCond(f.Blocks[0], r.Block()), r})
	}
	// atoms: eq(strings.ToLower(ext), ".x")
	atoms := map[string]string{}
	for _, rt := range rets {
		fb, fi := map[string]bool{}, map[string]bool{}
		atomsOf(rt.g, fb, fi)
		for a := range fb {
			for ext := range want {
				if strings.HasSuffix(a, ",\""+ext+"\")") && strings.Contains(a, "strings.ToLower(") && strings.Contains(a, "filepath.Ext(") {
					atoms[ext] = a
				}
			}
		}
	}
	for _, ext := range sortedKeysS(want) {
		typ := want[ext]
		a, ok := atoms[ext]
		if !ok {
			c.bad("format-table", relName(f)+"#"+ext, f.Pos(), "extension %s is not recognised (case-insensitively, via filepath.Ext)", ext)
			continue
		}
		e := env{B: map[string]bool{a: true}, I: map[string]int64{}}
		got := ""
		for _, rt := range rets {
			if evalF(rt.g, e) {
				got = rt.typ
			}
		}
		c.check(got == typ, "format-table", relName(f)+"#"+ext, f.Pos(), ext+" -> "+typ, ext+" is mapped to "+got+", want "+typ)
	}
	// none matching -> nil
	e := env{B: map[string]bool{}, I: map[string]int64{}}
	got := ""
	for _, rt := range rets {
		if evalF(rt.g, e) {
			got = rt.typ
		}
	}
	c.check(got == "nil", "format-table", relName(f)+"#default", f.Pos(), "unknown extension -> nil decoder", "an unknown extension yields "+got)
}

func sortedKeysS(m map[string]string) []string {
	b := map[string]bool{}
	for k := range m {
		b[k] = true
	}
	return sortedKeys(b)
}

// c18ParamsOnly: the dials.Params literal of the ez funnel (shared with C09).
func c18ParamsOnly(c *Ctx, rule string) {
	w := c.W
	cfgFn := w.fn("", "Params.Config")
	for _, f := range w.funcsIn("ez") {
		for _, ci := range callsToFn(f, cfgFn) {
			call, ok := ci.(*ssa.Call)
			if !ok {
				continue
			}
			c.analysed(relName(f))
			var lit *ssa.Alloc
			if ld, ok := call.Call.Args[0].(*ssa.UnOp); ok && ld.Op == token.MUL {
				lit, _ = ld.X.(*ssa.Alloc)
			}
			if lit == nil {
				c.bad(rule, relName(f)+"#literal", call.Pos(), "the dials.Params receiver is not a literal built in this function")
				continue
			}
			for _, fld := range []string{"DelayInitialVerification", "CallGlobalCallbacksAfterVerificationEnabled"} {
				okT := false
				if cst, ok := litField(lit, fld).(*ssa.Const); ok && cst.Value != nil && cst.Value.ExactString() == "true" {
					okT = true
				}
				c.check(okT, rule, relName(f)+"#"+fld, lit.Pos(), "ez sets "+fld+" to the constant true", "ez does not set "+fld+" to the constant true: global callbacks can see the file-less intermediate config")
			}
		}
	}
}

// c18ParamsReachDecoder: functions of the ez package that receive a Params value must not go through the
// params-less decoder table / entry point: the decoder options in Params (FlattenAnonymousFields ...) would be
// dropped silently and the file layer of embedded-struct leaves disappears.
func c18ParamsReachDecoder(c *Ctx) {
	w := c.W
	less := map[*ssa.Function]bool{}
	for _, n := range []string{"DecoderFromExtension"} {
		if f := w.fn("ez", n); f != nil {
			less[origin(f)] = true
		}
	}
	if len(less) == 0 {
		c.undecided("params-reach-decoder", "ez", 0, "the params-less decoder table / entry point was not found")
		return
	}
	bad := 0
	n := 0
	for _, f := range w.funcsIn("ez") {
		if f.Parent() != nil {
			continue
		}
		hasParams := false
		for _, p := range f.Params {
			if strings.HasSuffix(namedTypeName(p.Type()), "ez.Params") {
				hasParams = true
			}
		}
		if !hasParams || less[origin(f)] {
			continue
		}
		n++
		for _, i := range allInstrs(f) {
			var ops []*ssa.Value
			ops = i.Operands(ops)
			for _, op := range ops {
				if op == nil || *op == nil {
					continue
				}
				if fn, ok := (*op).(*ssa.Function); ok && less[origin(fn)] {
					bad++
					c.bad("params-reach-decoder", relName(f), i.Pos(), "%s receives Params but selects the file decoder through %s, which ignores them: decoder options such as FlattenAnonymousFields are dropped", relName(f), relName(fn))
				}
			}
		}
	}
	if bad == 0 {
		c.ok("params-reach-decoder", "ez", 0, "none of the %d entry points that take Params goes through the params-less decoder table", n)
	}
}

// c18FileManglersPerCall: the mangler list wrapped around the file decoder is built by the call that uses it: every
// append that contributes to it starts from a slice made (or a literal, or nil) in the same function - after folding,
// the ez entry point itself. A package-level base slice with spare capacity is shared by all ez calls of the
// process: a later call overwrites the optional manglers of an earlier call's (still watching) decoder.
func c18FileManglersPerCall(c *Ctx, rule string) {
	w := c.W
	n := 0
	for _, f := range w.funcsIn("ez") {
		for _, i := range allInstrs(f) {
			ci, ok := i.(*ssa.Call)
			if !ok || calleeFullName(ci) != modPath+"/sourcewrap.NewTransformingDecoder" || len(ci.Call.Args) < 2 {
				continue
			}
			n++
			c.analysed(relName(f))
			bad := ""
			seen := map[ssa.Value]bool{}
			var walk func(v ssa.Value, depth int)
			walk = func(v ssa.Value, depth int) {
				if seen[v] || bad != "" {
					return
				}
				seen[v] = true
				if depth > 12 {
					bad = "the list's origin is too far away to follow"
					return
				}
				switch x := v.(type) {
				case *ssa.MakeSlice:
				case *ssa.Const:
					if !x.IsNil() {
						bad = "the list starts from " + canon(v)
					}
				case *ssa.Slice:
					if _, isAlloc := x.X.(*ssa.Alloc); !isAlloc {
						walk(x.X, depth+1) // re-slicing of a list
					}
				case *ssa.Phi:
					for _, e := range x.Edges {
						walk(e, depth+1)
					}
				case *ssa.Call:
					if calleeFullName(x) == "builtin.append" {
						walk(x.Call.Args[0], depth+1)
						return
					}
					// a helper of the package that builds and returns the list
					if h := staticCallee(x); h != nil && len(h.Blocks) > 0 && w.pkgRelOfFn(h) == "ez" {
						for _, r := range returnsOf(h) {
							walk(retVals(r)[0], depth+1)
						}
						return
					}
					bad = "the list is the result of " + calleeFullName(x)
				case *ssa.UnOp:
					if g, isG := x.X.(*ssa.Global); isG && x.Op == token.MUL {
						bad = "the list starts from the package-level variable " + g.Name() + ": its backing array is shared by every call, and an append within its capacity overwrites the elements an earlier call appended"
						return
					}
					bad = "the list starts from " + canon(v)
				default:
					bad = "the list starts from " + canon(v)
				}
			}
			walk(ci.Call.Args[1], 0)
			c.check(bad == "", rule, relName(f)+"#manglers", ci.Pos(), "the mangler list wrapped around the file decoder is built from a slice made in this call", "the mangler list wrapped around the file decoder is not built by this call: "+bad)
		}
	}
	if n == 0 {
		c.bad(rule, "ez", 0, "no NewTransformingDecoder call found in the ez package")
	}
}
